(* Shared byte-string infrastructure: bytes = list byte, hex decoding for case files,
   boolean equality with specs, prefix/suffix tests. *)
From Coq Require Export List Bool Arith NArith ZArith Lia.
From Coq Require Export Init.Byte.
From Coq Require Import Strings.Byte Strings.String Strings.Ascii.
Export ListNotations.

Definition bytes := list byte.

Definition beqb (a b : byte) : bool := Coq.Strings.Byte.eqb a b.

Lemma beqb_spec a b : reflect (a = b) (beqb a b).
Proof.
  unfold beqb. destruct (Coq.Strings.Byte.eqb a b) eqn:E.
  - constructor. now apply byte_dec_bl.
  - constructor. now apply eqb_false.
Qed.

Lemma beqb_refl a : beqb a a = true.
Proof. destruct (beqb_spec a a); congruence. Qed.

Lemma beqb_eq a b : beqb a b = true <-> a = b.
Proof. destruct (beqb_spec a b); split; congruence. Qed.

Lemma beqb_neq a b : beqb a b = false <-> a <> b.
Proof. destruct (beqb_spec a b); split; congruence. Qed.

Section ListEq.
  Context {A : Type} (eqb : A -> A -> bool).
  Hypothesis eqb_ok : forall a b, eqb a b = true <-> a = b.

  Fixpoint list_eqb (x y : list A) : bool :=
    match x, y with
    | [], [] => true
    | a :: x', b :: y' => eqb a b && list_eqb x' y'
    | _, _ => false
    end.

  Lemma list_eqb_eq x y : list_eqb x y = true <-> x = y.
  Proof.
    revert y; induction x as [|a x IH]; intros [|b y]; simpl; try (split; congruence).
    rewrite andb_true_iff, eqb_ok, IH. split; [intros [-> ->]; reflexivity|].
    intros H; inversion H; auto.
  Qed.

  Fixpoint is_prefix (p l : list A) : bool :=
    match p, l with
    | [], _ => true
    | a :: p', b :: l' => eqb a b && is_prefix p' l'
    | _ :: _, [] => false
    end.

  Lemma is_prefix_spec p l : is_prefix p l = true <-> exists r, l = p ++ r.
  Proof.
    revert l; induction p as [|a p IH]; intros l; simpl.
    - split; [eexists; reflexivity|auto].
    - destruct l as [|b l].
      + split; [discriminate|intros [r Hr]; discriminate].
      + rewrite andb_true_iff, eqb_ok, IH. split.
        * intros [-> [r ->]]. now exists r.
        * intros [r Hr]. inversion Hr; subst. split; [reflexivity|now exists r].
  Qed.
End ListEq.

Definition bytes_eqb : bytes -> bytes -> bool := list_eqb beqb.
Lemma bytes_eqb_eq x y : bytes_eqb x y = true <-> x = y.
Proof. apply list_eqb_eq, beqb_eq. Qed.
Lemma bytes_eqb_refl x : bytes_eqb x x = true.
Proof. now apply bytes_eqb_eq. Qed.

Definition lbytes_eqb : list bytes -> list bytes -> bool := list_eqb bytes_eqb.
Lemma lbytes_eqb_eq x y : lbytes_eqb x y = true <-> x = y.
Proof. apply list_eqb_eq, bytes_eqb_eq. Qed.

Definition bprefix : bytes -> bytes -> bool := is_prefix beqb.

(* byte-string literals:  B "select"  is the list of the literal's bytes *)
Inductive bstr := BStr (l : list byte).
Definition bstr_of (l : list byte) : bstr := BStr l.
Definition bstr_to (s : bstr) : list byte := match s with BStr l => l end.
Declare Scope bstr_scope.
Delimit Scope bstr_scope with bstr.
String Notation bstr bstr_of bstr_to : bstr_scope.
Definition B (s : bstr) : bytes := bstr_to s.
Arguments B _%bstr.

(* ---- hex decoding for case files (data only; not used in theorems) ---- *)
Definition byte_of_N (n : N) : byte :=
  match Coq.Strings.Byte.of_N n with Some b => b | None => x00 end.

Definition nib (c : byte) : N :=
  let n := Coq.Strings.Byte.to_N c in
  if (48 <=? n)%N && (n <=? 57)%N then (n - 48)%N
  else if (97 <=? n)%N && (n <=? 102)%N then (n - 87)%N
  else 0%N.

Fixpoint unhex_acc (s : list byte) (acc : bytes) : bytes :=
  match s with
  | a :: b :: rest => unhex_acc rest (byte_of_N (nib a * 16 + nib b)%N :: acc)
  | _ => acc
  end.

(* linear: accumulate reversed, reverse once with rev_append *)
Definition unhex (s : bstr) : bytes := rev_append (unhex_acc (bstr_to s) []) [].
Arguments unhex _%bstr.

(* repeated byte descriptor: Rep n b *)
Fixpoint brep (n : nat) (b : byte) (tail : bytes) : bytes :=
  match n with 0 => tail | S k => b :: brep k b tail end.

(* tail-recursive helpers for large data *)
Definition rev' {A} (l : list A) : list A := rev_append l [].
Definition app' {A} (l1 l2 : list A) : list A := rev_append (rev_append l1 []) l2.
Lemma rev'_rev {A} (l : list A) : rev' l = rev l.
Proof. unfold rev'. now rewrite rev_append_rev, app_nil_r. Qed.
Lemma app'_app {A} (l1 l2 : list A) : app' l1 l2 = l1 ++ l2.
Proof. unfold app'. now rewrite !rev_append_rev, app_nil_r, rev_involutive. Qed.

Definition nat_list_eqb : list nat -> list nat -> bool := list_eqb Nat.eqb.
Lemma nat_list_eqb_eq x y : nat_list_eqb x y = true <-> x = y.
Proof. apply list_eqb_eq, Nat.eqb_eq. Qed.

(* indices of false entries, for mismatch reporting *)
Fixpoint false_idx_from (i : nat) (l : list bool) : list nat :=
  match l with
  | [] => []
  | b :: r => if b then false_idx_from (S i) r else i :: false_idx_from (S i) r
  end.
Definition mismatches (l : list bool) : list nat := false_idx_from 0 l.
