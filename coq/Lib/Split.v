(* strings.Split / strings.Join / strings.SplitN(_,_,2) over bytes, with the lemmas the codec
   proofs need. *)
From DT Require Import Lib.Bytes.

(* strings.Split(s, sep) for a one-byte separator: always at least one element *)
Fixpoint split_on (sep : byte) (cur : bytes) (s : bytes) : list bytes :=
  match s with
  | [] => [rev' cur]
  | c :: r => if beqb c sep then rev' cur :: split_on sep [] r else split_on sep (c :: cur) r
  end.
Definition split (sep : byte) (s : bytes) : list bytes := split_on sep [] s.

Fixpoint join_with (sep : byte) (l : list bytes) : bytes :=
  match l with
  | [] => []
  | [x] => x
  | x :: r => x ++ sep :: join_with sep r
  end.

(* strings.SplitN(s, sep, 2): cut at the first separator; None = no separator (one element) *)
Fixpoint splitn2_acc (sep : byte) (cur : bytes) (s : bytes) : option (bytes * bytes) :=
  match s with
  | [] => None
  | c :: r => if beqb c sep then Some (rev' cur, r) else splitn2_acc sep (c :: cur) r
  end.
Definition splitn2 (sep : byte) (s : bytes) : option (bytes * bytes) := splitn2_acc sep [] s.

Lemma split_on_join sep cur s : join_with sep (split_on sep cur s) = rev cur ++ s.
Proof.
  revert cur; induction s as [|c s IH]; intros cur; simpl.
  - now rewrite rev'_rev, app_nil_r.
  - destruct (beqb_spec c sep) as [->|Hn].
    + specialize (IH []). simpl in IH.
      destruct (split_on sep [] s) as [|p ps] eqn:E.
      * destruct s; simpl in E; [discriminate|destruct (beqb _ _); discriminate].
      * cbn [join_with]. rewrite rev'_rev. cbn [join_with] in IH. rewrite IH. reflexivity.
    + rewrite IH. simpl. now rewrite <- app_assoc.
Qed.

Lemma join_split sep s : join_with sep (split sep s) = s.
Proof. apply (split_on_join sep [] s). Qed.

Lemma split_on_no_sep sep cur s :
  ~ In sep cur -> Forall (fun e => ~ In sep e) (split_on sep cur s).
Proof.
  revert cur; induction s as [|c s IH]; intros cur Hc; simpl.
  - constructor; [|constructor]. rewrite rev'_rev, <- in_rev. exact Hc.
  - destruct (beqb_spec c sep) as [->|Hn].
    + constructor; [rewrite rev'_rev, <- in_rev; exact Hc|]. apply IH. simpl; tauto.
    + apply IH. simpl. intros [H|H]; [congruence|contradiction].
Qed.

Lemma split_on_plain sep : forall a cur, ~ In sep a -> split_on sep cur a = [rev cur ++ a].
Proof.
  induction a as [|c a IH]; intros cur H; simpl.
  - now rewrite rev'_rev, app_nil_r.
  - destruct (beqb_spec c sep) as [->|Hn]; [exfalso; apply H; simpl; auto|].
    rewrite IH; [simpl; now rewrite <- app_assoc|]. intros Hin; apply H; simpl; auto.
Qed.

Lemma split_on_app_sep sep : forall a cur rest, ~ In sep a ->
  split_on sep cur (a ++ sep :: rest) = (rev cur ++ a) :: split_on sep [] rest.
Proof.
  induction a as [|c a IH]; intros cur rest H; simpl.
  - rewrite beqb_refl. now rewrite rev'_rev, app_nil_r.
  - destruct (beqb_spec c sep) as [->|Hn]; [exfalso; apply H; simpl; auto|].
    rewrite IH; [simpl; now rewrite <- app_assoc|]. intros Hin; apply H; simpl; auto.
Qed.

Lemma split_app_sep sep a rest : ~ In sep a -> split sep (a ++ sep :: rest) = a :: split sep rest.
Proof. intros H. unfold split. now rewrite split_on_app_sep. Qed.

Lemma split_plain sep a : ~ In sep a -> split sep a = [a].
Proof. intros H. unfold split. now rewrite split_on_plain. Qed.

(* split . join = id on separator-free parts (non-empty list) *)
Lemma split_join sep : forall parts, parts <> [] -> Forall (fun e => ~ In sep e) parts ->
  split sep (join_with sep parts) = parts.
Proof.
  induction parts as [|p ps IH]; intros Hne Hf; [congruence|].
  inversion Hf as [|? ? Hp Hps]; subst. destruct ps as [|q qs].
  - simpl. now apply split_plain.
  - cbn [join_with]. rewrite split_app_sep by assumption. f_equal. apply IH; [discriminate|assumption].
Qed.

Lemma splitn2_acc_app sep : forall a cur rest, ~ In sep a ->
  splitn2_acc sep cur (a ++ sep :: rest) = Some (rev cur ++ a, rest).
Proof.
  induction a as [|c a IH]; intros cur rest H; simpl.
  - rewrite beqb_refl. now rewrite rev'_rev, app_nil_r.
  - destruct (beqb_spec c sep) as [->|Hn]; [exfalso; apply H; simpl; auto|].
    rewrite IH; [simpl; now rewrite <- app_assoc|]. intros Hin; apply H; simpl; auto.
Qed.

Lemma splitn2_app sep a rest : ~ In sep a -> splitn2 sep (a ++ sep :: rest) = Some (a, rest).
Proof. intros H. unfold splitn2. now rewrite splitn2_acc_app. Qed.

Lemma splitn2_acc_none sep : forall a cur, ~ In sep a -> splitn2_acc sep cur a = None.
Proof.
  induction a as [|c a IH]; intros cur H; simpl; [reflexivity|].
  destruct (beqb_spec c sep) as [->|Hn]; [exfalso; apply H; simpl; auto|].
  apply IH. intros Hin; apply H; simpl; auto.
Qed.

Lemma splitn2_none sep a : ~ In sep a -> splitn2 sep a = None.
Proof. apply splitn2_acc_none. Qed.

Lemma split_on_nonempty sep : forall s cur, 1 <= length (split_on sep cur s).
Proof.
  induction s as [|c s IH]; intros cur; simpl; [lia|].
  destruct (beqb c sep); simpl; [lia|apply IH].
Qed.
Lemma split_nonempty sep s : 1 <= length (split sep s).
Proof. apply split_on_nonempty. Qed.
