(* C01 — dcat --plain pipeline: file bytes -> reader (line splitting, MaxLineLength) -> one frame
   per line on the wire -> transport (arbitrary re-chunking) -> client splitter -> hidden-message
   rule -> stdout.  Executable definitions only.
   Code: internal/io/fs/readfile.go (read, handleReadByte, handleReadError),
         internal/server/handlers/basehandler.go (Read), internal/clients/handlers/basehandler.go
         (Write, handleMessage). *)
From DT Require Import Lib.Bytes Gen.Consts.

Section Generic.
  Context {A : Type} (eqb : A -> A -> bool).
  Variables (nl delim dot : A).

  (* --- server-side reader: [cur] is the message buffer, most recent byte first --- *)
  (* [k] counts down the room left in the message buffer: k = MaxLineLength - message.Len();
     the Go test "message.Len() >= MaxLineLength" after appending a byte is "k <= 1" before it.
     (A countdown keeps evaluation linear; an upward count compared with maxlen is quadratic.) *)
  Fixpoint reader (maxlen : nat) (cur : list A) (k : nat) (s : list A) : list (list A) :=
    match s with
    | [] => match cur with [] => [] | _ => [rev' cur] end          (* EOF: non-empty remainder *)
    | c :: r =>
      if eqb c nl then rev' (c :: cur) :: reader maxlen [] maxlen r
      else
        match k with
        | 0 | 1 => rev' (nl :: c :: cur) :: reader maxlen [] maxlen r   (* long line split *)
        | S k' => reader maxlen (c :: cur) k' r
        end
    end.

  (* --- plain-mode frame: content followed by the message delimiter --- *)
  Definition frame (l : list A) : list A := l ++ [delim].
  Definition frames (ls : list (list A)) : list A := flat_map frame ls.

  (* --- client splitter (Write): state = receive buffer, most recent first --- *)
  Fixpoint cli_feed (buf : list A) (chunk : list A) : list A * list (list A) :=
    match chunk with
    | [] => (buf, [])
    | c :: r =>
      if eqb c nl then let '(b, ms) := cli_feed [] r in (b, rev' (c :: buf) :: ms)
      else if eqb c delim then let '(b, ms) := cli_feed [] r in (b, rev' buf :: ms)
      else cli_feed (c :: buf) r
    end.

  Fixpoint cli_feed_chunks (buf : list A) (chunks : list (list A)) : list A * list (list A) :=
    match chunks with
    | [] => (buf, [])
    | ch :: rest =>
      let '(b1, m1) := cli_feed buf ch in
      let '(b2, m2) := cli_feed_chunks b1 rest in (b2, m1 ++ m2)
    end.

  (* --- handleMessage: messages starting with '.' are hidden, everything else is printed --- *)
  Definition hidden (m : list A) : bool := match m with c :: _ => eqb c dot | [] => false end.
  Definition printed (ms : list (list A)) : list A := concat (filter (fun m => negb (hidden m)) ms).

  (* --- the whole pipeline --- *)
  Definition wire (maxlen : nat) (content : list A) : list A := frames (reader maxlen [] maxlen content).

  (* [cuts] re-chunks the wire stream: the transport may deliver it in any pieces *)
  Fixpoint chunk_by (cuts : list nat) (s : list A) : list (list A) :=
    match cuts with
    | [] => [s]
    | n :: r => firstn n s :: chunk_by r (skipn n s)
    end.

  Definition dcat (maxlen : nat) (cuts : list nat) (content : list A) : list A :=
    printed (snd (cli_feed_chunks [] (chunk_by cuts (wire maxlen content)))).

  (* --- specification: a newline after every run of maxlen consecutive non-newline bytes --- *)
  Fixpoint insert_nl (maxlen : nat) (k : nat) (s : list A) : list A :=
    match s with
    | [] => []
    | c :: r =>
      if eqb c nl then c :: insert_nl maxlen maxlen r
      else match k with
           | 0 | 1 => c :: nl :: insert_nl maxlen maxlen r
           | S k' => c :: insert_nl maxlen k' r
           end
    end.

  (* the guard the faithful model forces: no delimiter byte in the output text and no '.' at the
     start of an output line (known findings content_has_byte_0xAC / plain_line_starts_with_dot) *)
  Fixpoint plain_safe (at_start : bool) (s : list A) : bool :=
    match s with
    | [] => true
    | c :: r => negb (eqb c delim) && negb (at_start && eqb c dot) && plain_safe (eqb c nl) r
    end.
End Generic.

(* ---- instantiation at bytes with the delimiter the Go source declares ---- *)
Definition delim_byte : byte := byte_of_N (Z.to_N c_message_delimiter).
Definition nl_byte : byte := x0a.
Definition dot_byte : byte := x2e.

Definition dcat_bytes (maxlen : nat) (cuts : list nat) (content : bytes) : bytes :=
  dcat beqb nl_byte delim_byte dot_byte maxlen cuts content.
Definition spec_bytes (maxlen : nat) (content : bytes) : bytes := insert_nl beqb nl_byte maxlen maxlen content.
Definition guard_bytes (maxlen : nat) (content : bytes) : bool :=
  plain_safe beqb nl_byte delim_byte dot_byte true (spec_bytes maxlen content).

(* file-name rule for transparent decompression: 0 plain, 1 gzip, 2 zstd *)
Definition has_suffix (suf name : bytes) : bool := bprefix (rev' suf) (rev' name).
Definition reader_kind (name : bytes) : nat :=
  if has_suffix (B".gz") name then 1
  else if has_suffix (B".gzip") name then 1
  else if has_suffix (B".zst") name then 2 else 0.

(* case runner: (maxlen, cuts, file name, decompressed content, observed stdout) *)
Definition cat_case := (nat * list nat * bytes * bytes * bytes)%type.
Definition cat_agree (c : cat_case) : bool :=
  let '(maxlen, cuts, name, content, observed) := c in
  bytes_eqb (dcat_bytes maxlen cuts content) observed.
(* property oracle evaluated on the implementation's output: equals the specification *)
Definition cat_oracle (c : cat_case) : bool :=
  let '(maxlen, cuts, name, content, observed) := c in
  bytes_eqb (spec_bytes maxlen content) observed.
Definition cat_guard (c : cat_case) : bool :=
  let '(maxlen, cuts, name, content, observed) := c in guard_bytes maxlen content.
