(* C01 / C02 / C06 — what the reader does when a read returns io.EOF (internal/io/fs/readfile.go:
   handleReadError, truncated).  The comparison operator of the truncation test is taken from the
   source on every run (Gen.Consts.c_truncated_cmp, extracted by harness/constgen from the AST of
   readFile.truncated).  Executable definitions only. *)
From DT Require Import Lib.Bytes Gen.Consts.

(* constgen's operator codes: 1 '>'  2 '>='  3 '<'  4 '<='  5 '=='  6 '!=' *)
Definition cmp_holds (op a b : Z) : bool :=
  if (op =? 1)%Z then (a >? b)%Z else if (op =? 2)%Z then (a >=? b)%Z else if (op =? 3)%Z then (a <? b)%Z
  else if (op =? 4)%Z then (a <=? b)%Z else if (op =? 5)%Z then (a =? b)%Z else negb (a =? b)%Z.

(* readFile.truncated: the offset of the open descriptor against the size of the file at the path;
   None = the seek / open failed, which counts as truncated *)
Definition truncated (offset size : option Z) : bool :=
  match offset, size with
  | Some o, Some s => cmp_holds c_truncated_cmp o s
  | _, _ => true
  end.

Inductive eof_result :=
| EofStop (deliver_rest : bool)     (* abortReading; was the pending unterminated line handed on? *)
| EofContinue.                      (* follow mode: keep polling *)

(* handleReadError for err = io.EOF.  tick: a token of periodicTruncateCheck is pending (first one 3 s
   after the reader started); cancelled: the context is done; pick_tick: which ready case the select
   takes when both are; follow = seekEOF (tail mode); pending: message.Len() > 0 *)
Definition at_eof (follow tick cancelled pick_tick pending : bool) (offset size : option Z) : eof_result :=
  let after_select :=
    if follow then EofContinue else EofStop pending in
  if tick && (negb cancelled || pick_tick) then
    if truncated offset size then EofStop false else after_select
  else if cancelled then EofStop false
  else after_select.
