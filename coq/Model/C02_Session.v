(* C02 — delivery of every selected line before the session closes.
   Labelled transition system of one cat/grep session: commands arrive, readers push their lines
   into the bounded [lines] queue, commands finish, the command counter returns to 0, shutdown()
   flushes and queues ".syn close connection", Read takes from any non-empty queue, the client
   stops at the .syn.  Every scheduling decision is an event chosen by the environment.
   Code: server/handlers/{basehandler.go (Read, flush, shutdown), serverhandler.go
   (handleUserCommand), readcommand.go}, io/fs/readfile.go, clients/handlers/basehandler.go. *)
From DT Require Import Lib.Bytes Gen.Consts.

(* a line is (command index, line index within that command's selected lines) *)
Definition lid := (nat * nat)%type.
Inductive frame := FLine (l : lid) | FSyn.

Record cfg := {
  sizes : list nat;          (* number of selected lines of each requested command / file *)
  qcap : nat;                (* capacity of the lines channel *)
  bounded_flush : bool;      (* true = the pinned code: flush() gives up after its retries *)
  late_commands : bool       (* true = a command may still arrive after the counter returned to 0 *)
}.

Record st := {
  recv : nat;                (* commands received so far (they arrive in order) *)
  pushed : nat -> nat;       (* lines command k's reader has put into the queue *)
  fin : nat -> bool;         (* command k has finished (counter decremented) *)
  active : nat;              (* the session's command counter *)
  zeroed : bool;             (* the counter has returned to 0 at least once: shutdown() was called *)
  pending : nat;             (* shutdown() instances still in flush() *)
  q : list lid;              (* lines channel *)
  sm : nat;                  (* .syn messages waiting in serverMessages *)
  stream : list frame        (* frames handed to the transport by Read, in order *)
}.

Definition init : st :=
  {| recv := 0; pushed := fun _ => 0; fin := fun _ => false; active := 0; zeroed := false;
     pending := 0; q := []; sm := 0; stream := [] |}.

Inductive ev :=
| RecvCmd                    (* the next command arrives and is counted *)
| Push (k : nat)             (* reader k puts its next line into the queue (blocks when full) *)
| CmdDone (k : nat)          (* reader k is at end of file; the command finishes *)
| FlushOk                    (* flush() sees all queues empty; the .syn is queued *)
| FlushGiveUp                (* flush() runs out of retries (bounded_flush only) *)
| ReadLine                   (* Read takes the head of the lines queue *)
| ReadMsg.                   (* Read takes the head of serverMessages *)

Definition upd {V} (f : nat -> V) (k : nat) (v : V) : nat -> V := fun x => if x =? k then v else f x.
Definition size_of (c : cfg) (k : nat) : nat := nth k (sizes c) 0.

Definition step (c : cfg) (s : st) (e : ev) : option st :=
  match e with
  | RecvCmd =>
    if (recv s <? length (sizes c)) && (late_commands c || negb (zeroed s)) then
      Some {| recv := S (recv s); pushed := pushed s; fin := fin s; active := S (active s); zeroed := zeroed s;
              pending := pending s; q := q s; sm := sm s; stream := stream s |}
    else None
  | Push k =>
    if (k <? recv s) && negb (fin s k) && (pushed s k <? size_of c k) && (length (q s) <? qcap c) then
      Some {| recv := recv s; pushed := upd (pushed s) k (S (pushed s k)); fin := fin s; active := active s;
              zeroed := zeroed s; pending := pending s; q := q s ++ [(k, pushed s k)]; sm := sm s; stream := stream s |}
    else None
  | CmdDone k =>
    if (k <? recv s) && negb (fin s k) && (pushed s k =? size_of c k) then
      let a := active s - 1 in
      Some {| recv := recv s; pushed := pushed s; fin := upd (fin s) k true; active := a;
              zeroed := zeroed s || (a =? 0); pending := if a =? 0 then S (pending s) else pending s;
              q := q s; sm := sm s; stream := stream s |}
    else None
  | FlushOk =>
    match pending s, q s, sm s with
    | S p, [], 0 =>
      Some {| recv := recv s; pushed := pushed s; fin := fin s; active := active s; zeroed := zeroed s;
              pending := p; q := []; sm := 1; stream := stream s |}
    | _, _, _ => None
    end
  | FlushGiveUp =>
    if bounded_flush c then
      match pending s with
      | S p => Some {| recv := recv s; pushed := pushed s; fin := fin s; active := active s; zeroed := zeroed s;
                       pending := p; q := q s; sm := S (sm s); stream := stream s |}
      | 0 => None
      end
    else None
  | ReadLine =>
    match q s with
    | l :: r => Some {| recv := recv s; pushed := pushed s; fin := fin s; active := active s; zeroed := zeroed s;
                        pending := pending s; q := r; sm := sm s; stream := stream s ++ [FLine l] |}
    | [] => None
    end
  | ReadMsg =>
    match sm s with
    | S r => Some {| recv := recv s; pushed := pushed s; fin := fin s; active := active s; zeroed := zeroed s;
                     pending := pending s; q := q s; sm := r; stream := stream s ++ [FSyn] |}
    | 0 => None
    end
  end.

Fixpoint run (c : cfg) (s : st) (es : list ev) : option st :=
  match es with
  | [] => Some s
  | e :: r => match step c s e with Some s' => run c s' r | None => None end
  end.

(* what the client prints: the lines that precede the first .syn in the stream *)
Fixpoint before_syn (fs : list frame) : list lid :=
  match fs with
  | [] => []
  | FSyn :: _ => []
  | FLine l :: r => l :: before_syn r
  end.
Fixpoint has_syn (fs : list frame) : bool :=
  match fs with [] => false | FSyn :: _ => true | FLine _ :: r => has_syn r end.
Definition of_cmd (k : nat) (l : lid) : bool := fst l =? k.
Definition lines_of (k n : nat) : list lid := map (pair k) (seq 0 n).

(* the property on a finished session: every line of every command, once, in order *)
Definition delivered_all (c : cfg) (s : st) : bool :=
  forallb (fun k => list_eqb (fun a b => (fst a =? fst b) && (snd a =? snd b))
                             (filter (of_cmd k) (before_syn (stream s))) (lines_of k (size_of c k)))
          (seq 0 (length (sizes c))).

(* ---- checking an observed run against the model (trace inclusion, executable) ----
   The harness reports, per command, the sequence of line numbers it saw before the .syn. The
   observation is explained by the model iff each such sequence is a prefix 0,1,2,.. of the
   command's lines (queue and reader order) - and, with the fixed flush and no late command,
   complete. *)
Definition is_prefix_seq (l : list nat) : bool := nat_list_eqb l (seq 0 (length l)).
Definition obs_case := (list nat * list (list nat) * bool * bool)%type.  (* sizes, per-command numbers, syn seen, late command *)
Definition session_agree (o : obs_case) : bool :=
  let '(szs, per_cmd, syn, late) := o in
  (length per_cmd =? length szs)
  && forallb is_prefix_seq per_cmd
  && forallb (fun p => length (fst p) <=? snd p) (combine per_cmd szs)
  && (negb syn || late || forallb (fun p => length (fst p) =? snd p) (combine per_cmd szs)).
