(* C03 — dgrep line selection with --before/--after/--max (internal/io/fs/readfilelcontext.go)
   and the no-op patterns of internal/regex/regex.go.  Executable definitions only.
   A file is abstracted to its list of "selected?" bits (regex verdict xor --invert, supplied by
   the RE2 oracle); lines are identified by their 0-based index. *)
From DT Require Import Lib.Bytes.

(* ---- the state machine, branch for branch ---- *)
Record gst := { maxc : nat; max_reached : bool; aft : nat; ring : list nat }.

Definition ginit (m : nat) : gst := {| maxc := m; max_reached := false; aft := 0; ring := [] |}.

(* beforeBuf: channel of capacity b; when full the oldest entry is dropped *)
Definition ring_push (b : nat) (r : list nat) (i : nat) : list nat :=
  if length r <? b then r ++ [i] else tl r ++ [i].

(* an emitted record: (running number the code attaches, index of the line) *)
Definition rec := (nat * nat)%type.

(* lContextProcessBefore: numbers are totalLineCount() - k, ..., totalLineCount() - 1 *)
Fixpoint flush_ring (count : nat) (r : list nat) : list rec :=
  match r with
  | [] => []
  | j :: r' => (count - length r, j) :: flush_ring count r'
  end.

(* one line; [i] is its 0-based index, so totalLineCount() = S i after updatePosition().
   Result: None = abortReading (the filter stops), Some st = keep going. *)
Definition gstep (b a m : nat) (st : gst) (i : nat) (sel : bool) : option gst * list rec :=
  if negb sel then
    (* lContextNotMatched *)
    if (0 <? a) && (0 <? aft st) then
      (Some {| maxc := maxc st; max_reached := max_reached st; aft := aft st - 1; ring := ring st |}, [(S i, i)])
    else if 0 <? b then
      (Some {| maxc := maxc st; max_reached := max_reached st; aft := aft st; ring := ring_push b (ring st) i |}, [])
    else (Some st, [])
  else
    if (0 <? a) && max_reached st then (None, [])
    else
      let aft1 := if 0 <? a then a else aft st in
      let out := (if 0 <? b then flush_ring (S i) (ring st) else []) ++ [(S i, i)] in
      let ring1 := if 0 <? b then [] else ring st in
      if 0 <? m then
        let mc := maxc st - 1 in
        if mc =? 0 then
          if negb (0 <? a) || (aft1 =? 0) then (None, out)
          else (Some {| maxc := mc; max_reached := true; aft := aft1; ring := ring1 |}, out)
        else (Some {| maxc := mc; max_reached := max_reached st; aft := aft1; ring := ring1 |}, out)
      else (Some {| maxc := maxc st; max_reached := max_reached st; aft := aft1; ring := ring1 |}, out).

Fixpoint grun (b a m : nat) (st : gst) (i : nat) (ms : list bool) : list rec :=
  match ms with
  | [] => []
  | s :: r =>
    match gstep b a m st i s with
    | (None, out) => out
    | (Some st', out) => out ++ grun b a m st' (S i) r
    end
  end.

(* filterWithoutLContext: no context option is positive *)
Fixpoint plain_run (i : nat) (ms : list bool) : list rec :=
  match ms with
  | [] => []
  | s :: r => if s then (S i, i) :: plain_run (S i) r else plain_run (S i) r
  end.

Definition has_ctx (b a m : nat) : bool := (0 <? b) || (0 <? a) || (0 <? m).

Definition grep_recs (b a m : nat) (ms : list bool) : list rec :=
  if has_ctx b a m then grun b a m (ginit m) 0 ms else plain_run 0 ms.

Definition grep_run (b a m : nat) (ms : list bool) : list nat := map snd (grep_recs b a m ms).

(* negative option values behave as 0 (every test in the code is "> 0") *)
Definition clamp (z : Z) : nat := Z.to_nat z.

(* ---- declarative specification (grep semantics) ---- *)
Definition sel (ms : list bool) (j : nat) : bool := nth j ms false.
Definition rank (ms : list bool) (j : nat) : nat := length (filter id (firstn j ms)).
Fixpoint prev_sel (ms : list bool) (j : nat) : option nat :=
  match j with 0 => None | S k => if sel ms k then Some k else prev_sel ms k end.
(* first selected index > j among the next [fuel] lines *)
Fixpoint next_sel_from (ms : list bool) (k fuel : nat) : option nat :=
  match fuel with 0 => None | S f => if sel ms k then Some k else next_sel_from ms (S k) f end.
Definition next_sel (ms : list bool) (j : nat) : option nat := next_sel_from ms (S j) (length ms - S j).
Definition within_max (m r : nat) : bool := (m =? 0) || (r <? m).

Definition emitted (b a m : nat) (ms : list bool) (j : nat) : bool :=
  if sel ms j then within_max m (rank ms j)
  else
    match prev_sel ms j with
    | Some p => within_max m (rank ms p) && (j - p <=? a) | None => false end
    || match next_sel ms j with
       | Some n => within_max m (rank ms n) && (n - j <=? b) | None => false end.

Definition grep_spec (b a m : nat) (ms : list bool) : list nat :=
  filter (emitted b a m ms) (seq 0 (length ms)).

(* ---- regex.New: the documented no-op patterns ignore the flag ---- *)
Definition is_noop_pattern (p : bytes) : bool :=
  bytes_eqb p [] || bytes_eqb p (B".") || bytes_eqb p (B".*").
(* selection bit of a line under pattern p: [m] is RE2's verdict for (p, line) *)
Definition selected (p : bytes) (invert : bool) (m : bool) : bool :=
  if is_noop_pattern p then true else xorb invert m.

(* ---- case runner ---- *)
Definition grep_case := (Z * Z * Z * bytes * bool * list bool * list nat * list nat)%type.
(* before, after, max, pattern, invert, RE2 verdict per line, observed indices, observed numbers *)
Definition grep_model (c : grep_case) : list rec :=
  let '(b, a, m, p, inv, verdicts, _, _) := c in
  grep_recs (clamp b) (clamp a) (clamp m) (map (selected p inv) verdicts).
Definition grep_agree (c : grep_case) : bool :=
  let '(_, _, _, _, _, _, oidx, onum) := c in
  let r := grep_model c in
  nat_list_eqb (map snd r) oidx && nat_list_eqb (map fst r) onum.
Definition grep_oracle (c : grep_case) : bool :=
  let '(b, a, m, p, inv, verdicts, oidx, onum) := c in
  nat_list_eqb (grep_spec (clamp b) (clamp a) (clamp m) (map (selected p inv) verdicts)) oidx
  && nat_list_eqb (map S oidx) onum.
