(* C04 — following a file: writer appends in arbitrary chunks, the tail reader (opened at the end
   of the file) reads what is there in arbitrary pieces, keeps the partial line across EOF, hands
   complete raw lines to the filter; the filter numbers every raw line, skips a matching line only
   when the delivery queue is full and keeps the matched/transmitted window of the last
   [ring] lines from which the transmitted percentage is computed (in float64, as the Go code).
   Executable definitions only.
   Code: internal/io/fs/readfile.go (makeFileReader, read, handleReadError, handleReadByte,
         transmittable), internal/io/fs/readfilelcontext.go (filterWithoutLContext),
         internal/io/fs/stats.go, internal/io/fs/tailfile.go. *)
From Coq Require Import Floats Uint63.
From DT Require Import Lib.Bytes Lib.Split Gen.Consts.

(* ---------- 1. the splitter with the partial line carried across reads ---------- *)
(* [cur]: message buffer, most recent byte first; [k] = MaxLineLength - message.Len() (countdown,
   as in Model/C01_Cat.reader).  At the end of the available bytes nothing is emitted. *)
Fixpoint tfeed (maxlen : nat) (cur : bytes) (k : nat) (s : bytes) : (bytes * nat) * list bytes :=
  match s with
  | [] => ((cur, k), [])
  | c :: r =>
    if beqb c x0a then let '(st, out) := tfeed maxlen [] maxlen r in (st, rev' (c :: cur) :: out)
    else match k with
         | 0 | 1 => let '(st, out) := tfeed maxlen [] maxlen r in (st, rev' (x0a :: c :: cur) :: out)
         | S k' => tfeed maxlen (c :: cur) k' r
         end
  end.

(* the raw lines of a byte string read in one piece, and the partial line left over *)
Definition raw_lines (maxlen : nat) (s : bytes) : list bytes := snd (tfeed maxlen [] maxlen s).
Definition partial_line (maxlen : nat) (s : bytes) : bytes := rev' (fst (fst (tfeed maxlen [] maxlen s))).

(* declarative reading when no line reaches MaxLineLength: the '\n'-terminated pieces *)
Definition complete_lines (s : bytes) : list bytes := map (fun l => l ++ [x0a]) (removelast (split x0a s)).
Definition short_lines (maxlen : nat) (s : bytes) : bool :=
  forallb (fun l => Nat.ltb (length l) maxlen) (split x0a s).

(* ---------- 2. file + reader ---------- *)
Record rst := { f_file : bytes; f_off : nat; f_cur : bytes; f_k : nat; f_raw : list bytes }.

Inductive rev_t := RWrite (c : bytes) | RRead (n : nat).

Definition rinit (maxlen : nat) (pre : bytes) : rst :=
  {| f_file := pre; f_off := length pre; f_cur := []; f_k := maxlen; f_raw := [] |}.

Definition rstep (maxlen : nat) (s : rst) (e : rev_t) : rst :=
  match e with
  | RWrite c => {| f_file := f_file s ++ c; f_off := f_off s; f_cur := f_cur s; f_k := f_k s; f_raw := f_raw s |}
  | RRead n =>
    let data := firstn n (skipn (f_off s) (f_file s)) in
    let '((cur, k), out) := tfeed maxlen (f_cur s) (f_k s) data in
    {| f_file := f_file s; f_off := f_off s + length data; f_cur := cur; f_k := k; f_raw := f_raw s ++ out |}
  end.

Definition rrun (maxlen : nat) (s : rst) (es : list rev_t) : rst := fold_left (rstep maxlen) es s.

Fixpoint written (es : list rev_t) : bytes :=
  match es with
  | [] => []
  | RWrite c :: r => c ++ written r
  | RRead _ :: r => written r
  end.

(* ---------- 3. statistics window and the transmitted percentage ---------- *)
Definition ring : nat := Z.to_nat c_stats_ring_matched.

Definition fz (n : nat) : float := PrimFloat.of_uint63 (Uint63.of_Z (Z.of_nat n)).
(* Go's int(x) for 0 <= x <= 100: the number of k in 1..100 with k <= x *)
Definition trunc100 (x : float) : nat :=
  length (filter (fun k => PrimFloat.leb (fz k) x) (seq 1 100)).
(* percentOf(total = matchCount, value = transmitCount), evaluated in binary64 like the Go code *)
Definition perc (m t : nat) : nat :=
  if (m =? 0) || (m =? t) then 100 else trunc100 (PrimFloat.div (fz t) (PrimFloat.div (fz m) (fz 100))).

Definition cnt (f : bool * bool -> bool) (w : list (bool * bool)) : nat := length (filter f w).

(* window: (matched, transmitted) of the most recent lines, newest first, at most [ring] entries
   (the Go ring buffer with its slots initially false) *)
Record fstate := { s_count : N; s_win : list (bool * bool) }.
Definition finit : fstate := {| s_count := 0%N; s_win := [] |}.

Definition wflag (e : bool * bool) : bool * bool := (fst e, fst e && negb (snd e)).

(* one raw line through updatePosition + transmittable; [e] = (matched, queue full) *)
Definition fstep (s : fstate) (e : bool * bool) : fstate * option (N * nat) :=
  let n := N.succ (s_count s) in
  let w := firstn ring (wflag e :: s_win s) in
  ({| s_count := n; s_win := w |},
   if snd (wflag e) then Some (n, perc (cnt fst w) (cnt snd w)) else None).

Fixpoint frun (s : fstate) (es : list (bool * bool)) : list (option (N * nat)) :=
  match es with
  | [] => []
  | e :: r => let '(s', o) := fstep s e in o :: frun s' r
  end.

(* ---------- 4. the session: writer, reader, filter, queue, consumer ---------- *)
Record line := { l_text : bytes; l_count : N; l_perc : nat }.

Record tst := {
  t_r : rst;
  t_s : fstate;
  t_hist : list (bytes * (bool * bool));   (* raw lines filtered so far with (matched, full) *)
  t_queue : list line;                     (* the lines channel, oldest first *)
  t_got : list line                        (* received by the consumer *)
}.

Inductive tev := TWrite (c : bytes) | TRead (n : nat) | TFilter | TConsume.

Definition chomp (l : bytes) : bytes :=
  match rev' l with
  | c :: r => if beqb c x0a then rev' r else l
  | [] => l
  end.

Section Session.
  Variable matches : bytes -> bool.    (* the filter regex on a line without its newline (RE2 oracle) *)
  Variables maxlen cap : nat.

  Definition tinit (pre : bytes) : tst :=
    {| t_r := rinit maxlen pre; t_s := finit; t_hist := []; t_queue := []; t_got := [] |}.

  Definition with_r (s : tst) (r : rst) : tst :=
    {| t_r := r; t_s := t_s s; t_hist := t_hist s; t_queue := t_queue s; t_got := t_got s |}.

  Definition tstep (s : tst) (e : tev) : tst :=
    match e with
    | TWrite c => with_r s (rstep maxlen (t_r s) (RWrite c))
    | TRead n => with_r s (rstep maxlen (t_r s) (RRead n))
    | TFilter =>
      match f_raw (t_r s) with
      | [] => s
      | l :: rest =>
        let r := t_r s in
        let fl := (matches (chomp l), Nat.leb cap (length (t_queue s))) in
        let '(s', o) := fstep (t_s s) fl in
        {| t_r := {| f_file := f_file r; f_off := f_off r; f_cur := f_cur r; f_k := f_k r; f_raw := rest |};
           t_s := s'; t_hist := t_hist s ++ [(l, fl)];
           t_queue := t_queue s ++ match o with
                                   | Some (n, p) => [{| l_text := l; l_count := n; l_perc := p |}]
                                   | None => []
                                   end;
           t_got := t_got s |}
      end
    | TConsume =>
      match t_queue s with
      | [] => s
      | l :: q => {| t_r := t_r s; t_s := t_s s; t_hist := t_hist s; t_queue := q; t_got := t_got s ++ [l] |}
      end
    end.

  Definition trun (s : tst) (es : list tev) : tst := fold_left tstep es s.

  Fixpoint twritten (es : list tev) : bytes :=
    match es with
    | [] => []
    | TWrite c :: r => c ++ twritten r
    | _ :: r => twritten r
    end.

  (* everything the filter accepted, in order *)
  Definition sent (s : tst) : list line := t_got s ++ t_queue s.
  (* all raw lines the reader has produced so far, in order *)
  Definition produced (s : tst) : list bytes := map fst (t_hist s) ++ f_raw (t_r s).

  (* the lines the statistics machine delivers for a filtered history *)
  Fixpoint zip_lines (ls : list bytes) (os : list (option (N * nat))) : list line :=
    match ls, os with
    | l :: lr, Some (n, p) :: or => {| l_text := l; l_count := n; l_perc := p |} :: zip_lines lr or
    | _ :: lr, None :: or => zip_lines lr or
    | _, _ => []
    end.
  Definition delivered_of (h : list (bytes * (bool * bool))) : list line :=
    zip_lines (map fst h) (frun finit (map snd h)).
End Session.

(* ---------- case runners for the correspondence check ---------- *)
(* scripted history: the harness waits for quiescence after every write (everything read, every raw
   line filtered), so one script event = a write followed by a full read and all filter steps, or
   a number of consumer receives.  [verd]: RE2 verdict (after the invert flag) per raw line, in
   order of production. *)
Inductive sev := SWrite (c : bytes) | SConsume (n : nat).

Definition lookup_matches (tbl : list (bytes * bool)) (l : bytes) : bool :=
  match find (fun e => bytes_eqb (fst e) l) tbl with Some e => snd e | None => false end.

Fixpoint quiesce (matches : bytes -> bool) (maxlen cap : nat) (fuel : nat) (s : tst) : tst :=
  match fuel with
  | 0 => s
  | S f => match f_raw (t_r s) with
           | [] => s
           | _ => quiesce matches maxlen cap f (tstep matches maxlen cap s TFilter)
           end
  end.

Definition sstep (matches : bytes -> bool) (maxlen cap : nat) (s : tst) (e : sev) : tst :=
  match e with
  | SWrite c =>
    let s1 := tstep matches maxlen cap s (TWrite c) in
    let s2 := tstep matches maxlen cap s1 (TRead (length (f_file (t_r s1)))) in
    quiesce matches maxlen cap (S (length (f_raw (t_r s2)))) s2
  | SConsume n => fold_left (fun st _ => tstep matches maxlen cap st TConsume) (seq 0 n) s
  end.

Definition line_obs := (bytes * Z * Z)%type.
Definition obs_of (l : line) : line_obs := (l_text l, Z.of_N (l_count l), Z.of_nat (l_perc l)).

(* (maxlen, cap, pre, verdict table, script) -> lines received by the consumer, then the lines
   still queued *)
Definition tail_case := (nat * nat * bytes * list (bytes * bool) * list sev)%type.
Definition tail_eval (c : tail_case) : list line_obs * list line_obs :=
  let '(maxlen, cap, pre, tbl, script) := c in
  let m := lookup_matches tbl in
  let s := fold_left (sstep m maxlen cap) script (tinit maxlen pre) in
  (map obs_of (t_got s), map obs_of (t_queue s)).

(* free-running sessions: which matching lines were dropped is read off the observation
   (trace inclusion); the model must then reproduce every delivered line's number and percentage *)
Definition free_eval (flags : list (bool * bool)) : list (option (Z * Z)) :=
  map (fun o => match o with Some (n, p) => Some (Z.of_N n, Z.of_nat p) | None => None end) (frun finit flags).

(* the whole percentage table, compared with the Go function on every pair *)
Definition perc_table (n : nat) : list (list Z) :=
  map (fun m => map (fun t => Z.of_nat (perc m t)) (seq 0 (S n))) (seq 0 (S n)).

(* ---------- agreement predicates evaluated by the correspondence check ---------- *)
Definition obs_eqb (a b : line_obs) : bool :=
  let '(t1, n1, p1) := a in let '(t2, n2, p2) := b in bytes_eqb t1 t2 && Z.eqb n1 n2 && Z.eqb p1 p2.
Definition lobs_eqb : list line_obs -> list line_obs -> bool := list_eqb obs_eqb.

Definition tail_obs_case := (tail_case * (list line_obs * list line_obs))%type.
Definition tail_agree (c : tail_obs_case) : bool :=
  let '(tc, (g, q)) := c in
  let '(mg, mq) := tail_eval tc in lobs_eqb mg g && lobs_eqb mq q.

Definition ozz_eqb (a b : option (Z * Z)) : bool :=
  match a, b with
  | Some (n1, p1), Some (n2, p2) => Z.eqb n1 n2 && Z.eqb p1 p2
  | None, None => true
  | _, _ => false
  end.
Definition free_case := (list (bool * bool) * list (option (Z * Z)))%type.
Definition free_agree (c : free_case) : bool :=
  let '(flags, observed) := c in list_eqb ozz_eqb (free_eval flags) observed.

(* row m of the Go table holds t = 0..m *)
Definition perc_rows (n : nat) : list (list Z) :=
  map (fun m => map (fun t => Z.of_nat (perc m t)) (seq 0 (S m))) (seq 0 (S n)).
Definition perc_agree (c : nat * list (list Z)) : bool :=
  let '(n, tbl) := c in list_eqb (list_eqb Z.eqb) (perc_rows n) tbl.
