(* C05 — the mapreduce aggregation algebra: server-side aggregation of field sets
   (internal/mapr/server/aggregate.go: aggregate; aggregateset.go: Aggregate), the wire message,
   client-side re-aggregation (internal/mapr/client/aggregate.go; Aggregate with
   clientAggregation) and the merge into the global group (AggregateSet.Merge,
   GlobalGroupSet.merge), and the result cells (groupset.go: resultSelect).
   Executable definitions only.
   A log line, after MakeFields / where / set (line-local, evaluated by the correspondence
   check's reference implementation), is a RECORD: its group key and, per select column, the
   field value if the line has that field.  Numbers are exact: a value carries the integer
   number of thousandths strconv.ParseFloat would read (None = not numeric) - the generated
   tables stay on that grid, where float64 sums are exact. *)
From DT Require Import Lib.Bytes.

Inductive aop := OCount | OSum | OMin | OMax | OLast | OAvg | OLen.
Record value := { v_raw : bytes; v_num : option Z }.
Definition record := (bytes * list (option value))%type.     (* group key; per column: field present? *)

(* one storage key of an AggregateSet: FValues entry and SValues entry *)
Record cell := { c_f : option Z; c_s : option bytes }.
Definition cell0 : cell := {| c_f := None; c_s := None |}.
Record aset := { a_samples : nat; a_cells : list cell }.

Definition add_f (c : cell) (x : Z) : cell :=
  {| c_f := Some (match c_f c with Some y => y + x | None => x end)%Z; c_s := c_s c |}.
Definition min_f (c : cell) (x : Z) : cell :=
  {| c_f := Some (match c_f c with Some y => Z.min y x | None => x end); c_s := c_s c |}.
Definition max_f (c : cell) (x : Z) : cell :=
  {| c_f := Some (match c_f c with Some y => Z.max y x | None => x end); c_s := c_s c |}.

(* AggregateSet.Aggregate(key, op, value, clientAggregation=false): None = error (value not
   numeric for a numeric operation): the column does not count as a sample *)
Definition agg1 (op : aop) (c : cell) (v : value) : option cell :=
  match op with
  | OCount => Some (add_f c 1000)                         (* counts are kept in thousandths too *)
  | OLast => Some {| c_f := c_f c; c_s := Some (v_raw v) |}
  | OLen => Some {| c_f := Some (Z.of_nat (length (v_raw v)) * 1000)%Z; c_s := Some (v_raw v) |}
  | OSum | OAvg => option_map (add_f c) (v_num v)
  | OMin => option_map (min_f c) (v_num v)
  | OMax => option_map (max_f c) (v_num v)
  end.

(* server.Aggregate.aggregate for one record: per column, then Samples++ if any succeeded *)
Fixpoint agg_cols (ops : list aop) (cells : list cell) (vals : list (option value)) : list cell * bool :=
  match ops, cells, vals with
  | op :: ops', c :: cells', v :: vals' =>
    let '(rest, any) := agg_cols ops' cells' vals' in
    match v with
    | Some x => match agg1 op c x with Some c' => (c' :: rest, true) | None => (c :: rest, any) end
    | None => (c :: rest, any)
    end
  | _, _, _ => (cells, false)
  end.
Definition agg_record (ops : list aop) (s : aset) (vals : list (option value)) : aset :=
  let '(cells, any) := agg_cols ops (a_cells s) vals in
  {| a_samples := if any then S (a_samples s) else a_samples s; a_cells := cells |}.
Definition aset0 (ops : list aop) : aset := {| a_samples := 0; a_cells := map (fun _ => cell0) ops |}.

(* group sets: association list group key -> aset *)
Definition gset := list (bytes * aset).
Fixpoint gget (g : gset) (k : bytes) : option aset :=
  match g with [] => None | (k', s) :: r => if bytes_eqb k k' then Some s else gget r k end.
Fixpoint gput (g : gset) (k : bytes) (s : aset) : gset :=
  match g with
  | [] => [(k, s)]
  | (k', s') :: r => if bytes_eqb k k' then (k, s) :: r else (k', s') :: gput r k s
  end.
Definition server_aggregate (ops : list aop) (recs : list record) : gset :=
  fold_left (fun g (r : record) =>
               let s := match gget g (fst r) with Some s => s | None => aset0 ops end in
               gput g (fst r) (agg_record ops s (snd r))) recs [].

(* the merge of one storage key: what the client's Aggregate (from the message fields) followed
   by AggregateSet.Merge do to the receiving cell.  [fixed] = keys the partial result does not
   have are left alone; the pinned Merge read them as 0 / "" *)
Definition merge_cell (fixed : bool) (op : aop) (into part : cell) : cell :=
  match op with
  | OCount | OSum | OAvg =>
    match c_f part with Some x => add_f into x | None => if fixed then into else add_f into 0 end
  | OMin => match c_f part with Some x => min_f into x | None => if fixed then into else min_f into 0 end
  | OMax => match c_f part with Some x => max_f into x | None => if fixed then into else max_f into 0 end
  | OLast => match c_s part with
             | Some s => {| c_f := c_f into; c_s := Some s |}
             | None => if fixed then into else {| c_f := c_f into; c_s := Some [] |}
             end
  | OLen => match c_s part, c_f part with
            | Some s, Some x => {| c_f := Some x; c_s := Some s |}
            | _, _ => if fixed then into else {| c_f := Some 0%Z; c_s := Some [] |}
            end
  end.
Fixpoint merge_cells (fixed : bool) (ops : list aop) (into part : list cell) : list cell :=
  match ops, into, part with
  | op :: ops', a :: into', b :: part' => merge_cell fixed op a b :: merge_cells fixed ops' into' part'
  | _, _, _ => into
  end.
Definition merge_aset (fixed : bool) (ops : list aop) (into part : aset) : aset :=
  {| a_samples := a_samples into + a_samples part; a_cells := merge_cells fixed ops (a_cells into) (a_cells part) |}.
Definition merge_gset (fixed : bool) (ops : list aop) (into part : gset) : gset :=
  fold_left (fun g (kp : bytes * aset) =>
               let s := match gget g (fst kp) with Some s => s | None => aset0 ops end in
               gput g (fst kp) (merge_aset fixed ops s (snd kp))) part into.

(* a distributed run: the records are cut into chunks (servers x files x serialisation
   intervals, in arrival order at the client); every chunk is aggregated on its server, sent,
   and merged *)
Definition distributed (fixed : bool) (ops : list aop) (chunks : list (list record)) : gset :=
  fold_left (fun g ch => merge_gset fixed ops g (server_aggregate ops ch)) chunks [].
Definition central (ops : list aop) (recs : list record) : gset := server_aggregate ops recs.

(* result cell of a column (resultSelect), numbers in thousandths; avg = (sum, samples) *)
Inductive rcell := RNum (z : Z) | RAvg (sum : Z) (samples : nat) | RStr (s : bytes) | RNone.
Definition result_cell (op : aop) (s : aset) (c : cell) : rcell :=
  match op with
  | OCount | OSum | OMin | OMax | OLen => match c_f c with Some z => RNum z | None => RNum 0 end
  | OAvg => match c_f c with Some z => RAvg z (a_samples s) | None => RAvg 0 (a_samples s) end
  | OLast => match c_s c with Some x => RStr x | None => RStr [] end
  end.
Definition result_row (ops : list aop) (s : aset) : list rcell := map (fun p => result_cell (fst p) s (snd p)) (combine ops (a_cells s)).

(* ---- case runner: the harness sends the abstract records of every chunk and the rows it got.
   Compared per group on count/sum/min/max/avg exactly; last/len must be one of the candidates
   (checked by the Python oracle, here only the numeric columns) ---- *)
Definition numeric_op (op : aop) : bool := match op with OLast | OLen => false | _ => true end.
Definition rcell_eqb (a b : rcell) : bool :=
  match a, b with
  | RNum x, RNum y => (x =? y)%Z
  | RAvg x n, RAvg y m => (x =? y)%Z && (n =? m)
  | RStr x, RStr y => bytes_eqb x y
  | RNone, RNone => true
  | _, _ => false
  end.
Definition mapr_case := (list aop * list (list record) * list (bytes * list rcell))%type.
Definition row_matches (ops : list aop) (model obs : list rcell) : bool :=
  forallb (fun t => let '(op, (m, o)) := t in if numeric_op op then rcell_eqb m o else true) (combine ops (combine model obs)).
Definition mapr_agree (c : mapr_case) : bool :=
  let '(ops, chunks, rows) := c in
  let g := distributed true ops chunks in
  (length g =? length rows)
  && forallb (fun r => match gget g (fst r) with
                       | Some s => row_matches ops (result_row ops s) (snd r)
                       | None => false end) rows.

(* comparison used by the check: only groups that have at least one sample are part of a result;
   avg is compared after rounding noise: |sum_model - sum_observed| <= samples (the observed sum
   is recovered from a printed average with 6 decimals) *)
Definition rcell_close (a b : rcell) : bool :=
  match a, b with
  | RAvg x n, RAvg y m => (n =? m) && (Z.abs (x - y) <=? Z.of_nat n + 1)%Z
  | RNum x, RNum y => (Z.abs (x - y) <=? 1)%Z
  | _, _ => rcell_eqb a b
  end.
Definition row_matches_s (ops : list aop) (model obs : list rcell) : bool :=
  forallb (fun t => let '(op, (m, o)) := t in if numeric_op op then rcell_close m o else true) (combine ops (combine model obs)).
Definition mapr_agree_s (c : mapr_case) : bool :=
  let '(ops, chunks, rows) := c in
  let g := filter (fun kp => 0 <? a_samples (snd kp)) (distributed true ops chunks) in
  (length g =? length rows)
  && forallb (fun r => match gget g (fst r) with
                       | Some s => row_matches_s ops (result_row ops s) (snd r)
                       | None => false end) rows.
