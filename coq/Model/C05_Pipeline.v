(* C05 — the whole query pipeline around the aggregation algebra of C05_Mapr: the line-local steps
   on the servers (log format parsing, where-filtering, set-assignments, group key; mapr/server/
   aggregate.go: aggregate, one line at a time), and ordering and limit on the client
   (groupset.go: result, resultOrderBy, Result's rowsLimit).  Executable definitions only. *)
From Coq Require Import Permutation Sorting.Sorted.
From DT Require Import Lib.Bytes Model.C05_Mapr.

Section Pipeline.
  Variable line : Type.
  (* what one line becomes on its server: None = not of the queried table / format error / rejected by
     the where clause; Some = its record after the set-assignments.  Depends on the line only. *)
  Variable prep : line -> option record.

  Fixpoint prep_all (ls : list line) : list record :=
    match ls with [] => [] | l :: r => match prep l with Some x => x :: prep_all r | None => prep_all r end end.
  Definition central_lines (ops : list aop) (ls : list line) : gset := central ops (prep_all ls).
  Definition distributed_lines (ops : list aop) (chunks : list (list line)) : gset :=
    distributed true ops (map prep_all chunks).

  (* the result table: the groups that have samples, ordered, cut at the limit (None = no limit).
     [before a b] = row a may stand in front of row b (the order-by column's value, descending or
     ascending; rows with equal values may stand either way - Go's sort is not stable and map
     iteration is random). *)
  Definition row := (bytes * aset)%type.
  Variable before : row -> row -> Prop.
  Definition nonempty (r : row) : bool := 0 <? a_samples (snd r).
  Definition cut (limit : option nat) (rows : list row) : list row :=
    match limit with Some n => firstn n rows | None => rows end.
  Definition is_result (g : gset) (limit : option nat) (rows : list row) : Prop :=
    exists sorted, Permutation sorted (filter nonempty g) /\ StronglySorted before sorted /\ rows = cut limit sorted.
End Pipeline.
