(* C06 — mapreduce accounts for every file of every server under any scheduling.
   Two labelled transition systems, every scheduling decision an environment event.
   (1) the server-side aggregator's channel rotation (internal/mapr/server/aggregate.go: nextLine,
       fieldsFromLines; internal/server/handlers/readcommand.go: channel registration; the
       read-command bookkeeping of serverhandler.go);
   (2) the client side: per-server local groups merged into the global group
       (internal/mapr/client/aggregate.go, internal/mapr/globalgroupset.go) against the reporter.
   Executable definitions only. *)
From DT Require Import Lib.Bytes.

(* ---------------- (1) server: which lines channel does the aggregator read, when does it stop ---------------- *)
Record chan_st := { queued : nat; closed : bool }.
Record sst := {
  pending : nat;                 (* read commands accepted and not finished yet (fixed code only) *)
  regd : list nat;               (* readers whose channel has been registered *)
  nextq : list nat;              (* NextLinesCh *)
  inflight : list nat;           (* channels being re-queued by a goroutine *)
  cur : option nat;              (* the aggregator's current channel *)
  chans : nat -> chan_st;
  produced : nat;                (* lines put into channels so far *)
  consumed : nat;                (* lines the aggregator has taken *)
  finished : bool
}.
Definition sinit : sst :=
  {| pending := 0; regd := []; nextq := []; inflight := []; cur := None;
     chans := fun _ => {| queued := 0; closed := false |}; produced := 0; consumed := 0; finished := false |}.
Definition updc (f : nat -> chan_st) (i : nat) (v : chan_st) : nat -> chan_st := fun x => if x =? i then v else f x.
Definition has (i : nat) (l : list nat) : bool := existsb (Nat.eqb i) l.

Inductive sev :=
| SAccept                         (* a read command of the session is accepted (counted) *)
| SRegister (i : nat)             (* reader i passed the limiter and queues its channel *)
| SPush (i : nat)                 (* reader i puts a line into its channel *)
| SCloseDone (i : nat)            (* reader i is at end of file: closes its channel, its command finishes *)
| STake                           (* aggregator: a line is ready on the current channel *)
| SFirst                          (* aggregator start-up: takes the first channel from the queue *)
| SSwapClosed                     (* current closed and drained, another channel is queued: switch *)
| SStop                           (* current closed and drained, queue momentarily empty: finish? *)
| SSwapIdle                       (* current merely empty, another channel queued: switch, re-queue the old one *)
| SRequeue (j : nat).             (* the re-queue goroutine delivers *)

(* [fixed] = the aggregator only finishes when no accepted read command is outstanding and no
   re-queue is in flight; the pinned code finished as soon as the queue was momentarily empty *)
Definition sstep (fixed : bool) (s : sst) (e : sev) : option sst :=
  if finished s then None else
  match e with
  | SAccept => Some {| pending := S (pending s); regd := regd s; nextq := nextq s; inflight := inflight s; cur := cur s;
                       chans := chans s; produced := produced s; consumed := consumed s; finished := false |}
  | SRegister i =>
    if has i (regd s) || (pending s <=? length (regd s) - length (filter (fun j => closed (chans s j)) (regd s))) then None
    else Some {| pending := pending s; regd := i :: regd s; nextq := nextq s ++ [i]; inflight := inflight s; cur := cur s;
                 chans := chans s; produced := produced s; consumed := consumed s; finished := false |}
  | SPush i =>
    if has i (regd s) && negb (closed (chans s i)) then
      Some {| pending := pending s; regd := regd s; nextq := nextq s; inflight := inflight s; cur := cur s;
              chans := updc (chans s) i {| queued := S (queued (chans s i)); closed := false |};
              produced := S (produced s); consumed := consumed s; finished := false |}
    else None
  | SCloseDone i =>
    if has i (regd s) && negb (closed (chans s i)) then
      Some {| pending := pending s - 1; regd := regd s; nextq := nextq s; inflight := inflight s; cur := cur s;
              chans := updc (chans s) i {| queued := queued (chans s i); closed := true |};
              produced := produced s; consumed := consumed s; finished := false |}
    else None
  | SFirst =>
    match cur s, nextq s with
    | None, j :: r => Some {| pending := pending s; regd := regd s; nextq := r; inflight := inflight s; cur := Some j;
                              chans := chans s; produced := produced s; consumed := consumed s; finished := false |}
    | _, _ => None
    end
  | STake =>
    match cur s with
    | Some c => match queued (chans s c) with
                | S q => Some {| pending := pending s; regd := regd s; nextq := nextq s; inflight := inflight s; cur := cur s;
                                 chans := updc (chans s) c {| queued := q; closed := closed (chans s c) |};
                                 produced := produced s; consumed := S (consumed s); finished := false |}
                | 0 => None end
    | None => None
    end
  | SSwapClosed =>
    match cur s, nextq s with
    | Some c, j :: r => if closed (chans s c) && (queued (chans s c) =? 0)
                        then Some {| pending := pending s; regd := regd s; nextq := r; inflight := inflight s; cur := Some j;
                                     chans := chans s; produced := produced s; consumed := consumed s; finished := false |}
                        else None
    | _, _ => None
    end
  | SStop =>
    match cur s, nextq s with
    | Some c, [] => if closed (chans s c) && (queued (chans s c) =? 0) && (negb fixed || ((pending s =? 0) && (length (inflight s) =? 0)))
                    then Some {| pending := pending s; regd := regd s; nextq := []; inflight := inflight s; cur := cur s;
                                 chans := chans s; produced := produced s; consumed := consumed s; finished := true |}
                    else None
    | _, _ => None
    end
  | SSwapIdle =>
    match cur s, nextq s with
    | Some c, j :: r => if negb (closed (chans s c)) && (queued (chans s c) =? 0)
                        then Some {| pending := pending s; regd := regd s; nextq := r; inflight := c :: inflight s; cur := Some j;
                                     chans := chans s; produced := produced s; consumed := consumed s; finished := false |}
                        else None
    | _, _ => None
    end
  | SRequeue j =>
    if has j (inflight s) then
      Some {| pending := pending s; regd := regd s; nextq := nextq s ++ [j]; inflight := filter (fun x => negb (x =? j)) (inflight s);
              cur := cur s; chans := chans s; produced := produced s; consumed := consumed s; finished := false |}
    else None
  end.
Fixpoint srun (fixed : bool) (s : sst) (es : list sev) : option sst :=
  match es with [] => Some s | e :: r => match sstep fixed s e with Some s' => srun fixed s' r | None => None end end.

(* ---------------- (2) client: local groups, global group, the semaphore ---------------- *)
Record cst := { glob : nat; locals : nat -> nat; received : nat }.   (* counts of merged / kept / received samples *)
Definition cinit0 : cst := {| glob := 0; locals := fun _ => 0; received := 0 |}.
Inductive cev :=
| CRecv (s : nat) (n : nat)       (* connection s receives a partial result of n samples: local += n *)
| CMergeOk (s : nat)              (* the merge into the global group happens; the local group is re-initialised *)
| CMergeBusy (s : nat).           (* MergeNoblock finds the semaphore taken (reporter / other handler): nothing happens *)
Definition updn (f : nat -> nat) (i v : nat) : nat -> nat := fun x => if x =? i then v else f x.
(* [fixed] = blocking Merge: after every received message the merge does happen *)
Definition cstep (fixed : bool) (c : cst) (e : cev) : option cst :=
  match e with
  | CRecv s n => Some {| glob := glob c; locals := updn (locals c) s (locals c s + n); received := received c + n |}
  | CMergeOk s => Some {| glob := glob c + locals c s; locals := updn (locals c) s 0; received := received c |}
  | CMergeBusy s => if fixed then None else Some c
  end.
(* a history of the fixed code: every receive is followed by its (blocking) merge *)
Fixpoint fixed_history (msgs : list (nat * nat)) : list cev :=
  match msgs with [] => [] | (s, n) :: r => CRecv s n :: CMergeOk s :: fixed_history r end.
Fixpoint crun (fixed : bool) (c : cst) (es : list cev) : option cst :=
  match es with [] => Some c | e :: r => match cstep fixed c e with Some c' => crun fixed c' r | None => None end end.
