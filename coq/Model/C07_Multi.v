(* C07 — several servers / files read at once: what each server puts on the wire (one REMOTE record
   per line of each file, in the order the shared lines queue hands them out), how the client's
   per-connection handlers cut their streams back into messages whatever the transport chunking,
   and how the messages of all connections end up on stdout (one atomic print per message).
   Executable definitions only.
   Code: internal/server/handlers/basehandler.go (Read), internal/server/handlers/readcommand.go
         (makeGlobID), internal/io/fs/readfile*.go (numbering), internal/clients/handlers/
         basehandler.go (Write, handleMessage), internal/io/dlog/loggers/stdout.go (log). *)
From DT Require Import Lib.Bytes Lib.Split Gen.Consts Model.C01_Cat.

(* ---------- decimal rendering (fmt %v of a uint64, %3d of an int) ---------- *)
Definition digit (n : N) : byte := byte_of_N (48 + n).
Fixpoint dec_acc (fuel : nat) (n : N) (acc : bytes) : bytes :=
  match fuel with
  | 0 => acc
  | S f => let acc' := digit (n mod 10) :: acc in
           if (n <? 10)%N then acc' else dec_acc f (n / 10) acc'
  end.
Definition dec (n : N) : bytes := dec_acc (S (N.to_nat (N.log2 n))) n [].
Definition pad3 (s : bytes) : bytes := repeat x20 (3 - length s) ++ s.

(* ---------- makeGlobID ---------- *)
Definition slash : byte := x2f.
Definition has_star (s : bytes) : bool := existsb (beqb x2a) s.
(* None = index out of range in the Go code (a panic) *)
Fixpoint glob_parts (i : nat) (globparts pathparts : list bytes) : option (list bytes) :=
  match globparts with
  | [] => Some []
  | g :: gr =>
    if has_star g then
      match nth_error pathparts i, glob_parts (S i) gr pathparts with
      | Some p, Some r => Some (p :: r)
      | _, _ => None
      end
    else glob_parts (S i) gr pathparts
  end.
Definition glob_id (path glob : bytes) : option bytes :=
  match glob_parts 0 (split slash glob) (split slash path) with
  | None => None
  | Some [] => Some (last (split slash path) [])
  | Some ps => Some (join_with slash ps)
  end.

(* ---------- one record ---------- *)
Definition fd : bytes := c_field_delimiter.
(* [content] is the raw line including its newline *)
Definition record (host : bytes) (perc : nat) (count : N) (id content : bytes) : bytes :=
  B"REMOTE" ++ fd ++ host ++ fd ++ pad3 (dec (N.of_nat perc)) ++ fd ++ dec count ++ fd ++ id ++ fd ++ content.

(* ---------- server: files sharing the session's lines queue ---------- *)
(* a file = (source id, lines with their newline); the schedule says whose next line the queue
   hands to Read; a file with nothing left is skipped.  Output: (file index, record). *)
Definition sfile := (bytes * list bytes)%type.

Fixpoint take_line (fs : list (N * list bytes)) (i : nat) : option (N * bytes * list (N * list bytes)) :=
  match fs, i with
  | [], _ => None
  | (n, []) :: _, 0 => None
  | (n, l :: r) :: rest, 0 => Some (N.succ n, l, (N.succ n, r) :: rest)
  | f :: rest, S j => match take_line rest j with
                      | Some (n, l, rest') => Some (n, l, f :: rest')
                      | None => None
                      end
  end.

Fixpoint server_run (host : bytes) (ids : list bytes) (fs : list (N * list bytes)) (sched : list nat)
  : list (nat * bytes) :=
  match sched with
  | [] => []
  | i :: r =>
    match take_line fs i with
    | Some (n, l, fs') => (i, record host 100 n (nth i ids []) l) :: server_run host ids fs' r
    | None => server_run host ids fs r
    end
  end.

Definition server_records (host : bytes) (files : list sfile) (sched : list nat) : list (nat * bytes) :=
  server_run host (map fst files) (map (fun f => (0%N, snd f)) files) sched.
Definition server_stream (host : bytes) (files : list sfile) (sched : list nat) : bytes :=
  frames delim_byte (map snd (server_records host files sched)).

(* ---------- client: one receive buffer per connection, one print per message ---------- *)
(* state: per connection (bytes not yet arrived, receive buffer most recent first); an event
   (c, n) delivers the next n bytes of connection c's stream to its handler's Write *)
Definition cconn := (bytes * bytes)%type.

Fixpoint upd {A} (l : list A) (i : nat) (x : A) : list A :=
  match l, i with
  | [], _ => []
  | _ :: r, 0 => x :: r
  | a :: r, S j => a :: upd r j x
  end.

Definition cstep (st : list cconn * list (nat * bytes)) (e : nat * nat) : list cconn * list (nat * bytes) :=
  let '(conns, out) := st in
  let '(c, n) := e in
  match nth_error conns c with
  | None => st
  | Some (pending, buf) =>
    let '(buf', ms) := cli_feed beqb nl_byte delim_byte buf (firstn n pending) in
    (upd conns c (skipn n pending, buf'), out ++ map (fun m => (c, m)) ms)
  end.

Definition crun (streams : list bytes) (sched : list (nat * nat)) : list cconn * list (nat * bytes) :=
  fold_left cstep sched (map (fun s => (s, [])) streams, []).

(* what reaches stdout: hidden messages are not printed (handleMessage) *)
Definition visible (out : list (nat * bytes)) : list (nat * bytes) :=
  filter (fun p => negb (hidden beqb dot_byte (snd p))) out.
Definition stdout_of (out : list (nat * bytes)) : bytes := concat (map snd (visible out)).
(* the messages of connection c among the printed ones *)
Definition proj {A} (c : nat) (out : list (nat * A)) : list A := map snd (filter (fun p => Nat.eqb (fst p) c) out).

(* ---------- case runners ---------- *)
(* server side: (host, files, observed schedule, observed stream) *)
Definition srv_case := (bytes * list sfile * list nat * bytes)%type.
Definition srv_agree (c : srv_case) : bool :=
  let '(host, files, sched, observed) := c in bytes_eqb (server_stream host files sched) observed.
(* client side: (streams, schedule of (connection, bytes), observed stdout) *)
Definition cli_case := (list bytes * list (nat * nat) * bytes)%type.
Definition cli_agree (c : cli_case) : bool :=
  let '(streams, sched, observed) := c in bytes_eqb (stdout_of (snd (crun streams sched))) observed.
(* glob ids: (path, glob, observed id or None for a panic) *)
Definition gid_case := (bytes * bytes * option bytes)%type.
Definition gid_agree (c : gid_case) : bool :=
  let '(path, glob, observed) := c in
  match glob_id path glob, observed with
  | Some a, Some b => bytes_eqb a b
  | None, None => true
  | _, _ => false
  end.
(* server side with the ids computed from (path, glob of the command that selected the file) *)
Definition srv2_case := (bytes * list (bytes * bytes * list bytes) * list nat * bytes)%type.
Definition srv2_agree (c : srv2_case) : bool :=
  let '(host, pfiles, sched, observed) := c in
  let files := map (fun pf => let '(path, glob, lines) := pf in
                              (match glob_id path glob with Some i => i | None => [] end, lines)) pfiles in
  bytes_eqb (server_stream host files sched) observed.
