(* C08 — physical path resolution (what open(2) and filepath.EvalSymlinks do) over an abstract file
   system, and the lexical cleaning of filepath.Clean / Abs.  user.HasFilePermission decides on
   EvalSymlinks-then-Abs of the requested path; the reader then opens the requested path itself.
   Executable definitions only. *)
From DT Require Import Lib.Bytes Lib.Split.

Definition comp := bytes.
Definition cpath := list comp.                      (* components below the root, root = [] *)
Inductive node := NDir | NFile | NOther | NLink (absolute : bool) (target : list comp).
Definition fsys := list (cpath * node).             (* keys: canonical paths *)

Definition cpath_eqb : cpath -> cpath -> bool := lbytes_eqb.
Fixpoint lookup (fs : fsys) (p : cpath) : option node :=
  match fs with [] => None | (k, n) :: r => if cpath_eqb k p then Some n else lookup r p end.

Definition dot : comp := B".".
Definition dotdot : comp := B"..".
Definition parent (p : cpath) : cpath := removelast p.

(* the walk: [cur] is the canonical directory reached so far, [todo] the components still to resolve;
   [link] continues after a symbolic link (one unit of fuel each: ELOOP when it runs out) *)
Fixpoint go (fs : fsys) (link : cpath -> list comp -> option cpath) (cur : cpath) (todo : list comp) : option cpath :=
  match todo with
  | [] => Some cur
  | c :: r =>
    if bytes_eqb c [] || bytes_eqb c dot then go fs link cur r
    else if bytes_eqb c dotdot then go fs link (parent cur) r
    else match lookup fs (cur ++ [c]) with
         | Some NDir => go fs link (cur ++ [c]) r
         | Some NFile | Some NOther => match r with [] => Some (cur ++ [c]) | _ => None end
         | Some (NLink abs t) => link (if abs then [] else cur) (t ++ r)
         | None => None
         end
  end.
Fixpoint walk (fs : fsys) (fuel : nat) (cur : cpath) (todo : list comp) : option cpath :=
  match fuel with
  | 0 => None
  | S f => go fs (walk fs f) cur todo
  end.
Definition resolve (fs : fsys) (fuel : nat) (req : list comp) : option cpath := walk fs fuel [] req.

(* filepath.Clean on the components of an absolute path: "." and "" dropped, "x/.." cancelled textually *)
Fixpoint clean_acc (acc : list comp) (todo : list comp) : list comp :=
  match todo with
  | [] => rev' acc
  | c :: r => if bytes_eqb c [] || bytes_eqb c dot then clean_acc acc r
              else if bytes_eqb c dotdot then clean_acc (tl acc) r
              else clean_acc (c :: acc) r
  end.
Definition clean (req : list comp) : list comp := clean_acc [] req.

(* case runner: request components, observed resolved path (None = error) *)
Definition path_case := (list comp * option (list comp))%type.
Definition opt_cpath_eqb (a b : option cpath) : bool :=
  match a, b with Some x, Some y => cpath_eqb x y | None, None => true | _, _ => false end.
Definition path_agree (fs : fsys) (c : path_case) : bool := opt_cpath_eqb (resolve fs 40 (fst c)) (snd c).
