(* C08 — file permission rules (internal/user/server/user.go: HasFilePermission, hasFilePermission,
   iteratePaths; internal/config/server.go: ServerUserPermissions).  Executable definitions only.
   regexp (compile / match on the resolved path) and the OS path resolution are oracles. *)
From DT Require Import Lib.Bytes Lib.Split.

Definition colonb : byte := x3a.
Definition bang : byte := x21.
Definition readfiles : bytes := B"readfiles".

(* a rule as iteratePaths reads it: (type, negate, pattern).
   [fixed] = the repaired reading: a "<type>:" prefix is split off only when it is the known
   permission type; the pinned code took everything before the first ':' as the type. *)
Definition parse_rule (fixed : bool) (rule : bytes) : bytes * bool * bytes :=
  let '(ty, perm) :=
    if fixed then
      (if bprefix (readfiles ++ [colonb]) rule then (readfiles, skipn (S (length readfiles)) rule) else (readfiles, rule))
    else
      match split colonb rule with
      | t :: (_ :: _) as rest => (t, join_with colonb (tl (split colonb rule)))
      | _ => (readfiles, rule)
      end in
  match perm with
  | c :: r => if beqb c bang then (ty, true, r) else (ty, false, perm)
  | [] => (ty, false, perm)
  end.

Section Decide.
  Variable compiles : bytes -> bool.        (* regexp.Compile succeeds *)
  Variable matches : bytes -> bool.         (* compiled pattern matches the resolved path *)

  (* iteratePaths: last matching rule of the requested type wins; a rule that does not compile
     aborts with "no permission" *)
  Fixpoint iterate (fixed : bool) (rules : list bytes) (acc : bool) : bool :=
    match rules with
    | [] => acc
    | r :: rest =>
      let '(ty, neg, pat) := parse_rule fixed r in
      if negb (bytes_eqb ty readfiles) then iterate fixed rest acc
      else if negb (compiles pat) then false
      else if matches pat then iterate fixed rest (negb neg)
      else iterate fixed rest acc
    end.
  Definition decide (fixed : bool) (rules : list bytes) : bool := iterate fixed rules false.

  (* ServerUserPermissions: per-user rules replace the default list *)
  Definition rules_for (defaults : list bytes) (per_user : option (list bytes)) : list bytes :=
    match per_user with Some l => l | None => defaults end.

  (* HasFilePermission for an ordinary user: [resolved] = the OS's answer for
     EvalSymlinks+Abs (None = error), [regular] = Lstat says regular file *)
  Definition served (fixed : bool) (defaults : list bytes) (per_user : option (list bytes))
             (resolved : option bytes) (regular : bool) : bool :=
    match resolved with
    | None => false
    | Some _ => regular && decide fixed (rules_for defaults per_user)
    end.
End Decide.

(* ---- specification: what a rule means ---- *)
(* optional "readfiles:" prefix, then optional '!' *)
Definition rule_meaning (rule : bytes) : bool * bytes :=
  let body := if bprefix (readfiles ++ [colonb]) rule then skipn (S (length readfiles)) rule else rule in
  match body with
  | c :: r => if beqb c bang then (true, r) else (false, body)
  | [] => (false, body)
  end.
(* last matching rule decides, no match = deny *)
Fixpoint last_match (matches : bytes -> bool) (rules : list bytes) (acc : bool) : bool :=
  match rules with
  | [] => acc
  | r :: rest => let '(neg, pat) := rule_meaning r in
                 if matches pat then last_match matches rest (negb neg) else last_match matches rest acc
  end.

(* case runner: rules, per-rule (pattern as the fixed parser reads it is recomputed in Coq;
   the harness supplies compile/match verdicts for every candidate pattern), observed verdict *)
Definition perm_case := (list bytes * list (bytes * (bool * bool)) * option bytes * bool * bool)%type.
Fixpoint ptab (t : list (bytes * (bool * bool))) (k : bytes) : bool * bool :=
  match t with [] => (false, false) | (k', v) :: r => if bytes_eqb k k' then v else ptab r k end.
Definition perm_agree (c : perm_case) : bool :=
  let '(rules, tab, resolved, regular, observed) := c in
  Bool.eqb (served (fun p => fst (ptab tab p)) (fun p => snd (ptab tab p)) true rules None resolved regular) observed.
