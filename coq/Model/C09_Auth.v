(* C09 — authentication decisions (internal/ssh/server/publickeycallback.go: verifyAuthorizedKeys;
   internal/server/server.go: Callback, backgroundCanSSH; handler selection; server health
   handler).  Executable definitions only.  x/crypto/ssh (key parsing, signature check) and DNS are
   oracles: an authorized-keys file is abstracted to its lines, each classified by the parser. *)
From DT Require Import Lib.Bytes Lib.Split.

(* how ssh.ParseAuthorizedKey sees one line *)
Inductive akline := LBlank | LComment | LJunk | LKey (k : nat).   (* k identifies the marshalled key *)

(* ssh.ParseAuthorizedKey on the remaining input: skips everything that is not a key line;
   None = "ssh: no key found" *)
Fixpoint parse_next (ls : list akline) : option (nat * list akline) :=
  match ls with
  | [] => None
  | LKey k :: r => Some (k, r)
  | _ :: r => parse_next r
  end.

(* verifyAuthorizedKeys: [fixed] = stop collecting when no further key is found; the pinned code
   returns the parser's error, which rejects every key of the file *)
Fixpoint collect (fixed : bool) (fuel : nat) (ls : list akline) (acc : list nat) : option (list nat) :=
  match fuel with
  | 0 => Some acc
  | S f =>
    match ls with
    | [] => Some acc
    | _ => match parse_next ls with
           | Some (k, r) => collect fixed f r (k :: acc)
           | None => if fixed then Some acc else None
           end
    end
  end.
Definition verify (fixed : bool) (ls : list akline) (offered : nat) : bool :=
  match collect fixed (S (length ls)) ls [] with
  | Some keys => existsb (Nat.eqb offered) keys
  | None => false
  end.

(* ---- password callback ---- *)
Definition health_user : bytes := B"DTAIL-HEALTH".
Definition schedule_user : bytes := B"DTAIL-SCHEDULE".
Definition continuous_user : bytes := B"DTAIL-CONTINUOUS".
Record job := { j_name : bytes; j_allow : list bytes }.

Section Password.
  Variable resolve : bytes -> list bytes.        (* net.LookupIP, textual IPs *)
  Definition can_ssh (pw ip : bytes) (j : job) : bool :=
    bytes_eqb pw (j_name j) && existsb (fun a => existsb (bytes_eqb ip) (resolve a)) (j_allow j).
  Definition pw_ok (user pw ip : bytes) (schedule continuous : list job) : bool :=
    if bytes_eqb user health_user then bytes_eqb pw health_user
    else if bytes_eqb user schedule_user then existsb (can_ssh pw ip) schedule
    else if bytes_eqb user continuous_user then existsb (can_ssh pw ip) continuous
    else false.
End Password.

(* which handler serves a session, and what the health handler answers *)
Definition is_health_session (user : bytes) : bool := bytes_eqb user health_user.
Inductive hans := HealthOK | HealthAck | HealthError.
Definition health_answer (command_name : bytes) : hans :=
  if bytes_eqb command_name (B"health") then HealthOK
  else if bytes_eqb command_name (B".ack") then HealthAck else HealthError.

(* case runners *)
Definition key_case := (list nat * nat * bool)%type.   (* lines coded: 0 blank, 1 comment, 2 junk, n+3 key n *)
Definition decode_line (n : nat) : akline :=
  match n with 0 => LBlank | 1 => LComment | 2 => LJunk | S (S (S k)) => LKey k end.
Definition key_agree (c : key_case) : bool :=
  let '(ls, offered, accepted) := c in Bool.eqb (verify true (map decode_line ls) offered) accepted.
Definition pw_case := (bytes * bytes * bytes * list (bytes * list bytes) * list (bytes * list bytes) * bool)%type.
Definition pw_agree (c : pw_case) : bool :=
  let '(user, pw, ip, sched, cont, granted) := c in
  let mk := map (fun p => {| j_name := fst p; j_allow := snd p |}) in
  Bool.eqb (pw_ok (fun a => [a]) user pw ip (mk sched) (mk cont)) granted.
