(* C11 — the mapreduce query parser (internal/mapr/{token,query,selectcondition,wherecondition,
   setcondition}.go, funcs/function.go).  Executable definitions only.  Every Go index / slice is
   a checked operation (RPanic).  strconv.ParseFloat / Atoi are oracles. *)
From DT Require Import Lib.Bytes Lib.Split Gen.Consts.

Inductive res (A : Type) := ROk (a : A) | RErr | RPanic.
Arguments ROk {A} a. Arguments RErr {A}. Arguments RPanic {A}.
Definition rbind {A B} (r : res A) (f : A -> res B) : res B :=
  match r with ROk a => f a | RErr => RErr | RPanic => RPanic end.

Record tok := { t_str : bytes; t_bare : bool; t_stripped : bool }.

(* ---- tokenize ---- *)
Definition dquote : byte := x22.
Definition bquote : byte := x60.
Definition lparen : byte := x28.
Definition rparen : byte := x29.
Definition dollar : byte := x24.
(* unicode.IsSpace restricted to ASCII: \t \n \v \f \r and blank *)
Definition is_space (c : byte) : bool :=
  beqb c x20 || beqb c x09 || beqb c x0a || beqb c x0b || beqb c x0c || beqb c x0d.
(* strings.Fields after commas were replaced by blanks *)
Fixpoint fields_acc (cur : bytes) (s : bytes) : list bytes :=
  match s with
  | [] => match cur with [] => [] | _ => [rev' cur] end
  | c :: r => if is_space c || beqb c x2c
              then match cur with [] => fields_acc [] r | _ => rev' cur :: fields_acc [] r end
              else fields_acc (c :: cur) r
  end.
Definition fields (s : bytes) : list bytes := fields_acc [] s.
Definition bare_tok (s : bytes) : tok := {| t_str := s; t_bare := true; t_stripped := false |}.
Definition quoted_tok (s : bytes) : tok := {| t_str := s; t_bare := false; t_stripped := false |}.
Fixpoint tokenize_parts (even : bool) (parts : list bytes) : list tok :=
  match parts with
  | [] => []
  | p :: r => (if even then map bare_tok (fields p) else [quoted_tok p]) ++ tokenize_parts (negb even) r
  end.
Definition tokenize (q : bytes) : list tok := tokenize_parts true (split dquote q).

(* ---- keywords ---- *)
Definition lower_byte (c : byte) : byte :=
  let n := Coq.Strings.Byte.to_N c in
  if (65 <=? n)%N && (n <=? 90)%N then byte_of_N (n + 32) else c.
Definition upper_byte (c : byte) : byte :=
  let n := Coq.Strings.Byte.to_N c in
  if (97 <=? n)%N && (n <=? 122)%N then byte_of_N (n - 32) else c.
Definition lower (s : bytes) : bytes := map lower_byte s.
Definition upper (s : bytes) : bytes := map upper_byte s.
Definition is_keyword (t : tok) : bool :=
  t_bare t && existsb (bytes_eqb (lower (t_str t))) c_query_keywords.

Definition last_byte (s : bytes) : option byte := match rev' s with c :: _ => Some c | [] => None end.
Definition strip1 (s : bytes) : bytes := removelast (tl s).
Definition is_bquoted (s : bytes) : bool :=
  (2 <=? length s) && match s, last_byte s with c :: _, Some d => beqb c bquote && beqb d bquote | _, _ => false end.

(* tokensConsume: up to the next bareword keyword *)
Fixpoint consume (ts : list tok) : list tok * list tok :=
  match ts with
  | [] => ([], [])
  | t :: r =>
    if is_keyword t then (ts, [])
    else let '(rest, cs) := consume r in
         match t_str t with
         | [] => (rest, t :: cs)            (* only a quoted string can be empty: it is kept *)
         | _ => if is_bquoted (t_str t)
                then (rest, {| t_str := strip1 (t_str t); t_bare := t_bare t; t_stripped := true |} :: cs)
                else (rest, t :: cs)
         end
  end.
Definition consume_optional (ts : list tok) (opt : bytes) : list tok :=
  match ts with
  | [] => []
  | t :: r => if bytes_eqb (lower (t_str t)) (lower opt) then r else ts
  end.

(* ---- the parsed query ---- *)
Inductive aggop := ACount | ASum | AMin | AMax | ALast | AAvg | ALen.
Inductive ftype := TField | TString | TFloat | TFuncs.
Inductive whereop := WFEq | WFNe | WFLt | WFLe | WFGt | WFGe
                   | WSEq | WSNe | WSContains | WSNotContains | WSHasPrefix | WSNotHasPrefix | WSHasSuffix | WSNotHasSuffix.
Definition is_float_op (o : whereop) : bool :=
  match o with WFEq | WFNe | WFLt | WFLe | WFGt | WFGe => true | _ => false end.
Record selc := { s_field : bytes; s_storage : bytes; s_op : aggop }.
Record wherec := { w_ltype : ftype; w_lstr : bytes; w_op : whereop; w_rtype : ftype; w_rstr : bytes }.
Record setc := { e_lstr : bytes; e_rtype : ftype; e_rstr : bytes; e_funcs : list bytes }.
Record query := {
  q_select : list selc; q_table : bytes; q_where : list wherec; q_set : list setc;
  q_groupby : list bytes; q_orderby : bytes; q_reverse : bool; q_groupkey : bytes;
  q_interval : Z; q_limit : Z; q_outfile : option (bytes * bool); q_logformat : bytes }.
Definition q0 : query :=
  {| q_select := []; q_table := []; q_where := []; q_set := []; q_groupby := []; q_orderby := []; q_reverse := false;
     q_groupkey := []; q_interval := 5; q_limit := (-1); q_outfile := None; q_logformat := [] |}.

Section Parse.
  Variable is_float : bytes -> bool.          (* strconv.ParseFloat(s, 64) succeeds *)
  Variable atoi : bytes -> option Z.          (* strconv.Atoi *)

  Definition has_byte (c : byte) (s : bytes) : bool := existsb (beqb c) s.

  (* makeSelectConditions *)
  Definition agg_of (s : bytes) : option aggop :=
    if bytes_eqb s (B"count") then Some ACount else if bytes_eqb s (B"sum") then Some ASum
    else if bytes_eqb s (B"min") then Some AMin else if bytes_eqb s (B"max") then Some AMax
    else if bytes_eqb s (B"last") then Some ALast else if bytes_eqb s (B"avg") then Some AAvg
    else if bytes_eqb s (B"len") then Some ALen else None.
  Definition make_select1 (t : tok) : res selc :=
    if t_stripped t || (negb (has_byte lparen (t_str t)) && negb (has_byte rparen (t_str t)))
    then ROk {| s_field := t_str t; s_storage := t_str t; s_op := ALast |}
    else match split lparen (t_str t) with
         | [agg; a1] =>
           match split rparen a1 with
           | [fld; _] => match agg_of agg with
                         | Some op => ROk {| s_field := fld; s_storage := t_str t; s_op := op |}
                         | None => RErr end
           | _ => RErr
           end
         | _ => RErr
         end.
  Fixpoint make_select (ts : list tok) : res (list selc) :=
    match ts with
    | [] => ROk []
    | t :: r => rbind (make_select1 t) (fun s => rbind (make_select r) (fun l => ROk (s :: l)))
    end.

  (* makeWhereConditions *)
  Definition whereop_of (s : bytes) : option whereop :=
    if bytes_eqb s (B"==") then Some WFEq else if bytes_eqb s (B"!=") then Some WFNe
    else if bytes_eqb s (B"<") then Some WFLt else if bytes_eqb s (B"<=") then Some WFLe
    else if bytes_eqb s (B"=<") then Some WFLe else if bytes_eqb s (B">") then Some WFGt
    else if bytes_eqb s (B">=") then Some WFGe else if bytes_eqb s (B"=>") then Some WFGe
    else if bytes_eqb s (B"eq") then Some WSEq else if bytes_eqb s (B"ne") then Some WSNe
    else if bytes_eqb s (B"contains") then Some WSContains
    else if bytes_eqb s (B"lacks") then Some WSNotContains else if bytes_eqb s (B"ncontains") then Some WSNotContains
    else if bytes_eqb s (B"hasprefix") then Some WSHasPrefix else if bytes_eqb s (B"nhasprefix") then Some WSNotHasPrefix
    else if bytes_eqb s (B"hassuffix") then Some WSHasSuffix else if bytes_eqb s (B"nhassuffix") then Some WSNotHasSuffix
    else None.
  Definition num_type (s : bytes) : ftype := if is_float s then TFloat else TField.
  Definition make_where1 (t0 t1 t2 : tok) : res wherec :=
    match whereop_of (lower (t_str t1)) with
    | None => RErr
    | Some op =>
      if is_float_op op then
        if negb (t_bare t0) then RErr
        else if negb (t_bare t2) then RErr
        else ROk {| w_ltype := num_type (t_str t0); w_lstr := t_str t0; w_op := op;
                    w_rtype := num_type (t_str t2); w_rstr := t_str t2 |}
      else ROk {| w_ltype := if t_bare t0 then TField else TString; w_lstr := t_str t0; w_op := op;
                  w_rtype := if t_bare t2 then TField else TString; w_rstr := t_str t2 |}
    end.
  Fixpoint make_where (fuel : nat) (ts : list tok) : res (list wherec) :=
    match fuel with
    | 0 => RPanic
    | S f =>
      match ts with
      | [] => ROk []
      | t0 :: t1 :: t2 :: r =>
        rbind (make_where1 t0 t1 t2) (fun w =>
        rbind (make_where f (consume_optional r (B"and"))) (fun l => ROk (w :: l)))
      | _ => RErr
      end
    end.

  (* funcs.NewFunctionStack *)
  Fixpoint index_of (c : byte) (s : bytes) (i : nat) : option nat :=
    match s with [] => None | d :: r => if beqb d c then Some i else index_of c r (S i) end.
  Definition known_func (n : bytes) : bool := bytes_eqb n (B"md5sum") || bytes_eqb n (B"maskdigits").
  Fixpoint func_stack (fuel : nat) (aux : bytes) : res (list bytes * bytes) :=
    match fuel with
    | 0 => RPanic
    | S f =>
      match last_byte aux with
      | Some c =>
        if beqb c rparen then
          match index_of lparen aux 0 with
          | None | Some 0 => RErr
          | Some idx =>
            let name := firstn idx aux in
            if known_func name then
              (* aux[idx+1 : len(aux)-1] : panics if idx+1 > len-1 *)
              if S idx <=? length aux - 1
              then rbind (func_stack f (removelast (skipn (S idx) aux))) (fun '(ns, arg) => ROk (name :: ns, arg))
              else RPanic
            else RErr
          end
        else ROk ([], aux)
      | None => ROk ([], aux)
      end
    end.

  (* makeSetConditions *)
  Definition make_set1 (t0 t1 t2 : tok) : res setc :=
    if negb (bytes_eqb (t_str t1) (B"=")) then RErr
    else if negb (t_bare t0) then RErr
    else if negb (bprefix [dollar] (t_str t0)) then RErr
    else if t_stripped t2 then ROk {| e_lstr := t_str t0; e_rtype := TField; e_rstr := t_str t2; e_funcs := [] |}
    else if match last_byte (t_str t2) with Some c => beqb c rparen | None => false end then
      rbind (func_stack (S (length (t_str t2))) (t_str t2)) (fun '(ns, arg) =>
        ROk {| e_lstr := t_str t0; e_rtype := TFuncs; e_rstr := arg; e_funcs := ns |})
    else ROk {| e_lstr := t_str t0; e_rtype := num_type (t_str t2); e_rstr := t_str t2; e_funcs := [] |}.
  Fixpoint make_set (fuel : nat) (ts : list tok) : res (list setc) :=
    match fuel with
    | 0 => RPanic
    | S f =>
      match ts with
      | [] => ROk []
      | t0 :: t1 :: t2 :: r =>
        rbind (make_set1 t0 t1 t2) (fun w =>
        rbind (make_set f (consume_optional r (B","))) (fun l => ROk (w :: l)))
      | _ => RErr
      end
    end.

  (* parseTokens *)
  Definition set_select q v := {| q_select := v; q_table := q_table q; q_where := q_where q; q_set := q_set q; q_groupby := q_groupby q; q_orderby := q_orderby q; q_reverse := q_reverse q; q_groupkey := q_groupkey q; q_interval := q_interval q; q_limit := q_limit q; q_outfile := q_outfile q; q_logformat := q_logformat q |}.
  Definition set_table q v := {| q_select := q_select q; q_table := v; q_where := q_where q; q_set := q_set q; q_groupby := q_groupby q; q_orderby := q_orderby q; q_reverse := q_reverse q; q_groupkey := q_groupkey q; q_interval := q_interval q; q_limit := q_limit q; q_outfile := q_outfile q; q_logformat := q_logformat q |}.
  Definition set_where q v := {| q_select := q_select q; q_table := q_table q; q_where := v; q_set := q_set q; q_groupby := q_groupby q; q_orderby := q_orderby q; q_reverse := q_reverse q; q_groupkey := q_groupkey q; q_interval := q_interval q; q_limit := q_limit q; q_outfile := q_outfile q; q_logformat := q_logformat q |}.
  Definition set_set q v := {| q_select := q_select q; q_table := q_table q; q_where := q_where q; q_set := v; q_groupby := q_groupby q; q_orderby := q_orderby q; q_reverse := q_reverse q; q_groupkey := q_groupkey q; q_interval := q_interval q; q_limit := q_limit q; q_outfile := q_outfile q; q_logformat := q_logformat q |}.
  Definition set_group q v k := {| q_select := q_select q; q_table := q_table q; q_where := q_where q; q_set := q_set q; q_groupby := v; q_orderby := q_orderby q; q_reverse := q_reverse q; q_groupkey := k; q_interval := q_interval q; q_limit := q_limit q; q_outfile := q_outfile q; q_logformat := q_logformat q |}.
  Definition set_order q v (rv : bool) := {| q_select := q_select q; q_table := q_table q; q_where := q_where q; q_set := q_set q; q_groupby := q_groupby q; q_orderby := v; q_reverse := if rv then true else q_reverse q; q_groupkey := q_groupkey q; q_interval := q_interval q; q_limit := q_limit q; q_outfile := q_outfile q; q_logformat := q_logformat q |}.
  Definition set_interval q v := {| q_select := q_select q; q_table := q_table q; q_where := q_where q; q_set := q_set q; q_groupby := q_groupby q; q_orderby := q_orderby q; q_reverse := q_reverse q; q_groupkey := q_groupkey q; q_interval := v; q_limit := q_limit q; q_outfile := q_outfile q; q_logformat := q_logformat q |}.
  Definition set_limit q v := {| q_select := q_select q; q_table := q_table q; q_where := q_where q; q_set := q_set q; q_groupby := q_groupby q; q_orderby := q_orderby q; q_reverse := q_reverse q; q_groupkey := q_groupkey q; q_interval := q_interval q; q_limit := v; q_outfile := q_outfile q; q_logformat := q_logformat q |}.
  Definition set_outfile q v := {| q_select := q_select q; q_table := q_table q; q_where := q_where q; q_set := q_set q; q_groupby := q_groupby q; q_orderby := q_orderby q; q_reverse := q_reverse q; q_groupkey := q_groupkey q; q_interval := q_interval q; q_limit := q_limit q; q_outfile := v; q_logformat := q_logformat q |}.
  Definition set_logformat q v := {| q_select := q_select q; q_table := q_table q; q_where := q_where q; q_set := q_set q; q_groupby := q_groupby q; q_orderby := q_orderby q; q_reverse := q_reverse q; q_groupkey := q_groupkey q; q_interval := q_interval q; q_limit := q_limit q; q_outfile := q_outfile q; q_logformat := v |}.

  Definition clause (q : query) (kw : bytes) (r : list tok) : res (list tok * query) :=
    if bytes_eqb kw (B"select") then
      let '(rest, found) := consume r in rbind (make_select found) (fun v => ROk (rest, set_select q v))
    else if bytes_eqb kw (B"from") then
      let '(rest, found) := consume r in
      match found with [t] => ROk (rest, set_table q (upper (t_str t))) | _ => RErr end
    else if bytes_eqb kw (B"where") then
      let '(rest, found) := consume r in rbind (make_where (S (length found)) found) (fun v => ROk (rest, set_where q v))
    else if bytes_eqb kw (B"set") then
      let '(rest, found) := consume r in rbind (make_set (S (length found)) found) (fun v => ROk (rest, set_set q v))
    else if bytes_eqb kw (B"group") then
      match consume_optional r (B"by") with
      | [] => RErr
      | r' => let '(rest, found) := consume r' in
              let strs := map t_str found in ROk (rest, set_group q strs (join_with x2c strs))
      end
    else if bytes_eqb kw (B"rorder") || bytes_eqb kw (B"order") then
      match consume_optional r (B"by") with
      | [] => RErr
      | r' => let '(rest, found) := consume r' in
              match found with
              | [] => RErr
              | t :: _ => ROk (rest, set_order q (t_str t) (bytes_eqb kw (B"rorder")))
              end
      end
    else if bytes_eqb kw (B"interval") then
      let '(rest, found) := consume r in
      match found with
      | [] => ROk (rest, q)
      | t :: _ => match atoi (t_str t) with Some z => ROk (rest, set_interval q z) | None => RErr end
      end
    else if bytes_eqb kw (B"limit") then
      let '(rest, found) := consume r in
      match found with
      | [] => RErr
      | t :: _ => match atoi (t_str t) with Some z => ROk (rest, set_limit q z) | None => RErr end
      end
    else if bytes_eqb kw (B"outfile") then
      let '(rest, found) := consume r in
      match found with
      | [t] => ROk (rest, set_outfile q (Some (t_str t, false)))
      | [a; t] => if bytes_eqb (t_str a) (B"append") then ROk (rest, set_outfile q (Some (t_str t, true))) else RErr
      | _ => RErr
      end
    else if bytes_eqb kw (B"logformat") then
      let '(rest, found) := consume r in
      match found with [] => RErr | t :: _ => ROk (rest, set_logformat q (t_str t)) end
    else RErr.

  Fixpoint parse_tokens (fuel : nat) (q : query) (ts : list tok) : res query :=
    match fuel with
    | 0 => RPanic
    | S f =>
      match ts with
      | [] => ROk q
      | t :: r => rbind (clause q (lower (t_str t)) r) (fun '(rest, q') => parse_tokens f q' rest)
      end
    end.

  (* Query.parse: post checks *)
  Definition finish (q : query) : res query :=
    match q_select q with
    | [] => RErr
    | s0 :: _ =>
      let q1 := match q_groupby q with [] => set_group q [s_field s0] (q_groupkey q) | _ => q end in
      match q_orderby q1 with
      | [] => ROk q1
      | ob => if existsb (fun s => bytes_eqb ob (s_storage s)) (q_select q1) then ROk q1 else RErr
      end
    end.

  (* NewQuery: None = (nil, nil) for the empty string *)
  Definition new_query (s : bytes) : option (res query) :=
    match s with
    | [] => None
    | _ => let ts := tokenize s in Some (rbind (parse_tokens (S (length ts)) q0 ts) finish)
    end.
End Parse.

(* ---- case runner: compare with mapr.NewQuery's result ---- *)
Definition aggop_code (o : aggop) : nat :=
  match o with ACount => 1 | ASum => 2 | AMin => 3 | AMax => 4 | ALast => 5 | AAvg => 6 | ALen => 7 end.
Definition ftype_code (t : ftype) : nat := match t with TField => 1 | TString => 2 | TFloat => 3 | TFuncs => 4 end.
Definition whereop_code (o : whereop) : nat :=
  match o with
  | WSEq => 1 | WSNe => 2 | WSContains => 3 | WSNotContains => 4 | WSHasPrefix => 5 | WSNotHasPrefix => 6
  | WSHasSuffix => 7 | WSNotHasSuffix => 8 | WFEq => 10 | WFNe => 11 | WFLt => 12 | WFLe => 13 | WFGt => 14 | WFGe => 15
  end.

Definition obs_query :=
  (list (bytes * bytes * nat) * bytes * list (nat * bytes * nat * nat * bytes) * list (bytes * nat * bytes * list bytes)
   * list bytes * bytes * bool * bytes * Z * Z * option (bytes * bool) * bytes)%type.

Definition proj_query (q : query) : obs_query :=
  (map (fun s => (s_field s, s_storage s, aggop_code (s_op s))) (q_select q), q_table q,
   map (fun w => (ftype_code (w_ltype w), w_lstr w, whereop_code (w_op w), ftype_code (w_rtype w), w_rstr w)) (q_where q),
   map (fun e => (e_lstr e, ftype_code (e_rtype e), e_rstr e, e_funcs e)) (q_set q),
   q_groupby q, q_orderby q, q_reverse q, q_groupkey q, q_interval q, q_limit q, q_outfile q, q_logformat q).

Definition sel_eqb (a b : bytes * bytes * nat) : bool :=
  let '(x, y, z) := a in let '(x', y', z') := b in bytes_eqb x x' && bytes_eqb y y' && (z =? z').
Definition where_eqb (a b : nat * bytes * nat * nat * bytes) : bool :=
  let '(a1, a2, a3, a4, a5) := a in let '(b1, b2, b3, b4, b5) := b in
  (a1 =? b1) && bytes_eqb a2 b2 && (a3 =? b3) && (a4 =? b4) && bytes_eqb a5 b5.
Definition set_eqb (a b : bytes * nat * bytes * list bytes) : bool :=
  let '(a1, a2, a3, a4) := a in let '(b1, b2, b3, b4) := b in
  bytes_eqb a1 b1 && (a2 =? b2) && bytes_eqb a3 b3 && lbytes_eqb a4 b4.
Definition outfile_eqb (a b : option (bytes * bool)) : bool :=
  match a, b with
  | None, None => true
  | Some (p, x), Some (p', x') => bytes_eqb p p' && Bool.eqb x x'
  | _, _ => false
  end.
Definition obs_query_eqb (a b : obs_query) : bool :=
  let '(s, t, w, e, g, o, r, k, i, l, f, lf) := a in
  let '(s', t', w', e', g', o', r', k', i', l', f', lf') := b in
  list_eqb sel_eqb s s' && bytes_eqb t t' && list_eqb where_eqb w w' && list_eqb set_eqb e e'
  && lbytes_eqb g g' && bytes_eqb o o' && Bool.eqb r r' && bytes_eqb k k' && (i =? i')%Z && (l =? l')%Z
  && outfile_eqb f f' && bytes_eqb lf lf'.

Fixpoint tab_find {V} (t : list (bytes * V)) (k : bytes) : option V :=
  match t with [] => None | (k', v) :: r => if bytes_eqb k k' then Some v else tab_find r k end.

(* outcome: 0 = (nil, nil), 1 = error, 2 = query, 3 = panic *)
Definition query_case := (list (bytes * bool) * list (bytes * option Z) * bytes * nat * option obs_query)%type.
Definition query_model (c : query_case) : nat * option obs_query :=
  let '(ft, it, text, _, _) := c in
  match new_query (fun s => match tab_find ft s with Some b => b | None => false end)
                  (fun s => match tab_find it s with Some o => o | None => None end) text with
  | None => (0, None)
  | Some RErr => (1, None)
  | Some (ROk q) => (2, Some (proj_query q))
  | Some RPanic => (3, None)
  end.
Definition query_agree (c : query_case) : bool :=
  let '(_, _, _, code, obs) := c in
  let '(mc, mq) := query_model c in
  (mc =? code) && match mq, obs with
                  | Some a, Some b => obs_query_eqb a b
                  | None, None => true
                  | _, _ => false
                  end.
