(* C13 — the read limiter (internal/server/handlers/readcommand.go: read): a buffered channel used
   as a counting semaphore, shared by all sessions of a server.  Executable definitions only. *)
From DT Require Import Lib.Bytes.

Inductive phase := PIdle | PWaiting | PHolding | PDone.
Definition phase_eqb (a b : phase) : bool :=
  match a, b with PIdle, PIdle | PWaiting, PWaiting | PHolding, PHolding | PDone, PDone => true | _, _ => false end.

Record lst := { tokens : nat; ph : nat -> phase }.
Definition linit : lst := {| tokens := 0; ph := fun _ => PIdle |}.
Definition setph (f : nat -> phase) (i : nat) (p : phase) : nat -> phase := fun x => if x =? i then p else f x.

Inductive lev :=
| LStart (i : nat)           (* a read command reaches the limiter *)
| LAcquire (i : nat)         (* its send on the channel succeeds *)
| LCancelWaiting (i : nat)   (* its context is cancelled while it waits *)
| LFinish (i : nat).         (* a holder's read ends (end of file, or its session is cancelled) *)

(* [fixed] = the deferred release is installed after the acquisition.  In the pinned code it is
   installed before: a cancelled waiter runs "select { case <-limiter: default: }" and takes a
   token if one is there - somebody else's. *)
Definition lstep (fixed : bool) (cap : nat) (s : lst) (e : lev) : option lst :=
  match e with
  | LStart i => match ph s i with PIdle => Some {| tokens := tokens s; ph := setph (ph s) i PWaiting |} | _ => None end
  | LAcquire i =>
    match ph s i with
    | PWaiting => if tokens s <? cap then Some {| tokens := S (tokens s); ph := setph (ph s) i PHolding |} else None
    | _ => None
    end
  | LCancelWaiting i =>
    match ph s i with
    | PWaiting => Some {| tokens := if fixed then tokens s else tokens s - 1; ph := setph (ph s) i PDone |}
    | _ => None
    end
  | LFinish i =>
    match ph s i with
    | PHolding => Some {| tokens := tokens s - 1; ph := setph (ph s) i PDone |}
    | _ => None
    end
  end.

Fixpoint lrun (fixed : bool) (cap : nat) (s : lst) (es : list lev) : option lst :=
  match es with [] => Some s | e :: r => match lstep fixed cap s e with Some s' => lrun fixed cap s' r | None => None end end.

(* number of holders among readers 0..n-1 *)
Definition holders (s : lst) (n : nat) : nat := length (filter (fun i => phase_eqb (ph s i) PHolding) (seq 0 n)).

(* ---- what the harness observes at quiescence after each of its events (start i / stop i):
   every waiter that can acquire has done so, hence tokens = min cap (live readers) ---- *)
Definition obs_step (live : list nat) (ev : bool * nat) : list nat :=
  let '(is_start, i) := ev in
  if is_start then (if existsb (Nat.eqb i) live then live else i :: live)
  else filter (fun x => negb (x =? i)) live.
Fixpoint expected (cap : nat) (live : list nat) (evs : list (bool * nat)) : list nat :=
  match evs with
  | [] => []
  | e :: r => let live' := obs_step live e in Nat.min cap (length live') :: expected cap live' r
  end.
Fixpoint lives (live : list nat) (evs : list (bool * nat)) : list (list nat) :=
  match evs with [] => [] | e :: r => let live' := obs_step live e in live' :: lives live' r end.
Definition lim_case := (nat * list (bool * nat) * list (nat * list nat))%type.   (* cap, events, observed (tokens, open) *)
Definition lim_agree (c : lim_case) : bool :=
  let '(cap, evs, obs) := c in
  nat_list_eqb (map fst obs) (expected cap [] evs)
  && forallb (fun p => let '((tok, open), live) := p in
                       (length open =? tok) && forallb (fun i => existsb (Nat.eqb i) live) open)
             (combine obs (lives [] evs)).
