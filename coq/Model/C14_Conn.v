(* C14 — connection slots (internal/server/server.go: listenerLoop, handleConnection,
   handleRequests; internal/server/stats.go).  Executable definitions only. *)
From DT Require Import Lib.Bytes.

(* ---- repaired accounting: the slot is reserved (check and increment under the mutex) when
   the connection is accepted and released when handleConnection returns, whatever happened in
   between ---- *)
Record cst := { count : Z; opened : list nat }.      (* reported counter; connections being served *)
Definition cinit : cst := {| count := 0; opened := [] |}.
Inductive cev :=
| CAccept (c : nat)      (* a TCP connection arrives; let in iff a slot is free *)
| CEnd (c : nat).        (* a served connection ends: failed handshake, no channel, normal, abrupt *)
Definition mem_nat (c : nat) (l : list nat) : bool := existsb (Nat.eqb c) l.
Definition cstep (max : Z) (s : cst) (e : cev) : cst * bool :=
  match e with
  | CAccept c =>
    if mem_nat c (opened s) then (s, false)
    else if (count s <? max)%Z then ({| count := count s + 1; opened := c :: opened s |}, true)
    else (s, false)                                       (* refused: closed at once *)
  | CEnd c =>
    if mem_nat c (opened s) then ({| count := count s - 1; opened := filter (fun x => negb (x =? c)) (opened s) |}, true)
    else (s, false)
  end.
Fixpoint crun (max : Z) (s : cst) (es : list cev) : cst :=
  match es with [] => s | e :: r => crun max (fst (cstep max s e)) r end.

(* ---- the pinned accounting, for the refutations: the limit is only checked at accept time,
   the counter is incremented after a successful handshake and decremented once per "shell"
   request when the connection closes ---- *)
Record pst := { pcount : Z; pconns : list (nat * (bool * nat)) }.   (* id -> (handshake done, shell requests) *)
Inductive pev := PAccept (c : nat) | PHandshakeOK (c : nat) | PShell (c : nat) | PClose (c : nat).
Fixpoint plookup (c : nat) (l : list (nat * (bool * nat))) : option (bool * nat) :=
  match l with [] => None | (k, v) :: r => if k =? c then Some v else plookup c r end.
Definition pset (c : nat) (v : bool * nat) (l : list (nat * (bool * nat))) := (c, v) :: filter (fun p => negb (fst p =? c)) l.
Definition pstep (max : Z) (s : pst) (e : pev) : pst :=
  match e with
  | PAccept c => if (pcount s <? max)%Z then {| pcount := pcount s; pconns := pset c (false, 0) (pconns s) |} else s
  | PHandshakeOK c => match plookup c (pconns s) with
                      | Some (false, n) => {| pcount := pcount s + 1; pconns := pset c (true, n) (pconns s) |}
                      | _ => s end
  | PShell c => match plookup c (pconns s) with
                | Some (true, n) => {| pcount := pcount s; pconns := pset c (true, S n) (pconns s) |}
                | _ => s end
  | PClose c => match plookup c (pconns s) with
                | Some (_, n) => {| pcount := pcount s - Z.of_nat n; pconns := filter (fun p => negb (fst p =? c)) (pconns s) |}
                | None => s end
  end.
Definition prun (max : Z) (es : list pev) : pst := fold_left (pstep max) es {| pcount := 0; pconns := [] |}.

(* ---- case runner: the harness' history as accept/end events with what it observed ---- *)
Definition conn_case := (Z * list (bool * nat * bool * Z))%type.  (* max; (is_accept, id, observed accepted/ended, observed count after) *)
Fixpoint conn_check (max : Z) (s : cst) (evs : list (bool * nat * bool * Z)) : bool :=
  match evs with
  | [] => true
  | (is_acc, c, obs_ok, obs_count) :: r =>
    let '(s', ok) := cstep max s (if is_acc then CAccept c else CEnd c) in
    Bool.eqb ok obs_ok && (count s' =? obs_count)%Z && conn_check max s' r
  end.
Definition conn_agree (c : conn_case) : bool := conn_check (fst c) cinit (snd c).
