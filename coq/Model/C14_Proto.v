(* C14 — what ends a served connection (internal/server/server.go: handleConnection, handleChannel,
   handleRequests).  The slot of C14_Conn is held from accept until handleConnection returns, i.e.
   until the SSH connection is closed - by the client, by a failed handshake, by the handler's
   terminate(), or by the server kicking out a client that sends anything but a "shell" request.
   Executable definitions only. *)
From DT Require Import Lib.Bytes.

Inductive sev :=
| SAuthFail                      (* handshake / authentication fails *)
| SAuthOk                        (* handshake done *)
| SChan (session : bool)         (* channel-open: type "session" is accepted, anything else rejected *)
| SReq (shell : bool)            (* a request on an accepted channel: "shell" starts a handler, anything else is refused *)
| SHandlerDone                   (* a handler finishes (or its copy loops break): terminate() closes the connection *)
| SClientClose.                  (* the client closes / resets the connection *)

Inductive phase := PHandshake | PServing (chans handlers : nat) | PEnded.

Definition sstep (p : phase) (e : sev) : phase :=
  match p, e with
  | PEnded, _ => PEnded
  | _, SClientClose => PEnded
  | PHandshake, SAuthFail => PEnded
  | PHandshake, SAuthOk => PServing 0 0
  | PHandshake, _ => PHandshake
  | PServing c h, SChan true => PServing (S c) h
  | PServing c h, SChan false => PServing c h                     (* rejected; the connection stays *)
  | PServing c h, SReq true => match c with 0 => PServing c h | _ => PServing c (S h) end
  | PServing c h, SReq false => match c with 0 => PServing c h | _ => PEnded end   (* "Closing SSH connection as unknown request received" *)
  | PServing c h, SHandlerDone => match h with 0 => PServing c h | _ => PEnded end
  | PServing c h, _ => PServing c h
  end.
Definition srun (es : list sev) : phase := fold_left sstep es PHandshake.
Definition holds_slot (p : phase) : bool := match p with PEnded => false | _ => true end.

(* case runner: what a client kind of the harness does, and whether its connection was still up afterwards *)
Definition proto_case := (list sev * bool)%type.
Definition proto_agree (c : proto_case) : bool := Bool.eqb (holds_slot (srun (fst c))) (snd c).
