(* C15 — the mapreduce outfile writers as sequences of file-system operations
   (internal/mapr/groupsetresult.go: writeQueryFile, WriteResult, getOutfileFD,
   resultWriteUnformatted, resultWriteUnformattedHeader).  Executable definitions only.
   Every fd.WriteString is one Write operation; a crash (SIGKILL) leaves the file system in the
   state after some prefix of the operations. *)
From DT Require Import Lib.Bytes.

Inductive path := POut | POutTmp | PQuery | PQueryTmp.
Definition path_eqb (a b : path) : bool :=
  match a, b with POut, POut | POutTmp, POutTmp | PQuery, PQuery | PQueryTmp, PQueryTmp => true | _, _ => false end.

Inductive fsop :=
| OpenTrunc (p : path)            (* O_CREATE|O_WRONLY|O_TRUNC *)
| OpenAppend (p : path)           (* O_CREATE|O_WRONLY|O_APPEND *)
| Write (p : path) (b : bytes)    (* appended at the end (both open modes write sequentially) *)
| Rename (a b : path).

Definition fs := path -> option bytes.
Definition fs_set (f : fs) (p : path) (v : option bytes) : fs := fun q => if path_eqb q p then v else f q.
Definition apply_op (f : fs) (o : fsop) : fs :=
  match o with
  | OpenTrunc p => fs_set f p (Some [])
  | OpenAppend p => match f p with Some _ => f | None => fs_set f p (Some []) end
  | Write p b => match f p with Some c => fs_set f p (Some (c ++ b)) | None => f end
  | Rename a b => match f a with Some c => fs_set (fs_set f b (Some c)) a None | None => f end
  end.
Definition apply_ops (f : fs) (ops : list fsop) : fs := fold_left apply_op ops f.
(* the state a kill after n operations leaves behind *)
Definition crash_after (f : fs) (ops : list fsop) (n : nat) : fs := apply_ops f (firstn n ops).

Definition comma : bytes := [x2c].
Definition nlc : bytes := [x0a].
(* one field-by-field line: v1 , v2 , ... vn \n   as separate writes *)
Fixpoint line_writes (p : path) (vals : list bytes) : list fsop :=
  match vals with
  | [] => [Write p nlc]
  | [v] => [Write p v; Write p nlc]
  | v :: r => Write p v :: Write p comma :: line_writes p r
  end.
Fixpoint line_bytes (vals : list bytes) : bytes :=
  match vals with
  | [] => nlc
  | [v] => v ++ nlc
  | v :: r => v ++ comma ++ line_bytes r
  end.
Definition rows_writes (p : path) (rows : list (list bytes)) : list fsop := flat_map (line_writes p) rows.
Definition rows_bytes (rows : list (list bytes)) : bytes := flat_map line_bytes rows.

Definition query_ops (q : bytes) : list fsop := [OpenTrunc PQueryTmp; Write PQueryTmp q; Rename PQueryTmp PQuery].

(* WriteResult.  [header_needed] is what the Stat of the outfile decides in append mode (absent or
   size 0); it is recomputed from the file system by [write_result]. *)
Definition result_ops (append final : bool) (header_needed : bool) (header : list bytes) (rows : list (list bytes)) : list fsop :=
  if append then
    OpenAppend POut :: (if header_needed then line_writes POut header else []) ++ rows_writes POut rows
  else
    OpenTrunc POutTmp :: line_writes POutTmp header ++ rows_writes POutTmp rows
    ++ (if final then [Rename POutTmp POut] else []).

Definition header_needed (f : fs) : bool := match f POut with Some (_ :: _) => false | _ => true end.
Definition write_result (f : fs) (q : bytes) (append final : bool) (header : list bytes) (rows : list (list bytes)) : list fsop :=
  query_ops q ++ result_ops append final (if append then header_needed (apply_ops f (query_ops q)) else true) header rows.

(* the complete result file of a non-append run *)
Definition complete (header : list bytes) (rows : list (list bytes)) : bytes := line_bytes header ++ rows_bytes rows.

(* case runner: kill point k of one WriteResult on a given initial outfile / tmp content *)
Definition out_case := (option bytes * option bytes * bytes * bool * bool * list bytes * list (list bytes) * nat
                        * option bytes * option bytes * option bytes)%type.
Definition opt_bytes_eqb (a b : option bytes) : bool :=
  match a, b with None, None => true | Some x, Some y => bytes_eqb x y | _, _ => false end.
Definition out_agree (c : out_case) : bool :=
  let '(out0, tmp0, q, append, final, header, rows, k, obs_out, obs_tmp, obs_query) := c in
  let f0 : fs := fun p => match p with POut => out0 | POutTmp => tmp0 | _ => None end in
  let f := crash_after f0 (write_result f0 q append final header rows) k in
  opt_bytes_eqb (f POut) obs_out && opt_bytes_eqb (f POutTmp) obs_tmp && opt_bytes_eqb (f PQuery) obs_query.

(* the query text contains the (per run) directory: the check compares the .query file only as
   absent / present, the outfile and its .tmp byte for byte *)
Definition out_agree_q (c : out_case) : bool :=
  let '(out0, tmp0, q, append, final, header, rows, k, obs_out, obs_tmp, obs_query) := c in
  let f0 : fs := fun p => match p with POut => out0 | POutTmp => tmp0 | _ => None end in
  let f := crash_after f0 (write_result f0 q append final header rows) k in
  opt_bytes_eqb (f POut) obs_out && opt_bytes_eqb (f POutTmp) obs_tmp
  && (match obs_query with None => 3 <=? 2 | Some _ => true end || (k <? 3)).
