(* C16 — the mapreduce client's handling of AGGREGATE records (clients/handlers/maprhandler.go:
   Write, handleAggregateMessage; mapr/client/aggregate.go: Aggregate, makeFields): which records are
   accepted, which are refused with which logged error; every Go index is a checked operation (APanic).
   strconv.Atoi is modelled (optional sign, decimal digits, int64 range).  Executable definitions only. *)
From DT Require Import Lib.Bytes Lib.Split Gen.Consts Model.C16_Color.

(* strings.Split / SplitN with a multi-byte separator *)
Fixpoint cut_seq_fuel (fuel : nat) (sep cur s : bytes) : option (bytes * bytes) :=
  match fuel with
  | 0 => None
  | S f => match s with
           | [] => None
           | c :: r => if bprefix sep s then Some (rev' cur, skipn (length sep) s) else cut_seq_fuel f sep (c :: cur) r
           end
  end.
Definition cut_seq (sep s : bytes) : option (bytes * bytes) := cut_seq_fuel (S (length s)) sep [] s.
Fixpoint split_seq_fuel (fuel : nat) (sep s : bytes) : list bytes :=
  match fuel with
  | 0 => [s]
  | S f => match cut_seq sep s with
           | Some (a, rest) => a :: split_seq_fuel f sep rest
           | None => [s]
           end
  end.
Definition split_seq (sep s : bytes) : list bytes := split_seq_fuel (S (length s)) sep s.

(* strconv.Atoi *)
Definition digit_val (c : byte) : option Z :=
  let n := Z.of_N (Coq.Strings.Byte.to_N c) in if (48 <=? n)%Z && (n <=? 57)%Z then Some (n - 48)%Z else None.
Fixpoint digits_val (acc : Z) (s : bytes) : option Z :=
  match s with [] => Some acc | c :: r => match digit_val c with Some d => digits_val (acc * 10 + d) r | None => None end end.
Definition go_atoi (s : bytes) : option Z :=
  let '(neg, body) := match s with
                      | c :: r => if beqb c x2d then (true, r) else if beqb c x2b then (false, r) else (false, s)
                      | [] => (false, [])
                      end in
  match body with
  | [] => None
  | _ => match digits_val 0 body with
         | Some v => let z := if neg then (- v)%Z else v in
                     if (- 9223372036854775808 <=? z)%Z && (z <=? 9223372036854775807)%Z then Some z else None
         | None => None
         end
  end.

Inductive aggres :=
| AOk (key : bytes) (samples : Z) (fields : list (bytes * bytes))
| AErrParts            (* "expected 3 parts" *)
| AErrNoData           (* "aggregate message without any real data" *)
| AErrCount            (* "unable to parse sample count" *)
| APanic.

(* makeFields: parts without the key/value delimiter are skipped *)
Fixpoint make_fields (parts : list bytes) : list (bytes * bytes) :=
  match parts with
  | [] => []
  | p :: r => match cut_seq c_aggregate_kv_delimiter p with Some kv => kv :: make_fields r | None => make_fields r end
  end.
(* client.Aggregate.Aggregate *)
Definition client_aggregate (payload : bytes) : aggres :=
  let parts := split_seq c_aggregate_delimiter payload in
  if length parts <? 4 then AErrNoData
  else match nth_error parts 0, nth_error parts 1 with
       | Some key, Some cnt =>
         match go_atoi cnt with
         | Some n => AOk key n (make_fields (skipn 2 parts))
         | None => AErrCount
         end
       | _, _ => APanic
       end.
(* handleAggregateMessage: strings.SplitN(message, "|", 3) *)
Definition splitn3 (s : bytes) : list bytes :=
  match splitn2 x7c s with
  | Some (a, r) => match splitn2 x7c r with Some (b, c) => [a; b; c] | None => [a; r] end
  | None => [s]
  end.
Definition handle_aggregate (msg : bytes) : aggres :=
  let parts := splitn3 msg in
  if negb (length parts =? 3) then AErrParts
  else match nth_error parts 2 with Some p => client_aggregate p | None => APanic end.

(* the messages MaprHandler.Write cuts out of a byte stream (newlines swallowed) and the aggregate ones among them *)
Fixpoint mapr_messages (buf : bytes) (s : bytes) : list bytes :=
  match s with
  | [] => []
  | c :: r => if beqb c nlb then mapr_messages buf r
              else if beqb c delimb then rev' buf :: mapr_messages [] r
              else mapr_messages (c :: buf) r
  end.
Definition is_aggregate (m : bytes) : bool := match m with c :: _ => beqb c x41 | [] => false end.
Definition stream_results (s : bytes) : list aggres := map handle_aggregate (filter is_aggregate (mapr_messages [] s)).

(* case runner: per session the streams of its handlers and the numbers of logged refusals of each kind *)
Definition count_res (f : aggres -> bool) (l : list aggres) : nat := length (filter f l).
Definition aggr_case := (list bytes * (nat * nat * nat) * bool)%type.    (* streams; observed: 3-parts, no-data, count errors; panicked *)
Definition aggr_agree (c : aggr_case) : bool :=
  let '(streams, (n3, nd, nc), panicked) := c in
  let rs := flat_map stream_results streams in
  if existsb (fun r => match r with APanic => true | _ => false end) rs then panicked
  else negb panicked
       && (count_res (fun r => match r with AErrParts => true | _ => false end) rs =? n3)
       && (count_res (fun r => match r with AErrNoData => true | _ => false end) rs =? nd)
       && (count_res (fun r => match r with AErrCount => true | _ => false end) rs =? nc).
