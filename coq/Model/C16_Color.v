(* C16 — colouring of client output (internal/color/brush/brush.go, internal/color/paint.go) and
   the client handlers' Write state machines (clients/handlers/{base,mapr,health}handler.go).
   Executable definitions only; positional field access is a checked operation. *)
From DT Require Import Lib.Bytes Lib.Split Gen.Consts.

Inductive seg := Code (c : bytes) | Text (t : bytes).
Inductive cres := COk (l : list seg) | CPanic.

Definition esc : byte := x1b.
Definition nlb : byte := x0a.
Definition bar : byte := x7c.

(* any complete SGR sequence stands for a palette entry: ESC [ digits m *)
Definition code0 : bytes := [esc; x5b; x30; x6d].

(* color.PaintWithAttr: fg bg [attr] trimmed [reset] bgDefault fgDefault, then the trimmed '\n' *)
Definition trim_nl (t : bytes) : bytes * bool :=
  match rev' t with
  | c :: r => if beqb c nlb then (rev' r, true) else (t, false)
  | [] => (t, false)
  end.
Definition paint (t : bytes) : list seg :=
  let '(body, nl) := trim_nl t in
  [Code code0; Text body; Code code0] ++ (if nl then [Text [nlb]] else []).

(* strings.SplitN(line, "|", n) *)
Fixpoint splitn (n : nat) (s : bytes) : list bytes :=
  match n with
  | 0 => []
  | 1 => [s]
  | S k => match splitn2 bar s with
           | Some (a, rest) => a :: splitn k rest
           | None => [s]
           end
  end.

Definition paint_fields (fs : list bytes) : list seg :=
  (fix go (l : list bytes) : list seg :=
     match l with
     | [] => []
     | [f] => paint f
     | f :: r => paint f ++ paint [bar] ++ go r
     end) fs.

(* brush.Colorfy.  [fixed] = the repaired painters (fewer fields than the record kind needs:
   default paint); with fixed = false the positional accesses of the pinned tree panic. *)
Definition colorfy (fixed : bool) (line : bytes) : cres :=
  let need := if bprefix (B"REMOTE") line then 6
              else if bprefix (B"CLIENT") line then 3
              else if bprefix (B"SERVER") line then 3 else 0 in
  if need =? 0 then COk (paint line)
  else let fs := splitn need line in
       if length fs =? need then COk (paint_fields fs)
       else if fixed then COk (paint line) else CPanic.

Fixpoint texts (l : list seg) : bytes :=
  match l with [] => [] | Text t :: r => t ++ texts r | Code _ :: r => texts r end.
Fixpoint flatten (l : list seg) : bytes :=
  match l with [] => [] | Text t :: r => t ++ flatten r | Code c :: r => c ++ flatten r end.

(* ---- removing ANSI SGR sequences: ESC '[' (digit | ';')* 'm', scanned left to right ---- *)
Definition is_param (c : byte) : bool :=
  let n := Coq.Strings.Byte.to_N c in ((48 <=? n)%N && (n <=? 57)%N) || beqb c x3b.
(* after "ESC [": skip parameters; Some rest if an 'm' closes the sequence *)
Fixpoint sgr_tail (s : bytes) : option bytes :=
  match s with
  | [] => None
  | c :: r => if beqb c x6d then Some r else if is_param c then sgr_tail r else None
  end.
Fixpoint strip_fuel (fuel : nat) (s : bytes) : bytes :=
  match fuel with
  | 0 => s
  | S f =>
    match s with
    | [] => []
    | c :: r =>
      if beqb c esc then
        match r with
        | d :: r' => if beqb d x5b then match sgr_tail r' with Some rest => strip_fuel f rest | None => c :: strip_fuel f r end
                     else c :: strip_fuel f r
        | [] => [c]
        end
      else c :: strip_fuel f r
    end
  end.
Definition strip_sgr (s : bytes) : bytes := strip_fuel (S (length s)) s.

(* ---- client handlers: Write state machines (receive buffer most recent first) ---- *)
Definition delimb : byte := byte_of_N (Z.to_N c_message_delimiter).
Inductive hres := HOk (printed : list bytes) (hidden : list bytes) | HPanic.

(* ClientHandler.Write / handleMessage: returns printed messages and hidden messages *)
Fixpoint base_write (buf : bytes) (s : bytes) (pr hid : list bytes) : bytes * list bytes * list bytes :=
  let emit m pr hid := match m with c :: _ => if beqb c x2e then (pr, m :: hid) else (m :: pr, hid) | [] => (m :: pr, hid) end in
  match s with
  | [] => (buf, rev' pr, rev' hid)
  | c :: r =>
    if beqb c nlb then let '(p, h) := emit (rev' (c :: buf)) pr hid in base_write [] r p h
    else if beqb c delimb then let '(p, h) := emit (rev' buf) pr hid in base_write [] r p h
    else base_write (c :: buf) r pr hid
  end.

(* MaprHandler.Write: newlines are swallowed and remembered; message[0] on every delimiter.
   [fixed] = with the length check. Returns (panicked?, non-aggregate messages handed on). *)
Fixpoint mapr_write (fixed : bool) (buf : bytes) (nl : bool) (s : bytes) (out : list bytes) : option (list bytes) :=
  match s with
  | [] => Some (rev' out)
  | c :: r =>
    if beqb c nlb then mapr_write fixed buf true r out
    else if beqb c delimb then
      let m := rev' buf in
      match m with
      | [] => if fixed then mapr_write fixed [] false r ((if nl then [nlb] else []) :: out) else None
      | c0 :: _ => if beqb c0 x41 then mapr_write fixed [] false r out
                   else mapr_write fixed [] false r ((if nl then m ++ [nlb] else m) :: out)
      end
    else mapr_write fixed (c :: buf) nl r out
  end.

(* case runners *)
Definition color_case := (bytes * bool * bytes)%type.       (* message, implementation panicked?, coloured output *)
Definition color_agree (c : color_case) : bool :=
  let '(m, panicked, coloured) := c in
  match colorfy true m with
  | CPanic => panicked
  | COk segs => negb panicked && bytes_eqb (strip_sgr coloured) (strip_sgr (flatten segs))
                && bytes_eqb (texts segs) m
  end.
Definition mapr_case := (bytes * bool * list bytes)%type.    (* stream, panicked?, messages handed to handleMessage *)
Definition mapr_agree (c : mapr_case) : bool :=
  let '(s, panicked, msgs) := c in
  match mapr_write true [] false s [] with
  | None => panicked
  | Some out => negb panicked && lbytes_eqb out msgs
  end.
