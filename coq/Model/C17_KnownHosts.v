(* C17 — host key trust (internal/ssh/client/knownhostscallback.go: Wrap, promptAddHosts,
   trustHosts; internal/io/prompt/prompt.go: Ask, answer).  Executable definitions only.
   golang.org/x/crypto/ssh/knownhosts (matching, hashing, Normalize, Line) is an oracle: the
   verdict for a contacted host and the normalised addresses / entry lines are case data. *)
From DT Require Import Lib.Bytes Lib.Split Model.C18_Discovery.

(* ---- the prompt: what the user types, line by line ---- *)
Inductive decision := Proceed | Refuse | Blocked.     (* Blocked: the prompt keeps asking (answers ran out) *)
Inductive ans := AYes | AAll | ANo | ADetails | AOther.
Definition classify_answer (s : bytes) : ans :=
  if bytes_eqb s (B"yes") || bytes_eqb s (B"y") then AYes
  else if bytes_eqb s (B"all") || bytes_eqb s (B"a") then AAll
  else if bytes_eqb s (B"no") || bytes_eqb s (B"n") then ANo
  else if bytes_eqb s (B"details") || bytes_eqb s (B"d") then ADetails
  else AOther.
(* one batch of unknown hosts: returns the decision, whether trust-all is set afterwards, and the
   answers left for later batches *)
Fixpoint ask (answers : list bytes) : decision * bool * list bytes :=
  match answers with
  | [] => (Blocked, false, [])
  | a :: r => match classify_answer a with
              | AYes => (Proceed, false, r)
              | AAll => (Proceed, true, r)
              | ANo => (Refuse, false, r)
              | ADetails | AOther => ask r
              end
  end.
Definition batch (trust_all : bool) (answers : list bytes) : decision * bool * list bytes :=
  if trust_all then (Proceed, true, answers) else ask answers.
(* Wrap(): known key = proceed without asking *)
Definition host_decision (known : bool) (batch_decision : decision) : decision :=
  if known then Proceed else batch_decision.

(* ---- trustHosts: the rewritten known-hosts file ---- *)
(* first space-separated field of a line *)
Definition first_field (l : bytes) : bytes := match splitn2 x20 l with Some (a, _) => a | None => l end.
Definition keep_line (addresses : list bytes) (l : bytes) : bool := negb (existsb (bytes_eqb (first_field l)) addresses).
(* new entries (host line, ip line per trusted host) first, then every old line whose first field is
   not one of the newly trusted (normalised) addresses *)
Definition rewrite (new_entries : list bytes) (addresses : list bytes) (old_file : bytes) : list bytes :=
  new_entries ++ filter (keep_line addresses) (file_lines old_file).
Definition render (ls : list bytes) : bytes := flat_map (fun l => l ++ [x0a]) ls.

(* case runner *)
Definition kh_case := (list bytes * list bytes * bytes * bytes)%type.     (* new entries, addresses, old file, observed new file *)
Definition kh_agree (c : kh_case) : bool :=
  let '(entries, addrs, old, obs) := c in bytes_eqb (render (rewrite entries addrs old)) obs.
Definition prompt_case := (bool * list bytes * nat)%type.                 (* trust_all, answers, observed: 0 proceed 1 refuse 2 blocked *)
Definition prompt_agree (c : prompt_case) : bool :=
  let '(ta, answers, obs) := c in
  match fst (fst (batch ta answers)) with Proceed => obs =? 0 | Refuse => obs =? 1 | Blocked => obs =? 2 end.

(* ---- a client process over time: a retrying client contacts its servers again ---- *)
(* a contact: server id, and whether its key matches the known-hosts file at that moment (oracle) *)
Definition contact := (nat * bool)%type.
(* trustAllHostsCh closed; untrustedHosts (recorded, never consulted by Wrap) *)
Record cstate := { st_trust_all : bool; st_refused : list nat }.
(* one round: the contacts of one batching window and what the user types during it; a new
   bufio.Reader per prompt: what was typed but not consumed is gone *)
Definition round (st : cstate) (answers : list bytes) (cs : list contact) : list decision * cstate :=
  if forallb snd cs then (map (fun _ => Proceed) cs, st)
  else let '(d, ta, _) := batch (st_trust_all st) answers in
       (map (fun c => host_decision (snd c) d) cs,
        {| st_trust_all := ta;
           st_refused := match d with
                         | Refuse => map fst (filter (fun c => negb (snd c)) cs) ++ st_refused st
                         | _ => st_refused st
                         end |}).
Fixpoint run (st : cstate) (h : list (list bytes * list contact)) : list (list decision) :=
  match h with
  | [] => []
  | (a, cs) :: r => let '(ds, st') := round st a cs in ds :: run st' r
  end.
Definition code (d : decision) : nat := match d with Proceed => 0 | Refuse => 1 | Blocked => 2 end.
Definition hist_case := (bool * list (list bytes * list contact) * list (list nat))%type.   (* trust_all, rounds, observed codes *)
Definition hist_agree (c : hist_case) : bool :=
  let '(ta, h, obs) := c in
  list_eqb (list_eqb Nat.eqb) (map (map code) (run {| st_trust_all := ta; st_refused := [] |} h)) obs.
