(* C17 — host key trust (internal/ssh/client/knownhostscallback.go: Wrap, promptAddHosts,
   trustHosts; internal/io/prompt/prompt.go: Ask, answer).  Executable definitions only.
   golang.org/x/crypto/ssh/knownhosts (matching, hashing, Normalize, Line) is an oracle: the
   verdict for a contacted host and the normalised addresses / entry lines are case data. *)
From DT Require Import Lib.Bytes Lib.Split Model.C18_Discovery.

(* ---- the prompt: what the user types, line by line ---- *)
Inductive decision := Proceed | Refuse | Blocked.     (* Blocked: the prompt keeps asking (answers ran out) *)
Inductive ans := AYes | AAll | ANo | ADetails | AOther.
Definition classify_answer (s : bytes) : ans :=
  if bytes_eqb s (B"yes") || bytes_eqb s (B"y") then AYes
  else if bytes_eqb s (B"all") || bytes_eqb s (B"a") then AAll
  else if bytes_eqb s (B"no") || bytes_eqb s (B"n") then ANo
  else if bytes_eqb s (B"details") || bytes_eqb s (B"d") then ADetails
  else AOther.
(* one batch of unknown hosts: returns the decision, whether trust-all is set afterwards, and the
   answers left for later batches *)
Fixpoint ask (answers : list bytes) : decision * bool * list bytes :=
  match answers with
  | [] => (Blocked, false, [])
  | a :: r => match classify_answer a with
              | AYes => (Proceed, false, r)
              | AAll => (Proceed, true, r)
              | ANo => (Refuse, false, r)
              | ADetails | AOther => ask r
              end
  end.
Definition batch (trust_all : bool) (answers : list bytes) : decision * bool * list bytes :=
  if trust_all then (Proceed, true, answers) else ask answers.
(* Wrap(): known key = proceed without asking *)
Definition host_decision (known : bool) (batch_decision : decision) : decision :=
  if known then Proceed else batch_decision.

(* ---- trustHosts: the rewritten known-hosts file ---- *)
(* first space-separated field of a line *)
Definition first_field (l : bytes) : bytes := match splitn2 x20 l with Some (a, _) => a | None => l end.
Definition keep_line (addresses : list bytes) (l : bytes) : bool := negb (existsb (bytes_eqb (first_field l)) addresses).
(* new entries (host line, ip line per trusted host) first, then every old line whose first field is
   not one of the newly trusted (normalised) addresses *)
Definition rewrite (new_entries : list bytes) (addresses : list bytes) (old_file : bytes) : list bytes :=
  new_entries ++ filter (keep_line addresses) (file_lines old_file).
Definition render (ls : list bytes) : bytes := flat_map (fun l => l ++ [x0a]) ls.

(* case runner *)
Definition kh_case := (list bytes * list bytes * bytes * bytes)%type.     (* new entries, addresses, old file, observed new file *)
Definition kh_agree (c : kh_case) : bool :=
  let '(entries, addrs, old, obs) := c in bytes_eqb (render (rewrite entries addrs old)) obs.
Definition prompt_case := (bool * list bytes * nat)%type.                 (* trust_all, answers, observed: 0 proceed 1 refuse 2 blocked *)
Definition prompt_agree (c : prompt_case) : bool :=
  let '(ta, answers, obs) := c in
  match fst (fst (batch ta answers)) with Proceed => obs =? 0 | Refuse => obs =? 1 | Blocked => obs =? 2 end.
