(* C18 — server discovery: source -> optional regex filter -> dedup -> shuffle.
   Executable definitions only (internal/discovery/{discovery,comma,file}.go). *)
From DT Require Import Lib.Bytes Lib.Split.
From Coq Require Import Sorting.Mergesort Orders.

Section Generic.
  Context {A : Type} (eqb : A -> A -> bool).

  Fixpoint mem (x : A) (l : list A) : bool :=
    match l with [] => false | y :: r => eqb x y || mem x r end.

  (* dedupList: keep first occurrences, in order (the Go code uses a map of seen entries) *)
  Fixpoint dedup_acc (seen : list A) (l : list A) : list A :=
    match l with
    | [] => []
    | x :: r => if mem x seen then dedup_acc seen r else x :: dedup_acc (x :: seen) r
    end.
  Definition dedup (l : list A) : list A := dedup_acc [] l.

  (* servers = append(servers[:i], servers[i+1:]...) ; None = index out of range (Go panics) *)
  Fixpoint remove_at (i : nat) (l : list A) {struct l} : option (A * list A) :=
    match l with
    | [] => None
    | x :: r =>
      match i with
      | 0 => Some (x, r)
      | S k => match remove_at k r with Some (y, r') => Some (y, x :: r') | None => None end
      end
    end.

  (* shuffleList: one round per element, round k draws idx_k = r.Intn(len(servers)).
     None = Go would have panicked (index out of range) or the index supply ran dry. *)
  Fixpoint shuffle (idxs : list nat) (l : list A) {struct idxs} : option (list A) :=
    match l with
    | [] => Some []
    | _ :: _ =>
      match idxs with
      | [] => None
      | i :: is' =>
        match remove_at i l with
        | None => None
        | Some (x, rest) => option_map (cons x) (shuffle is' rest)
        end
      end
    end.

  (* ServerList: d.regex == nil <-> flt = None *)
  Definition server_list (flt : option (A -> bool)) (idxs : list nat) (entries : list A) : option (list A) :=
    let l1 := match flt with Some m => filter m entries | None => entries end in
    shuffle idxs (dedup l1).
End Generic.

(* ---- the two built-in sources, over bytes ---- *)

Definition comma_split (s : bytes) : list bytes := split_on x2c [] s.

(* bufio.Scanner with ScanLines: split at \n, drop one trailing \r per line, a final line
   without newline counts when non-empty.  (Lines above 64 KiB make the scanner fail and the
   client exit; the generators stay below that and say so.) *)
Definition drop_cr_rev (cur : bytes) : bytes :=
  match cur with x0d :: r => rev' r | _ => rev' cur end.
Fixpoint scan_lines_acc (cur : bytes) (s : bytes) : list bytes :=
  match s with
  | [] => match cur with [] => [] | _ => [drop_cr_rev cur] end
  | c :: r => if beqb c x0a then drop_cr_rev cur :: scan_lines_acc [] r else scan_lines_acc (c :: cur) r
  end.
Definition file_lines (s : bytes) : list bytes := scan_lines_acc [] s.

(* ---- sorting for the comparison on projected observables (order is unspecified) ---- *)
Fixpoint bytes_leb (a b : bytes) : bool :=
  match a, b with
  | [], _ => true
  | _ :: _, [] => false
  | x :: a', y :: b' =>
    let nx := Coq.Strings.Byte.to_N x in let ny := Coq.Strings.Byte.to_N y in
    if (nx <? ny)%N then true else if (ny <? nx)%N then false else bytes_leb a' b'
  end.

Module BytesOrder <: TotalLeBool.
  Definition t := bytes.
  Definition leb := bytes_leb.
  Lemma leb_total : forall a b, leb a b = true \/ leb b a = true.
  Proof.
    induction a as [|x a IH]; intros [|y b]; simpl; auto.
    destruct (N.ltb_spec (Coq.Strings.Byte.to_N x) (Coq.Strings.Byte.to_N y)); auto.
    destruct (N.ltb_spec (Coq.Strings.Byte.to_N y) (Coq.Strings.Byte.to_N x)); auto.
  Qed.
End BytesOrder.
Module BytesSort := Sort BytesOrder.

(* Case runner used by the correspondence check: [kind] 0 = comma list, 1 = server file,
   2 = module (entries given, optional filter table: the match verdicts come from Go's regexp). *)
Definition zeros (n : nat) : list nat := repeat 0 n.

Fixpoint filter_tab {A} (l : list A) (tab : list bool) : list A :=
  match l, tab with
  | x :: r, b :: t => if b then x :: filter_tab r t else filter_tab r t
  | _, _ => []
  end.

Definition run_disc (kind : nat) (server : bytes) (entries : list bytes) (tab : option (list bool)) : list bytes :=
  let src := match kind with 0 => comma_split server | 1 => file_lines server | _ => entries end in
  let l1 := match tab with Some t => filter_tab src t | None => src end in
  match shuffle (zeros (length l1)) (dedup bytes_eqb l1) with
  | Some l => BytesSort.sort l
  | None => [B"<panic>"]
  end.

Definition disc_case := (nat * bytes * list bytes * option (list bool) * list bytes)%type.
Definition disc_agree (c : disc_case) : bool :=
  let '(kind, server, entries, tab, observed_sorted) := c in
  lbytes_eqb (run_disc kind server entries tab) observed_sorted.
