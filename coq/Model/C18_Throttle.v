(* C18 — contacting the servers: the connection throttle (clients/baseclient.go: throttleCh with
   ConnectionsPerCPU * NumCPU slots; clients/connectors/serverconnection.go: Start, dial, session).
   A connection takes a slot before it dials and gives it back when its session is established or
   when the dial goroutine ends, whichever comes first (throttlingDone).  Executable definitions only. *)
From DT Require Import Lib.Bytes.

Inductive cstat := Waiting | Dialing | Established | Ended.
Definition cstat_eqb (a b : cstat) : bool :=
  match a, b with Waiting, Waiting | Dialing, Dialing | Established, Established | Ended, Ended => true | _, _ => false end.

Record tstate := { conns : list cstat; free : nat }.
Definition tinit (n cap : nat) : tstate := {| conns := repeat Waiting n; free := cap |}.

Inductive tev :=
| Acquire (i : nat)       (* throttleCh <- struct{}{} succeeds: the connection starts dialling *)
| DialFail (i : nat)      (* dial / handshake / session error: the deferred release *)
| DialOk (i : nat)        (* session established: the slot is given back, the session runs on *)
| SessionEnd (i : nat).   (* an established session ends (nothing to give back: throttlingDone) *)

Fixpoint set_nth (l : list cstat) (i : nat) (v : cstat) : list cstat :=
  match l, i with
  | [], _ => []
  | _ :: r, 0 => v :: r
  | x :: r, S j => x :: set_nth r j v
  end.

Definition tstep (s : tstate) (e : tev) : option tstate :=
  match e with
  | Acquire i => match nth_error (conns s) i, free s with
                 | Some Waiting, S f => Some {| conns := set_nth (conns s) i Dialing; free := f |}
                 | _, _ => None
                 end
  | DialFail i => match nth_error (conns s) i with
                  | Some Dialing => Some {| conns := set_nth (conns s) i Ended; free := S (free s) |}
                  | _ => None
                  end
  | DialOk i => match nth_error (conns s) i with
                | Some Dialing => Some {| conns := set_nth (conns s) i Established; free := S (free s) |}
                | _ => None
                end
  | SessionEnd i => match nth_error (conns s) i with
                    | Some Established => Some {| conns := set_nth (conns s) i Ended; free := free s |}
                    | _ => None
                    end
  end.
Fixpoint trun (s : tstate) (es : list tev) : option tstate :=
  match es with [] => Some s | e :: r => match tstep s e with Some s' => trun s' r | None => None end end.

Definition count_stat (c : cstat) (l : list cstat) : nat := length (filter (cstat_eqb c) l).
(* the servers that have been dialled (a connection attempt was made) *)
Definition contacted (s : tstate) : nat := length (conns s) - count_stat Waiting (conns s).
