(* Client -> server command codec (C12) and the server's command decoding / dispatch with every
   Go index, slice and nil dereference as a checked operation (C10).  Executable definitions only.
   Code: internal/clients/{grep,cat,tail,mapr}client.go (makeCommands), config/args.go
   (SerializeOptions / DeserializeOptions), regex/regex.go (Serialize / Deserialize),
   clients/handlers/basehandler.go (SendMessage), server/handlers/basehandler.go (Write,
   handleCommand, handleProtocolVersion, handleBase64, handleAckCommand),
   server/handlers/serverhandler.go (handleUserCommand), readcommand.go (Start), mapcommand.go.
   Standard-library pieces are section variables (oracles): base64, strconv.Itoa/Atoi,
   regexp.Compile success, mapr.NewQuery success (the latter is modelled in C11). *)
From DT Require Import Lib.Bytes Lib.Split Gen.Consts.

Inductive flag := FDefault | FInvert | FNoop.
Definition flag_eqb (a b : flag) : bool :=
  match a, b with FDefault, FDefault | FInvert, FInvert | FNoop, FNoop => true | _, _ => false end.
Definition flag_str (f : flag) : bytes :=
  match f with FDefault => B"default" | FInvert => B"invert" | FNoop => B"noop" end.
Definition flag_of_str (s : bytes) : option flag :=
  if bytes_eqb s (B"default") then Some FDefault
  else if bytes_eqb s (B"invert") then Some FInvert
  else if bytes_eqb s (B"noop") then Some FNoop else None.

Definition sp : byte := x20.
Definition colon : byte := x3a.
Definition eqsign : byte := x3d.
Definition semicolon : byte := x3b.
Definition comma : byte := x2c.
Definition percent : byte := x25.

(* regex.New: the three no-op patterns become the Noop regex with an empty pattern *)
Definition is_noop_pat (p : bytes) : bool := bytes_eqb p [] || bytes_eqb p (B".") || bytes_eqb p (B".*").
Definition regex_new (p : bytes) (invert : bool) : flag * bytes :=
  if is_noop_pat p then (FNoop, []) else ((if invert then FInvert else FDefault), p).
(* Regex.Serialize *)
Definition regex_ser (r : flag * bytes) : bytes := B"regex:" ++ flag_str (fst r) ++ sp :: snd r.

Section Proto.
  Variables (b64enc : bytes -> bytes) (b64dec : bytes -> option bytes).
  Variables (itoa : Z -> bytes) (atoi : bytes -> option Z).
  Variable regex_compiles : bytes -> bool.
  Variable query_parses : bytes -> bool.      (* mapr.NewQuery returns a query and no error *)

  (* ---------------- client side ---------------- *)
  Record creq := { c_mode : bytes; c_quiet : bool; c_plain : bool; c_serverless : bool;
                   c_before : Z; c_after : Z; c_max : Z;
                   c_file : bytes; c_pattern : bytes; c_invert : bool }.

  (* SerializeOptions builds a Go map; iteration order is unspecified: [order] is any
     permutation of the option keys 0..5, applied to the options that are present *)
  Definition opt_kv (r : creq) (k : nat) : option (bytes * bytes) :=
    match k with
    | 0 => if c_quiet r then Some (B"quiet", B"true") else None
    | 1 => if c_plain r then Some (B"plain", B"true") else None
    | 2 => if c_serverless r then Some (B"serverless", B"true") else None
    | 3 => if (c_max r =? 0)%Z then None else Some (B"max", itoa (c_max r))
    | 4 => if (c_before r =? 0)%Z then None else Some (B"before", itoa (c_before r))
    | 5 => if (c_after r =? 0)%Z then None else Some (B"after", itoa (c_after r))
    | _ => None
    end.
  Fixpoint present_opts (r : creq) (order : list nat) : list (bytes * bytes) :=
    match order with
    | [] => []
    | k :: rest => match opt_kv r k with Some kv => kv :: present_opts r rest | None => present_opts r rest end
    end.
  Definition kv_str (kv : bytes * bytes) : bytes := fst kv ++ eqsign :: snd kv.
  Definition opts_ser (r : creq) (order : list nat) : bytes :=
    join_with colon (map kv_str (present_opts r order)).
  (* makeCommands of the grep / cat / tail clients: "%s:%s %s %s" *)
  Definition command (r : creq) (order : list nat) : bytes :=
    c_mode r ++ colon :: opts_ser r order ++ sp :: c_file r ++ sp :: regex_ser (regex_new (c_pattern r) (c_invert r)).
  (* SendMessage *)
  Definition wire (cmd : bytes) : bytes :=
    B"protocol " ++ c_protocol_compat ++ B" base64 " ++ b64enc cmd ++ [semicolon].

  (* ---------------- server side ---------------- *)
  (* session-level option state: handleOptions runs once per session *)
  Record sopts := { s_set : bool; s_quiet : bool; s_plain : bool; s_serverless : bool }.
  Definition sopts0 : sopts := {| s_set := false; s_quiet := false; s_plain := false; s_serverless := false |}.

  Inductive errk := EProto | EVersion | EBase64 | EOptions | ERegex | EArgs | EQuery | EUnknown | EAckArgs.

  Record rreq := { q_tail : bool; q_before : Z; q_after : Z; q_max : Z; q_file : bytes;
                   q_flags : list flag; q_pattern : bytes }.

  Inductive outcome :=
  | OErr (k : errk)                     (* an error / warning message goes to the session *)
  | ORead (r : rreq)                    (* a read command starts *)
  | OMap (q : bytes)                    (* an aggregation starts *)
  | OAck (close : bool)
  | OPanic.                             (* Go would have panicked: index / slice / nil deref *)

  Definition nth_b (l : list bytes) (n : nat) : option bytes := nth_error l n.

  (* regex.Deserialize *)
  Definition flags_of (flagsStr : bytes) : list flag :=
    match splitn2 colon flagsStr with
    | None => []
    | Some (_, fl) =>
      flat_map (fun s => match flag_of_str s with Some f => [f] | None => [] end) (split comma fl)
    end.
  Inductive rx := RxErr | RxOk (flags : list flag) (pat : bytes).
  Definition regex_deser (s : bytes) : rx :=
    match splitn2 sp s with
    | None => RxOk [FNoop] []
    | Some (flagsStr, pat) =>
      if negb (bprefix (B"regex") flagsStr) then RxErr
      else
        let fl := flags_of flagsStr in
        let fl := match fl with [] => [FDefault] | _ => fl end in
        if regex_compiles pat then RxOk fl pat else RxErr
    end.

  (* config.DeserializeOptions + setOption: returns the generic options and the context *)
  Definition optval (v : bytes) : option bytes :=
    if bprefix (B"base64%") v then
      match splitn2 percent v with Some (_, enc) => b64dec enc | None => None end
    else Some v.
  Fixpoint deser_opts (os : list bytes) (acc : list (bytes * bytes)) (b a m : Z)
    : option (list (bytes * bytes) * Z * Z * Z) :=
    match os with
    | [] => Some (acc, b, a, m)
    | o :: rest =>
      match splitn2 eqsign o with
      | None => None
      | Some (k, v0) =>
        match optval v0 with
        | None => None
        | Some v =>
          if bytes_eqb k (B"before") then
            match atoi v with
            | Some z => if (c_max_before_context <? z)%Z then None else deser_opts rest acc z a m   (* refused: too large *)
            | None => None
            end
          else if bytes_eqb k (B"after") then match atoi v with Some z => deser_opts rest acc b z m | None => None end
          else if bytes_eqb k (B"max") then match atoi v with Some z => deser_opts rest acc b a z | None => None end
          else deser_opts rest ((k, v) :: acc) b a m     (* options[key] = val: later wins *)
        end
      end
    end.
  Fixpoint lookup (k : bytes) (l : list (bytes * bytes)) : option bytes :=
    match l with [] => None | (k', v) :: r => if bytes_eqb k k' then Some v else lookup k r end.
  Definition is_true (o : option bytes) : bool := match o with Some v => bytes_eqb v (B"true") | None => false end.
  Definition apply_opts (st : sopts) (opts : list (bytes * bytes)) : sopts :=
    if s_set st then st
    else {| s_set := true; s_quiet := is_true (lookup (B"quiet") opts);
            s_plain := is_true (lookup (B"plain") opts); s_serverless := is_true (lookup (B"serverless") opts) |}.

  (* readCommand.Start with argc = len(args) *)
  Definition read_cmd (tail : bool) (b a m : Z) (args : list bytes) : outcome :=
    let argc := length args in
    let re := if 4 <=? argc then regex_deser (join_with sp (skipn 2 args)) else RxOk [FNoop] [] in
    match re with
    | RxErr => OErr ERegex
    | RxOk fl pat =>
      if argc <? 3 then OErr EArgs
      else match nth_b args 1 with
           | None => OPanic
           | Some file => ORead {| q_tail := tail; q_before := b; q_after := a; q_max := m;
                                   q_file := file; q_flags := fl; q_pattern := pat |}
           end
    end.

  Definition ack_cmd (args : list bytes) : outcome :=
    if length args <? 3 then OErr EAckArgs
    else match nth_b args 1, nth_b args 2 with
         | Some a1, Some a2 => OAck (bytes_eqb a1 (B"close") && bytes_eqb a2 (B"connection"))
         | _, _ => OPanic
         end.

  Definition dispatch (name : bytes) (b a m : Z) (args : list bytes) : outcome :=
    if bytes_eqb name (B"grep") || bytes_eqb name (B"cat") then read_cmd false b a m args
    else if bytes_eqb name (B"tail") then read_cmd true b a m args
    else if bytes_eqb name (B"map") then
      let q := join_with sp (skipn 1 args) in
      if query_parses q then OMap q else OErr EQuery
    else if bytes_eqb name (B".ack") then ack_cmd args
    else OErr EUnknown.

  (* handleCommand, first half: everything up to the command callback *)
  Inductive decoded :=
  | DErr (k : errk)                                   (* error message, callback not reached *)
  | DCall (name : bytes) (b a m : Z) (args : list bytes)
  | DPanic.

  Definition decode_command (st : sopts) (s : bytes) : sopts * decoded :=
    let args := split sp s in
    if (length args <=? 2) || negb (match nth_b args 0 with Some a0 => bytes_eqb a0 (B"protocol") | None => false end)
    then (st, DErr EProto)
    else match nth_b args 1 with
    | None => (st, DPanic)
    | Some ver =>
      if negb (bytes_eqb ver c_protocol_compat) then (st, DErr EVersion)
      else
        let args := skipn 2 args in
        if negb (length args =? 2) then (st, DErr EBase64)
        else match nth_b args 0, nth_b args 1 with
        | Some a0, Some payload =>
          if negb (bytes_eqb a0 (B"base64")) then (st, DErr EBase64)
          else match b64dec payload with
          | None => (st, DErr EBase64)
          | Some decoded =>
            let args := split sp decoded in
            match nth_b args 0 with
            | None => (st, DPanic)
            | Some a0 =>
              let parts := split colon a0 in
              match parts with
              | [] => (st, DPanic)
              | name :: popts =>
                match popts with
                | [] => (st, DCall name 0 0 0 args)
                | p1 :: _ =>
                  if match p1 with [] => true | _ => false end then (st, DCall name 0 0 0 args)
                  else match deser_opts popts [] 0 0 0 with
                       | None => (st, DErr EOptions)
                       | Some (opts, b, a, m) => (apply_opts st opts, DCall name b a m args)
                       end
                end
              end
            end
          end
        | _, _ => (st, DPanic)
        end
    end.

  Definition handle_command (st : sopts) (s : bytes) : sopts * outcome :=
    match decode_command st s with
    | (st', DErr k) => (st', OErr k)
    | (st', DCall name b a m args) => (st', dispatch name b a m args)
    | (st', DPanic) => (st', OPanic)
    end.

  (* Write: cut the byte stream at ';'.  Each handled command is recorded with the session
     option state after it and what the decoder handed to the callback. *)
  Fixpoint srv_write (st : sopts) (buf : bytes) (s : bytes) : sopts * bytes * list (sopts * decoded * outcome) :=
    match s with
    | [] => (st, buf, [])
    | c :: r =>
      if beqb c semicolon then
        let '(st1, d) := decode_command st (rev' buf) in
        let o := snd (handle_command st (rev' buf)) in
        let '(st2, buf2, os) := srv_write st1 [] r in (st2, buf2, (st1, d, o) :: os)
      else srv_write st (c :: buf) r
    end.
End Proto.

(* ---- instantiation with oracle tables supplied per case by the harness (Go's base64, strconv,
   regexp and mapr.NewQuery called directly) ---- *)
Fixpoint tab_get {V} (t : list (bytes * V)) (k : bytes) : option V :=
  match t with [] => None | (k', v) :: r => if bytes_eqb k k' then Some v else tab_get r k end.

Definition run_session (b64t : list (bytes * option bytes)) (atoit : list (bytes * option Z))
           (rxt qt : list (bytes * bool)) (stream : bytes) : list (sopts * decoded * outcome) :=
  snd (srv_write
         (fun x => match tab_get b64t x with Some o => o | None => None end)
         (fun x => match tab_get atoit x with Some o => o | None => None end)
         (fun x => match tab_get rxt x with Some b => b | None => false end)
         (fun x => match tab_get qt x with Some b => b | None => false end)
         sopts0 [] stream).

(* canonical projection compared with the implementation: for every command either
   (false, ...) = error before the callback, or (true, name, before, after, max, quiet, plain,
   serverless, args) *)
Definition proj_decoded (x : sopts * decoded * outcome) : option (bytes * (Z * Z * Z) * (bool * bool * bool) * list bytes) :=
  let '(st, d, _) := x in
  match d with
  | DCall name b a m args => Some (name, (b, a, m), (s_quiet st, s_plain st, s_serverless st), args)
  | _ => None
  end.
Definition is_panic (x : sopts * decoded * outcome) : bool :=
  match x with (_, DPanic, _) => true | (_, _, OPanic) => true | _ => false end.
(* dispatch-level projection for read commands: (tail, file, regex error, first flag, pattern) *)
Definition flag_code (f : flag) : nat := match f with FDefault => 1 | FInvert => 2 | FNoop => 3 end.
Definition proj_read (x : sopts * decoded * outcome) : option (bool * bytes * list nat * bytes) :=
  match x with
  | (_, _, ORead r) => Some (q_tail r, q_file r, map flag_code (q_flags r), q_pattern r)
  | _ => None
  end.

(* ---- case runner for the correspondence check ---- *)
Definition zzz_eqb (x y : Z * Z * Z) : bool :=
  let '(a, b, c) := x in let '(a', b', c') := y in (a =? a')%Z && (b =? b')%Z && (c =? c')%Z.
Definition bbb_eqb (x y : bool * bool * bool) : bool :=
  let '(a, b, c) := x in let '(a', b', c') := y in Bool.eqb a a' && Bool.eqb b b' && Bool.eqb c c'.
Definition dec_obs := (bytes * (Z * Z * Z) * (bool * bool * bool) * list bytes)%type.
Definition dec_obs_eqb (x y : dec_obs) : bool :=
  let '(n, z, b, a) := x in let '(n', z', b', a') := y in
  bytes_eqb n n' && zzz_eqb z z' && bbb_eqb b b' && lbytes_eqb a a'.
Definition read_obs := option (list nat * bytes).
Definition read_obs_eqb (x y : read_obs) : bool :=
  match x, y with
  | None, None => true
  | Some (f, p), Some (f', p') => nat_list_eqb f f' && bytes_eqb p p'
  | _, _ => false
  end.
Fixpoint filter_some {A} (l : list (option A)) : list A :=
  match l with [] => [] | Some x :: r => x :: filter_some r | None :: r => filter_some r end.

Definition codec_case :=
  (list (bytes * option bytes) * list (bytes * option Z) * list (bytes * bool) * list (bytes * bool)
   * bytes * list dec_obs * list read_obs * nat)%type.

Definition model_read (x : sopts * decoded * outcome) : option read_obs :=
  match x with
  | (_, DCall _ _ _ _ _, ORead r) => Some (Some (map flag_code (q_flags r), q_pattern r))
  | (_, DCall _ _ _ _ _, _) => Some None
  | _ => None
  end.

Definition codec_agree (c : codec_case) : bool :=
  let '(b64t, atoit, rxt, qt, stream, odec, oread, omsgs) := c in
  let rs := run_session b64t atoit rxt qt stream in
  let mdec := filter_some (map proj_decoded rs) in
  list_eqb dec_obs_eqb mdec odec
  && list_eqb read_obs_eqb (filter_some (map model_read rs)) oread
  && (length rs - length mdec =? omsgs)
  && forallb (fun x => negb (is_panic x)) rs.
