From DT Require Import Lib.Bytes Gen.Consts Model.C01_Cat.

Section Generic.
  Context {A : Type} (eqb : A -> A -> bool).
  Hypothesis eqb_ok : forall a b, eqb a b = true <-> a = b.
  Variables (nl delim dot : A).
  Hypothesis nl_delim : nl <> delim.
  Hypothesis dot_nl : dot <> nl.
  Hypothesis dot_delim : dot <> delim.

  Notation reader := (reader eqb nl).
  Notation cli_feed := (cli_feed eqb nl delim).
  Notation cli_feed_chunks := (cli_feed_chunks eqb nl delim).
  Notation hidden := (hidden eqb dot).
  Notation printed := (printed eqb dot).
  Notation frames := (frames delim).
  Notation insert_nl := (insert_nl eqb nl).
  Notation plain_safe := (plain_safe eqb nl delim dot).

  Lemma eqb_refl a : eqb a a = true. Proof. now apply eqb_ok. Qed.
  Lemma eqb_neq a b : a <> b -> eqb a b = false.
  Proof. intros H. destruct (eqb a b) eqn:E; [apply eqb_ok in E; contradiction|reflexivity]. Qed.
  Lemma eqb_false_neq a b : eqb a b = false -> a <> b.
  Proof. intros H ->. rewrite eqb_refl in H. discriminate. Qed.

  (* ---------- chunking invariance of the client splitter ---------- *)
  Lemma cli_feed_app : forall a buf b,
    cli_feed buf (a ++ b) =
    let '(b1, m1) := cli_feed buf a in let '(b2, m2) := cli_feed b1 b in (b2, m1 ++ m2).
  Proof.
    induction a as [|c a IH]; intros buf b; simpl.
    - destruct (cli_feed buf b); reflexivity.
    - destruct (eqb c nl).
      + rewrite IH. destruct (cli_feed [] a) as [b1 m1]. destruct (cli_feed b1 b); reflexivity.
      + destruct (eqb c delim).
        * rewrite IH. destruct (cli_feed [] a) as [b1 m1]. destruct (cli_feed b1 b); reflexivity.
        * apply IH.
  Qed.

  Lemma cli_feed_chunks_concat : forall chunks buf,
    cli_feed_chunks buf chunks = cli_feed buf (concat chunks).
  Proof.
    induction chunks as [|ch rest IH]; intros buf; simpl; [reflexivity|].
    rewrite cli_feed_app. destruct (cli_feed buf ch) as [b1 m1]. now rewrite IH.
  Qed.

  Lemma concat_chunk_by : forall cuts (s : list A), concat (chunk_by cuts s) = s.
  Proof.
    induction cuts as [|n r IH]; intros s; simpl; [apply app_nil_r|].
    now rewrite IH, firstn_skipn.
  Qed.

  Theorem dcat_chunking maxlen cuts content :
    dcat eqb nl delim dot maxlen cuts content = dcat eqb nl delim dot maxlen [] content.
  Proof.
    unfold dcat. rewrite !cli_feed_chunks_concat, !concat_chunk_by. reflexivity.
  Qed.

  (* ---------- the pipeline against the specification ---------- *)
  Definition plain (w : list A) : Prop := forall c, In c w -> c <> nl /\ c <> delim.

  Lemma feed_plain : forall w buf rest, plain w -> cli_feed buf (w ++ rest) = cli_feed (rev w ++ buf) rest.
  Proof.
    induction w as [|c w IH]; intros buf rest Hp; simpl; [reflexivity|].
    destruct (Hp c (or_introl eq_refl)) as [H1 H2].
    rewrite (eqb_neq _ _ H1), (eqb_neq _ _ H2).
    rewrite IH; [now rewrite <- app_assoc|]. intros x Hx; apply Hp; now right.
  Qed.

  Lemma hidden_app a b : hidden (a ++ b) = match a with [] => hidden b | _ => hidden a end.
  Proof. destruct a; reflexivity. Qed.

  Definition at_start (cur : list A) : bool := match cur with [] => true | _ => false end.

  Lemma plain_rev cur : plain cur -> plain (rev cur).
  Proof. intros H c Hc. apply H. now apply in_rev. Qed.

  Lemma frames_cons l ls : frames (l :: ls) = l ++ delim :: frames ls.
  Proof. unfold C01_Cat.frames, frame. simpl. now rewrite <- app_assoc. Qed.

  Lemma feed_nl buf rest :
    cli_feed buf (nl :: rest) = (fst (cli_feed [] rest), rev (nl :: buf) :: snd (cli_feed [] rest)).
  Proof. simpl. rewrite eqb_refl, rev'_rev. destruct (cli_feed [] rest); reflexivity. Qed.

  Lemma feed_delim buf rest :
    cli_feed buf (delim :: rest) = (fst (cli_feed [] rest), rev buf :: snd (cli_feed [] rest)).
  Proof.
    simpl. rewrite (eqb_neq delim nl) by congruence. rewrite eqb_refl, rev'_rev.
    destruct (cli_feed [] rest); reflexivity.
  Qed.

  (* a complete line [w ++ [nl]] arriving in its frame: one message, then an empty one *)
  Lemma feed_line w rest : plain w ->
    cli_feed [] ((w ++ [nl]) ++ delim :: rest)
    = (fst (cli_feed [] rest), (w ++ [nl]) :: [] :: snd (cli_feed [] rest)).
  Proof.
    intros Hw. rewrite <- app_assoc. rewrite feed_plain by assumption. rewrite app_nil_r.
    simpl app. rewrite feed_nl, feed_delim. simpl. now rewrite rev_involutive.
  Qed.

  Lemma feed_last w : plain w -> cli_feed [] (w ++ [delim]) = ([], [w]).
  Proof.
    intros Hw. rewrite feed_plain by assumption. rewrite app_nil_r, feed_delim. simpl.
    now rewrite rev_involutive.
  Qed.

  Lemma printed_cons m ms : printed (m :: ms) = if hidden m then printed ms else m ++ printed ms.
  Proof. unfold C01_Cat.printed. simpl. destruct (hidden m); reflexivity. Qed.

  Lemma hidden_pending cur c : c <> nl ->
    hidden (rev cur) = false -> negb (at_start cur && eqb c dot) = true ->
    hidden (rev cur ++ [c]) = false.
  Proof.
    intros Hc Hh Hd. rewrite hidden_app. destruct cur as [|y cur'].
    - simpl in *. now apply negb_true_iff in Hd.
    - destruct (rev (y :: cur')) eqn:E; [|exact Hh].
      apply (f_equal (@length A)) in E. rewrite rev_length in E. discriminate.
  Qed.

  Lemma plain_snoc cur c : plain cur -> c <> nl -> c <> delim -> plain (rev cur ++ [c]).
  Proof.
    intros Hp H1 H2 x Hx. apply in_app_or in Hx. destruct Hx as [Hx|[<-|[]]]; [|now split].
    apply Hp. now apply in_rev.
  Qed.

  (* main simulation lemma *)
  Lemma pipeline_spec maxlen : forall s cur n,
    plain cur -> hidden (rev cur) = false ->
    plain_safe (at_start cur) (insert_nl maxlen n s) = true ->
    fst (cli_feed [] (frames (reader maxlen cur n s))) = [] /\
    printed (snd (cli_feed [] (frames (reader maxlen cur n s)))) = rev cur ++ insert_nl maxlen n s.
  Proof.
    induction s as [|c r IH]; intros cur n Hp Hh Hg.
    - (* EOF *)
      cbn [C01_Cat.reader C01_Cat.insert_nl]. destruct cur as [|x cur'] eqn:Ecur.
      + simpl. split; reflexivity.
      + rewrite <- Ecur in *. rewrite frames_cons, rev'_rev. simpl C01_Cat.frames.
        rewrite feed_last by now apply plain_rev. simpl fst; simpl snd.
        rewrite printed_cons, Hh. unfold C01_Cat.printed. simpl. split; [reflexivity|].
        now rewrite !app_nil_r.
    - cbn [C01_Cat.reader C01_Cat.insert_nl] in *.
      destruct (eqb c nl) eqn:Ecnl.
      + (* real newline *)
        apply eqb_ok in Ecnl; subst c.
        cbn [C01_Cat.plain_safe] in Hg. rewrite !andb_true_iff in Hg. destruct Hg as [[_ Hd] Hg].
        rewrite eqb_refl in Hg.
        destruct (IH [] maxlen (fun _ F => match F with end) eq_refl Hg) as [IH1 IH2].
        rewrite frames_cons, rev'_rev. cbn [rev].
        rewrite feed_line by now apply plain_rev. simpl fst; simpl snd.
        split; [exact IH1|].
        rewrite printed_cons.
        assert (Hh' : hidden (rev cur ++ [nl]) = false).
        { rewrite hidden_app. destruct (rev cur); [simpl; apply eqb_neq; congruence|exact Hh]. }
        rewrite Hh', printed_cons. simpl hidden. cbv iota. rewrite IH2. simpl.
        now rewrite <- app_assoc.
      + apply eqb_false_neq in Ecnl.
        cbn [C01_Cat.plain_safe] in Hg.
        destruct n as [|[|k']].
        1,2: (
          (* long line split: c, then an inserted newline *)
          cbn [C01_Cat.plain_safe] in Hg; rewrite !andb_true_iff in Hg;
          destruct Hg as [[Hcd Hcdot] Hg];
          rewrite (eqb_neq c nl Ecnl) in Hg; destruct Hg as [_ Hg]; rewrite eqb_refl in Hg;
          apply negb_true_iff in Hcd; apply eqb_false_neq in Hcd;
          destruct (IH [] maxlen (fun _ F => match F with end) eq_refl Hg) as [IH1 IH2];
          rewrite frames_cons, rev'_rev; cbn [rev];
          rewrite feed_line by (now apply plain_snoc); simpl fst; simpl snd;
          split; [exact IH1|];
          rewrite printed_cons;
          assert (Hh' : hidden ((rev cur ++ [c]) ++ [nl]) = false) by
          ( rewrite hidden_app; pose proof (hidden_pending cur c Ecnl Hh Hcdot) as H;
            destruct (rev cur ++ [c]) eqn:E; [|exact H];
            apply (f_equal (@length A)) in E; rewrite app_length in E; simpl in E; lia );
          rewrite Hh', printed_cons; simpl hidden; cbv iota; rewrite IH2; simpl;
          now rewrite <- !app_assoc ).
        (* ordinary byte: stays in the reader's buffer *)
        cbn [C01_Cat.plain_safe] in Hg. rewrite !andb_true_iff in Hg.
        destruct Hg as [[Hcd Hcdot] Hg].
        rewrite (eqb_neq c nl Ecnl) in Hg.
        apply negb_true_iff in Hcd. apply eqb_false_neq in Hcd.
        assert (Hp' : plain (c :: cur)).
        { intros x [<-|Hx]; [split; assumption|now apply Hp]. }
        assert (Hh' : hidden (rev (c :: cur)) = false).
        { cbn [rev]. now apply hidden_pending. }
        destruct (IH (c :: cur) (S k') Hp' Hh' Hg) as [IH1 IH2].
        split; [exact IH1|]. rewrite IH2. cbn [rev]. now rewrite <- app_assoc.
  Qed.

  Theorem dcat_fidelity maxlen cuts content :
    plain_safe true (insert_nl maxlen maxlen content) = true ->
    dcat eqb nl delim dot maxlen cuts content = insert_nl maxlen maxlen content.
  Proof.
    intros Hg. rewrite dcat_chunking. unfold dcat, wire. cbn [chunk_by C01_Cat.cli_feed_chunks].
    destruct (pipeline_spec maxlen content [] maxlen (fun _ F => match F with end) eq_refl Hg) as [_ H].
    destruct (cli_feed [] (frames (reader maxlen [] maxlen content))) as [b ms].
    cbn [snd] in *. now rewrite app_nil_r.
  Qed.

  (* ---------- what the specification says ---------- *)
  (* no run of non-newline bytes reaches maxlen *)
  Fixpoint short_lines (maxlen k : nat) (s : list A) : bool :=
    match s with
    | [] => true
    | c :: r => if eqb c nl then short_lines maxlen maxlen r
                else match k with 0 | 1 => false | S k' => short_lines maxlen k' r end
    end.

  Lemma insert_nl_short maxlen : forall s k, short_lines maxlen k s = true -> insert_nl maxlen k s = s.
  Proof.
    induction s as [|c r IH]; intros k H; simpl in *; [reflexivity|].
    destruct (eqb c nl); [now rewrite IH|].
    destruct k as [|[|k']]; try discriminate. now rewrite IH.
  Qed.

  (* only newlines are ever inserted: every other byte is kept, once, in order *)
  Lemma insert_nl_only_nl maxlen : forall s k,
    filter (fun c => negb (eqb c nl)) (insert_nl maxlen k s) = filter (fun c => negb (eqb c nl)) s.
  Proof.
    induction s as [|c r IH]; intros k; simpl; [reflexivity|].
    destruct (eqb c nl) eqn:E; simpl; rewrite ?E; simpl; [apply IH|].
    destruct k as [|[|k']]; simpl; rewrite ?E, ?eqb_refl; simpl; now rewrite IH.
  Qed.
End Generic.

(* ---------- instantiation facts re-proved from the regenerated constants ---------- *)
Lemma delim_is_not_nl : nl_byte <> delim_byte. Proof. vm_compute. discriminate. Qed.
Lemma dot_is_not_nl : dot_byte <> nl_byte. Proof. vm_compute. discriminate. Qed.
Lemma dot_is_not_delim : dot_byte <> delim_byte. Proof. vm_compute. discriminate. Qed.
Lemma delim_in_range : (0 <= c_message_delimiter <= 255)%Z. Proof. vm_compute. split; discriminate. Qed.
