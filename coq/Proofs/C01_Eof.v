From DT Require Import Lib.Bytes Gen.Consts Model.C01_Eof.

(* an unchanged file: at EOF the descriptor's offset equals the file's size - it is not "truncated" *)
Lemma unchanged_not_truncated n : truncated (Some n) (Some n) = false.
Proof. unfold truncated, cmp_holds, c_truncated_cmp. cbn. lia. Qed.

Lemma grown_not_truncated o s : (o <= s)%Z -> truncated (Some o) (Some s) = false.
Proof. unfold truncated, cmp_holds, c_truncated_cmp. cbn. lia. Qed.

Lemma shrunk_truncated o s : (s < o)%Z -> truncated (Some o) (Some s) = true.
Proof. unfold truncated, cmp_holds, c_truncated_cmp. cbn. lia. Qed.

(* cat / grep / mapreduce reads of a file nobody shortened: whenever EOF is reached - before or after
   the truncation timer's first tick, whichever select case is taken - the reader stops and the
   pending unterminated last line is handed on *)
Theorem eof_delivers_rest tick pick pending o s : (o <= s)%Z ->
  at_eof false tick false pick pending (Some o) (Some s) = EofStop pending.
Proof. intros H. unfold at_eof. rewrite (grown_not_truncated o s H). destruct tick, pick; reflexivity. Qed.

(* a shortened file is noticed when the timer has ticked; the rest is then not delivered *)
Theorem eof_truncated_stops follow pick pending o s : (s < o)%Z ->
  at_eof follow true false pick pending (Some o) (Some s) = EofStop false.
Proof. intros H. unfold at_eof. rewrite (shrunk_truncated o s H). reflexivity. Qed.

(* follow mode never stops at EOF of an unshortened file *)
Theorem eof_follow_continues tick pick pending o s : (o <= s)%Z ->
  at_eof true tick false pick pending (Some o) (Some s) = EofContinue.
Proof. intros H. unfold at_eof. rewrite (grown_not_truncated o s H). destruct tick, pick; reflexivity. Qed.
