(* C02, liveness of the session model: no schedule is infinite, and a schedule that cannot be
   extended has handed the .syn to the transport.  Together: under ANY scheduler that keeps taking
   some enabled event - whatever the consumer's pace - the session ends, after at most [mu c init]
   events, with the .syn delivered (and then, by [delivered], with every line before it). *)
From DT Require Import Lib.Bytes Gen.Consts Model.C02_Session Proofs.C02_Session.

Definition rest_of (c : cfg) (s : st) (k : nat) : nat := size_of c k - pushed s k.
Definition sum_rest (c : cfg) (s : st) : nat := fold_right plus 0 (map (rest_of c s) (seq 0 (length (sizes c)))).
Definition mu (c : cfg) (s : st) : nat :=
  4 * (length (sizes c) - recv s) + 3 * length (unfinished s) + 2 * sum_rest c s + length (q s) + 2 * pending s + sm s.

Lemma size_of_pos_lt c k : 0 < size_of c k -> k < length (sizes c).
Proof.
  unfold size_of. intros H. destruct (Nat.lt_ge_cases k (length (sizes c))) as [|Hge]; [assumption|].
  rewrite nth_overflow in H by assumption. lia.
Qed.

Lemma sum_rest_ext c s s' : (forall k, pushed s' k = pushed s k) -> sum_rest c s' = sum_rest c s.
Proof. intros H. unfold sum_rest. f_equal. apply map_ext. intros k. unfold rest_of. now rewrite H. Qed.

Lemma sum_upd (f : nat -> nat) (k n lo : nat) (v : nat) : lo <= k < lo + n -> v < f k ->
  fold_right plus 0 (map (fun x => if x =? k then v else f x) (seq lo n)) + (f k - v) = fold_right plus 0 (map f (seq lo n)).
Proof.
  revert lo. induction n as [|n IH]; intros lo Hr Hv; [lia|]. cbn [seq map fold_right].
  destruct (Nat.eqb_spec lo k) as [->|Hne].
  - assert (Hsame : map (fun x => if x =? k then v else f x) (seq (S k) n) = map f (seq (S k) n)).
    { apply map_ext_in. intros x Hx. apply in_seq in Hx. destruct (Nat.eqb_spec x k); [lia|reflexivity]. }
    rewrite Hsame. lia.
  - specialize (IH (S lo)). lia.
Qed.

Lemma unfinished_ext s s' : recv s' = recv s -> (forall k, fin s' k = fin s k) -> unfinished s' = unfinished s.
Proof. intros Hr Hf. unfold unfinished. rewrite Hr. apply filter_ext. intros k. now rewrite Hf. Qed.

(* every event of every configuration strictly decreases the measure *)
Ltac name_post := match goal with |- mu _ ?x < _ => set (s1 := x) end.
Theorem step_decreases c s e s' : step c s e = Some s' -> mu c s' < mu c s.
Proof.
  intros H. destruct e; cbn [step] in H.
  - (* RecvCmd *)
    destruct (recv s <? length (sizes c)) eqn:E1; cbn [andb] in H; [|discriminate].
    destruct (late_commands c || negb (zeroed s)); [|discriminate]. apply Nat.ltb_lt in E1.
    inversion H; subst; clear H. name_post.
    assert (Hu : length (unfinished s1) <= S (length (unfinished s))).
    { unfold unfinished, s1. cbn [recv fin]. rewrite seq_S, filter_app, app_length. cbn [plus seq filter]. destruct (negb (fin s (recv s))); simpl; lia. }
    assert (Hs : sum_rest c s1 = sum_rest c s) by (apply sum_rest_ext; reflexivity).
    unfold mu. rewrite Hs. change (recv s1) with (S (recv s)). change (q s1) with (q s). change (pending s1) with (pending s). change (sm s1) with (sm s). lia.
  - (* Push *)
    destruct (k <? recv s) eqn:E1; cbn [andb] in H; [|discriminate].
    destruct (fin s k) eqn:E2; cbn [negb andb] in H; [discriminate|].
    destruct (pushed s k <? size_of c k) eqn:E3; cbn [andb] in H; [|discriminate].
    destruct (length (q s) <? qcap c) eqn:E4; [|discriminate]. apply Nat.ltb_lt in E3.
    inversion H; subst; clear H. name_post.
    assert (Hu : unfinished s1 = unfinished s) by (apply unfinished_ext; reflexivity).
    assert (Hk : k < length (sizes c)) by (apply size_of_pos_lt; lia).
    assert (Hs : sum_rest c s1 + 1 = sum_rest c s).
    { unfold sum_rest, rest_of, s1. cbn [pushed].
      pose proof (sum_upd (fun x => size_of c x - pushed s x) k (length (sizes c)) 0 (size_of c k - S (pushed s k))) as Hx.
      cbn beta in Hx. rewrite <- Hx by lia.
      replace (size_of c k - pushed s k - (size_of c k - S (pushed s k))) with 1 by lia. f_equal. f_equal.
      apply map_ext. intros x. unfold upd. destruct (Nat.eqb_spec x k) as [->|]; reflexivity. }
    assert (Hq : length (q s1) = S (length (q s))) by (unfold s1; cbn [q]; rewrite app_length; cbn; lia).
    unfold mu. rewrite Hu, Hq. change (recv s1) with (recv s). change (pending s1) with (pending s). change (sm s1) with (sm s). lia.
  - (* CmdDone *)
    destruct (k <? recv s) eqn:E1; cbn [andb] in H; [|discriminate].
    destruct (fin s k) eqn:E2; cbn [negb andb] in H; [discriminate|].
    destruct (pushed s k =? size_of c k); [|discriminate]. apply Nat.ltb_lt in E1.
    destruct (filter_upd_false s k E1 E2) as [Hlen Hpos].
    inversion H; subst; clear H. name_post.
    assert (Hs : sum_rest c s1 = sum_rest c s) by (apply sum_rest_ext; reflexivity).
    assert (Hu : length (unfinished s1) = length (unfinished s) - 1) by exact Hlen.
    assert (Hp : pending s1 <= S (pending s)) by (unfold s1; cbn [pending]; destruct (active s - 1 =? 0); lia).
    unfold mu. rewrite Hs, Hu. change (recv s1) with (recv s). change (q s1) with (q s). change (sm s1) with (sm s). lia.
  - (* FlushOk *)
    destruct (pending s) as [|p] eqn:Ep; [discriminate|].
    destruct (q s) eqn:Eq; [|discriminate]. destruct (sm s) eqn:Es; [|discriminate].
    inversion H; subst; clear H. name_post.
    assert (Hs : sum_rest c s1 = sum_rest c s) by (apply sum_rest_ext; reflexivity).
    assert (Hu : unfinished s1 = unfinished s) by (apply unfinished_ext; reflexivity).
    unfold mu. rewrite Hs, Hu, Ep, Eq, Es. change (recv s1) with (recv s). change (q s1) with (@nil lid). change (pending s1) with p. change (sm s1) with 1. cbn [length]. lia.
  - (* FlushGiveUp *)
    destruct (bounded_flush c); [|discriminate]. destruct (pending s) as [|p] eqn:Ep; [discriminate|].
    inversion H; subst; clear H. name_post.
    assert (Hs : sum_rest c s1 = sum_rest c s) by (apply sum_rest_ext; reflexivity).
    assert (Hu : unfinished s1 = unfinished s) by (apply unfinished_ext; reflexivity).
    unfold mu. rewrite Hs, Hu, Ep. change (recv s1) with (recv s). change (q s1) with (q s). change (pending s1) with p. change (sm s1) with (S (sm s)). lia.
  - (* ReadLine *)
    destruct (q s) as [|l r] eqn:Eq; [discriminate|].
    inversion H; subst; clear H. name_post.
    assert (Hs : sum_rest c s1 = sum_rest c s) by (apply sum_rest_ext; reflexivity).
    assert (Hu : unfinished s1 = unfinished s) by (apply unfinished_ext; reflexivity).
    unfold mu. rewrite Hs, Hu, Eq. change (recv s1) with (recv s). change (q s1) with r. change (pending s1) with (pending s). change (sm s1) with (sm s). cbn [length]. lia.
  - (* ReadMsg *)
    destruct (sm s) as [|r] eqn:Es; [discriminate|].
    inversion H; subst; clear H. name_post.
    assert (Hs : sum_rest c s1 = sum_rest c s) by (apply sum_rest_ext; reflexivity).
    assert (Hu : unfinished s1 = unfinished s) by (apply unfinished_ext; reflexivity).
    unfold mu. rewrite Hs, Hu, Es. change (recv s1) with (recv s). change (q s1) with (q s). change (pending s1) with (pending s). change (sm s1) with r. lia.
Qed.

(* no schedule is longer than the measure of its start: there is no infinite schedule *)
Theorem run_bounded c : forall es s s', run c s es = Some s' -> length es + mu c s' <= mu c s.
Proof.
  induction es as [|e es IH]; intros s s' H; cbn in H; [inversion H; subst; cbn; lia|].
  destruct (step c s e) as [s1|] eqn:E; [|discriminate].
  pose proof (step_decreases c s e s1 E). specialize (IH s1 s' H). cbn [length]. lia.
Qed.

Section Fixed.
  Variable c : cfg.
  Hypothesis Hflush : bounded_flush c = false.
  Hypothesis Hlate : late_commands c = false.
  Hypothesis Hcap : 0 < qcap c.
  Hypothesis Hsome : 0 < length (sizes c).

  Record LInv (s : st) : Prop := {
    l_inv : Inv c s;
    l_live : zeroed s = true -> 0 < pending s + sm s \/ has_syn (stream s) = true;
    l_nz : zeroed s = false -> 0 < recv s -> 0 < active s;
    l_recv : recv s <= length (sizes c)
  }.

  Lemma linv_init : LInv init.
  Proof. constructor; cbn; intros; try discriminate; try lia. apply inv_init. Qed.

  Lemma linv_step s e s' : LInv s -> step c s e = Some s' -> LInv s'.
  Proof.
    intros [I L N R] H. pose proof (inv_step c Hflush Hlate s e s' I H) as I'.
    constructor; [exact I'| | |]; destruct e; cbn [step] in H.
    - rewrite Hlate in H. cbn [orb] in H. destruct (recv s <? length (sizes c)); cbn [andb] in H; [|discriminate].
      destruct (zeroed s) eqn:Ez; cbn [negb] in H; [discriminate|]. inversion H; subst; cbn. congruence.
    - destruct ((k <? recv s) && negb (fin s k) && (pushed s k <? size_of c k) && (length (q s) <? qcap c)); [|discriminate].
      inversion H; subst; cbn. exact L.
    - destruct ((k <? recv s) && negb (fin s k) && (pushed s k =? size_of c k)); [|discriminate].
      inversion H; subst; cbn. intros Hz. destruct (active s - 1 =? 0); [left; lia|].
      rewrite orb_false_r in Hz. destruct (L Hz) as [Hp|Hs]; [left; lia|now right].
    - destruct (pending s) as [|p]; [discriminate|]. destruct (q s); [|discriminate]. destruct (sm s); [|discriminate].
      inversion H; subst; cbn. intros _. left. lia.
    - rewrite Hflush in H. discriminate.
    - destruct (q s) as [|l r]; [discriminate|]. inversion H; subst; cbn. intros Hz. destruct (L Hz) as [Hp|Hs]; [now left|right].
      rewrite has_syn_app, Hs. reflexivity.
    - destruct (sm s) as [|r]; [discriminate|]. inversion H; subst; cbn. intros _. right. rewrite has_syn_app. cbn. apply orb_true_r.
    - rewrite Hlate in H. cbn [orb] in H. destruct (recv s <? length (sizes c)); cbn [andb] in H; [|discriminate].
      destruct (zeroed s); cbn [negb] in H; [discriminate|]. inversion H; subst; cbn. intros _ _. lia.
    - destruct ((k <? recv s) && negb (fin s k) && (pushed s k <? size_of c k) && (length (q s) <? qcap c)); [|discriminate].
      inversion H; subst; cbn. exact N.
    - destruct ((k <? recv s) && negb (fin s k) && (pushed s k =? size_of c k)); [|discriminate].
      inversion H; subst; cbn. intros Hz Hr. apply orb_false_iff in Hz. destruct Hz as [Hz Ha]. apply Nat.eqb_neq in Ha. lia.
    - destruct (pending s) as [|p]; [discriminate|]. destruct (q s); [|discriminate]. destruct (sm s); [|discriminate].
      inversion H; subst; cbn. exact N.
    - rewrite Hflush in H. discriminate.
    - destruct (q s) as [|l r]; [discriminate|]. inversion H; subst; cbn. exact N.
    - destruct (sm s) as [|r]; [discriminate|]. inversion H; subst; cbn. exact N.
    - destruct (recv s <? length (sizes c)) eqn:E; cbn [andb] in H; [|discriminate]. apply Nat.ltb_lt in E.
      destruct (late_commands c || negb (zeroed s)); [|discriminate]. inversion H; subst; cbn. lia.
    - destruct ((k <? recv s) && negb (fin s k) && (pushed s k <? size_of c k) && (length (q s) <? qcap c)); [|discriminate].
      inversion H; subst; cbn. exact R.
    - destruct ((k <? recv s) && negb (fin s k) && (pushed s k =? size_of c k)); [|discriminate].
      inversion H; subst; cbn. exact R.
    - destruct (pending s) as [|p]; [discriminate|]. destruct (q s); [|discriminate]. destruct (sm s); [|discriminate].
      inversion H; subst; cbn. exact R.
    - rewrite Hflush in H. discriminate.
    - destruct (q s) as [|l r]; [discriminate|]. inversion H; subst; cbn. exact R.
    - destruct (sm s) as [|r]; [discriminate|]. inversion H; subst; cbn. exact R.
  Qed.

  Lemma linv_run : forall es s s', LInv s -> run c s es = Some s' -> LInv s'.
  Proof.
    induction es as [|e es IH]; intros s s' I H; cbn in H; [inversion H; subst; exact I|].
    destruct (step c s e) as [s1|] eqn:E; [|discriminate]. eapply IH; [|exact H]. eapply linv_step; eauto.
  Qed.

  (* no deadlock before the .syn is out: some event is enabled *)
  Theorem progress s : LInv s -> has_syn (stream s) = false -> exists e s', step c s e = Some s'.
  Proof.
    intros [I L N R] Hs. destruct (zeroed s) eqn:Ez.
    - destruct (L eq_refl) as [Hp|Hx]; [|congruence].
      destruct (sm s) as [|r] eqn:Esm.
      + destruct (pending s) as [|p] eqn:Ep; [lia|]. destruct (q s) as [|l r] eqn:Eq.
        * exists FlushOk. cbn [step]. rewrite Ep, Eq, Esm. eauto.
        * exists ReadLine. cbn [step]. rewrite Eq. eauto.
      + exists ReadMsg. cbn [step]. rewrite Esm. eauto.
    - destruct (recv s <? length (sizes c)) eqn:Er.
      + exists RecvCmd. cbn [step]. rewrite Er, Ez, Hlate. cbn. eauto.
      + apply Nat.ltb_ge in Er. assert (Hr : 0 < recv s) by lia.
        pose proof (N eq_refl Hr) as Ha. rewrite (i_active c s I) in Ha.
        destruct (unfinished s) as [|k u] eqn:Eu; [cbn in Ha; lia|].
        assert (Hin : In k (unfinished s)) by (rewrite Eu; now left).
        unfold unfinished in Hin. apply filter_In in Hin. destruct Hin as [Hk Hf]. apply in_seq in Hk. apply negb_true_iff in Hf.
        pose proof (i_bound c s I k) as Hb.
        destruct (pushed s k =? size_of c k) eqn:Ep.
        * exists (CmdDone k). cbn [step]. assert (E1 : k <? recv s = true) by (apply Nat.ltb_lt; lia). rewrite E1, Hf, Ep. cbn. eauto.
        * apply Nat.eqb_neq in Ep. destruct (length (q s) <? qcap c) eqn:Eq.
          -- exists (Push k). cbn [step]. assert (E1 : k <? recv s = true) by (apply Nat.ltb_lt; lia).
             assert (E3 : pushed s k <? size_of c k = true) by (apply Nat.ltb_lt; lia). rewrite E1, Hf, E3, Eq. cbn. eauto.
          -- apply Nat.ltb_ge in Eq. destruct (q s) as [|l r] eqn:Eqq; [cbn in Eq; lia|].
             exists ReadLine. cbn [step]. rewrite Eqq. eauto.
  Qed.

  (* a schedule that cannot be extended has delivered the .syn *)
  Theorem stuck_is_done es s : run c init es = Some s -> (forall e, step c s e = None) -> has_syn (stream s) = true.
  Proof.
    intros Hr Hstuck. pose proof (linv_run es init s linv_init Hr) as I.
    destruct (has_syn (stream s)) eqn:E; [reflexivity|]. destruct (progress s I E) as (e & s' & H). rewrite Hstuck in H. discriminate.
  Qed.

  (* every schedule can be completed, within the bound *)
  Theorem completes es s : run c init es = Some s ->
    exists es' s', run c s es' = Some s' /\ has_syn (stream s') = true /\ length es + length es' <= mu c init.
  Proof.
    intros Hr. pose proof (linv_run es init s linv_init Hr) as I. pose proof (run_bounded c es init s Hr) as Hb.
    assert (Hgen : forall n s, mu c s <= n -> LInv s -> exists es' s', run c s es' = Some s' /\ has_syn (stream s') = true /\ length es' <= mu c s).
    { induction n as [|n IH]; intros s0 Hm I0.
      - destruct (has_syn (stream s0)) eqn:E; [exists [], s0; cbn; repeat split; auto; lia|].
        destruct (progress s0 I0 E) as (e & s1 & H). pose proof (step_decreases c s0 e s1 H). lia.
      - destruct (has_syn (stream s0)) eqn:E; [exists [], s0; cbn; repeat split; auto; lia|].
        destruct (progress s0 I0 E) as (e & s1 & H). pose proof (step_decreases c s0 e s1 H) as Hd.
        destruct (IH s1) as (es1 & s2 & Hr1 & Hs2 & Hl); [lia|eapply linv_step; eauto|].
        exists (e :: es1), s2. cbn [run length]. rewrite H. repeat split; auto. lia. }
    destruct (Hgen (mu c s) s (le_n _) I) as (es' & s' & H1 & H2 & H3). exists es', s'. repeat split; auto. lia.
  Qed.
End Fixed.

Lemma map_nth_seq (l : list nat) : map (fun k => nth k l 0) (seq 0 (length l)) = l.
Proof.
  induction l as [|a l IH]; [reflexivity|]. cbn [length seq map nth]. f_equal.
  rewrite <- seq_shift, map_map. exact IH.
Qed.

Lemma mu_init c : mu c init = 4 * length (sizes c) + 2 * fold_right plus 0 (sizes c).
Proof.
  unfold mu, sum_rest, unfinished. cbn [recv q pending sm init seq filter length].
  replace (map (rest_of c init) (seq 0 (length (sizes c)))) with (sizes c); [lia|].
  rewrite <- (map_nth_seq (sizes c)) at 1. apply map_ext. intros k. unfold rest_of, size_of. cbn. lia.
Qed.

Theorem schedule_bound c es s : run c init es = Some s ->
  length es <= 4 * length (sizes c) + 2 * fold_right plus 0 (sizes c).
Proof. intros H. pose proof (run_bounded c es init s H). rewrite mu_init in *. lia. Qed.
