From DT Require Import Lib.Bytes Gen.Consts Model.C02_Session.

(* all line frames of a stream, in order, regardless of .syn *)
Fixpoint slines (fs : list frame) : list lid :=
  match fs with [] => [] | FLine l :: r => l :: slines r | FSyn :: r => slines r end.

Lemma slines_app a b : slines (a ++ b) = slines a ++ slines b.
Proof. induction a as [|[l|] a IH]; simpl; auto. now rewrite IH. Qed.

Lemma has_syn_app a b : has_syn (a ++ b) = has_syn a || has_syn b.
Proof. induction a as [|[l|] a IH]; simpl; auto. Qed.

Lemma before_syn_app_nosyn a b : has_syn a = false -> before_syn (a ++ b) = slines a ++ before_syn b.
Proof. induction a as [|[l|] a IH]; simpl; intros H; auto; [now rewrite IH|discriminate]. Qed.

Lemma before_syn_app_syn a b : has_syn a = true -> before_syn (a ++ b) = before_syn a.
Proof. induction a as [|[l|] a IH]; simpl; intros H; auto; [discriminate|now rewrite IH]. Qed.

Definition unfinished (s : st) : list nat := filter (fun k => negb (fin s k)) (seq 0 (recv s)).

Section Fixed.
  Variable c : cfg.
  Hypothesis Hflush : bounded_flush c = false.
  Hypothesis Hlate : late_commands c = false.

  Definition synout (s : st) : bool := (0 <? sm s) || has_syn (stream s).

  Record Inv (s : st) : Prop := {
    i_lines : forall k, filter (of_cmd k) (slines (stream s) ++ q s) = lines_of k (pushed s k);
    i_bound : forall k, pushed s k <= size_of c k;
    i_fresh : forall k, recv s <= k -> pushed s k = 0 /\ fin s k = false;
    i_active : active s = length (unfinished s);
    i_fin : forall k, fin s k = true -> pushed s k = size_of c k;
    i_pending : 0 < pending s -> zeroed s = true;
    i_zero : zeroed s = true -> active s = 0;
    i_syn : synout s = true -> zeroed s = true /\ q s = [];
    i_order : has_syn (stream s) = true -> before_syn (stream s) = slines (stream s)
  }.

  Lemma inv_init : Inv init.
  Proof.
    constructor; simpl; intros; auto; try discriminate; try lia.
  Qed.

  Lemma filter_upd_false s k : k < recv s -> fin s k = false ->
    length (filter (fun x => negb (upd (fin s) k true x)) (seq 0 (recv s))) = length (unfinished s) - 1
    /\ 0 < length (unfinished s).
  Proof.
    intros Hk Hf. unfold unfinished.
    assert (Hgen : forall n lo, lo <= k < lo + n ->
      length (filter (fun x => negb (upd (fin s) k true x)) (seq lo n))
      = length (filter (fun x => negb (fin s x)) (seq lo n)) - 1
      /\ 0 < length (filter (fun x => negb (fin s x)) (seq lo n))).
    { induction n as [|n IH]; intros lo Hr; [lia|]. cbn [seq filter]. unfold upd at 1.
      destruct (Nat.eqb_spec lo k) as [->|Hne].
      - rewrite Hf. simpl. split; [|lia].
        assert (Hsame : filter (fun x => negb (upd (fin s) k true x)) (seq (S k) n)
                        = filter (fun x => negb (fin s x)) (seq (S k) n)).
        { apply filter_ext_in. intros x Hx. apply in_seq in Hx. unfold upd.
          destruct (Nat.eqb_spec x k); [lia|reflexivity]. }
        rewrite Hsame. lia.
      - destruct (IH (S lo)) as [E P]; [lia|]. destruct (negb (fin s lo)); simpl; rewrite E; lia. }
    apply Hgen. lia.
  Qed.

  Lemma unfinished_nil_all s : length (unfinished s) = 0 -> forall k, k < recv s -> fin s k = true.
  Proof.
    intros H k Hk. unfold unfinished in H.
    destruct (fin s k) eqn:E; [reflexivity|].
    assert (In k (filter (fun x => negb (fin s x)) (seq 0 (recv s)))).
    { apply filter_In. split; [apply in_seq; lia|now rewrite E]. }
    destruct (filter _ _); [contradiction|discriminate].
  Qed.

  Lemma lines_of_S k n : lines_of k (S n) = lines_of k n ++ [(k, n)].
  Proof. unfold lines_of. rewrite seq_S, map_app. reflexivity. Qed.

  Lemma inv_step s e s' : Inv s -> step c s e = Some s' -> Inv s'.
  Proof.
    intros I H. destruct e; cbn [step] in H.
    - (* RecvCmd *)
      rewrite Hlate in H. cbn [orb] in H.
      destruct (recv s <? length (sizes c)) eqn:E1; cbn [andb] in H; [|discriminate].
      destruct (zeroed s) eqn:Ez; cbn [negb] in H; [discriminate|].
      inversion H; subst; clear H. constructor; cbn [recv pushed fin active zeroed pending q sm stream]; try apply I.
      + intros k Hk. apply I. lia.
      + rewrite (i_active s I). unfold unfinished. cbn [recv fin]. rewrite seq_S, filter_app, app_length. cbn [plus seq filter].
        destruct (i_fresh s I (recv s) (le_n _)) as [_ Hf]. rewrite Hf. simpl. lia.
      + intros Hp. pose proof (i_pending s I Hp). congruence.
      + intros Hz. discriminate.
      + intros Hs. destruct (i_syn s I Hs) as [Hz _]. congruence.
    - (* Push *)
      destruct (k <? recv s) eqn:E1; cbn [andb] in H; [|discriminate].
      destruct (fin s k) eqn:E2; cbn [negb andb] in H; [discriminate|].
      destruct (pushed s k <? size_of c k) eqn:E3; cbn [andb] in H; [|discriminate].
      destruct (length (q s) <? qcap c) eqn:E4; [|discriminate].
      apply Nat.ltb_lt in E1, E3.
      inversion H; subst; clear H. constructor; cbn [recv pushed fin active zeroed pending q sm stream]; try apply I.
      + intros j. rewrite app_assoc, filter_app, (i_lines s I j). cbn [filter]. unfold of_cmd, upd. cbn [fst].
        destruct (Nat.eqb_spec k j) as [->|Hne].
        * rewrite Nat.eqb_refl. now rewrite lines_of_S.
        * destruct (Nat.eqb_spec j k); [lia|]. now rewrite app_nil_r.
      + intros j. unfold upd. destruct (Nat.eqb_spec j k) as [->|]; [lia|apply I].
      + intros j Hj. unfold upd. destruct (Nat.eqb_spec j k) as [->|]; [lia|now apply I].
      + intros j Hj. unfold upd. destruct (Nat.eqb_spec j k) as [->|]; [congruence|now apply I].
      + intros Hs. destruct (i_syn s I Hs) as [Hz Hq].
        (* zeroed: the counter is 0, so every received command has finished - but k has not *)
        exfalso. pose proof (i_zero s I Hz) as Ha. rewrite (i_active s I) in Ha.
        pose proof (unfinished_nil_all s Ha k E1). congruence.
    - (* CmdDone *)
      destruct (k <? recv s) eqn:E1; cbn [andb] in H; [|discriminate].
      destruct (fin s k) eqn:E2; cbn [negb andb] in H; [discriminate|].
      destruct (pushed s k =? size_of c k) eqn:E3; [|discriminate].
      apply Nat.ltb_lt in E1. apply Nat.eqb_eq in E3.
      destruct (filter_upd_false s k E1 E2) as [Hlen Hpos].
      inversion H; subst; clear H. constructor; cbn [recv pushed fin active zeroed pending q sm stream]; try apply I.
      + intros j Hj. unfold upd. destruct (Nat.eqb_spec j k) as [->|]; [lia|now apply I].
      + unfold unfinished. cbn. rewrite Hlen, (i_active s I). reflexivity.
      + intros j. unfold upd. destruct (Nat.eqb_spec j k) as [->|]; [auto|apply I].
      + intros Hp. destruct (active s - 1 =? 0) eqn:Ea; [now rewrite orb_true_r|].
        rewrite (i_pending s I Hp). reflexivity.
      + intros Hz. apply orb_true_iff in Hz. destruct Hz as [Hz|Hz]; [rewrite (i_zero s I Hz); reflexivity|].
        now apply Nat.eqb_eq in Hz.
      + intros Hs. change (synout s = true) in Hs. destruct (i_syn s I Hs) as [Hz Hq]. rewrite Hz. auto.
    - (* FlushOk *)
      destruct (pending s) as [|p] eqn:Ep; [discriminate|].
      destruct (q s) eqn:Eq; [|discriminate]. destruct (sm s) eqn:Es; [|discriminate].
      inversion H; subst; clear H.
      assert (Hz : zeroed s = true) by (apply (i_pending s I); lia).
      constructor; cbn [recv pushed fin active zeroed pending q sm stream]; try apply I.
      + intros k. rewrite <- (i_lines s I k), Eq. reflexivity.
      + intros Hp. exact Hz.
      + intros _. auto.
    - (* FlushGiveUp: impossible with the fixed flush *)
      rewrite Hflush in H. discriminate.
    - (* ReadLine *)
      destruct (q s) as [|l r] eqn:Eq; [discriminate|].
      inversion H; subst; clear H.
      assert (Hns : synout s = false).
      { destruct (synout s) eqn:E; [|reflexivity]. destruct (i_syn s I E) as [_ Hq]. congruence. }
      unfold synout in Hns. apply orb_false_iff in Hns. destruct Hns as [Hsm Hst].
      constructor; cbn [recv pushed fin active zeroed pending q sm stream]; try apply I.
      + intros k. rewrite slines_app. cbn. rewrite <- app_assoc. cbn. rewrite <- (i_lines s I k), Eq. reflexivity.
      + intros Hs. unfold synout in Hs. cbn [sm stream] in Hs. rewrite has_syn_app, Hst in Hs. rewrite Hsm in Hs. cbn in Hs. discriminate.
      + rewrite has_syn_app, Hst. cbn. discriminate.
    - (* ReadMsg *)
      destruct (sm s) as [|r] eqn:Es; [discriminate|].
      inversion H; subst; clear H.
      assert (Hso : synout s = true) by (unfold synout; rewrite Es; reflexivity).
      destruct (i_syn s I Hso) as [Hz Hq].
      constructor; cbn [recv pushed fin active zeroed pending q sm stream]; try apply I.
      + intros k. rewrite slines_app. cbn. rewrite app_nil_r. apply I.
      + intros _. auto.
      + intros _. rewrite slines_app. cbn. rewrite app_nil_r.
        destruct (has_syn (stream s)) eqn:E.
        * rewrite before_syn_app_syn by assumption. now apply I.
        * rewrite before_syn_app_nosyn by assumption. cbn. now rewrite app_nil_r.
  Qed.

  Lemma inv_run : forall es s s', Inv s -> run c s es = Some s' -> Inv s'.
  Proof.
    induction es as [|e es IH]; intros s s' I H; cbn in H; [inversion H; subst; exact I|].
    destruct (step c s e) as [s1|] eqn:E; [|discriminate]. eapply IH; [|exact H]. eapply inv_step; eauto.
  Qed.

  Lemma filter_eqb_refl : forall l, list_eqb (fun a b : lid => (fst a =? fst b) && (snd a =? snd b)) l l = true.
  Proof. induction l as [|[a b] l IH]; simpl; [reflexivity|]. now rewrite !Nat.eqb_refl, IH. Qed.

  (* Every schedule: once the .syn is in the stream and all requested commands were received,
     the client has every line of every command, once, in order. *)
  Theorem delivered es s : run c init es = Some s ->
    has_syn (stream s) = true -> recv s = length (sizes c) -> delivered_all c s = true.
  Proof.
    intros Hr Hs Hrecv. pose proof (inv_run es init s inv_init Hr) as I.
    assert (Hso : synout s = true) by (unfold synout; rewrite Hs; apply orb_true_r).
    destruct (i_syn s I Hso) as [Hz Hq].
    pose proof (i_zero s I Hz) as Ha. rewrite (i_active s I) in Ha.
    unfold delivered_all. apply forallb_forall. intros k Hk. apply in_seq in Hk.
    assert (Hfin : fin s k = true) by (apply (unfinished_nil_all s Ha); lia).
    rewrite (i_order s I Hs).
    pose proof (i_lines s I k) as Hl. rewrite Hq, app_nil_r in Hl. rewrite Hl.
    rewrite (i_fin s I k Hfin). apply filter_eqb_refl.
  Qed.
End Fixed.
