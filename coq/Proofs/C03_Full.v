(* C03 — the unbounded equivalence: the state machine of filterWithLContext emits exactly what the
   declarative grep semantics selects, for files of every length and all option values. *)
From DT Require Import Lib.Bytes Model.C03_Grep.

(* ================= facts about the declarative side ================= *)
Definition count (l : list bool) : nat := length (filter id l).

Lemma sel_app_l pre ms j : j < length pre -> sel (pre ++ ms) j = sel pre j.
Proof. intros H. unfold sel. now rewrite app_nth1. Qed.

Lemma sel_app_here pre s r : sel (pre ++ s :: r) (length pre) = s.
Proof. unfold sel. rewrite app_nth2 by lia. now rewrite Nat.sub_diag. Qed.

Lemma sel_out ms j : length ms <= j -> sel ms j = false.
Proof. intros H. unfold sel. now apply nth_overflow. Qed.

Lemma rank_app_l pre ms j : j <= length pre -> rank (pre ++ ms) j = rank pre j.
Proof. intros H. unfold rank. rewrite firstn_app. replace (j - length pre) with 0 by lia. cbn [firstn]. now rewrite app_nil_r. Qed.

Lemma rank_all pre : rank pre (length pre) = count pre.
Proof. unfold rank, count. now rewrite firstn_all. Qed.

Lemma rank_here pre ms : rank (pre ++ ms) (length pre) = count pre.
Proof. rewrite rank_app_l by lia. apply rank_all. Qed.

Lemma count_snoc pre s : count (pre ++ [s]) = count pre + (if s then 1 else 0).
Proof. unfold count. rewrite filter_app, app_length. destruct s; reflexivity. Qed.

Lemma rank_S ms j : j < length ms -> rank ms (S j) = rank ms j + (if sel ms j then 1 else 0).
Proof.
  intros H. unfold rank, sel. revert j H. induction ms as [|x ms IH]; intros j H; [cbn in H; lia|].
  destruct j as [|j].
  - cbn. destruct x; reflexivity.
  - cbn [length] in H. cbn [nth]. rewrite !firstn_cons. cbn [filter id].
    destruct x; [change (id true) with true|change (id false) with false]; cbn iota; cbn [length]; rewrite (IH j) by lia; lia.
Qed.

Lemma rank_mono ms j k : j <= k -> rank ms j <= rank ms k.
Proof.
  intros H. induction H as [|k H IH]; [lia|].
  destruct (Nat.lt_ge_cases k (length ms)) as [Hk|Hk].
  - rewrite rank_S by exact Hk. lia.
  - assert (E : rank ms (S k) = rank ms k) by (unfold rank; rewrite !firstn_all2 by lia; reflexivity). lia.
Qed.

Lemma rank_gt ms j k : j < k -> sel ms j = true -> rank ms j < rank ms k.
Proof.
  intros H Hs. assert (Hj : j < length ms).
  { destruct (Nat.lt_ge_cases j (length ms)); [assumption|]. rewrite sel_out in Hs by assumption. discriminate. }
  pose proof (rank_mono ms (S j) k ltac:(lia)) as Hm. rewrite rank_S in Hm by exact Hj. rewrite Hs in Hm. lia.
Qed.

(* prev_sel: the last selected index below j *)
Lemma prev_sel_some ms : forall j p, prev_sel ms j = Some p ->
  p < j /\ sel ms p = true /\ forall x, p < x < j -> sel ms x = false.
Proof.
  induction j as [|k IH]; intros p H; [discriminate|]. cbn [prev_sel] in H.
  destruct (sel ms k) eqn:E.
  - injection H as <-. repeat split; [lia|exact E|]. intros x Hx. lia.
  - destruct (IH p H) as (H1 & H2 & H3). repeat split; [lia|exact H2|].
    intros x Hx. destruct (Nat.eq_dec x k) as [->|]; [exact E|apply H3; lia].
Qed.

Lemma prev_sel_none ms : forall j, prev_sel ms j = None -> forall x, x < j -> sel ms x = false.
Proof.
  induction j as [|k IH]; intros H x Hx; [lia|]. cbn [prev_sel] in H.
  destruct (sel ms k) eqn:E; [discriminate|].
  destruct (Nat.eq_dec x k) as [->|]; [exact E|apply IH; [exact H|lia]].
Qed.

Lemma prev_sel_intro ms : forall j p, p < j -> sel ms p = true -> (forall x, p < x < j -> sel ms x = false) ->
  prev_sel ms j = Some p.
Proof.
  induction j as [|k IH]; intros p Hp Hs Hg; [lia|]. cbn [prev_sel].
  destruct (Nat.eq_dec p k) as [->|Hne]; [now rewrite Hs|].
  rewrite (Hg k) by lia. apply IH; [lia|exact Hs|]. intros x Hx. apply Hg. lia.
Qed.

Lemma prev_sel_intro_none ms : forall j, (forall x, x < j -> sel ms x = false) -> prev_sel ms j = None.
Proof.
  induction j as [|k IH]; intros H; [reflexivity|]. cbn [prev_sel]. rewrite (H k) by lia. apply IH. intros x Hx. apply H. lia.
Qed.

Lemma prev_sel_app_l pre ms : forall j, j <= length pre -> prev_sel (pre ++ ms) j = prev_sel pre j.
Proof.
  induction j as [|k IH]; intros H; [reflexivity|]. cbn [prev_sel]. rewrite sel_app_l by lia. rewrite IH by lia. reflexivity.
Qed.

(* next_sel: the first selected index above j *)
Lemma next_sel_from_some ms : forall fuel k n, next_sel_from ms k fuel = Some n ->
  k <= n < k + fuel /\ sel ms n = true /\ forall x, k <= x < n -> sel ms x = false.
Proof.
  induction fuel as [|f IH]; intros k n H; [discriminate|]. cbn [next_sel_from] in H.
  destruct (sel ms k) eqn:E.
  - injection H as <-. repeat split; [lia|lia|exact E|]. intros x Hx. lia.
  - destruct (IH _ _ H) as ((H1 & H1') & H2 & H3). repeat split; [lia|lia|exact H2|].
    intros x Hx. destruct (Nat.eq_dec x k) as [->|]; [exact E|apply H3; lia].
Qed.

Lemma next_sel_from_none ms : forall fuel k, next_sel_from ms k fuel = None ->
  forall x, k <= x < k + fuel -> sel ms x = false.
Proof.
  induction fuel as [|f IH]; intros k H x Hx; [lia|]. cbn [next_sel_from] in H.
  destruct (sel ms k) eqn:E; [discriminate|].
  destruct (Nat.eq_dec x k) as [->|]; [exact E|apply (IH (S k)); [exact H|lia]].
Qed.

Lemma next_sel_from_intro ms : forall fuel k n, k <= n < k + fuel -> sel ms n = true ->
  (forall x, k <= x < n -> sel ms x = false) -> next_sel_from ms k fuel = Some n.
Proof.
  induction fuel as [|f IH]; intros k n Hn Hs Hg; [lia|]. cbn [next_sel_from].
  destruct (Nat.eq_dec n k) as [->|Hne]; [now rewrite Hs|].
  rewrite (Hg k) by lia. apply IH; [lia|exact Hs|]. intros x Hx. apply Hg. lia.
Qed.

Lemma next_sel_from_intro_none ms : forall fuel k, (forall x, k <= x < k + fuel -> sel ms x = false) ->
  next_sel_from ms k fuel = None.
Proof.
  induction fuel as [|f IH]; intros k H; [reflexivity|]. cbn [next_sel_from]. rewrite (H k) by lia.
  apply IH. intros x Hx. apply H. lia.
Qed.

Lemma next_sel_some ms j n : next_sel ms j = Some n ->
  j < n < length ms /\ sel ms n = true /\ forall x, j < x < n -> sel ms x = false.
Proof.
  unfold next_sel. intros H. destruct (next_sel_from_some _ _ _ _ H) as ((H1 & H1') & H2 & H3).
  repeat split; [lia|lia|exact H2|]. intros x Hx. apply H3. lia.
Qed.

Lemma next_sel_none ms j : next_sel ms j = None -> forall x, j < x -> sel ms x = false.
Proof.
  unfold next_sel. intros H x Hx. destruct (Nat.lt_ge_cases x (length ms)) as [Hl|Hl]; [|now apply sel_out].
  apply (next_sel_from_none _ _ _ H). lia.
Qed.

Lemma next_sel_intro ms j n : j < n -> sel ms n = true -> (forall x, j < x < n -> sel ms x = false) ->
  next_sel ms j = Some n.
Proof.
  intros Hn Hs Hg. assert (Hl : n < length ms).
  { destruct (Nat.lt_ge_cases n (length ms)); [assumption|]. rewrite sel_out in Hs by assumption. discriminate. }
  unfold next_sel. apply next_sel_from_intro; [lia|exact Hs|]. intros x Hx. apply Hg. lia.
Qed.

Lemma next_sel_intro_none ms j : (forall x, j < x -> sel ms x = false) -> next_sel ms j = None.
Proof. intros H. unfold next_sel. apply next_sel_from_intro_none. intros x Hx. apply H. lia. Qed.

(* ================= filter helpers ================= *)
Lemma filter_all_false {A} (f : A -> bool) l : (forall x, In x l -> f x = false) -> filter f l = [].
Proof. induction l as [|x l IH]; intros H; [reflexivity|]. cbn. rewrite (H x) by now left. apply IH. intros y Hy. apply H. now right. Qed.

Lemma filter_all_true {A} (f : A -> bool) l : (forall x, In x l -> f x = true) -> filter f l = l.
Proof. induction l as [|x l IH]; intros H; [reflexivity|]. cbn. rewrite (H x) by now left. f_equal. apply IH. intros y Hy. apply H. now right. Qed.

Lemma map_snd_flush c r : map snd (flush_ring c r) = r.
Proof. induction r as [|j r IH]; [reflexivity|]. cbn. now rewrite IH. Qed.

Lemma prev_sel_gap ms : forall k j, j <= k -> (forall x, j <= x < k -> sel ms x = false) -> prev_sel ms k = prev_sel ms j.
Proof.
  induction k as [|k IH]; intros j Hj Hg.
  - replace j with 0 by lia. reflexivity.
  - destruct (Nat.eq_dec j (S k)) as [->|Hne]; [reflexivity|]. cbn [prev_sel]. rewrite (Hg k) by lia.
    apply IH; [lia|]. intros x Hx. apply Hg. lia.
Qed.

Lemma prev_sel_snoc pre s : prev_sel (pre ++ [s]) (length (pre ++ [s])) = if s then Some (length pre) else prev_sel pre (length pre).
Proof.
  rewrite app_length. cbn [length]. rewrite Nat.add_1_r. cbn [prev_sel]. rewrite sel_app_here.
  destruct s; [reflexivity|]. apply prev_sel_app_l. lia.
Qed.

Lemma seq_snoc lo n : seq lo n ++ [lo + n] = seq lo (S n).
Proof. now rewrite seq_S. Qed.

(* ================= the invariant ================= *)
Section Main.
  Variables b a m : nat.
  Notation E := (emitted b a m).

  Definition g0 (pre : list bool) : nat := match prev_sel pre (length pre) with Some p => S p | None => 0 end.
  Definition aft_of (pre : list bool) : nat :=
    match prev_sel pre (length pre) with
    | Some p => if 0 <? a then a - (length pre - 1 - p) else 0
    | None => 0
    end.
  Definition after_zone (pre : list bool) : nat :=
    match prev_sel pre (length pre) with Some p => S p + a | None => 0 end.
  Definition ring_lo (pre : list bool) : nat :=
    if 0 <? b then Nat.min (length pre) (Nat.max (after_zone pre) (length pre - b)) else length pre.

  Definition Inv (pre : list bool) (st : gst) : Prop :=
    max_reached st = ((0 <? m) && (count pre =? m)) /\
    (0 < m -> maxc st = m - count pre /\ count pre <= m /\ (count pre = m -> 0 < a)) /\
    aft st = aft_of pre /\
    ring st = seq (ring_lo pre) (length pre - ring_lo pre).

  Lemma inv_init : Inv [] (ginit m).
  Proof.
    unfold Inv, ginit, aft_of, ring_lo, after_zone, count. cbn [max_reached maxc aft ring length filter prev_sel].
    split; [destruct m; reflexivity|]. split; [intros Hm; repeat split; lia|]. split; [reflexivity|].
    destruct (0 <? b); reflexivity.
  Qed.

  Lemma gap_unsel pre x : g0 pre <= x < length pre -> sel pre x = false.
  Proof.
    unfold g0. intros H. destruct (prev_sel pre (length pre)) as [p|] eqn:Ep.
    - destruct (prev_sel_some _ _ _ Ep) as (_ & _ & Hg). apply Hg. lia.
    - apply (prev_sel_none _ _ Ep). lia.
  Qed.

  Lemma prev_in_gap pre ms j : g0 pre <= j <= length pre -> prev_sel (pre ++ ms) j = prev_sel pre (length pre).
  Proof.
    intros H. rewrite prev_sel_app_l by lia. symmetry. apply prev_sel_gap; [lia|].
    intros x Hx. apply gap_unsel. lia.
  Qed.

  Lemma last_rank pre p : prev_sel pre (length pre) = Some p -> rank pre p < count pre.
  Proof.
    intros H. destruct (prev_sel_some _ _ _ H) as (Hp & Hs & _). rewrite <- rank_all. now apply rank_gt.
  Qed.

  (* ---- emitted: the three ways to decide it ---- *)
  Lemma E_sel ms j : sel ms j = true -> E ms j = within_max m (rank ms j).
  Proof. intros H. unfold emitted. now rewrite H. Qed.

  Lemma E_after ms j p : sel ms j = false -> prev_sel ms j = Some p -> within_max m (rank ms p) = true -> j - p <= a -> E ms j = true.
  Proof. intros H Hp Hw Hd. unfold emitted. rewrite H, Hp, Hw. apply Nat.leb_le in Hd. now rewrite Hd. Qed.

  Lemma E_before ms j n : sel ms j = false -> next_sel ms j = Some n -> within_max m (rank ms n) = true -> n - j <= b -> E ms j = true.
  Proof. intros H Hn Hw Hd. unfold emitted. rewrite H, Hn, Hw. apply Nat.leb_le in Hd. rewrite Hd. apply orb_true_r. Qed.

  Lemma E_none ms j : sel ms j = false ->
    (forall p, prev_sel ms j = Some p -> within_max m (rank ms p) && (j - p <=? a) = false) ->
    (forall n, next_sel ms j = Some n -> within_max m (rank ms n) && (n - j <=? b) = false) -> E ms j = false.
  Proof.
    intros H Hp Hn. unfold emitted. rewrite H.
    destruct (prev_sel ms j) as [p|]; [rewrite (Hp p eq_refl)|]; (destruct (next_sel ms j) as [n|]; [rewrite (Hn n eq_refl)|]); reflexivity.
  Qed.

  Lemma within_false r : 0 < m -> m <= r -> within_max m r = false.
  Proof. intros H1 H2. unfold within_max. destruct (Nat.eqb_spec m 0); [lia|]. destruct (Nat.ltb_spec r m); [lia|reflexivity]. Qed.

  Lemma within_true r : (m = 0 \/ r < m) -> within_max m r = true.
  Proof. intros [->|H]; unfold within_max; [reflexivity|]. destruct (Nat.ltb_spec r m); [apply orb_true_r|lia]. Qed.

  (* nothing is selected any more once a selected line of rank >= m lies at or before j *)
  Lemma E_dead ms i0 j : 0 < m -> sel ms i0 = true -> m <= rank ms i0 -> i0 <= j -> E ms j = false.
  Proof.
    intros Hm Hs Hr Hj. destruct (sel ms j) eqn:Ej.
    - rewrite E_sel by exact Ej. apply within_false; [exact Hm|]. pose proof (rank_mono ms i0 j Hj). lia.
    - assert (Hlt : i0 < j) by (destruct (Nat.eq_dec i0 j) as [->|]; [congruence|lia]).
      apply E_none; [exact Ej| |].
      + intros p Hp. destruct (prev_sel_some _ _ _ Hp) as (H1 & H2 & H3).
        assert (i0 <= p). { destruct (Nat.le_gt_cases i0 p); [assumption|]. rewrite (H3 i0) in Hs by lia. discriminate. }
        rewrite within_false; [reflexivity|exact Hm|]. pose proof (rank_mono ms i0 p ltac:(lia)). lia.
      + intros n Hn. destruct (next_sel_some _ _ _ Hn) as (H1 & _ & _).
        rewrite within_false; [reflexivity|exact Hm|]. pose proof (rank_mono ms i0 n ltac:(lia)). lia.
  Qed.

  (* with after = 0: nothing at or after a position of rank >= m *)
  Lemma E_dead0 ms i1 j : a = 0 -> 0 < m -> m <= rank ms i1 -> i1 <= j -> E ms j = false.
  Proof.
    intros Ha Hm Hr Hj. destruct (sel ms j) eqn:Ej.
    - rewrite E_sel by exact Ej. apply within_false; [exact Hm|]. pose proof (rank_mono ms i1 j Hj). lia.
    - apply E_none; [exact Ej| |].
      + intros p Hp. destruct (prev_sel_some _ _ _ Hp) as (H1 & _ & _). subst a.
        destruct (Nat.leb_spec (j - p) 0); [lia|]. apply andb_false_r.
      + intros n Hn. destruct (next_sel_some _ _ _ Hn) as (H1 & _ & _).
        rewrite within_false; [reflexivity|exact Hm|]. pose proof (rank_mono ms i1 n ltac:(lia)). lia.
  Qed.
End Main.

Section Step.
  Variables b a m : nat.
  Notation E := (emitted b a m).
  Notation Inv := (Inv b a m).
  Notation ring_lo := (ring_lo b a).
  Notation after_zone := (after_zone a).
  Notation aft_of := (aft_of a).

  Lemma ring_lo_le pre : ring_lo pre <= length pre.
  Proof. unfold C03_Full.ring_lo. destruct (0 <? b); lia. Qed.

  Lemma ring_lo_facts pre j : ring_lo pre <= j < length pre ->
    0 < b /\ after_zone pre <= j /\ length pre - b <= j /\ g0 pre <= j.
  Proof.
    unfold C03_Full.ring_lo, C03_Full.after_zone, g0. intros H.
    destruct (Nat.ltb_spec 0 b); [|lia]. destruct (prev_sel pre (length pre)); lia.
  Qed.

  Lemma ring_unsel pre ms j : ring_lo pre <= j < length pre -> sel (pre ++ ms) j = false.
  Proof.
    intros H. destruct (ring_lo_facts _ _ H) as (_ & _ & _ & Hg). rewrite sel_app_l by lia. apply gap_unsel. lia.
  Qed.

  Lemma ring_prev_false pre ms j : ring_lo pre <= j < length pre ->
    forall p, prev_sel (pre ++ ms) j = Some p -> within_max m (rank (pre ++ ms) p) && (j - p <=? a) = false.
  Proof.
    intros H p Hp. destruct (ring_lo_facts _ _ H) as (_ & Hz & _ & Hg).
    rewrite prev_in_gap in Hp by lia. unfold C03_Full.after_zone in Hz. rewrite Hp in Hz.
    destruct (Nat.leb_spec (j - p) a); [lia|]. apply andb_false_r.
  Qed.

  Lemma in_ring pre j : In j (seq (ring_lo pre) (length pre - ring_lo pre)) <-> ring_lo pre <= j < length pre.
  Proof. rewrite in_seq. pose proof (ring_lo_le pre). lia. Qed.

  (* ---- preservation of the invariant ---- *)
  Lemma length_snoc {A} (l : list A) x : length (l ++ [x]) = S (length l).
  Proof. rewrite app_length. cbn. lia. Qed.

  Lemma T_after pre st : Inv pre st -> 0 < a -> 0 < aft st ->
    ring st = [] /\
    Inv (pre ++ [false]) {| maxc := maxc st; max_reached := max_reached st; aft := aft st - 1; ring := ring st |} /\
    exists p, prev_sel pre (length pre) = Some p /\ length pre - p <= a.
  Proof.
    intros (H1 & H2 & H3 & H4) Ha Hf. unfold C03_Full.aft_of in H3.
    destruct (prev_sel pre (length pre)) as [p|] eqn:Ep; [|lia].
    destruct (prev_sel_some _ _ _ Ep) as (Hp & _ & _).
    destruct (Nat.ltb_spec 0 a); [|lia].
    assert (Hlo : ring_lo pre = length pre).
    { unfold C03_Full.ring_lo, C03_Full.after_zone. rewrite Ep. destruct (0 <? b); lia. }
    assert (Hr : ring st = []) by (rewrite H4, Hlo, Nat.sub_diag; reflexivity).
    split; [exact Hr|]. split; [|exists p; split; [reflexivity|lia]].
    unfold C03_Full.Inv. cbn [maxc max_reached aft ring]. rewrite count_snoc, Nat.add_0_r.
    split; [exact H1|]. split; [exact H2|]. split.
    - unfold C03_Full.aft_of. rewrite prev_sel_snoc, Ep, length_snoc. destruct (Nat.ltb_spec 0 a); lia.
    - rewrite Hr. unfold C03_Full.ring_lo, C03_Full.after_zone. rewrite prev_sel_snoc, Ep, length_snoc.
      destruct (0 <? b); [|now rewrite Nat.sub_diag].
      replace (S (length pre) - Nat.min (S (length pre)) (Nat.max (S p + a) (S (length pre) - b))) with 0 by lia. reflexivity.
  Qed.

  Lemma not_after_zone pre st : Inv pre st -> (0 <? a) && (0 <? aft st) = false -> after_zone pre <= length pre.
  Proof.
    intros (_ & _ & H3 & _) Hc. unfold C03_Full.aft_of in H3. unfold C03_Full.after_zone.
    destruct (prev_sel pre (length pre)) as [p|] eqn:Ep; [|lia].
    destruct (prev_sel_some _ _ _ Ep) as (Hp & _ & _).
    destruct (Nat.ltb_spec 0 a); destruct (Nat.ltb_spec 0 (aft st)); cbn in Hc; try discriminate; lia.
  Qed.

  Lemma T_push pre st : Inv pre st -> (0 <? a) && (0 <? aft st) = false -> 0 < b ->
    Inv (pre ++ [false]) {| maxc := maxc st; max_reached := max_reached st; aft := aft st; ring := ring_push b (ring st) (length pre) |}.
  Proof.
    intros HI Hc Hb. pose proof (not_after_zone _ _ HI Hc) as Hz. destruct HI as (H1 & H2 & H3 & H4).
    unfold C03_Full.Inv. cbn [maxc max_reached aft ring]. rewrite count_snoc, Nat.add_0_r.
    split; [exact H1|]. split; [exact H2|]. split.
    - unfold C03_Full.aft_of in *. rewrite prev_sel_snoc, length_snoc.
      destruct (prev_sel pre (length pre)) as [p|] eqn:Ep; [|exact H3].
      destruct (prev_sel_some _ _ _ Ep) as (Hp & _ & _).
      destruct (Nat.ltb_spec 0 a); [|exact H3].
      destruct (Nat.ltb_spec 0 (aft st)); cbn in Hc; [discriminate|]. lia.
    - rewrite H4. unfold ring_push. rewrite seq_length.
      assert (Hlo : ring_lo pre = Nat.max (after_zone pre) (length pre - b)).
      { unfold C03_Full.ring_lo. destruct (Nat.ltb_spec 0 b); lia. }
      assert (Hlo' : ring_lo (pre ++ [false]) = Nat.max (after_zone pre) (S (length pre) - b)).
      { unfold C03_Full.ring_lo, C03_Full.after_zone in *. rewrite prev_sel_snoc, length_snoc.
        destruct (Nat.ltb_spec 0 b); [|lia]. destruct (prev_sel pre (length pre)); lia. }
      rewrite Hlo', length_snoc. set (i := length pre) in *. set (az := after_zone pre) in *. rewrite Hlo.
      destruct (Nat.ltb_spec (i - Nat.max az (i - b)) b) as [Hlt|Hge].
      + replace (Nat.max az (S i - b)) with (Nat.max az (i - b)) by lia.
        replace (S i - Nat.max az (i - b)) with (S (i - Nat.max az (i - b))) by lia.
        rewrite <- seq_snoc. f_equal. f_equal. lia.
      + assert (Hib : b <= i) by lia. assert (Hmax : Nat.max az (i - b) = i - b) by lia. rewrite Hmax.
        replace (i - (i - b)) with (S (b - 1)) by lia. cbn [seq tl].
        replace (Nat.max az (S i - b)) with (S (i - b)) by lia.
        replace (S i - S (i - b)) with (S (b - 1)) by lia. rewrite <- seq_snoc. f_equal. f_equal. lia.
  Qed.

  Lemma T_skip pre st : Inv pre st -> (0 <? a) && (0 <? aft st) = false -> b = 0 -> Inv (pre ++ [false]) st.
  Proof.
    intros HI Hc Hb. destruct HI as (H1 & H2 & H3 & H4).
    unfold C03_Full.Inv. rewrite count_snoc, Nat.add_0_r.
    split; [exact H1|]. split; [exact H2|]. split.
    - unfold C03_Full.aft_of in *. rewrite prev_sel_snoc, length_snoc.
      destruct (prev_sel pre (length pre)) as [p|] eqn:Ep; [|exact H3].
      destruct (prev_sel_some _ _ _ Ep) as (Hp & _ & _).
      destruct (Nat.ltb_spec 0 a); [|exact H3].
      destruct (Nat.ltb_spec 0 (aft st)); cbn in Hc; [discriminate|]. lia.
    - rewrite H4. unfold C03_Full.ring_lo. subst b. cbn [Nat.ltb Nat.leb]. now rewrite !Nat.sub_diag.
  Qed.

  Lemma accepted_rank pre st : Inv pre st -> (0 <? a) && max_reached st = false -> m = 0 \/ count pre < m.
  Proof.
    intros (H1 & H2 & _ & _) Hc. destruct (Nat.eq_dec m 0) as [|Hm]; [now left|right].
    destruct (H2 ltac:(lia)) as (_ & Hle & Ha). destruct (Nat.eq_dec (count pre) m) as [He|]; [|lia].
    specialize (Ha He). rewrite H1 in Hc. destruct (Nat.ltb_spec 0 a); [|lia]. destruct (Nat.ltb_spec 0 m); [|lia].
    rewrite He, Nat.eqb_refl in Hc. discriminate.
  Qed.

  Lemma T_match pre st mc mr : Inv pre st -> (0 <? a) && max_reached st = false ->
    (0 < m -> mc = maxc st - 1 /\ (mc = 0 -> 0 < a) /\ mr = (mc =? 0)) -> (m = 0 -> mr = false) ->
    Inv (pre ++ [true]) {| maxc := mc; max_reached := mr; aft := (if 0 <? a then a else aft st); ring := (if 0 <? b then [] else ring st) |}.
  Proof.
    intros HI Hc Hm Hm0. pose proof (accepted_rank _ _ HI Hc) as Hr. destruct HI as (H1 & H2 & H3 & H4).
    unfold C03_Full.Inv. cbn [maxc max_reached aft ring]. rewrite count_snoc.
    split; [|split; [|split]].
    - destruct (Nat.ltb_spec 0 m) as [Hpos|Hz].
      + destruct (Hm Hpos) as (Hmc & _ & ->). destruct (H2 Hpos) as (Hx & _ & _). cbn [andb].
        destruct (Nat.eqb_spec mc 0); destruct (Nat.eqb_spec (count pre + 1) m); try reflexivity; lia.
      + cbn [andb]. apply Hm0. lia.
    - intros Hpos. destruct (Hm Hpos) as (Hmc & Hmca & _). destruct (H2 Hpos) as (Hx & _ & _).
      repeat split; [lia|lia|]. intros He. apply Hmca. lia.
    - unfold C03_Full.aft_of in *. rewrite prev_sel_snoc, length_snoc.
      destruct (Nat.ltb_spec 0 a); [lia|].
      destruct (prev_sel pre (length pre)); exact H3.
    - unfold C03_Full.ring_lo, C03_Full.after_zone. rewrite prev_sel_snoc, length_snoc.
      destruct (Nat.ltb_spec 0 b).
      + replace (S (length pre) - Nat.min (S (length pre)) (Nat.max (S (length pre) + a) (S (length pre) - b))) with 0 by lia. reflexivity.
      + rewrite Nat.sub_diag. rewrite H4. unfold C03_Full.ring_lo. destruct (Nat.ltb_spec 0 b); [lia|]. now rewrite Nat.sub_diag.
  Qed.
End Step.

Section MainLemma.
  Variables b a m : nat.
  Notation E := (emitted b a m).
  Notation Inv := (Inv b a m).
  Notation ring_lo := (ring_lo b a).

  Lemma filter_cons_true {A} (f : A -> bool) x l : f x = true -> filter f (x :: l) = x :: filter f l.
  Proof. intros H. cbn. now rewrite H. Qed.
  Lemma filter_cons_false {A} (f : A -> bool) x l : f x = false -> filter f (x :: l) = filter f l.
  Proof. intros H. cbn. now rewrite H. Qed.

  Lemma main : forall ms pre st, Inv pre st ->
    map snd (grun b a m st (length pre) ms) = filter (E (pre ++ ms)) (ring st ++ seq (length pre) (length ms)).
  Proof.
    induction ms as [|s r IH]; intros pre st HI.
    - (* end of file: what is still in the ring is not selected by anything *)
      cbn [grun map length seq]. rewrite (app_nil_r (ring st)). symmetry. apply filter_all_false. intros j Hj.
      destruct HI as (_ & _ & _ & H4). rewrite H4 in Hj. apply in_ring in Hj.
      apply E_none; [now apply (ring_unsel b a)|now apply (ring_prev_false b a m)|].
      intros n Hn. destruct (next_sel_some _ _ _ Hn) as ((Hn1 & Hn2) & Hs & _).
      rewrite app_length in Hn2. cbn [length] in Hn2.
      destruct (ring_lo_facts b a _ _ Hj) as (_ & _ & _ & Hg).
      rewrite sel_app_l in Hs by lia. rewrite gap_unsel in Hs by lia. discriminate.
    - set (i := length pre) in *.
      assert (Hfull : (pre ++ [s]) ++ r = pre ++ s :: r) by (now rewrite <- app_assoc).
      assert (Hlen' : length (pre ++ [s]) = S i) by apply length_snoc.
      cbn [grun length seq]. unfold gstep.
      destruct s; cbn [negb].
      + (* ---------- a selected line ---------- *)
        assert (Hsel : sel (pre ++ true :: r) i = true) by apply sel_app_here.
        assert (Hrank : rank (pre ++ true :: r) i = count pre) by apply rank_here.
        destruct ((0 <? a) && max_reached st) eqn:Hc.
        * (* max already reached: the filter stops, nothing more is selected by the specification *)
          cbn [map]. symmetry. apply filter_all_false. intros j Hj.
          apply andb_prop in Hc. destruct Hc as [Hca Hmr]. destruct HI as (H1 & H2 & _ & H4).
          rewrite H1 in Hmr. apply andb_prop in Hmr. destruct Hmr as [Hm Hcm].
          apply Nat.ltb_lt in Hm. apply Nat.eqb_eq in Hcm.
          apply in_app_or in Hj. destruct Hj as [Hj|Hj].
          -- rewrite H4 in Hj. apply in_ring in Hj.
             apply E_none; [now apply (ring_unsel b a)|now apply (ring_prev_false b a m)|].
             intros n Hn. destruct (next_sel_some _ _ _ Hn) as ((Hn1 & _) & Hs & Hg).
             assert (n = i).
             { destruct (Nat.lt_trichotomy n i) as [Hlt|[->|Hgt]]; [|reflexivity|].
               - destruct (ring_lo_facts b a _ _ Hj) as (_ & _ & _ & Hg0). rewrite sel_app_l in Hs by exact Hlt.
                 rewrite gap_unsel in Hs by (fold i; lia). discriminate.
               - rewrite (Hg i) in Hsel by (fold i in Hj; lia). discriminate. }
             subst n. rewrite Hrank, within_false by lia. reflexivity.
          -- change (i :: seq (S i) (length r)) with (seq i (S (length r))) in Hj.
             apply in_seq in Hj. apply (E_dead b a m _ i); [exact Hm|exact Hsel|lia|lia].
        * (* accepted *)
          pose proof (accepted_rank b a m _ _ HI Hc) as Hacc.
          assert (Hwi : within_max m (rank (pre ++ true :: r) i) = true) by (rewrite Hrank; now apply within_true).
          assert (Hring : forall j, In j (ring st) -> E (pre ++ true :: r) j = true).
          { intros j Hj. destruct HI as (_ & _ & _ & H4). rewrite H4 in Hj. apply in_ring in Hj.
            destruct (ring_lo_facts b a _ _ Hj) as (Hb & _ & Hd & Hg0). fold i in Hd, Hj.
            apply (E_before b a m _ j i); [now apply (ring_unsel b a)| |exact Hwi|lia].
            apply next_sel_intro; [lia|exact Hsel|]. intros x Hx. rewrite sel_app_l by (fold i; lia).
            apply gap_unsel. fold i. lia. }
          assert (Hringb : 0 <? b = false -> ring st = []).
          { intros Hb. destruct HI as (_ & _ & _ & H4). rewrite H4. unfold C03_Full.ring_lo. rewrite Hb. now rewrite Nat.sub_diag. }
          assert (Hout : map snd ((if 0 <? b then flush_ring (S i) (ring st) else []) ++ [(S i, i)]) = ring st ++ [i]).
          { rewrite map_app. cbn [map snd]. destruct (0 <? b) eqn:Hb; [now rewrite map_snd_flush|]. now rewrite (Hringb eq_refl). }
          assert (Hi : E (pre ++ true :: r) i = true) by (rewrite E_sel by exact Hsel; exact Hwi).
          assert (Hhead : filter (E (pre ++ true :: r)) (ring st ++ i :: seq (S i) (length r)) =
                          ring st ++ i :: filter (E (pre ++ true :: r)) (seq (S i) (length r))).
          { rewrite filter_app, (filter_all_true _ _ Hring), filter_cons_true by exact Hi. reflexivity. }
          rewrite Hhead.
          (* what the continuing branches have in common *)
          assert (Hcont : forall mc mr,
                     (0 < m -> mc = maxc st - 1 /\ (mc = 0 -> 0 < a) /\ mr = (mc =? 0)) -> (m = 0 -> mr = false) ->
                     map snd (((if 0 <? b then flush_ring (S i) (ring st) else []) ++ [(S i, i)]) ++
                              grun b a m {| maxc := mc; max_reached := mr; aft := (if 0 <? a then a else aft st);
                                            ring := (if 0 <? b then [] else ring st) |} (S i) r) =
                     ring st ++ i :: filter (E (pre ++ true :: r)) (seq (S i) (length r))).
          { intros mc mr Hm Hm0. pose proof (T_match b a m pre st mc mr HI Hc Hm Hm0) as HI'.
            rewrite map_app.
            replace (ring st ++ i :: filter (E (pre ++ true :: r)) (seq (S i) (length r)))
              with ((ring st ++ [i]) ++ filter (E (pre ++ true :: r)) (seq (S i) (length r))) by (now rewrite <- app_assoc).
            f_equal; [exact Hout|].
            specialize (IH _ _ HI'). rewrite Hlen', Hfull in IH. etransitivity; [exact IH|]. cbn [ring].
            replace (if 0 <? b then [] else ring st) with (@nil nat) by (destruct (0 <? b) eqn:Hb; [reflexivity|now rewrite (Hringb eq_refl)]).
            reflexivity. }
          destruct (Nat.ltb_spec 0 m) as [Hm|Hm].
          -- destruct (Nat.eqb_spec (maxc st - 1) 0) as [Hz|Hnz].
             ++ destruct (negb (0 <? a) || ((if 0 <? a then a else aft st) =? 0)) eqn:Hstop.
                ** (* the max-th match and no after context: stop right here *)
                   rewrite (filter_all_false (E (pre ++ true :: r)) (seq (S i) (length r))); [exact Hout|].
                   intros j Hj. apply in_seq in Hj.
                   assert (Ha0 : a = 0).
                   { destruct (Nat.ltb_spec 0 a) as [Hpos|]; [|lia]. cbn [negb orb] in Hstop. apply Nat.eqb_eq in Hstop. lia. }
                   destruct HI as (_ & H2 & _ & _). destruct (H2 Hm) as (Hx & Hle & _).
                   apply (E_dead0 b a m _ (S i)); [exact Ha0|exact Hm| |lia].
                   rewrite rank_S by (rewrite app_length; cbn [length]; fold i; lia). rewrite Hsel, Hrank. lia.
                ** apply Hcont; [|lia]. intros _. repeat split; [|now rewrite Hz].
                   intros _. destruct (Nat.ltb_spec 0 a); [assumption|]. cbn [negb orb] in Hstop. discriminate.
             ++ apply Hcont; [|lia]. intros _. repeat split; [lia|].
                destruct HI as (H1 & H2 & _ & _). destruct (H2 Hm) as (Hx & Hle & _). rewrite H1.
                destruct (Nat.ltb_spec 0 m); [|lia]. cbn [andb].
                destruct (Nat.eqb_spec (count pre) m); destruct (Nat.eqb_spec (maxc st - 1) 0); try reflexivity; lia.
          -- apply Hcont; [lia|]. intros _. destruct HI as (H1 & _). rewrite H1. destruct (Nat.ltb_spec 0 m); [lia|reflexivity].
      + (* ---------- a line that is not selected ---------- *)
        assert (Hsel : sel (pre ++ false :: r) i = false) by apply sel_app_here.
        destruct ((0 <? a) && (0 <? aft st)) eqn:Hc.
        * (* after context *)
          apply andb_prop in Hc. destruct Hc as [Ha Hf]. apply Nat.ltb_lt in Ha. apply Nat.ltb_lt in Hf.
          destruct (T_after b a m pre st HI Ha Hf) as (Hr & HI' & p & Ep & Hd).
          cbn [map snd]. specialize (IH _ _ HI'). rewrite Hlen', Hfull in IH. cbn [map app]. rewrite IH. cbn [ring]. rewrite Hr. cbn [app].
          rewrite filter_cons_true; [reflexivity|].
          apply (E_after b a m _ i p); [exact Hsel| | |exact Hd].
          -- rewrite prev_sel_app_l by (fold i; lia). exact Ep.
          -- destruct (prev_sel_some _ _ _ Ep) as (Hp & _ & _). rewrite rank_app_l by lia.
             pose proof (last_rank _ _ Ep) as Hlr. destruct HI as (_ & H2 & _ & _).
             apply within_true. destruct (Nat.eq_dec m 0); [now left|right]. destruct (H2 ltac:(lia)) as (_ & Hle & _). lia.
        * destruct (Nat.ltb_spec 0 b) as [Hb|Hb].
          -- (* into the before buffer *)
             pose proof (T_push b a m pre st HI Hc Hb) as HI'. cbn [map app]. specialize (IH _ _ HI'). rewrite Hlen', Hfull in IH. etransitivity; [exact IH|]. cbn [ring]. fold i.
             destruct HI as (_ & _ & _ & H4). unfold ring_push. rewrite H4, seq_length. fold i.
             destruct (Nat.ltb_spec (i - ring_lo pre) b) as [Hlt|Hge].
             ++ now rewrite <- app_assoc.
             ++ (* the oldest buffered line falls out: it is too far from any later match *)
                pose proof (ring_lo_le b a pre) as Hle. fold i in Hle.
                destruct (i - ring_lo pre) as [|k] eqn:Ek; [lia|]. cbn [seq tl]. rewrite <- app_assoc. cbn [app].
                rewrite (filter_cons_false _ (ring_lo pre)); [reflexivity|].
                assert (Hj : ring_lo pre <= ring_lo pre < length pre) by (fold i; lia).
                apply E_none; [now apply (ring_unsel b a)|now apply (ring_prev_false b a m)|].
                intros n Hn. destruct (next_sel_some _ _ _ Hn) as ((Hn1 & _) & Hs & _).
                destruct (ring_lo_facts b a _ _ Hj) as (_ & _ & _ & Hg0).
                assert (i < n).
                { destruct (Nat.lt_trichotomy n i) as [Hlt|[->|Hgt]]; [| |exact Hgt].
                  - rewrite sel_app_l in Hs by exact Hlt. rewrite gap_unsel in Hs by (fold i; lia). discriminate.
                  - congruence. }
                destruct (Nat.leb_spec (n - ring_lo pre) b); [lia|]. apply andb_false_r.
          -- (* no before context: dropped *)
             assert (Hb0 : b = 0) by lia.
             pose proof (T_skip b a m pre st HI Hc Hb0) as HI'. cbn [map app]. specialize (IH _ _ HI'). rewrite Hlen', Hfull in IH. etransitivity; [exact IH|].
             destruct HI as (_ & _ & H3 & H4).
             assert (Hr : ring st = []) by (rewrite H4; unfold C03_Full.ring_lo; subst b; cbn; now rewrite Nat.sub_diag).
             rewrite Hr. cbn [app]. rewrite filter_cons_false; [reflexivity|].
             apply E_none; [exact Hsel| |].
             ++ intros p Hp. rewrite prev_sel_app_l in Hp by (fold i; lia). fold i in Hp.
                destruct (prev_sel_some _ _ _ Hp) as (Hpi & _ & _).
                unfold C03_Full.aft_of in H3. fold i in H3. rewrite Hp in H3.
                destruct (Nat.leb_spec (i - p) a) as [Hle|]; [|apply andb_false_r].
                destruct (Nat.ltb_spec 0 a); [|lia]. destruct (Nat.ltb_spec 0 (aft st)); cbn in Hc; [discriminate|]. lia.
             ++ intros n Hn. destruct (next_sel_some _ _ _ Hn) as ((Hn1 & _) & _ & _). subst b.
                destruct (Nat.leb_spec (n - i) 0); [lia|]. apply andb_false_r.
  Qed.
End MainLemma.

(* without any context option the filter is the plain selection *)
Lemma plain_run_spec : forall ms pre, map snd (plain_run (length pre) ms) = filter (sel (pre ++ ms)) (seq (length pre) (length ms)).
Proof.
  induction ms as [|s r IH]; intros pre; [reflexivity|].
  cbn [plain_run length seq filter]. rewrite sel_app_here.
  specialize (IH (pre ++ [s])). rewrite app_length in IH. cbn [length] in IH. rewrite Nat.add_1_r, <- app_assoc in IH. cbn [app] in IH.
  destruct s; cbn [map snd]; now rewrite IH.
Qed.

Lemma emitted_no_ctx ms j : emitted 0 0 0 ms j = sel ms j.
Proof.
  unfold emitted. destruct (sel ms j); [reflexivity|].
  destruct (prev_sel ms j) as [p|] eqn:Ep.
  - destruct (prev_sel_some _ _ _ Ep) as (Hp & _ & _). destruct (Nat.leb_spec (j - p) 0); [lia|].
    rewrite andb_false_r. cbn [orb]. destruct (next_sel ms j) as [n|] eqn:En; [|reflexivity].
    destruct (next_sel_some _ _ _ En) as ((Hn & _) & _ & _). destruct (Nat.leb_spec (n - j) 0); [lia|]. apply andb_false_r.
  - cbn [orb]. destruct (next_sel ms j) as [n|] eqn:En; [|reflexivity].
    destruct (next_sel_some _ _ _ En) as ((Hn & _) & _ & _). destruct (Nat.leb_spec (n - j) 0); [lia|]. apply andb_false_r.
Qed.

Theorem grep_equiv : forall (b a m : nat) (ms : list bool), grep_run b a m ms = grep_spec b a m ms.
Proof.
  intros b a m ms. unfold grep_run, grep_recs, grep_spec. destruct (has_ctx b a m) eqn:Hc.
  - pose proof (main b a m ms [] (ginit m) (inv_init b a m)) as H. cbn [length app ring ginit] in H. exact H.
  - unfold has_ctx in Hc. apply orb_false_elim in Hc. destruct Hc as [Hc Hm]. apply orb_false_elim in Hc. destruct Hc as [Hb Ha].
    apply Nat.ltb_ge in Hb, Ha, Hm. replace b with 0 by lia. replace a with 0 by lia. replace m with 0 by lia.
    pose proof (plain_run_spec ms []) as H. cbn [length app] in H. etransitivity; [exact H|].
    apply filter_ext. intros j. now rewrite emitted_no_ctx.
Qed.

(* ---------- the running numbers attached to the emitted lines ---------- *)
Definition num_ok (r : rec) : Prop := fst r = S (snd r).

Lemma flush_nums : forall n lo, Forall num_ok (flush_ring (S (lo + n)) (seq lo n)).
Proof.
  induction n as [|n IH]; intros lo; [constructor|]. cbn [seq flush_ring]. constructor.
  - unfold num_ok. cbn [fst snd length]. rewrite seq_length. lia.
  - replace (S (lo + S n)) with (S (S lo + n)) by lia. apply IH.
Qed.

Section Nums.
  Variables b a m : nat.
  Notation Inv := (Inv b a m).

  Lemma main_nums : forall ms pre st, Inv pre st -> Forall num_ok (grun b a m st (length pre) ms).
  Proof.
    induction ms as [|s r IH]; intros pre st HI; [constructor|].
    assert (Hlen' : length (pre ++ [s]) = S (length pre)) by apply length_snoc.
    cbn [grun]. unfold gstep. destruct s; cbn [negb].
    - destruct ((0 <? a) && max_reached st) eqn:Hc; [constructor|].
      assert (Hout : Forall num_ok ((if 0 <? b then flush_ring (S (length pre)) (ring st) else []) ++ [(S (length pre), length pre)])).
      { apply Forall_app. split; [|constructor; [reflexivity|constructor]].
        destruct (0 <? b); [|constructor]. destruct HI as (_ & _ & _ & H4). rewrite H4.
        pose proof (ring_lo_le b a pre) as Hle.
        replace (S (length pre)) with (S (ring_lo b a pre + (length pre - ring_lo b a pre))) by lia. apply flush_nums. }
      assert (Hcont : forall mc mr,
                 (0 < m -> mc = maxc st - 1 /\ (mc = 0 -> 0 < a) /\ mr = (mc =? 0)) -> (m = 0 -> mr = false) ->
                 Forall num_ok (((if 0 <? b then flush_ring (S (length pre)) (ring st) else []) ++ [(S (length pre), length pre)]) ++
                          grun b a m {| maxc := mc; max_reached := mr; aft := (if 0 <? a then a else aft st);
                                        ring := (if 0 <? b then [] else ring st) |} (S (length pre)) r)).
      { intros mc mr Hm Hm0. apply Forall_app. split; [exact Hout|].
        pose proof (T_match b a m pre st mc mr HI Hc Hm Hm0) as HI'. specialize (IH _ _ HI'). now rewrite Hlen' in IH. }
      destruct (Nat.ltb_spec 0 m) as [Hm|Hm].
      + destruct (Nat.eqb_spec (maxc st - 1) 0) as [Hz|Hnz].
        * destruct (negb (0 <? a) || ((if 0 <? a then a else aft st) =? 0)) eqn:Hstop; [exact Hout|].
          apply Hcont; [|lia]. intros _. repeat split; [|now rewrite Hz].
          intros _. destruct (Nat.ltb_spec 0 a); [assumption|]. cbn [negb orb] in Hstop. discriminate.
        * apply Hcont; [|lia]. intros _. repeat split; [lia|].
          destruct HI as (H1 & H2 & _ & _). destruct (H2 Hm) as (Hx & Hle & _). rewrite H1.
          destruct (Nat.ltb_spec 0 m); [|lia]. cbn [andb].
          destruct (Nat.eqb_spec (count pre) m); destruct (Nat.eqb_spec (maxc st - 1) 0); try reflexivity; lia.
      + apply Hcont; [lia|]. intros _. destruct HI as (H1 & _). rewrite H1. destruct (Nat.ltb_spec 0 m); [lia|reflexivity].
    - destruct ((0 <? a) && (0 <? aft st)) eqn:Hc.
      + apply andb_prop in Hc. destruct Hc as [Ha Hf]. apply Nat.ltb_lt in Ha. apply Nat.ltb_lt in Hf.
        destruct (T_after b a m pre st HI Ha Hf) as (_ & HI' & _). specialize (IH _ _ HI'). rewrite Hlen' in IH.
        constructor; [reflexivity|exact IH].
      + destruct (Nat.ltb_spec 0 b) as [Hb|Hb].
        * pose proof (T_push b a m pre st HI Hc Hb) as HI'. specialize (IH _ _ HI'). now rewrite Hlen' in IH.
        * pose proof (T_skip b a m pre st HI Hc ltac:(lia)) as HI'. specialize (IH _ _ HI'). now rewrite Hlen' in IH.
  Qed.
End Nums.

Lemma plain_nums : forall ms i, Forall num_ok (plain_run i ms).
Proof. induction ms as [|s r IH]; intros i; [constructor|]. cbn. destruct s; [constructor; [reflexivity|]|]; apply IH. Qed.

Theorem grep_numbers b a m ms : Forall num_ok (grep_recs b a m ms).
Proof.
  unfold grep_recs. destruct (has_ctx b a m); [|apply plain_nums].
  exact (main_nums b a m ms [] (ginit m) (inv_init b a m)).
Qed.
