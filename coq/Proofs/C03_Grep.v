From DT Require Import Lib.Bytes Model.C03_Grep.

(* ---------- the no-op patterns select every line, under both polarities ---------- *)
Lemma noop_selects_all p inv verdicts :
  is_noop_pattern p = true -> map (selected p inv) verdicts = repeat true (length verdicts).
Proof.
  intros H. induction verdicts as [|v r IH]; simpl; [reflexivity|].
  unfold selected at 1. rewrite H. now rewrite IH.
Qed.

Lemma noop_patterns : is_noop_pattern [] = true /\ is_noop_pattern (B".") = true /\ is_noop_pattern (B".*") = true.
Proof. vm_compute. auto. Qed.

(* with every line selected and no max, everything is output exactly once, in order *)
Lemma plain_run_all : forall n i, map snd (plain_run i (repeat true n)) = seq i n.
Proof. induction n as [|n IH]; intros i; simpl; [reflexivity|]. now rewrite IH. Qed.

(* ---------- finite sweep: state machine = declarative grep semantics, all files up to
   length 8, before/after in 0..3, max in 0..4 (40 880 cases), lifted by forallb_forall ---------- *)
Fixpoint lists_exact (k : nat) : list (list bool) :=
  match k with
  | 0 => [[]]
  | S k' => flat_map (fun l => [true :: l; false :: l]) (lists_exact k')
  end.

Lemma lists_exact_complete : forall l, In l (lists_exact (length l)).
Proof.
  induction l as [|x l IH]; simpl; [auto|].
  apply in_flat_map. exists l. split; [exact IH|]. destruct x; simpl; auto.
Qed.

Definition sweep_ok (maxlen maxb maxa maxm : nat) : bool :=
  forallb (fun k =>
    forallb (fun ms =>
      forallb (fun b => forallb (fun a => forallb (fun m =>
        nat_list_eqb (grep_run b a m ms) (grep_spec b a m ms)) (seq 0 (S maxm))) (seq 0 (S maxa))) (seq 0 (S maxb)))
      (lists_exact k)) (seq 0 (S maxlen)).

Lemma sweep_8_3_3_4 : sweep_ok 8 3 3 4 = true.
Proof. vm_compute. reflexivity. Qed.

Lemma grep_equiv_bounded ms b a m :
  length ms <= 8 -> b <= 3 -> a <= 3 -> m <= 4 -> grep_run b a m ms = grep_spec b a m ms.
Proof.
  intros Hl Hb Ha Hm. pose proof sweep_8_3_3_4 as H. unfold sweep_ok in H.
  rewrite forallb_forall in H.
  assert (Hin : In (length ms) (seq 0 9)) by (apply in_seq; lia).
  pose proof (H _ Hin) as H1. rewrite forallb_forall in H1.
  pose proof (H1 ms (lists_exact_complete ms)) as H2. rewrite forallb_forall in H2.
  assert (Hinb : In b (seq 0 4)) by (apply in_seq; lia).
  pose proof (H2 b Hinb) as H3. rewrite forallb_forall in H3.
  assert (Hina : In a (seq 0 4)) by (apply in_seq; lia).
  pose proof (H3 a Hina) as H4. rewrite forallb_forall in H4.
  assert (Hinm : In m (seq 0 5)) by (apply in_seq; lia).
  pose proof (H4 m Hinm) as H5. now apply nat_list_eqb_eq.
Qed.
