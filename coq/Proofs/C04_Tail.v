From Coq Require Import Floats.
From DT Require Import Lib.Bytes Lib.Split Gen.Consts Model.C01_Cat Model.C04_Tail.

(* ================= 1. the splitter ================= *)
Lemma tfeed_app maxlen : forall a cur k b,
  tfeed maxlen cur k (a ++ b) =
  let '((c1, k1), o1) := tfeed maxlen cur k a in
  let '(st2, o2) := tfeed maxlen c1 k1 b in (st2, o1 ++ o2).
Proof.
  induction a as [|c a IH]; intros cur k b.
  - cbn [app tfeed]. destruct (tfeed maxlen cur k b) as [st2 o2]. reflexivity.
  - cbn [app tfeed]. destruct (beqb c x0a).
    + rewrite IH. destruct (tfeed maxlen [] maxlen a) as [[c1 k1] o1].
      destruct (tfeed maxlen c1 k1 b) as [st2 o2]. reflexivity.
    + destruct k as [|[|k']].
      * rewrite IH. destruct (tfeed maxlen [] maxlen a) as [[c1 k1] o1].
        destruct (tfeed maxlen c1 k1 b) as [st2 o2]. reflexivity.
      * rewrite IH. destruct (tfeed maxlen [] maxlen a) as [[c1 k1] o1].
        destruct (tfeed maxlen c1 k1 b) as [st2 o2]. reflexivity.
      * apply IH.
Qed.

(* reading the bytes in any pieces gives the same raw lines and the same held partial line *)
Fixpoint tfeed_chunks (maxlen : nat) (cur : bytes) (k : nat) (chunks : list bytes) : (bytes * nat) * list bytes :=
  match chunks with
  | [] => ((cur, k), [])
  | ch :: rest =>
    let '((c1, k1), o1) := tfeed maxlen cur k ch in
    let '(st2, o2) := tfeed_chunks maxlen c1 k1 rest in (st2, o1 ++ o2)
  end.

Lemma tfeed_chunks_concat maxlen : forall chunks cur k,
  tfeed_chunks maxlen cur k chunks = tfeed maxlen cur k (concat chunks).
Proof.
  induction chunks as [|ch rest IH]; intros cur k; [reflexivity|].
  cbn [tfeed_chunks concat]. rewrite tfeed_app.
  destruct (tfeed maxlen cur k ch) as [[c1 k1] o1]. rewrite IH. reflexivity.
Qed.

(* relation with the cat reader of C01: the same lines, except that at the end of the bytes the
   cat reader emits the remainder and the tail reader holds it *)
Lemma reader_tfeed maxlen : forall s cur k,
  reader beqb x0a maxlen cur k s =
  snd (tfeed maxlen cur k s) ++ match fst (fst (tfeed maxlen cur k s)) with [] => [] | c => [rev' c] end.
Proof.
  induction s as [|c s IH]; intros cur k.
  - cbn. destruct cur; reflexivity.
  - cbn [reader tfeed]. destruct (beqb c x0a).
    + rewrite IH. destruct (tfeed maxlen [] maxlen s) as [[c1 k1] o1]. reflexivity.
    + destruct k as [|[|k']].
      * rewrite IH. destruct (tfeed maxlen [] maxlen s) as [[c1 k1] o1]. reflexivity.
      * rewrite IH. destruct (tfeed maxlen [] maxlen s) as [[c1 k1] o1]. reflexivity.
      * apply IH.
Qed.

(* when no line reaches MaxLineLength: exactly the newline-terminated pieces, the rest is held *)
Lemma removelast_cons {A} (x : A) l : l <> [] -> removelast (x :: l) = x :: removelast l.
Proof. destruct l; [congruence|reflexivity]. Qed.

Lemma split_on_ne sep s cur : split_on sep cur s <> [].
Proof. pose proof (split_on_nonempty sep s cur) as H. destruct (split_on sep cur s); [simpl in H; lia|congruence]. Qed.

Lemma tfeed_short maxlen : forall s cur k,
  k + length cur = maxlen ->
  forallb (fun l => Nat.ltb (length l) maxlen) (split_on x0a cur s) = true ->
  snd (tfeed maxlen cur k s) = map (fun l => l ++ [x0a]) (removelast (split_on x0a cur s))
  /\ rev' (fst (fst (tfeed maxlen cur k s))) = last (split_on x0a cur s) [].
Proof.
  induction s as [|c s IH]; intros cur k Hk Hs.
  - cbn. split; reflexivity.
  - cbn [tfeed split_on] in *. destruct (beqb c x0a) eqn:E.
    + cbn [forallb] in Hs. apply andb_prop in Hs. destruct Hs as [_ Hs].
      destruct (IH [] maxlen) as [I1 I2]; [cbn; lia|exact Hs|].
      destruct (tfeed maxlen [] maxlen s) as [[c1 k1] o1]. cbn [snd fst] in *.
      rewrite removelast_cons by apply split_on_ne. cbn [map]. split.
      * f_equal; [|exact I1]. rewrite !rev'_rev. cbn [rev].
        apply beqb_eq in E. now subst.
      * rewrite I2. destruct (split_on x0a [] s) eqn:Es; [exfalso; eapply split_on_ne; eauto|reflexivity].
    + assert (Hlen : S (length cur) < maxlen).
      { assert (G : forall s acc, forallb (fun l => length l <? maxlen) (split_on x0a acc s) = true -> length acc < maxlen).
        { clear. induction s as [|d s IHs]; intros acc H.
          - cbn [split_on forallb] in H. rewrite andb_true_r in H. apply Nat.ltb_lt in H. now rewrite rev'_rev, rev_length in H.
          - cbn [split_on] in H. destruct (beqb d x0a).
            + cbn [forallb] in H. apply andb_prop in H. destruct H as [H _]. apply Nat.ltb_lt in H. now rewrite rev'_rev, rev_length in H.
            + apply IHs in H. cbn [length] in H. lia. }
        apply G in Hs. cbn [length] in Hs. exact Hs. }
      destruct k as [|[|k']]; [cbn in Hlen; lia|lia|].
      apply IH; [cbn [length]; lia|exact Hs].
Qed.

Lemma raw_lines_short maxlen s : 0 < maxlen -> short_lines maxlen s = true ->
  raw_lines maxlen s = complete_lines s /\ partial_line maxlen s = last (split x0a s) [].
Proof.
  intros Hm Hs. unfold raw_lines, partial_line, complete_lines, split.
  apply tfeed_short; [cbn; lia|exact Hs].
Qed.

(* ================= 2. the session invariant on the reading side ================= *)
Section Sess.
  Variable matches : bytes -> bool.
  Variables maxlen cap : nat.
  Notation tstep := (tstep matches maxlen cap).
  Notation trun := (trun matches maxlen cap).

  Definition RInv (pre w : bytes) (s : tst) : Prop :=
    exists n, f_file (t_r s) = pre ++ w /\ f_off (t_r s) = length pre + n /\ n <= length w /\
              tfeed maxlen [] maxlen (firstn n w) = ((f_cur (t_r s), f_k (t_r s)), produced s).

  Lemma rinv_init pre : RInv pre [] (tinit maxlen pre).
  Proof. exists 0. cbn. rewrite app_nil_r. repeat split; lia. Qed.

  Lemma firstn_extend {A} (w : list A) n m :
    firstn (n + length (firstn m (skipn n w))) w = firstn n w ++ firstn m (skipn n w).
  Proof.
    revert w; induction n as [|n IH]; intros w.
    - cbn [skipn Nat.add]. change (firstn 0 w) with (@nil A). cbn [app]. rewrite firstn_length.
      destruct (Nat.le_ge_cases m (length w)) as [H|H].
      + now rewrite Nat.min_l.
      + rewrite Nat.min_r by exact H. now rewrite firstn_all, firstn_all2.
    - destruct w as [|x w]; [cbn [skipn]; rewrite !firstn_nil; reflexivity|].
      cbn [skipn Nat.add]. rewrite !firstn_cons. cbn [app]. now rewrite IH.
  Qed.

  Lemma rinv_step pre w s e : RInv pre w s ->
    RInv pre (w ++ match e with TWrite c => c | _ => [] end) (tstep s e).
  Proof.
    intros (n & Hf & Ho & Hn & Ht). destruct e as [c|m| |].
    - exists n. cbn. rewrite Hf, app_assoc. repeat split; [exact Ho|rewrite app_length; lia|].
      rewrite firstn_app. replace (n - length w) with 0 by lia. cbn [firstn]. rewrite app_nil_r. exact Ht.
    - rewrite app_nil_r. unfold Model.C04_Tail.tstep, with_r, rstep.
      rewrite Hf, Ho, skipn_app, skipn_all2 by lia. replace (length pre + n - length pre) with n by lia.
      cbn [app]. set (data := firstn m (skipn n w)).
      destruct (tfeed maxlen (f_cur (t_r s)) (f_k (t_r s)) data) as [[cur k] out] eqn:Et.
      exists (n + length data). cbn [t_r f_file f_off f_cur f_k]. repeat split.
      + lia.
      + unfold data. rewrite firstn_length, skipn_length. lia.
      + unfold data. rewrite firstn_extend. fold data. rewrite tfeed_app, Ht, Et.
        unfold produced. cbn [t_r t_hist f_raw]. now rewrite app_assoc.
    - rewrite app_nil_r. unfold Model.C04_Tail.tstep.
      destruct (f_raw (t_r s)) as [|l rest] eqn:Er; [exists n; auto|].
      destruct (fstep (t_s s) _) as [s' o]. exists n. cbn [t_r f_file f_off f_cur f_k].
      repeat split; auto. rewrite Ht. f_equal. unfold produced. cbn [t_r t_hist f_raw].
      rewrite Er, map_app, <- app_assoc. reflexivity.
    - rewrite app_nil_r. unfold Model.C04_Tail.tstep. destruct (t_queue s); [exists n; auto|].
      exists n. cbn [t_r]. repeat split; auto.
  Qed.

  Lemma twritten_app a b : twritten (a ++ b) = twritten a ++ twritten b.
  Proof. induction a as [|[c|m| |] a IH]; cbn; rewrite ?IH, ?app_assoc; reflexivity. Qed.

  Lemma rinv_run pre : forall es w s, RInv pre w s -> RInv pre (w ++ twritten es) (trun s es).
  Proof.
    induction es as [|e es IH]; intros w s I; [cbn; now rewrite app_nil_r|].
    cbn [Model.C04_Tail.trun fold_left]. apply (rinv_step _ _ _ e) in I.
    apply IH in I. rewrite <- app_assoc in I.
    replace (twritten (e :: es)) with (match e with TWrite c => c | _ => [] end ++ twritten es); [exact I|].
    destruct e; reflexivity.
  Qed.

  (* every schedule of writes (any chunking), reads (any boundaries), filter steps and consumer
     steps: the raw lines produced so far are the raw lines of the bytes read so far, which are a
     prefix of the APPENDED bytes (nothing of the pre-existing content); once everything has been
     read they are the raw lines of the appended bytes read in one piece, and the unfinished
     line is held *)
  Theorem chunking pre es :
    let s := trun (tinit maxlen pre) es in
    exists n, n <= length (twritten es) /\ f_off (t_r s) = length pre + n /\
      f_file (t_r s) = pre ++ twritten es /\
      produced s = raw_lines maxlen (firstn n (twritten es)) /\
      rev' (f_cur (t_r s)) = partial_line maxlen (firstn n (twritten es)) /\
      (f_off (t_r s) = length (f_file (t_r s)) ->
         produced s = raw_lines maxlen (twritten es) /\ rev' (f_cur (t_r s)) = partial_line maxlen (twritten es)).
  Proof.
    intros s. destruct (rinv_run pre es [] (tinit maxlen pre) (rinv_init pre)) as (n & Hf & Ho & Hn & Ht).
    cbn [app] in *. fold s in Hf, Ho, Ht. exists n. unfold raw_lines, partial_line. rewrite Ht. cbn [fst snd].
    split; [exact Hn|]. split; [exact Ho|]. split; [exact Hf|]. split; [reflexivity|]. split; [reflexivity|].
    intros Hq. rewrite Hf, app_length in Hq. assert (n = length (twritten es)) by lia. subst n.
    rewrite firstn_all in Ht. rewrite Ht. split; reflexivity.
  Qed.

  (* ================= 3. the filter / queue side ================= *)
  Definition ffold (s : fstate) (es : list (bool * bool)) : fstate := fold_left (fun st e => fst (fstep st e)) es s.

  Lemma frun_app : forall a s b, frun s (a ++ b) = frun s a ++ frun (ffold s a) b.
  Proof.
    induction a as [|e a IH]; intros s b; [reflexivity|].
    cbn [app frun ffold fold_left]. destruct (fstep s e) as [s' o] eqn:E. cbn [fst].
    rewrite IH. reflexivity.
  Qed.

  Lemma frun_length : forall es s, length (frun s es) = length es.
  Proof. induction es as [|e es IH]; intros s; [reflexivity|]. cbn [frun]. destruct (fstep s e). cbn. now rewrite IH. Qed.

  Lemma zip_lines_app : forall l1 o1 l2 o2, length l1 = length o1 ->
    zip_lines (l1 ++ l2) (o1 ++ o2) = zip_lines l1 o1 ++ zip_lines l2 o2.
  Proof.
    induction l1 as [|l l1 IH]; intros [|o o1] l2 o2 H; try discriminate; [reflexivity|].
    cbn [app zip_lines]. injection H as H. destruct o as [[n p]|]; rewrite IH by exact H; reflexivity.
  Qed.

  Lemma delivered_snoc h l fl :
    delivered_of (h ++ [(l, fl)]) =
    delivered_of h ++ match snd (fstep (ffold finit (map snd h)) fl) with
                      | Some (n, p) => [{| l_text := l; l_count := n; l_perc := p |}]
                      | None => []
                      end.
  Proof.
    unfold delivered_of. rewrite !map_app, frun_app. cbn [map snd fst frun].
    destruct (fstep (ffold finit (map snd h)) fl) as [s' o]. cbn [snd].
    rewrite zip_lines_app by now rewrite frun_length, !map_length.
    destruct o as [[n p]|]; reflexivity.
  Qed.

  Definition SInv (s : tst) : Prop :=
    t_s s = ffold finit (map snd (t_hist s)) /\ sent s = delivered_of (t_hist s) /\
    Forall (fun e => fst (snd e) = matches (chomp (fst e))) (t_hist s).

  Lemma sinv_init pre : SInv (tinit maxlen pre).
  Proof. repeat split. constructor. Qed.

  Lemma ffold_snoc s es e : ffold s (es ++ [e]) = fst (fstep (ffold s es) e).
  Proof. unfold ffold. now rewrite fold_left_app. Qed.

  Lemma sinv_step s e : SInv s -> SInv (tstep s e).
  Proof.
    intros (Hs & Hd & Hm). destruct e as [c|m| |]; try exact (conj Hs (conj Hd Hm)).
    - unfold Model.C04_Tail.tstep. destruct (f_raw (t_r s)) as [|l rest]; [exact (conj Hs (conj Hd Hm))|].
      set (fl := (matches (chomp l), cap <=? length (t_queue s))).
      destruct (fstep (t_s s) fl) as [s' o] eqn:E. unfold SInv, sent. cbn [t_s t_hist t_got t_queue].
      rewrite map_app. cbn [map snd]. rewrite ffold_snoc, <- Hs, E. cbn [fst map snd]. split; [reflexivity|]. split.
      + rewrite delivered_snoc, <- Hs, E, <- Hd. cbn [snd]. unfold sent. now rewrite app_assoc.
      + apply Forall_app. split; [exact Hm|]. constructor; [reflexivity|constructor].
    - unfold Model.C04_Tail.tstep. destruct (t_queue s) as [|l q] eqn:Eq; [exact (conj Hs (conj Hd Hm))|].
      unfold SInv, sent in *. cbn [t_s t_hist t_got t_queue]. rewrite Eq in Hd. rewrite <- app_assoc. auto.
  Qed.

  Lemma sinv_run : forall es s, SInv s -> SInv (trun s es).
  Proof. induction es as [|e es IH]; intros s I; [exact I|]. cbn. apply IH. now apply sinv_step. Qed.

  (* what the statistics machine delivers: exactly the matching lines that did not meet a full
     queue, each once, in order, unmodified *)
  Definition accepted (e : bytes * (bool * bool)) : bool := fst (snd e) && negb (snd (snd e)).

  Lemma zip_lines_text : forall (h : list (bytes * (bool * bool))) s,
    map l_text (zip_lines (map fst h) (frun s (map snd h))) = map fst (filter accepted h).
  Proof.
    induction h as [|[l [m f]] h IH]; intros s; [reflexivity|].
    cbn [map fst snd frun fstep wflag filter]. unfold accepted at 1. cbn [fst snd].
    destruct (m && negb f); cbn [zip_lines map l_text fst]; now rewrite IH.
  Qed.

  Lemma delivered_text h : map l_text (delivered_of h) = map fst (filter accepted h).
  Proof. apply zip_lines_text. Qed.

  (* the number a delivered line carries is its position among ALL raw lines since the follow began *)
  Lemma ffold_count : forall es s, s_count (ffold s es) = (s_count s + N.of_nat (length es))%N.
  Proof.
    induction es as [|e es IH]; intros s; [cbn; lia|]. cbn [ffold fold_left length].
    change (fold_left _ es ?x) with (ffold x es). rewrite IH. cbn [fstep fst s_count]. lia.
  Qed.

  Lemma frun_nth : forall es j e, nth_error es j = Some e ->
    nth_error (frun finit es) j = Some (snd (fstep (ffold finit (firstn j es)) e)).
  Proof.
    intros es j e H. destruct (nth_error_split es j H) as (a & b & -> & Hl).
    rewrite frun_app. rewrite nth_error_app2 by (rewrite frun_length; lia).
    rewrite frun_length, Hl, Nat.sub_diag. rewrite firstn_app, <- Hl, Nat.sub_diag, firstn_all. cbn [firstn].
    rewrite app_nil_r. cbn [frun]. destruct (fstep (ffold finit a) e). reflexivity.
  Qed.

  Theorem count_label es j n p : nth_error (frun finit es) j = Some (Some (n, p)) -> n = N.of_nat (S j).
  Proof.
    intros H. assert (Hj : j < length es) by (rewrite <- (frun_length es finit); apply nth_error_Some; congruence).
    destruct (nth_error es j) as [e|] eqn:E; [|apply nth_error_None in E; lia].
    rewrite (frun_nth _ _ _ E) in H. injection H as H. unfold fstep, wflag in H. cbn [fst snd] in H.
    destruct (fst e && negb (snd e)); [|discriminate]. injection H as H _. rewrite <- H, ffold_count.
    rewrite firstn_length. cbn. lia.
  Qed.

  (* window *)
  Lemma firstn_cons_firstn {A} n (x : A) w : firstn n (x :: firstn n w) = firstn n (x :: w).
  Proof. destruct n; [reflexivity|]. rewrite !firstn_cons, firstn_firstn. f_equal. f_equal. lia. Qed.

  Lemma ffold_win : forall es, s_win (ffold finit es) = firstn ring (rev (map wflag es)).
  Proof.
    induction es as [|e es IH] using rev_ind; [cbn; now rewrite firstn_nil|].
    rewrite ffold_snoc. cbn [fstep fst s_win]. rewrite IH, firstn_cons_firstn, map_app, rev_app_distr. reflexivity.
  Qed.

  Lemma cnt_lt : forall w, (forall e, In e w -> snd e = true -> fst e = true) -> In (true, false) w ->
    cnt snd w < cnt fst w.
  Proof.
    unfold cnt. induction w as [|[m t] w IH]; intros Hall Hin; [destruct Hin|].
    assert (Hle : forall w', (forall e, In e w' -> snd e = true -> fst e = true) ->
                        length (filter snd w') <= length (filter fst w')).
    { clear. induction w' as [|[m t] w' IHw]; intros H; [cbn; lia|]. cbn [filter fst snd].
      assert (Hw : forall e, In e w' -> snd e = true -> fst e = true) by (intros; apply H; [now right|assumption]).
      specialize (IHw Hw). destruct t; cbn [length].
      - assert (Em : m = true) by (apply (H (m, true)); [now left|reflexivity]). subst m. cbn [length]. lia.
      - destruct m; cbn [length]; lia. }
    assert (Hw : forall e, In e w -> snd e = true -> fst e = true) by (intros; apply Hall; [now right|assumption]).
    cbn [filter fst snd]. destruct Hin as [Heq|Hin].
    - injection Heq as -> ->. cbn [length]. specialize (Hle w Hw). lia.
    - specialize (IH Hw Hin). destruct t; cbn [length].
      + assert (Em : m = true) by (apply (Hall (m, true)); [now left|reflexivity]). subst m. cbn [length]. lia.
      + destruct m; cbn [length]; lia.
  Qed.

  Lemma cnt_le_len f w : cnt f w <= length w.
  Proof. unfold cnt. induction w as [|x w IH]; [cbn; lia|]. cbn [filter]. destruct (f x); cbn [length]; lia. Qed.

  Lemma in_firstn_app {A} (x : A) p q n : length p < n -> In x (firstn n (p ++ x :: q)).
  Proof.
    intros H. rewrite firstn_app. apply in_or_app. right.
    destruct (n - length p) eqn:E; [lia|]. now left.
  Qed.
End Sess.

(* ================= 4. the percentage ================= *)
Definition perc_sweep (r : nat) : bool :=
  forallb (fun m => forallb (fun t => Nat.ltb (perc m t) 100) (seq 0 m)) (seq 0 (S r)).

Lemma perc_sweep_ring : perc_sweep ring = true.
Proof. vm_compute. reflexivity. Qed.

Lemma perc_lt m t : m <= ring -> t < m -> perc m t < 100.
Proof.
  intros Hm Ht. pose proof perc_sweep_ring as H. unfold perc_sweep in H.
  rewrite forallb_forall in H. specialize (H m). rewrite forallb_forall in H.
  apply Nat.ltb_lt. apply H; apply in_seq; lia.
Qed.

Lemma perc_full m : perc m m = 100.
Proof. unfold perc. rewrite Nat.eqb_refl, orb_true_r. reflexivity. Qed.

Lemma nth_error_firstn_lt {A} : forall (l : list A) i j, i < j -> nth_error (firstn j l) i = nth_error l i.
Proof.
  induction l as [|x l IH]; intros i j H; [now rewrite firstn_nil|].
  destruct j; [lia|]. destruct i; [reflexivity|]. cbn. apply IH. lia.
Qed.

Lemma In_firstn_incl {A} (x : A) : forall n l, In x (firstn n l) -> In x l.
Proof.
  induction n as [|n IH]; intros l H; [destruct H|]. destruct l as [|y l]; [destruct H|].
  cbn in H. destruct H as [H|H]; [now left|right; now apply IH].
Qed.

(* a matching line dropped fewer than [ring] lines ago is still in the window when a line is
   delivered: that line reports less than 100 *)
Theorem perc_after_drop (flags : list (bool * bool)) i j :
  i < j -> j - i < ring ->
  nth_error flags i = Some (true, true) -> nth_error flags j = Some (true, false) ->
  exists n p, nth_error (frun finit flags) j = Some (Some (n, p)) /\ p < 100.
Proof.
  intros Hij Hr Hi Hj. rewrite (frun_nth _ _ _ Hj). unfold fstep. cbn [wflag fst snd andb negb].
  eexists _, _. split; [reflexivity|].
  rewrite ffold_win. rewrite firstn_cons_firstn.
  set (a := firstn j flags).
  assert (Ha : nth_error a i = Some (true, true)).
  { unfold a. rewrite nth_error_firstn_lt by exact Hij. exact Hi. }
  destruct (nth_error_split a i Ha) as (a1 & a2 & Ea & Hl).
  assert (Hlen : length a = j).
  { unfold a. rewrite firstn_length. apply Nat.min_l. apply Nat.lt_le_incl. apply nth_error_Some. congruence. }
  set (w := firstn ring ((true, true) :: rev (map wflag a))).
  apply perc_lt.
  - etransitivity; [apply cnt_le_len|]. unfold w. rewrite firstn_length. lia.
  - apply cnt_lt.
    + intros e He Hs. unfold w in He. apply In_firstn_incl in He. destruct He as [<-|He]; [reflexivity|].
      apply in_rev, in_map_iff in He. destruct He as ([m f] & <- & _). cbn in *. now destruct m.
    + unfold w. rewrite Ea, map_app, rev_app_distr. cbn [map rev]. rewrite <- app_assoc. cbn [app].
      rewrite app_comm_cons. change (wflag (true, true)) with (true, false).
      apply in_firstn_app. cbn [length]. rewrite rev_length, map_length.
      rewrite Ea, app_length in Hlen. cbn [length] in Hlen. lia.
Qed.

(* the property's sentence "the NEXT delivered line reports < 100" without the window bound is
   false of the faithful model: a drop followed by ring-1 non-matching lines *)
Definition refute_flags : list (bool * bool) := (true, true) :: repeat (false, false) (ring - 1) ++ [(true, false)].
Lemma perc_next_refuted :
  nth_error refute_flags 0 = Some (true, true) /\
  (forall k, 0 < k < ring -> nth_error (frun finit refute_flags) k = Some None) /\
  nth_error (frun finit refute_flags) ring = Some (Some (N.of_nat (S ring), 100)).
Proof.
  split; [reflexivity|]. split.
  - intros k Hk. assert (H : forallb (fun k => match nth_error (frun finit refute_flags) k with Some None => true | _ => false end) (seq 1 (ring - 1)) = true) by (vm_compute; reflexivity).
    rewrite forallb_forall in H. specialize (H k).
    destruct (nth_error (frun finit refute_flags) k) as [[?|]|]; try reflexivity; (assert (false = true) as X by (apply H; apply in_seq; lia); discriminate X).
  - vm_compute. reflexivity.
Qed.

(* ================= 5. no drop when the consumer keeps up ================= *)
Section KeepUp.
  Variable matches : bytes -> bool.
  Variables maxlen cap : nat.
  Notation tstep := (tstep matches maxlen cap).
  Notation trun := (trun matches maxlen cap).

  Fixpoint keeps_up (s : tst) (es : list tev) : Prop :=
    match es with
    | [] => True
    | e :: r => (e = TFilter -> length (t_queue s) < cap) /\ keeps_up (tstep s e) r
    end.

  Definition NoFull (s : tst) : Prop := Forall (fun e => snd (snd e) = false) (t_hist s).

  Lemma nofull_run : forall es s, NoFull s -> keeps_up s es -> NoFull (trun s es).
  Proof.
    induction es as [|e es IH]; intros s N K; [exact N|]. destruct K as [K1 K2]. cbn. apply IH; [|exact K2].
    destruct e as [c|m| |]; try exact N.
    - unfold Model.C04_Tail.tstep. destruct (f_raw (t_r s)) as [|l rest]; [exact N|].
      destruct (fstep (t_s s) _) as [s' o]. unfold NoFull. cbn [t_hist].
      apply Forall_app. split; [exact N|]. constructor; [|constructor]. cbn [snd].
      apply Nat.leb_gt. now apply K1.
    - unfold Model.C04_Tail.tstep. destruct (t_queue s); exact N.
  Qed.

  Lemma filter_accepted_nofull h :
    Forall (fun e => snd (snd e) = false) h -> Forall (fun e => fst (snd e) = matches (chomp (fst e))) h ->
    map fst (filter accepted h) = filter (fun l => matches (chomp l)) (map fst h).
  Proof.
    induction h as [|[l [m f]] h IH]; intros Hf Hm; [reflexivity|].
    inversion Hf as [|? ? Hf1 Hf2]; inversion Hm as [|? ? Hm1 Hm2]; subst. cbn in Hf1, Hm1. subst f.
    cbn [filter map fst snd]. unfold accepted at 1. cbn [fst snd negb]. rewrite <- Hm1, andb_true_r.
    destruct m; cbn [map fst]; now rewrite IH.
  Qed.

  Theorem no_drop pre es :
    keeps_up (tinit maxlen pre) es ->
    let s := trun (tinit maxlen pre) es in
    map l_text (sent s) = filter (fun l => matches (chomp l)) (map fst (t_hist s)).
  Proof.
    intros K s. destruct (sinv_run matches maxlen cap es _ (sinv_init matches maxlen pre)) as (_ & Hd & Hm).
    fold s in Hd, Hm. rewrite Hd, delivered_text. apply filter_accepted_nofull; [|exact Hm].
    apply nofull_run; [constructor|exact K].
  Qed.

  (* on every schedule: what reaches the consumer or waits in the queue is the accepted
     subsequence, each line once, in order, unmodified; a matching line is missing iff the queue
     was full when the filter looked at it *)
  Theorem delivery pre es :
    let s := trun (tinit maxlen pre) es in
    sent s = delivered_of (t_hist s) /\
    map l_text (sent s) = map fst (filter accepted (t_hist s)) /\
    Forall (fun e => fst (snd e) = matches (chomp (fst e))) (t_hist s).
  Proof.
    intros s. destruct (sinv_run matches maxlen cap es _ (sinv_init matches maxlen pre)) as (_ & Hd & Hm).
    fold s in Hd, Hm. split; [exact Hd|]. split; [|exact Hm]. rewrite Hd. apply delivered_text.
  Qed.
End KeepUp.
