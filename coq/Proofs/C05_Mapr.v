From DT Require Import Lib.Bytes Model.C05_Mapr.

(* ---------- association lists ---------- *)
Lemma gget_gput_same g k s : gget (gput g k s) k = Some s.
Proof.
  induction g as [|[k' s'] r IH]; simpl; [now rewrite bytes_eqb_refl|].
  destruct (bytes_eqb k k') eqn:E; simpl; [now rewrite bytes_eqb_refl|]. now rewrite E.
Qed.
Lemma gget_gput_other g k k2 s : k2 <> k -> gget (gput g k s) k2 = gget g k2.
Proof.
  intros Hne. induction g as [|[k' s'] r IH]; simpl.
  - destruct (bytes_eqb k2 k) eqn:E; [apply bytes_eqb_eq in E; contradiction|reflexivity].
  - destruct (bytes_eqb k k') eqn:E; simpl.
    + apply bytes_eqb_eq in E. subst k'.
      destruct (bytes_eqb k2 k) eqn:E2; [apply bytes_eqb_eq in E2; contradiction|reflexivity].
    + destruct (bytes_eqb k2 k'); [reflexivity|exact IH].
Qed.

Definition keys (g : gset) : list bytes := map fst g.
Lemma keys_gput g k s : In k (keys g) -> keys (gput g k s) = keys g.
Proof.
  induction g as [|[k' s'] r IH]; simpl; [tauto|]. intros H.
  destruct (bytes_eqb k k') eqn:E; simpl; [apply bytes_eqb_eq in E; now subst|].
  f_equal. apply IH. destruct H as [H|H]; [subst; rewrite bytes_eqb_refl in E; discriminate|exact H].
Qed.
Lemma keys_gput_new g k s : ~ In k (keys g) -> keys (gput g k s) = keys g ++ [k].
Proof.
  induction g as [|[k' s'] r IH]; simpl; [reflexivity|]. intros H.
  destruct (bytes_eqb k k') eqn:E; [apply bytes_eqb_eq in E; subst; tauto|]. simpl. f_equal. apply IH. tauto.
Qed.
Lemma gget_none_iff g k : gget g k = None <-> ~ In k (keys g).
Proof.
  induction g as [|[k' s'] r IH]; simpl; [tauto|].
  destruct (bytes_eqb k k') eqn:E.
  - apply bytes_eqb_eq in E. subst. split; [discriminate|tauto].
  - rewrite IH. split; [intros H [H1|H1]; [subst; rewrite bytes_eqb_refl in E; discriminate|tauto]|tauto].
Qed.
Lemma nodup_snoc {A} (l : list A) x : NoDup l -> ~ In x l -> NoDup (l ++ [x]).
Proof.
  induction l as [|y l IH]; intros Hn Hx; simpl; [constructor; [tauto|constructor]|].
  inversion Hn; subst. constructor.
  - intros Hin. apply in_app_or in Hin. destruct Hin as [Hin|[->|[]]]; [contradiction|apply Hx; now left].
  - apply IH; [assumption|]. intros Hin. apply Hx. now right.
Qed.
Lemma nodup_gput g k s : NoDup (keys g) -> NoDup (keys (gput g k s)).
Proof.
  intros H. destruct (gget g k) eqn:E.
  - assert (Hin : In k (keys g)).
    { destruct (in_dec (list_eq_dec Coq.Strings.Byte.byte_eq_dec) k (keys g)) as [Hi|Hi]; [exact Hi|].
      apply gget_none_iff in Hi. congruence. }
    now rewrite keys_gput.
  - apply gget_none_iff in E. rewrite keys_gput_new by assumption. now apply nodup_snoc.
Qed.

(* ---------- cell algebra: merging a partial result commutes with further aggregation ---------- *)
Lemma merge_agg_cell op a b v b' : agg1 op b v = Some b' ->
  exists m', agg1 op (merge_cell true op a b) v = Some m' /\ merge_cell true op a b' = m'.
Proof.
  destruct op; cbn [agg1]; intros H.
  - (* count *) inversion H; subst. eexists; split; [reflexivity|].
    unfold merge_cell, add_f. destruct a as [[x|] sa], b as [[y|] sb]; cbn; f_equal; f_equal; lia.
  - destruct (v_num v) as [n|]; [|discriminate]. inversion H; subst. cbn. eexists; split; [reflexivity|].
    unfold merge_cell, add_f. destruct a as [[x|] sa], b as [[y|] sb]; cbn; f_equal; f_equal; lia.
  - destruct (v_num v) as [n|]; [|discriminate]. inversion H; subst. cbn. eexists; split; [reflexivity|].
    unfold merge_cell, min_f. destruct a as [[x|] sa], b as [[y|] sb]; cbn; f_equal; f_equal; lia.
  - destruct (v_num v) as [n|]; [|discriminate]. inversion H; subst. cbn. eexists; split; [reflexivity|].
    unfold merge_cell, max_f. destruct a as [[x|] sa], b as [[y|] sb]; cbn; f_equal; f_equal; lia.
  - inversion H; subst. eexists; split; [reflexivity|].
    unfold merge_cell. destruct a as [fa sa], b as [fb [sb|]]; cbn; reflexivity.
  - destruct (v_num v) as [n|]; [|discriminate]. inversion H; subst. cbn. eexists; split; [reflexivity|].
    unfold merge_cell, add_f. destruct a as [[x|] sa], b as [[y|] sb]; cbn; f_equal; f_equal; lia.
  - inversion H; subst. eexists; split; [reflexivity|].
    unfold merge_cell. destruct a as [fa sa], b as [[fb|] [sb|]]; cbn; reflexivity.
Qed.

Lemma agg1_fail_indep op b v a : agg1 op b v = None -> agg1 op a v = None.
Proof. destruct op; cbn; try discriminate; destruct (v_num v); try discriminate; auto. Qed.

Lemma merge_agg_cols : forall ops A B vals, length A = length ops -> length B = length ops ->
  let '(cB, anyB) := agg_cols ops B vals in
  let '(cM, anyM) := agg_cols ops (merge_cells true ops A B) vals in
  merge_cells true ops A cB = cM /\ anyB = anyM.
Proof.
  induction ops as [|op ops IH]; intros A B vals HA HB.
  - destruct A, B; try discriminate. cbn. auto.
  - destruct A as [|a A], B as [|b B]; try discriminate. injection HA as HA. injection HB as HB.
    destruct vals as [|v vals]; [cbn; auto|].
    cbn [agg_cols merge_cells]. specialize (IH A B vals HA HB).
    destruct (agg_cols ops B vals) as [cB anyB]. destruct (agg_cols ops (merge_cells true ops A B) vals) as [cM anyM].
    destruct IH as [IH1 IH2]. destruct v as [x|].
    + destruct (agg1 op b x) as [b'|] eqn:Eb.
      * destruct (merge_agg_cell op a b x b' Eb) as (m' & Em & Hm). rewrite Em. cbn [merge_cells]. split; [now rewrite Hm, IH1|reflexivity].
      * rewrite (agg1_fail_indep op b x (merge_cell true op a b) Eb). cbn [merge_cells]. split; [now rewrite IH1|exact IH2].
    + cbn [merge_cells]. split; [now rewrite IH1|exact IH2].
Qed.

Lemma agg_cols_length : forall ops cells vals, length (fst (agg_cols ops cells vals)) = length cells.
Proof.
  induction ops as [|op ops IH]; intros cells vals; [reflexivity|].
  destruct cells as [|c cells]; [reflexivity|]. destruct vals as [|v vals]; [reflexivity|]. cbn [agg_cols].
  specialize (IH cells vals). destruct (agg_cols ops cells vals) as [rest any]. cbn in IH.
  destruct v as [x|]; [destruct (agg1 op c x)|]; cbn; now rewrite IH.
Qed.

Definition wf (ops : list aop) (s : aset) : Prop := length (a_cells s) = length ops.

Lemma wf_aset0 ops : wf ops (aset0 ops).
Proof. unfold wf, aset0. cbn. now rewrite map_length. Qed.
Lemma wf_agg ops s vals : wf ops s -> wf ops (agg_record ops s vals).
Proof.
  unfold wf, agg_record. intros H. pose proof (agg_cols_length ops (a_cells s) vals) as Hl.
  destruct (agg_cols ops (a_cells s) vals) as [cells any]. cbn in *. lia.
Qed.
Lemma merge_cells_length : forall ops A B, length A = length ops -> length (merge_cells true ops A B) = length ops.
Proof.
  induction ops as [|op ops IH]; intros A B H; destruct A as [|a A]; try discriminate; [reflexivity|].
  destruct B as [|b B]; cbn [merge_cells]; [exact H|]. cbn. f_equal. apply IH. now injection H.
Qed.
Lemma wf_merge ops A B : wf ops A -> wf ops (merge_aset true ops A B).
Proof. unfold wf. cbn. intros H. now apply merge_cells_length. Qed.

(* merging B into A and then aggregating one more record = aggregating the record into B first *)
Lemma merge_agg_record ops A B vals : wf ops A -> wf ops B ->
  merge_aset true ops A (agg_record ops B vals) = agg_record ops (merge_aset true ops A B) vals.
Proof.
  unfold wf. intros HA HB. pose proof (merge_agg_cols ops (a_cells A) (a_cells B) vals HA HB) as H.
  unfold agg_record, merge_aset. cbn [a_cells a_samples].
  destruct (agg_cols ops (a_cells B) vals) as [cB anyB].
  destruct (agg_cols ops (merge_cells true ops (a_cells A) (a_cells B)) vals) as [cM anyM].
  destruct H as [H1 H2]. subst anyM. cbn [a_cells a_samples]. rewrite H1. f_equal. destruct anyB; lia.
Qed.

Lemma merge_cells_empty : forall ops A, length A = length ops -> merge_cells true ops A (map (fun _ => cell0) ops) = A.
Proof.
  induction ops as [|op ops IH]; intros A H; destruct A as [|a A]; try discriminate; [reflexivity|].
  cbn [map merge_cells]. rewrite IH by now injection H. f_equal. destruct op, a as [fa sa]; reflexivity.
Qed.
Lemma merge_empty ops A : wf ops A -> merge_aset true ops A (aset0 ops) = A.
Proof.
  unfold wf, merge_aset, aset0. cbn. intros H. rewrite merge_cells_empty by assumption.
  destruct A; cbn. f_equal. lia.
Qed.

(* aggregation of a record list into a set *)
Definition agg_list (ops : list aop) (s : aset) (l : list (list (option value))) : aset := fold_left (agg_record ops) l s.

Lemma wf_agg_list ops : forall l s, wf ops s -> wf ops (agg_list ops s l).
Proof. induction l as [|v l IH]; intros s H; [exact H|]. cbn. apply IH. now apply wf_agg. Qed.

(* the chunk lemma: a chunk aggregated on its own and merged = the same records aggregated on *)
Theorem merge_chunk ops : forall l A B, wf ops A -> wf ops B ->
  merge_aset true ops A (agg_list ops B l) = agg_list ops (merge_aset true ops A B) l.
Proof.
  induction l as [|v l IH]; intros A B HA HB; [reflexivity|]. cbn [agg_list fold_left].
  fold (agg_list ops (agg_record ops B v) l). rewrite IH by (auto using wf_agg).
  fold (agg_list ops (agg_record ops (merge_aset true ops A B) v) l). now rewrite merge_agg_record.
Qed.

Corollary merge_fresh_chunk ops l A : wf ops A ->
  merge_aset true ops A (agg_list ops (aset0 ops) l) = agg_list ops A l.
Proof. intros H. rewrite merge_chunk by (auto using wf_aset0). now rewrite merge_empty. Qed.

(* ---------- numeric columns do not depend on the order of the records ---------- *)
Lemma agg1_comm_num op c v1 v2 c1 c12 c2 c21 : numeric_op op = true ->
  agg1 op c v1 = Some c1 -> agg1 op c1 v2 = Some c12 -> agg1 op c v2 = Some c2 -> agg1 op c2 v1 = Some c21 -> c12 = c21.
Proof.
  destruct op; try discriminate; intros _; cbn [agg1].
  - intros H1 H2 H3 H4. inversion H1; inversion H2; inversion H3; inversion H4; subst.
    unfold add_f. destruct c as [[x|] s]; cbn; f_equal; f_equal; lia.
  - destruct (v_num v1) as [a|], (v_num v2) as [b|]; try discriminate. cbn.
    intros H1 H2 H3 H4. inversion H1; inversion H2; inversion H3; inversion H4; subst.
    unfold add_f. destruct c as [[x|] s]; cbn; f_equal; f_equal; lia.
  - destruct (v_num v1) as [a|], (v_num v2) as [b|]; try discriminate. cbn.
    intros H1 H2 H3 H4. inversion H1; inversion H2; inversion H3; inversion H4; subst.
    unfold min_f. destruct c as [[x|] s]; cbn; f_equal; f_equal; lia.
  - destruct (v_num v1) as [a|], (v_num v2) as [b|]; try discriminate. cbn.
    intros H1 H2 H3 H4. inversion H1; inversion H2; inversion H3; inversion H4; subst.
    unfold max_f. destruct c as [[x|] s]; cbn; f_equal; f_equal; lia.
  - destruct (v_num v1) as [a|], (v_num v2) as [b|]; try discriminate. cbn.
    intros H1 H2 H3 H4. inversion H1; inversion H2; inversion H3; inversion H4; subst.
    unfold add_f. destruct c as [[x|] s]; cbn; f_equal; f_equal; lia.
Qed.

(* ---------- group sets: per key, a distributed run = the central one ---------- *)
Definition recs_of (k : bytes) (recs : list record) : list (list (option value)) :=
  map snd (filter (fun r => bytes_eqb (fst r) k) recs).
Lemma recs_of_app k a b : recs_of k (a ++ b) = recs_of k a ++ recs_of k b.
Proof. unfold recs_of. now rewrite filter_app, map_app. Qed.

Definition sstep (ops : list aop) (g : gset) (r : record) : gset :=
  gput g (fst r) (agg_record ops (match gget g (fst r) with Some s => s | None => aset0 ops end) (snd r)).

Lemma server_fold_get ops k : forall recs g,
  gget (fold_left (sstep ops) recs g) k =
  match recs_of k recs with
  | [] => gget g k
  | l => Some (agg_list ops (match gget g k with Some s => s | None => aset0 ops end) l)
  end.
Proof.
  induction recs as [|[k' vals] recs IH]; intros g; [reflexivity|].
  cbn [fold_left]. rewrite IH. unfold recs_of. cbn [filter fst].
  destruct (bytes_eqb k' k) eqn:E.
  - apply bytes_eqb_eq in E. subst k'. unfold sstep at 1 2. cbn [fst snd]. rewrite !gget_gput_same. cbn [map snd].
    fold (recs_of k recs). destruct (recs_of k recs); reflexivity.
  - assert (Hne : k <> k') by (intros ->; rewrite bytes_eqb_refl in E; discriminate).
    unfold sstep at 1 2. cbn [fst snd]. rewrite !gget_gput_other by assumption. reflexivity.
Qed.

Lemma server_keys_nodup ops : forall recs g, NoDup (keys g) -> NoDup (keys (fold_left (sstep ops) recs g)).
Proof. induction recs as [|r recs IH]; intros g H; [exact H|]. cbn. apply IH. now apply nodup_gput. Qed.

Definition mstep (ops : list aop) (g : gset) (kp : bytes * aset) : gset :=
  gput g (fst kp) (merge_aset true ops (match gget g (fst kp) with Some s => s | None => aset0 ops end) (snd kp)).

Lemma merge_fold_get ops k : forall part into, NoDup (keys part) ->
  gget (fold_left (mstep ops) part into) k =
  match gget part k with
  | Some p => Some (merge_aset true ops (match gget into k with Some s => s | None => aset0 ops end) p)
  | None => gget into k
  end.
Proof.
  induction part as [|[k' p] part IH]; intros into Hn; [reflexivity|].
  cbn [fold_left keys map fst] in *. inversion Hn as [|? ? Hk' Hn']; subst. rewrite IH by assumption.
  cbn [gget]. destruct (bytes_eqb k k') eqn:E.
  - apply bytes_eqb_eq in E. subst k'.
    assert (Hnone : gget part k = None) by (apply gget_none_iff; exact Hk').
    rewrite Hnone. unfold mstep. cbn [fst snd]. now rewrite gget_gput_same.
  - assert (Hne : k <> k') by (intros ->; rewrite bytes_eqb_refl in E; discriminate).
    unfold mstep. cbn [fst snd]. rewrite gget_gput_other by assumption. reflexivity.
Qed.

Lemma server_aggregate_eq ops recs : server_aggregate ops recs = fold_left (sstep ops) recs [].
Proof. reflexivity. Qed.
Lemma merge_gset_eq ops into part : merge_gset true ops into part = fold_left (mstep ops) part into.
Proof. reflexivity. Qed.

Lemma agg_list_app ops s a b : agg_list ops s (a ++ b) = agg_list ops (agg_list ops s a) b.
Proof. unfold agg_list. now rewrite fold_left_app. Qed.

(* the view of a record prefix R at key k *)
Definition gview (ops : list aop) (R : list record) (k : bytes) : option aset := gget (server_aggregate ops R) k.

Lemma gview_spec ops R k : gview ops R k = match recs_of k R with [] => None | l => Some (agg_list ops (aset0 ops) l) end.
Proof. unfold gview. rewrite server_aggregate_eq, server_fold_get. reflexivity. Qed.

Theorem distributed_from ops : forall chunks G R,
  (forall k, gget G k = gview ops R k) ->
  forall k, gget (fold_left (fun g ch => merge_gset true ops g (server_aggregate ops ch)) chunks G) k
            = gview ops (R ++ concat chunks) k.
Proof.
  induction chunks as [|ch chunks IH]; intros G R HG k; [cbn; now rewrite app_nil_r|].
  cbn [fold_left concat]. rewrite app_assoc. apply IH. clear IH k. intros k.
  rewrite merge_gset_eq, merge_fold_get by (rewrite server_aggregate_eq; apply server_keys_nodup; constructor).
  rewrite HG. rewrite !gview_spec, recs_of_app.
  change (gget (server_aggregate ops ch) k) with (gview ops ch k). rewrite gview_spec.
  destruct (recs_of k ch) as [|v l] eqn:Ec.
  - rewrite app_nil_r. reflexivity.
  - destruct (recs_of k R) as [|w m] eqn:Er.
    + cbn [app]. rewrite merge_fresh_chunk by apply wf_aset0. reflexivity.
    + rewrite merge_fresh_chunk by (apply wf_agg_list, wf_aset0).
      rewrite <- agg_list_app. cbn [app]. reflexivity.
Qed.

(* every group, every column, the sample count: however the records are cut into chunks *)
Theorem distributed_is_central ops chunks k :
  gget (distributed true ops chunks) k = gget (central ops (concat chunks)) k.
Proof.
  unfold distributed, central. rewrite (distributed_from ops chunks [] [] (fun _ => eq_refl) k). reflexivity.
Qed.
