(* C05 — arrival order: permuting the partial results (hence the records) leaves every group's
   aggregate set unchanged when the select list consists of numeric aggregations. *)
From Coq Require Import Permutation.
From DT Require Import Lib.Bytes Model.C05_Mapr Proofs.C05_Mapr.

(* the effect of one record on one storage key *)
Definition eff (op : aop) (c : cell) (v : option value) : cell :=
  match v with
  | Some x => match agg1 op c x with Some c' => c' | None => c end
  | None => c
  end.

Lemma nth_error_ext {A} : forall (l l' : list A), (forall i, nth_error l i = nth_error l' i) -> l = l'.
Proof.
  induction l as [|x l IH]; intros [|y l'] H; [reflexivity|specialize (H 0); discriminate|specialize (H 0); discriminate|].
  pose proof (H 0) as H0. cbn in H0. injection H0 as ->. f_equal. apply IH. intros i. exact (H (S i)).
Qed.

Lemma agg_cols_nth : forall ops cells vals i,
  nth_error (fst (agg_cols ops cells vals)) i =
  match nth_error cells i with
  | None => None
  | Some c => match nth_error ops i, nth_error vals i with
              | Some op, Some v => Some (eff op c v)
              | _, _ => Some c
              end
  end.
Proof.
  induction ops as [|op ops IH]; intros cells vals i.
  - cbn [agg_cols fst]. destruct (nth_error cells i); [|reflexivity]. destruct i; reflexivity.
  - destruct cells as [|c cells]; [cbn; destruct i; reflexivity|].
    destruct vals as [|v vals].
    + cbn [agg_cols fst]. destruct (nth_error (c :: cells) i); [|reflexivity].
      destruct (nth_error (op :: ops) i); [|reflexivity]. destruct i; reflexivity.
    + cbn [agg_cols]. specialize (IH cells vals). destruct (agg_cols ops cells vals) as [rest any] eqn:E. cbn [fst] in IH.
      destruct i as [|i].
      * cbn [nth_error]. unfold eff. destruct v as [x|]; [destruct (agg1 op c x)|]; reflexivity.
      * cbn [nth_error]. rewrite <- IH. destruct v as [x|]; [destruct (agg1 op c x)|]; reflexivity.
Qed.

Lemma agg_cols_any_indep : forall ops cells cells' vals, length cells = length cells' ->
  snd (agg_cols ops cells vals) = snd (agg_cols ops cells' vals).
Proof.
  induction ops as [|op ops IH]; intros cells cells' vals H; [reflexivity|].
  destruct cells as [|c cells], cells' as [|c' cells']; try discriminate; [reflexivity|].
  destruct vals as [|v vals]; [reflexivity|]. cbn [agg_cols]. injection H as H.
  specialize (IH cells cells' vals H).
  destruct (agg_cols ops cells vals) as [r1 a1], (agg_cols ops cells' vals) as [r2 a2]. cbn [snd] in IH. subst a2.
  destruct v as [x|]; [|reflexivity].
  destruct (agg1 op c x) eqn:E1, (agg1 op c' x) eqn:E2; try reflexivity.
  - apply (agg1_fail_indep _ _ _ c) in E2. congruence.
  - apply (agg1_fail_indep _ _ _ c') in E1. congruence.
Qed.

Lemma eff_comm op c v1 v2 : numeric_op op = true -> eff op (eff op c v1) v2 = eff op (eff op c v2) v1.
Proof.
  intros Hn. destruct v1 as [x|], v2 as [y|]; try reflexivity. unfold eff.
  destruct op; try discriminate; cbn [agg1].
  - unfold add_f. destruct c as [[z|] s]; cbn; f_equal; f_equal; lia.
  - destruct (v_num x) as [p|] eqn:Ex, (v_num y) as [q|] eqn:Ey; cbn; rewrite ?Ex, ?Ey; cbn; try reflexivity.
    unfold add_f. destruct c as [[z|] s]; cbn; f_equal; f_equal; lia.
  - destruct (v_num x) as [p|] eqn:Ex, (v_num y) as [q|] eqn:Ey; cbn; rewrite ?Ex, ?Ey; cbn; try reflexivity.
    unfold min_f. destruct c as [[z|] s]; cbn; f_equal; f_equal; lia.
  - destruct (v_num x) as [p|] eqn:Ex, (v_num y) as [q|] eqn:Ey; cbn; rewrite ?Ex, ?Ey; cbn; try reflexivity.
    unfold max_f. destruct c as [[z|] s]; cbn; f_equal; f_equal; lia.
  - destruct (v_num x) as [p|] eqn:Ex, (v_num y) as [q|] eqn:Ey; cbn; rewrite ?Ex, ?Ey; cbn; try reflexivity.
    unfold add_f. destruct c as [[z|] s]; cbn; f_equal; f_equal; lia.
Qed.

Lemma agg_record_comm ops s v1 v2 : forallb numeric_op ops = true ->
  agg_record ops (agg_record ops s v1) v2 = agg_record ops (agg_record ops s v2) v1.
Proof.
  intros Hn. unfold agg_record.
  destruct (agg_cols ops (a_cells s) v1) as [c1 a1] eqn:E1. destruct (agg_cols ops (a_cells s) v2) as [c2 a2] eqn:E2.
  cbn [a_cells a_samples].
  destruct (agg_cols ops c1 v2) as [c12 a12] eqn:E12. destruct (agg_cols ops c2 v1) as [c21 a21] eqn:E21.
  assert (L1 : length c1 = length (a_cells s)) by (rewrite <- (agg_cols_length ops (a_cells s) v1), E1; reflexivity).
  assert (L2 : length c2 = length (a_cells s)) by (rewrite <- (agg_cols_length ops (a_cells s) v2), E2; reflexivity).
  assert (A12 : a12 = a2).
  { pose proof (agg_cols_any_indep ops c1 (a_cells s) v2 L1) as H. now rewrite E12, E2 in H. }
  assert (A21 : a21 = a1).
  { pose proof (agg_cols_any_indep ops c2 (a_cells s) v1 L2) as H. now rewrite E21, E1 in H. }
  subst a12 a21. f_equal.
  - destruct a1, a2; reflexivity.
  - apply nth_error_ext. intros i.
    pose proof (agg_cols_nth ops c1 v2 i) as H12. rewrite E12 in H12. cbn [fst] in H12.
    pose proof (agg_cols_nth ops c2 v1 i) as H21. rewrite E21 in H21. cbn [fst] in H21.
    pose proof (agg_cols_nth ops (a_cells s) v1 i) as H1. rewrite E1 in H1. cbn [fst] in H1.
    pose proof (agg_cols_nth ops (a_cells s) v2 i) as H2. rewrite E2 in H2. cbn [fst] in H2.
    rewrite H12, H21, H1, H2.
    destruct (nth_error (a_cells s) i) as [c|]; [|reflexivity].
    destruct (nth_error ops i) as [op|] eqn:Eo; [|reflexivity].
    assert (Hop : numeric_op op = true) by (rewrite forallb_forall in Hn; apply Hn; eapply nth_error_In; eauto).
    destruct (nth_error v1 i) as [x|], (nth_error v2 i) as [y|]; try reflexivity.
    f_equal. now apply eff_comm.
Qed.

Lemma agg_list_perm ops : forallb numeric_op ops = true ->
  forall l l', Permutation l l' -> forall s, agg_list ops s l = agg_list ops s l'.
Proof.
  intros Hn l l' P. induction P as [|x l l' P IH|x y l|l l' l'' P1 IH1 P2 IH2]; intros s.
  - reflexivity.
  - cbn. apply IH.
  - cbn. now rewrite agg_record_comm.
  - now rewrite IH1.
Qed.

Lemma recs_of_perm k R R' : Permutation R R' -> Permutation (recs_of k R) (recs_of k R').
Proof.
  intros P. unfold recs_of. apply Permutation_map.
  induction P as [|x l l' P IH|x y l|l l' l'' P1 IH1 P2 IH2]; cbn.
  - constructor.
  - destruct (bytes_eqb (fst x) k); [now constructor|exact IH].
  - destruct (bytes_eqb (fst x) k), (bytes_eqb (fst y) k); try apply Permutation_refl. constructor.
  - eapply Permutation_trans; eauto.
Qed.

Lemma concat_perm {A} (l l' : list (list A)) : Permutation l l' -> Permutation (concat l) (concat l').
Proof.
  intros P. induction P as [|x l l' P IH|x y l|l l' l'' P1 IH1 P2 IH2]; cbn.
  - constructor.
  - now apply Permutation_app_head.
  - rewrite !app_assoc. apply Permutation_app_tail. apply Permutation_app_comm.
  - eapply Permutation_trans; eauto.
Qed.

(* whole runs: the partial results may arrive in any order *)
Theorem distributed_order ops chunks chunks' k : forallb numeric_op ops = true -> Permutation chunks chunks' ->
  gget (distributed true ops chunks) k = gget (distributed true ops chunks') k.
Proof.
  intros Hn P. rewrite !distributed_is_central. unfold central. rewrite !server_aggregate_eq, !server_fold_get.
  pose proof (recs_of_perm k _ _ (concat_perm _ _ P)) as Pk. cbn [gget].
  destruct (recs_of k (concat chunks)) as [|a l] eqn:E1.
  - apply Permutation_nil in Pk. now rewrite Pk.
  - destruct (recs_of k (concat chunks')) as [|b l'] eqn:E2.
    + apply Permutation_sym, Permutation_nil in Pk. discriminate.
    + f_equal. now apply agg_list_perm.
Qed.
