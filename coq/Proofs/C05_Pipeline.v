From Coq Require Import Permutation Sorting.Sorted.
From DT Require Import Lib.Bytes Model.C05_Mapr Proofs.C05_Mapr Model.C05_Pipeline.

Lemma prep_all_app {line} (prep : line -> option record) a b : prep_all line prep (a ++ b) = prep_all line prep a ++ prep_all line prep b.
Proof. induction a as [|l a IH]; [reflexivity|]. cbn [app prep_all]. destruct (prep l); cbn [app]; now rewrite IH. Qed.
Lemma prep_all_concat {line} (prep : line -> option record) chunks :
  prep_all line prep (concat chunks) = concat (map (prep_all line prep) chunks).
Proof. induction chunks as [|c r IH]; [reflexivity|]. cbn [concat map]. now rewrite prep_all_app, IH. Qed.

(* group by group, the line-local steps included *)
Theorem lines_distributed_is_central {line} (prep : line -> option record) ops chunks k :
  gget (distributed_lines line prep ops chunks) k = gget (central_lines line prep ops (concat chunks)) k.
Proof. unfold distributed_lines, central_lines. rewrite distributed_is_central, prep_all_concat. reflexivity. Qed.

(* ---- from "the same at every key" to "the same rows" ---- *)
Lemma merge_keys_nodup ops : forall part into, NoDup (keys into) -> NoDup (keys (fold_left (mstep ops) part into)).
Proof. induction part as [|p part IH]; intros into H; [exact H|]. cbn. apply IH. now apply nodup_gput. Qed.

Lemma distributed_keys_nodup ops : forall chunks G, NoDup (keys G) ->
  NoDup (keys (fold_left (fun g ch => merge_gset true ops g (server_aggregate ops ch)) chunks G)).
Proof. induction chunks as [|c r IH]; intros G H; [exact H|]. cbn [fold_left]. apply IH. rewrite merge_gset_eq. now apply merge_keys_nodup. Qed.

Lemma gget_in g k s : NoDup (keys g) -> (In (k, s) g <-> gget g k = Some s).
Proof.
  induction g as [|[k' s'] g IH]; intros Hn; cbn [gget In]; [split; [intros []|discriminate]|].
  cbn [keys map fst] in Hn. inversion Hn as [|? ? Hk Hn']; subst. destruct (bytes_eqb k k') eqn:E.
  - apply bytes_eqb_eq in E. subst k'. split.
    + intros [H|H]; [now inversion H|]. exfalso. apply Hk. change (In (fst (k, s)) (map fst g)). now apply in_map.
    + intros H; inversion H; now left.
  - assert (Hne : k <> k') by (intros ->; rewrite bytes_eqb_refl in E; discriminate).
    rewrite <- (IH Hn'). split; [intros [H|H]; [inversion H; congruence|exact H]|now right].
Qed.

Lemma nodup_pairs (g : gset) : NoDup (keys g) -> NoDup g.
Proof.
  induction g as [|[k s] g IH]; intros Hn; constructor; cbn [keys map fst] in Hn; inversion Hn as [|? ? Hk Hn']; subst.
  - intros Hin. apply Hk. change (In (fst (k, s)) (map fst g)). now apply in_map.
  - now apply IH.
Qed.

Theorem same_view_perm g1 g2 : NoDup (keys g1) -> NoDup (keys g2) -> (forall k, gget g1 k = gget g2 k) -> Permutation g1 g2.
Proof.
  intros H1 H2 H. apply NoDup_Permutation; [now apply nodup_pairs|now apply nodup_pairs|].
  intros [k s]. rewrite (gget_in g1 k s H1), (gget_in g2 k s H2), H. reflexivity.
Qed.

Lemma perm_filter {A} (f : A -> bool) l l' : Permutation l l' -> Permutation (filter f l) (filter f l').
Proof.
  induction 1 as [|x l l' _ IH|x y l|l l' l'' _ IH1 _ IH2]; cbn [filter].
  - constructor.
  - destruct (f x); [now constructor|exact IH].
  - destruct (f x), (f y); try reflexivity. apply perm_swap.
  - now transitivity (filter f l').
Qed.

(* the result table, up to the choice among tied rows: exactly the same tables are possible *)
Theorem pipeline {line} (prep : line -> option record) (before : row -> row -> Prop) ops chunks limit rows :
  is_result before (distributed_lines line prep ops chunks) limit rows
  <-> is_result before (central_lines line prep ops (concat chunks)) limit rows.
Proof.
  assert (HP : Permutation (distributed_lines line prep ops chunks) (central_lines line prep ops (concat chunks))).
  { apply same_view_perm.
    - unfold distributed_lines, distributed. apply distributed_keys_nodup. constructor.
    - unfold central_lines, central. rewrite server_aggregate_eq. apply server_keys_nodup. constructor.
    - intros k. apply lines_distributed_is_central. }
  pose proof (perm_filter nonempty _ _ HP) as HF.
  unfold is_result. split; intros (sorted & Hp & Hs & Hr); exists sorted; repeat split; auto.
  - now transitivity (filter nonempty (distributed_lines line prep ops chunks)).
  - transitivity (filter nonempty (central_lines line prep ops (concat chunks))); [exact Hp|now symmetry].
Qed.
