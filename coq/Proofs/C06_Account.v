From DT Require Import Lib.Bytes Model.C06_Account.

(* ---------- client side ---------- *)
Lemma fixed_history_total : forall msgs c,
  (forall s, locals c s = 0) ->
  exists c', crun true c (fixed_history msgs) = Some c'
             /\ glob c' = glob c + fold_right (fun m acc => snd m + acc) 0 msgs
             /\ (forall s, locals c' s = 0)
             /\ received c' = received c + fold_right (fun m acc => snd m + acc) 0 msgs.
Proof.
  induction msgs as [|[s n] r IH]; intros c Hz.
  - exists c. cbn. repeat split; auto; lia.
  - cbn [fixed_history crun cstep glob locals received].
    match goal with |- exists c', crun true ?c2 _ = _ /\ _ => destruct (IH c2) as (c' & Hr & Hg & Hl & Hrec) end.
    + intros x. cbn [locals]. unfold updn. destruct (x =? s); auto.
    + exists c'. split; [exact Hr|]. cbn [glob locals received fold_right snd] in *.
      unfold updn in Hg. rewrite Nat.eqb_refl in Hg. rewrite (Hz s) in Hg. repeat split; auto; lia.
Qed.

(* ---------- server side ---------- *)
(* what the repaired aggregator knows when it stops: no accepted read command is outstanding, no
   re-queue is in flight, nothing is queued, and its current channel is closed and drained *)
Lemma stop_guard s s' : sstep true s SStop = Some s' ->
  pending s = 0 /\ inflight s = [] /\ nextq s = [] /\
  exists c, cur s = Some c /\ closed (chans s c) = true /\ queued (chans s c) = 0.
Proof.
  unfold sstep. destruct (finished s); [discriminate|].
  destruct (cur s) as [c|]; [|discriminate]. destruct (nextq s); [|discriminate].
  cbn [negb orb]. destruct (closed (chans s c)) eqn:Ec; [|discriminate]. cbn [andb].
  destruct (Nat.eqb_spec (queued (chans s c)) 0) as [Eq|]; [|discriminate]. cbn [andb].
  destruct (Nat.eqb_spec (pending s) 0) as [Ep|]; [|discriminate]. cbn [andb].
  destruct (inflight s) eqn:Ei; [|discriminate]. intros _. repeat split; auto. exists c. auto.
Qed.

(* only SStop finishes *)
Lemma finish_only_by_stop fixed s e s' : sstep fixed s e = Some s' -> finished s' = true -> e = SStop.
Proof.
  unfold sstep. destruct (finished s); [discriminate|]. destruct e; try reflexivity; intros H Hf; exfalso;
  repeat match type of H with
  | (if ?b then _ else _) = _ => destruct b
  | match ?x with _ => _ end = _ => destruct x
  end; try discriminate; inversion H; subst; cbn in Hf; discriminate.
Qed.
