(* C06 — server side, repaired stop rule: when the aggregator finishes, every line any registered
   reader produced has been consumed.  Channel-tracking invariant over every schedule. *)
From DT Require Import Lib.Bytes Model.C06_Account Proofs.C06_Account.

Lemma has_in i l : has i l = true <-> In i l.
Proof.
  unfold has. rewrite existsb_exists. split.
  - intros (x & Hx & E). apply Nat.eqb_eq in E. now subst.
  - intros H. exists i. split; [exact H|apply Nat.eqb_refl].
Qed.
Lemma has_not_in i l : has i l = false <-> ~ In i l.
Proof. rewrite <- has_in. destruct (has i l); split; congruence. Qed.

Fixpoint sumq (f : nat -> chan_st) (l : list nat) : nat :=
  match l with [] => 0 | i :: r => queued (f i) + sumq f r end.
Definition openc (f : nat -> chan_st) (l : list nat) : nat := length (filter (fun j => negb (closed (f j))) l).

Lemma filter_len_le {A} (p : A -> bool) l : length (filter p l) <= length l.
Proof. induction l as [|x l IH]; [cbn; lia|]. cbn. destruct (p x); cbn; lia. Qed.

Lemma open_count f l : length l - length (filter (fun j => closed (f j)) l) = openc f l.
Proof.
  unfold openc. induction l as [|i l IH]; [reflexivity|]. cbn [filter length].
  pose proof (filter_len_le (fun j => closed (f j)) l) as Hle.
  destruct (closed (f i)); cbn [negb length]; lia.
Qed.

Lemma updc_same f i v : updc f i v i = v.
Proof. unfold updc. now rewrite Nat.eqb_refl. Qed.
Lemma updc_other f i v j : j <> i -> updc f i v j = f j.
Proof. intros H. unfold updc. destruct (Nat.eqb_spec j i); [contradiction|reflexivity]. Qed.

Lemma sumq_upd_notin f i v l : ~ In i l -> sumq (updc f i v) l = sumq f l.
Proof.
  induction l as [|j l IH]; intros H; [reflexivity|]. cbn [sumq].
  rewrite updc_other by (intros ->; apply H; now left). rewrite IH; [reflexivity|]. intros Hin; apply H; now right.
Qed.
Lemma sumq_upd_in f i v l : NoDup l -> In i l -> sumq (updc f i v) l + queued (f i) = sumq f l + queued v.
Proof.
  induction l as [|j l IH]; intros Hn Hi; [destruct Hi|]. inversion Hn as [|? ? Hj Hl]; subst. cbn [sumq].
  destruct (Nat.eq_dec j i) as [->|Hne].
  - rewrite updc_same, sumq_upd_notin by exact Hj. lia.
  - destruct Hi as [Hi|Hi]; [congruence|]. rewrite updc_other by exact Hne. specialize (IH Hl Hi). lia.
Qed.

Lemma openc_upd_notin f i v l : ~ In i l -> openc (updc f i v) l = openc f l.
Proof.
  unfold openc. induction l as [|j l IH]; intros H; [reflexivity|]. cbn [filter].
  rewrite updc_other by (intros ->; apply H; now left).
  assert (Hl : ~ In i l) by (intros Hin; apply H; now right). specialize (IH Hl).
  destruct (negb (closed (f j))); cbn [length]; now rewrite IH.
Qed.
Lemma openc_upd_in f i v l : NoDup l -> In i l ->
  openc (updc f i v) l + (if closed (f i) then 0 else 1) = openc f l + (if closed v then 0 else 1).
Proof.
  unfold openc. induction l as [|j l IH]; intros Hn Hi; [destruct Hi|]. inversion Hn as [|? ? Hj Hl]; subst. cbn [filter].
  destruct (Nat.eq_dec j i) as [->|Hne].
  - rewrite updc_same. pose proof (openc_upd_notin f i v l Hj) as E. unfold openc in E.
    destruct (closed v), (closed (f i)); cbn [negb length]; rewrite E; lia.
  - destruct Hi as [Hi|Hi]; [congruence|]. rewrite updc_other by exact Hne. specialize (IH Hl Hi).
    destruct (negb (closed (f j))); cbn [length]; lia.
Qed.

Definition tracked (s : sst) (i : nat) : Prop :=
  cur s = Some i \/ In i (nextq s) \/ In i (inflight s) \/ (closed (chans s i) = true /\ queued (chans s i) = 0).

Record Inv (s : sst) : Prop := {
  i_nodup : NoDup (regd s);
  i_unreg : forall i, ~ In i (regd s) -> queued (chans s i) = 0 /\ closed (chans s i) = false;
  i_track : forall i, In i (regd s) -> tracked s i;
  i_sum : produced s = consumed s + sumq (chans s) (regd s);
  i_open : openc (chans s) (regd s) <= pending s;
  i_fin : finished s = true ->
          pending s = 0 /\ inflight s = [] /\ nextq s = [] /\
          exists c, cur s = Some c /\ closed (chans s c) = true /\ queued (chans s c) = 0
}.

Lemma inv_init : Inv sinit.
Proof. constructor; cbn; try constructor; try lia; try discriminate; intros; try contradiction; auto. Qed.

Ltac fin_no := let H := fresh in intros H; cbn in H; discriminate H.

Lemma inv_step s e s' : Inv s -> sstep true s e = Some s' -> Inv s'.
Proof.
  intros I H. unfold sstep in H. destruct (finished s) eqn:Ef; [discriminate|].
  destruct I as [In1 Iu It Is Io _].
  destruct e as [|i|i|i| | | | | |j].
  - (* SAccept *) injection H as <-. constructor; cbn [regd nextq inflight cur chans produced consumed pending finished]; auto; try lia; try fin_no.
  - (* SRegister *)
    destruct (has i (regd s)) eqn:Eh; [discriminate|]. cbn [orb] in H.
    destruct (Nat.leb_spec (pending s) (length (regd s) - length (filter (fun j => closed (chans s j)) (regd s)))); [discriminate|].
    injection H as <-. apply has_not_in in Eh. destruct (Iu i Eh) as [Hq Hc]. rewrite open_count in *.
    constructor; cbn [regd nextq inflight cur chans produced consumed pending finished].
    + now constructor.
    + intros k Hk. apply Iu. intros Hin; apply Hk; now right.
    + intros k [<-|Hk]; [right; left; apply in_or_app; right; now left|].
      destruct (It k Hk) as [T|[T|[T|T]]]; [left; exact T|right; left; apply in_or_app; now left|right; right; left; exact T|right; right; right; exact T].
    + cbn [sumq]. lia.
    + unfold openc in *. cbn [filter]. rewrite Hc. cbn [negb length]. lia.
    + fin_no.
  - (* SPush *)
    destruct (has i (regd s) && negb (closed (chans s i))) eqn:Eg; [|discriminate]. injection H as <-.
    apply andb_prop in Eg. destruct Eg as [Hr Hc]. apply has_in in Hr. apply negb_true_iff in Hc.
    constructor; cbn [regd nextq inflight cur chans produced consumed pending finished].
    + exact In1.
    + intros k Hk. rewrite updc_other by (intros ->; contradiction). now apply Iu.
    + intros k Hk. destruct (Nat.eq_dec k i) as [->|Hne].
      * destruct (It i Hk) as [T|[T|[T|[T _]]]]; [left; exact T|right; left; exact T|right; right; left; exact T|congruence].
      * destruct (It k Hk) as [T|[T|[T|T]]]; [left; exact T|right; left; exact T|right; right; left; exact T|right; right; right; cbn; now rewrite updc_other].
    + pose proof (sumq_upd_in (chans s) i {| queued := S (queued (chans s i)); closed := false |} (regd s) In1 Hr) as E. cbn [queued] in E. lia.
    + pose proof (openc_upd_in (chans s) i {| queued := S (queued (chans s i)); closed := false |} (regd s) In1 Hr) as E. rewrite Hc in E. cbn [closed] in E. lia.
    + fin_no.
  - (* SCloseDone *)
    destruct (has i (regd s) && negb (closed (chans s i))) eqn:Eg; [|discriminate]. injection H as <-.
    apply andb_prop in Eg. destruct Eg as [Hr Hc]. apply has_in in Hr. apply negb_true_iff in Hc.
    pose proof (openc_upd_in (chans s) i {| queued := queued (chans s i); closed := true |} (regd s) In1 Hr) as Eo. rewrite Hc in Eo. cbn [closed] in Eo.
    constructor; cbn [regd nextq inflight cur chans produced consumed pending finished].
    + exact In1.
    + intros k Hk. rewrite updc_other by (intros ->; contradiction). now apply Iu.
    + intros k Hk. destruct (Nat.eq_dec k i) as [->|Hne].
      * destruct (It i Hk) as [T|[T|[T|[T _]]]]; [left; exact T|right; left; exact T|right; right; left; exact T|congruence].
      * destruct (It k Hk) as [T|[T|[T|T]]]; [left; exact T|right; left; exact T|right; right; left; exact T|right; right; right; cbn; now rewrite updc_other].
    + pose proof (sumq_upd_in (chans s) i {| queued := queued (chans s i); closed := true |} (regd s) In1 Hr) as E. cbn [queued] in E. lia.
    + lia.
    + fin_no.
  - (* STake *)
    destruct (cur s) as [c|] eqn:Ec; [|discriminate]. destruct (queued (chans s c)) as [|q] eqn:Eq; [discriminate|]. injection H as <-.
    assert (Hr : In c (regd s)).
    { destruct (in_dec Nat.eq_dec c (regd s)) as [Hin|Hn]; [exact Hin|]. destruct (Iu c Hn) as [Hq _]. lia. }
    constructor; cbn [regd nextq inflight cur chans produced consumed pending finished].
    + exact In1.
    + intros k Hk. rewrite updc_other by (intros ->; contradiction). now apply Iu.
    + intros k Hk. destruct (Nat.eq_dec k c) as [->|Hne]; [left; reflexivity|].
      destruct (It k Hk) as [T|[T|[T|T]]]; [congruence|right; left; exact T|right; right; left; exact T|right; right; right; cbn; now rewrite updc_other].
    + pose proof (sumq_upd_in (chans s) c {| queued := q; closed := closed (chans s c) |} (regd s) In1 Hr) as E. cbn [queued] in E. lia.
    + pose proof (openc_upd_in (chans s) c {| queued := q; closed := closed (chans s c) |} (regd s) In1 Hr) as E. cbn [closed] in E. destruct (closed (chans s c)); lia.
    + fin_no.
  - (* SFirst *)
    destruct (cur s) as [c|] eqn:Ec; [discriminate|]. destruct (nextq s) as [|j r] eqn:En; [discriminate|]. injection H as <-.
    constructor; cbn [regd nextq inflight cur chans produced consumed pending finished]; auto; [|fin_no].
    intros k Hk. destruct (It k Hk) as [T|[T|[T|T]]]; [congruence| |right; right; left; exact T|right; right; right; exact T].
    cbn [nextq] in T. rewrite En in T. destruct T as [<-|T]; [left; reflexivity|right; left; exact T].
  - (* SSwapClosed *)
    destruct (cur s) as [c|] eqn:Ec; [|discriminate]. destruct (nextq s) as [|j r] eqn:En; [discriminate|].
    destruct (closed (chans s c) && (queued (chans s c) =? 0)) eqn:Eg; [|discriminate]. injection H as <-.
    apply andb_prop in Eg. destruct Eg as [Hc Hq]. apply Nat.eqb_eq in Hq.
    constructor; cbn [regd nextq inflight cur chans produced consumed pending finished]; auto; [|fin_no].
    intros k Hk. destruct (It k Hk) as [T|[T|[T|T]]].
    + rewrite Ec in T. injection T as <-. right; right; right. now split.
    + cbn [nextq] in T. rewrite En in T. destruct T as [<-|T]; [left; reflexivity|right; left; exact T].
    + right; right; left; exact T.
    + right; right; right; exact T.
  - (* SStop *)
    destruct (cur s) as [c|] eqn:Ec; [|discriminate]. destruct (nextq s) as [|j r] eqn:En; [|discriminate].
    destruct (closed (chans s c) && (queued (chans s c) =? 0) && (negb true || (pending s =? 0) && (length (inflight s) =? 0))) eqn:Eg; [|discriminate].
    injection H as <-. cbn [negb orb] in Eg. apply andb_prop in Eg. destruct Eg as [Eg1 Eg2].
    apply andb_prop in Eg1. destruct Eg1 as [Hc Hq]. apply andb_prop in Eg2. destruct Eg2 as [Hp Hi].
    apply Nat.eqb_eq in Hq, Hp, Hi.
    constructor; cbn [regd nextq inflight cur chans produced consumed pending finished]; auto.
    + intros k Hk. destruct (It k Hk) as [T|[T|[T|T]]]; [left; cbn [cur]; congruence| |right; right; left; exact T|right; right; right; exact T].
      rewrite En in T. destruct T.
    + intros _. repeat split; auto. * destruct (inflight s); [reflexivity|discriminate]. * exists c. auto.
  - (* SSwapIdle *)
    destruct (cur s) as [c|] eqn:Ec; [|discriminate]. destruct (nextq s) as [|j r] eqn:En; [discriminate|].
    destruct (negb (closed (chans s c)) && (queued (chans s c) =? 0)) eqn:Eg; [|discriminate]. injection H as <-.
    constructor; cbn [regd nextq inflight cur chans produced consumed pending finished]; auto; [|fin_no].
    intros k Hk. destruct (It k Hk) as [T|[T|[T|T]]].
    + rewrite Ec in T. injection T as <-. right; right; left. now left.
    + cbn [nextq] in T. rewrite En in T. destruct T as [<-|T]; [left; reflexivity|right; left; exact T].
    + right; right; left. now right.
    + right; right; right; exact T.
  - (* SRequeue *)
    destruct (has j (inflight s)) eqn:Eh; [|discriminate]. injection H as <-.
    constructor; cbn [regd nextq inflight cur chans produced consumed pending finished]; auto; [|fin_no].
    intros k Hk. destruct (It k Hk) as [T|[T|[T|T]]]; [left; exact T|right; left; apply in_or_app; now left| |right; right; right; exact T].
    destruct (Nat.eq_dec k j) as [->|Hne]; [right; left; apply in_or_app; right; now left|].
    right; right; left. apply filter_In. split; [exact T|]. destruct (Nat.eqb_spec k j); [contradiction|reflexivity].
Qed.

Lemma inv_run : forall es s s', Inv s -> srun true s es = Some s' -> Inv s'.
Proof.
  induction es as [|e es IH]; intros s s' I H; [injection H as <-; exact I|]. cbn [srun] in H.
  destruct (sstep true s e) as [s1|] eqn:E; [|discriminate]. eapply IH; [|exact H]. eapply inv_step; eauto.
Qed.

Lemma sumq_zero f l : (forall i, In i l -> queued (f i) = 0) -> sumq f l = 0.
Proof. induction l as [|i l IH]; intros H; [reflexivity|]. cbn. rewrite (H i) by now left. apply IH. intros j Hj. apply H. now right. Qed.

Lemma openc_zero_closed f l : openc f l = 0 -> forall i, In i l -> closed (f i) = true.
Proof.
  unfold openc. induction l as [|j l IH]; intros H i Hi; [destruct Hi|]. cbn [filter] in H.
  destruct (closed (f j)) eqn:Ej; cbn [negb] in H; [|cbn in H; lia].
  destruct Hi as [<-|Hi]; [exact Ej|now apply IH].
Qed.

(* every schedule of the repaired system: when the aggregator has finished, no accepted read command
   is outstanding and every line that any reader produced has been consumed *)
Theorem server_complete es s : srun true sinit es = Some s -> finished s = true ->
  pending s = 0 /\ consumed s = produced s /\ forall i, In i (regd s) -> closed (chans s i) = true /\ queued (chans s i) = 0.
Proof.
  intros H Hf. pose proof (inv_run es sinit s inv_init H) as [In1 Iu It Is Io Ifin].
  destruct (Ifin Hf) as (Hp & Hi & Hn & c & Hc & Hcc & Hcq).
  assert (Ho : openc (chans s) (regd s) = 0) by lia.
  assert (Hall : forall i, In i (regd s) -> closed (chans s i) = true /\ queued (chans s i) = 0).
  { intros i Hin. split; [now apply (openc_zero_closed _ _ Ho)|].
    destruct (It i Hin) as [T|[T|[T|[_ T]]]]; [congruence|rewrite Hn in T; destruct T|rewrite Hi in T; destruct T|exact T]. }
  split; [exact Hp|]. split; [|exact Hall].
  rewrite Is, sumq_zero; [lia|]. intros i Hin. now apply Hall.
Qed.
