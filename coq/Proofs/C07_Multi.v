From DT Require Import Lib.Bytes Lib.Split Gen.Consts Model.C01_Cat Proofs.C01_Cat Model.C07_Multi.

Notation feed := (cli_feed beqb nl_byte delim_byte).
Notation bplain := (plain nl_byte delim_byte).

(* ================= generic list facts ================= *)
Lemma nth_error_upd_same {A} : forall (l : list A) i x, i < length l -> nth_error (upd l i x) i = Some x.
Proof. induction l as [|a l IH]; intros [|i] x H; cbn in *; try lia; [reflexivity|apply IH; lia]. Qed.

Lemma nth_error_upd_other {A} : forall (l : list A) i j x, i <> j -> nth_error (upd l i x) j = nth_error l j.
Proof.
  induction l as [|a l IH]; intros [|i] [|j] x H; cbn; try reflexivity; try congruence.
  apply IH. congruence.
Qed.

Lemma upd_length {A} : forall (l : list A) i x, length (upd l i x) = length l.
Proof. induction l as [|a l IH]; intros [|i] x; cbn; try reflexivity. now rewrite IH. Qed.

Lemma proj_app {A} c (a b : list (nat * A)) : proj c (a ++ b) = proj c a ++ proj c b.
Proof. unfold proj. now rewrite filter_app, map_app. Qed.

Lemma proj_tag_same {A} c (ms : list A) : proj c (map (fun m => (c, m)) ms) = ms.
Proof. unfold proj. induction ms as [|m ms IH]; [reflexivity|]. cbn. rewrite Nat.eqb_refl. cbn. now rewrite IH. Qed.

Lemma proj_tag_other {A} c d (ms : list A) : c <> d -> proj c (map (fun m => (d, m)) ms) = [].
Proof.
  intros H. unfold proj. induction ms as [|m ms IH]; [reflexivity|]. cbn.
  destruct (Nat.eqb_spec d c); [congruence|]. exact IH.
Qed.

(* ================= 1. the client: every schedule of chunk arrivals ================= *)
(* per connection: what was printed for it is what ITS bytes alone produce, whatever arrived on
   the other connections in between, and wherever the transport cut its stream *)
Definition CInv (streams : list bytes) (st : list cconn * list (nat * bytes)) : Prop :=
  length (fst st) = length streams /\
  forall c s, nth_error streams c = Some s ->
    exists consumed pending buf, nth_error (fst st) c = Some (pending, buf) /\ s = consumed ++ pending /\
      feed [] consumed = (buf, proj c (snd st)).

Lemma cinv_init streams : CInv streams (map (fun s => (s, [])) streams, []).
Proof.
  split; [cbn; now rewrite map_length|]. intros c s H. exists [], s, []. cbn [fst snd].
  rewrite nth_error_map, H. repeat split; reflexivity.
Qed.

Lemma cinv_step streams st e : CInv streams st -> CInv streams (cstep st e).
Proof.
  destruct st as [conns out]. destruct e as [c0 n]. intros [Hl Hc]. unfold cstep.
  destruct (nth_error conns c0) as [[pending0 buf0]|] eqn:E0; [|split; assumption].
  destruct (feed buf0 (firstn n pending0)) as [buf' ms] eqn:Ef. unfold CInv. cbn [fst snd] in *. split.
  - now rewrite upd_length.
  - intros c s Hs. destruct (Hc c s Hs) as (consumed & pending & buf & Hn & Hsplit & Hfeed).
    destruct (Nat.eq_dec c c0) as [->|Hne].
    + rewrite E0 in Hn. injection Hn as <- <-.
      exists (consumed ++ firstn n pending0), (skipn n pending0), buf'. split; [|split].
      * apply nth_error_upd_same. apply nth_error_Some. congruence.
      * rewrite <- app_assoc, firstn_skipn. exact Hsplit.
      * rewrite cli_feed_app, Hfeed, Ef, proj_app, proj_tag_same. reflexivity.
    + exists consumed, pending, buf. split; [|split; [exact Hsplit|]].
      * rewrite nth_error_upd_other by congruence. exact Hn.
      * rewrite proj_app, proj_tag_other by exact Hne. now rewrite app_nil_r.
Qed.

Lemma cinv_run streams : forall sched st, CInv streams st -> CInv streams (fold_left cstep sched st).
Proof. induction sched as [|e r IH]; intros st I; [exact I|]. cbn. apply IH. now apply cinv_step. Qed.

Theorem client_interleave streams sched c s :
  nth_error streams c = Some s ->
  exists consumed pending buf,
    nth_error (fst (crun streams sched)) c = Some (pending, buf) /\ s = consumed ++ pending /\
    feed [] consumed = (buf, proj c (snd (crun streams sched))) /\
    (pending = [] -> proj c (snd (crun streams sched)) = snd (feed [] s)).
Proof.
  intros Hs. destruct (cinv_run streams sched _ (cinv_init streams)) as [_ H].
  destruct (H c s Hs) as (consumed & pending & buf & Hn & Hsplit & Hfeed).
  exists consumed, pending, buf. repeat split; auto.
  intros ->. rewrite app_nil_r in Hsplit. subst s. now rewrite Hfeed.
Qed.

(* ================= 2. whole records on the wire become whole messages ================= *)
Lemma feed_records : forall ws : list bytes, Forall bplain ws ->
  feed [] (frames delim_byte (map (fun w => w ++ [nl_byte]) ws)) = ([], flat_map (fun w => [w ++ [nl_byte]; []]) ws).
Proof.
  induction ws as [|w ws IH]; intros H; [reflexivity|]. inversion H as [|? ? Hw Hws]; subst.
  cbn [map]. rewrite (frames_cons delim_byte).
  replace ((w ++ [nl_byte]) ++ delim_byte :: frames delim_byte (map (fun w0 => w0 ++ [nl_byte]) ws))
    with ((w ++ [nl_byte]) ++ delim_byte :: frames delim_byte (map (fun w0 => w0 ++ [nl_byte]) ws)) by reflexivity.
  rewrite (feed_line beqb beqb_eq nl_byte delim_byte delim_is_not_nl w _ Hw).
  rewrite (IH Hws). reflexivity.
Qed.

(* lines of the text printed for whole-line messages *)
Lemma split_lines : forall ws : list bytes, Forall (fun w => ~ In nl_byte w) ws ->
  split nl_byte (concat (map (fun w => w ++ [nl_byte]) ws)) = ws ++ [[]].
Proof.
  induction ws as [|w ws IH]; intros H; [reflexivity|]. inversion H as [|? ? Hw Hws]; subst.
  cbn [map concat app]. rewrite <- app_assoc. cbn [app]. rewrite split_app_sep by exact Hw.
  now rewrite IH.
Qed.

(* ================= 3. the server: numbering and labels per file ================= *)
Fixpoint number_from (n : N) (ls : list bytes) : list (N * bytes) :=
  match ls with [] => [] | l :: r => (N.succ n, l) :: number_from (N.succ n) r end.

Lemma take_line_spec : forall fs i n' l fs',
  take_line fs i = Some (n', l, fs') ->
  exists n r, nth_error fs i = Some (n, l :: r) /\ n' = N.succ n /\ fs' = upd fs i (n', r).
Proof.
  induction fs as [|[n0 ls0] fs IH]; intros i n' l fs' H; [destruct i; cbn in H; discriminate H|].
  destruct i as [|j]; cbn [take_line] in H.
  - destruct ls0 as [|l0 r0]; [discriminate|]. injection H as <- <- <-. exists n0, r0. repeat split.
  - assert (H' : match take_line fs j with Some (n, l, rest') => Some (n, l, (n0, ls0) :: rest') | None => None end = Some (n', l, fs'))
      by (destruct ls0; exact H). clear H.
    destruct (take_line fs j) as [[[n1 l1] fs1]|] eqn:E; [|discriminate]. injection H' as <- <- <-.
    destruct (IH _ _ _ _ E) as (n & r & Hn & Hs & Hu). exists n, r. cbn. repeat split; auto. now rewrite Hu.
Qed.

Lemma proj_cons_same {A} c (x : A) out : proj c ((c, x) :: out) = x :: proj c out.
Proof. unfold proj. cbn. now rewrite Nat.eqb_refl. Qed.
Lemma proj_cons_other {A} c d (x : A) out : c <> d -> proj c ((d, x) :: out) = proj c out.
Proof. intros H. unfold proj. cbn. destruct (Nat.eqb_spec d c); [congruence|reflexivity]. Qed.

Lemma server_run_label host ids : forall sched fs f n rest,
  nth_error fs f = Some (n, rest) ->
  exists k, proj f (server_run host ids fs sched) =
            map (fun p => record host 100 (fst p) (nth f ids []) (snd p)) (firstn k (number_from n rest)).
Proof.
  induction sched as [|i r IH]; intros fs f n rest Hf; [exists 0; reflexivity|].
  cbn [server_run]. destruct (take_line fs i) as [[[n' l] fs']|] eqn:E; [|now apply IH].
  destruct (take_line_spec _ _ _ _ _ E) as (n0 & r0 & Hn & Hs & Hu).
  assert (Hi : i < length fs) by (apply nth_error_Some; congruence).
  destruct (Nat.eq_dec f i) as [->|Hne].
  - rewrite Hf in Hn. injection Hn as <- ->. rewrite proj_cons_same.
    destruct (IH fs' i n' r0) as [k Hk]; [subst fs'; now apply nth_error_upd_same|].
    exists (S k). cbn [number_from firstn map fst snd]. rewrite <- Hs, Hk. reflexivity.
  - rewrite proj_cons_other by exact Hne. apply IH. subst fs'. rewrite nth_error_upd_other by congruence. exact Hf.
Qed.

Lemma nth_map_fst (files : list sfile) f id lines :
  nth_error files f = Some (id, lines) -> nth f (map fst files) [] = id.
Proof.
  intros H. change (@nil byte) with (fst (@nil byte, @nil bytes)). rewrite map_nth.
  now rewrite (nth_error_nth _ _ _ H).
Qed.

(* the k-th record of a file carries the server's host name, the file's id, the number k and the
   k-th line, unmodified; the records of one file keep their order whatever the schedule *)
Theorem server_label host files sched f id lines :
  nth_error files f = Some (id, lines) ->
  exists k, proj f (server_records host files sched) =
            map (fun p => record host 100 (fst p) id (snd p)) (firstn k (number_from 0 lines)).
Proof.
  intros H. unfold server_records.
  destruct (server_run_label host (map fst files) sched (map (fun f0 => (0%N, snd f0)) files) f 0%N lines) as [k Hk].
  - rewrite nth_error_map, H. reflexivity.
  - exists k. rewrite Hk. replace (nth f (map fst files) []) with id; [reflexivity|].
    symmetry. eapply nth_map_fst; eauto.
Qed.

(* every record a server emits is one line of one of its files *)
Lemma server_run_source host ids : forall sched fs i r,
  In (i, r) (server_run host ids fs sched) ->
  exists n rest l k, nth_error fs i = Some (n, rest) /\ In l rest /\ r = record host 100 k (nth i ids []) l.
Proof.
  induction sched as [|j s IH]; intros fs i r H; [destruct H|]. cbn [server_run] in H.
  destruct (take_line fs j) as [[[n' l] fs']|] eqn:E; [|now apply IH].
  destruct (take_line_spec _ _ _ _ _ E) as (n0 & r0 & Hn & Hs & Hu).
  destruct H as [H|H].
  - injection H as <- <-. exists n0, (l :: r0), l, n'. repeat split; auto. now left.
  - destruct (IH _ _ _ H) as (n & rest & l' & k & Hnth & Hin & Hr). subst fs'.
    destruct (Nat.eq_dec i j) as [->|Hne].
    + rewrite nth_error_upd_same in Hnth by (apply nth_error_Some; congruence). injection Hnth as <- <-.
      exists n0, (l :: r0), l', k. repeat split; auto. now right.
    + rewrite nth_error_upd_other in Hnth by congruence. exists n, rest, l', k. repeat split; auto.
Qed.

(* ================= 4. makeGlobID never indexes out of range on what filepath.Glob returns ================= *)
Lemma glob_parts_total : forall gp pp i, i + length gp <= length pp -> glob_parts i gp pp <> None.
Proof.
  induction gp as [|g gp IH]; intros pp i H; [discriminate|]. cbn [glob_parts length] in *.
  destruct (has_star g); [|apply IH; lia].
  destruct (nth_error pp i) eqn:E; [|apply nth_error_None in E; lia].
  specialize (IH pp (S i)). destruct (glob_parts (S i) gp pp); [discriminate|]. exfalso. apply IH; [lia|reflexivity].
Qed.

Theorem glob_id_total path glob :
  length (split slash glob) <= length (split slash path) -> glob_id path glob <> None.
Proof.
  intros H. unfold glob_id. pose proof (glob_parts_total (split slash glob) (split slash path) 0 H) as G.
  destruct (glob_parts 0 (split slash glob) (split slash path)) as [[|p ps]|]; [discriminate|discriminate|congruence].
Qed.

(* without a '*' the id is the base name; with stars it is the matching path components *)
Lemma glob_parts_nostar : forall gp pp i, forallb (fun g => negb (has_star g)) gp = true -> glob_parts i gp pp = Some [].
Proof.
  induction gp as [|g gp IH]; intros pp i H; [reflexivity|]. cbn in *. apply andb_prop in H. destruct H as [H1 H2].
  destruct (has_star g); [discriminate|]. now apply IH.
Qed.

Theorem glob_id_nostar path glob :
  forallb (fun g => negb (has_star g)) (split slash glob) = true -> glob_id path glob = Some (last (split slash path) []).
Proof. intros H. unfold glob_id. now rewrite glob_parts_nostar. Qed.

(* ================= 5. the composition ================= *)
(* a server whose host name, ids and lines contain neither a newline nor the message delimiter
   (lines: except their final newline) *)
Definition clean_line (l : bytes) : Prop := exists w, l = w ++ [nl_byte] /\ bplain w.

Lemma plain_app a b : bplain a -> bplain b -> bplain (a ++ b).
Proof. intros Ha Hb c Hc. apply in_app_or in Hc. destruct Hc; [now apply Ha|now apply Hb]. Qed.

Lemma plain_dec n : bplain (dec n).
Proof.
  unfold dec. assert (G : forall fuel n acc, bplain acc -> bplain (dec_acc fuel n acc)).
  { induction fuel as [|f IH]; intros m acc Ha; [exact Ha|]. cbn [dec_acc].
    assert (Hd : bplain (digit (m mod 10) :: acc)).
    { intros c [<-|Hc]; [|now apply Ha]. unfold digit.
      assert (Hm : (m mod 10 < 10)%N) by (apply N.mod_lt; discriminate).
      remember (m mod 10)%N as x eqn:Ex. clear Ex.
      assert (Hall : forallb (fun k => negb (beqb (byte_of_N (48 + N.of_nat k)) nl_byte) && negb (beqb (byte_of_N (48 + N.of_nat k)) delim_byte)) (seq 0 10) = true) by (vm_compute; reflexivity).
      rewrite forallb_forall in Hall. specialize (Hall (N.to_nat x)).
      rewrite N2Nat.id in Hall. assert (Hin : In (N.to_nat x) (seq 0 10)) by (apply in_seq; lia).
      apply Hall in Hin. apply andb_prop in Hin. destruct Hin as [H1 H2].
      split; intros Heq; rewrite Heq, beqb_refl in *; discriminate. }
    destruct (m <? 10)%N; [exact Hd|]. now apply IH. }
  apply G. intros c [].
Qed.

Lemma plain_pad3 s : bplain s -> bplain (pad3 s).
Proof.
  intros H. unfold pad3. apply plain_app; [|exact H]. intros c Hc. apply repeat_spec in Hc. subst c.
  split; vm_compute; discriminate.
Qed.

Lemma plain_fd : bplain fd.
Proof.
  assert (H : forallb (fun c => negb (beqb c nl_byte) && negb (beqb c delim_byte)) fd = true) by (vm_compute; reflexivity).
  rewrite forallb_forall in H. intros c Hc. apply H in Hc. apply andb_prop in Hc. destruct Hc as [H1 H2].
  split; intros ->; rewrite beqb_refl in *; discriminate.
Qed.

Lemma plain_remote : bplain (B"REMOTE").
Proof.
  assert (H : forallb (fun c => negb (beqb c nl_byte) && negb (beqb c delim_byte)) (B"REMOTE") = true) by (vm_compute; reflexivity).
  rewrite forallb_forall in H. intros c Hc. apply H in Hc. apply andb_prop in Hc. destruct Hc as [H1 H2].
  split; intros ->; rewrite beqb_refl in *; discriminate.
Qed.

Lemma record_clean host perc count id l :
  bplain host -> bplain id -> clean_line l -> clean_line (record host perc count id l).
Proof.
  intros Hh Hi (w & -> & Hw). unfold record.
  exists (B"REMOTE" ++ fd ++ host ++ fd ++ pad3 (dec (N.of_nat perc)) ++ fd ++ dec count ++ fd ++ id ++ fd ++ w).
  split; [now rewrite <- !app_assoc|].
  repeat (apply plain_app; [first [exact plain_remote|exact plain_fd|exact Hh|exact Hi|apply plain_pad3, plain_dec|apply plain_dec]|]).
  exact Hw.
Qed.

Definition clean_server (host : bytes) (files : list sfile) : Prop :=
  bplain host /\ Forall (fun f => bplain (fst f) /\ Forall clean_line (snd f)) files.

Lemma server_records_clean host files sched : clean_server host files ->
  Forall clean_line (map snd (server_records host files sched)).
Proof.
  intros [Hh Hf]. apply Forall_forall. intros r Hr. apply in_map_iff in Hr. destruct Hr as ([i r'] & <- & Hin).
  unfold server_records in Hin. apply server_run_source in Hin.
  destruct Hin as (n & rest & l & k & Hnth & Hl & ->). cbn [snd].
  rewrite nth_error_map in Hnth. unfold sfile in *. destruct (nth_error files i) as [[id ls]|] eqn:E; cbn in Hnth; [|discriminate Hnth].
  injection Hnth as <- <-. rewrite Forall_forall in Hf. destruct (Hf _ (nth_error_In _ _ E)) as [Hid Hls]. cbn [fst snd] in *.
  replace (nth i (map fst files) []) with id.
  - apply record_clean; auto. rewrite Forall_forall in Hls. now apply Hls.
  - symmetry. eapply nth_map_fst; eauto.
Qed.

Lemma clean_lines_split (rs : list bytes) : Forall clean_line rs ->
  exists ws, rs = map (fun w => w ++ [nl_byte]) ws /\ Forall bplain ws.
Proof.
  induction 1 as [|r rs (w & -> & Hw) _ (ws & -> & Hws)]; [exists []; split; [reflexivity|constructor]|].
  exists (w :: ws). split; [reflexivity|now constructor].
Qed.

(* a connection whose stream has arrived completely has printed, for every record of its server,
   exactly that record as one message (followed by the empty message of its frame delimiter),
   in the server's order - whatever arrived on the other connections in between *)
Theorem connection_messages host files ssched streams csched c :
  clean_server host files ->
  nth_error streams c = Some (server_stream host files ssched) ->
  (exists buf, nth_error (fst (crun streams csched)) c = Some ([], buf)) ->
  proj c (snd (crun streams csched)) = flat_map (fun r => [r; []]) (map snd (server_records host files ssched)).
Proof.
  intros Hc Hs (buf & Hb).
  destruct (client_interleave streams csched c _ Hs) as (consumed & pending & buf' & Hn & _ & _ & Hall).
  rewrite Hb in Hn. injection Hn as <- <-. rewrite (Hall eq_refl). unfold server_stream.
  destruct (clean_lines_split _ (server_records_clean host files ssched Hc)) as (ws & Hws & Hp).
  rewrite Hws, feed_records by exact Hp. cbn [snd]. clear. induction ws as [|w ws IH]; [reflexivity|]. cbn. now rewrite IH.
Qed.

(* ================= 6. what stdout looks like ================= *)
Definition nonempty (m : bytes) : bool := match m with [] => false | _ => true end.
Definition rec_msg (m : bytes) : Prop := m = [] \/ (clean_line m /\ hidden beqb dot_byte m = false).

Lemma stdout_lines_gen : forall ms : list bytes, Forall rec_msg ms ->
  exists ws, Forall bplain ws /\ map (fun w => w ++ [nl_byte]) ws = filter nonempty ms /\
    concat (filter (fun m => negb (hidden beqb dot_byte m)) ms) = concat (map (fun w => w ++ [nl_byte]) ws).
Proof.
  induction 1 as [|m ms Hm _ (ws & Hp & Hmap & Hcat)]; [exists []; repeat split; constructor|].
  destruct Hm as [->|[(w & -> & Hw) Hh]].
  - exists ws. cbn. repeat split; auto.
  - exists (w :: ws). cbn [filter map concat]. rewrite Hh. cbn [negb concat].
    replace (nonempty (w ++ [nl_byte])) with true by (destruct w; reflexivity).
    split; [now constructor|]. split; [now rewrite Hmap|now rewrite Hcat].
Qed.

Lemma plain_no_nl w : bplain w -> ~ In nl_byte w.
Proof. intros H Hin. destruct (H _ Hin) as [Hn _]. congruence. Qed.

Lemma record_not_hidden host perc count id l : hidden beqb dot_byte (record host perc count id l) = false.
Proof. unfold record. cbn. reflexivity. Qed.

(* tags of printed messages are connection indices *)
Lemma tags_step (streams : list bytes) st e : length (fst st) = length streams ->
  Forall (fun p => fst p < length streams) (snd st) -> Forall (fun p => fst p < length streams) (snd (cstep st e)).
Proof.
  destruct st as [conns out]. destruct e as [c n]. cbn [fst snd]. intros Hl H. unfold cstep.
  destruct (nth_error conns c) as [[pending buf]|] eqn:E; [|exact H].
  destruct (feed buf (firstn n pending)) as [buf' ms]. cbn [snd]. apply Forall_app. split; [exact H|].
  apply Forall_forall. intros p Hp. apply in_map_iff in Hp. destruct Hp as (m & <- & _). cbn.
  rewrite <- Hl. apply nth_error_Some. congruence.
Qed.

Lemma tags_run (streams : list bytes) : forall sched st, length (fst st) = length streams ->
  Forall (fun p => fst p < length streams) (snd st) ->
  Forall (fun p => fst p < length streams) (snd (fold_left cstep sched st)).
Proof.
  induction sched as [|e r IH]; intros st Hl H; [exact H|]. cbn. apply IH.
  - destruct st as [conns out]. destruct e as [c n]. unfold cstep. cbn [fst] in *.
    destruct (nth_error conns c) as [[pending buf]|]; [|exact Hl].
    destruct (feed buf (firstn n pending)). cbn [fst]. now rewrite upd_length.
  - now apply tags_step.
Qed.

Lemma in_proj {A} c (m : A) out : In (c, m) out -> In m (proj c out).
Proof.
  intros H. unfold proj. apply in_map_iff. exists (c, m). split; [reflexivity|].
  apply filter_In. split; [exact H|]. cbn. apply Nat.eqb_refl.
Qed.

Lemma stdout_of_alt out :
  stdout_of out = concat (filter (fun m => negb (hidden beqb dot_byte m)) (map snd out)).
Proof.
  unfold stdout_of, visible. f_equal. induction out as [|[c m] l IH]; [reflexivity|]. cbn.
  destruct (hidden beqb dot_byte m); cbn; now rewrite IH.
Qed.

Definition srv := (bytes * list sfile * list nat)%type.
Definition srv_stream (s : srv) : bytes := let '(host, files, ss) := s in server_stream host files ss.
Definition srv_clean (s : srv) : Prop := let '(host, files, ss) := s in clean_server host files.

(* the whole system, every server schedule, every transport chunking, every arrival order: once
   everything has arrived, (1) per connection the printed messages are that server's records, whole
   and in its order; (2) stdout consists of whole lines, each of them one printed record. *)
Theorem interleave (servers : list srv) (csched : list (nat * nat)) :
  Forall srv_clean servers ->
  let st := crun (map srv_stream servers) csched in
  (forall c, c < length servers -> exists buf, nth_error (fst st) c = Some ([], buf)) ->
  (forall c host files ss, nth_error servers c = Some (host, files, ss) ->
     proj c (snd st) = flat_map (fun r => [r; []]) (map snd (server_records host files ss))) /\
  exists ws, Forall bplain ws /\
    split nl_byte (stdout_of (snd st)) = ws ++ [[]] /\
    map (fun w => w ++ [nl_byte]) ws = filter nonempty (map snd (snd st)).
Proof.
  intros Hclean st Hall.
  assert (P1 : forall c host files ss, nth_error servers c = Some (host, files, ss) ->
     proj c (snd st) = flat_map (fun r => [r; []]) (map snd (server_records host files ss))).
  { intros c host files ss Hc. apply (connection_messages host files ss).
    - rewrite Forall_forall in Hclean. apply (Hclean _ (nth_error_In _ _ Hc)).
    - rewrite nth_error_map, Hc. reflexivity.
    - apply Hall. apply nth_error_Some. congruence. }
  split; [exact P1|].
  assert (Hrec : Forall rec_msg (map snd (snd st))).
  { assert (Htags : Forall (fun p => fst p < length (map srv_stream servers)) (snd st)).
    { apply tags_run; [cbn; now rewrite !map_length|constructor]. }
    apply Forall_forall. intros m Hm. apply in_map_iff in Hm. destruct Hm as ([c m'] & <- & Hin). cbn [snd].
    rewrite Forall_forall in Htags. pose proof (Htags _ Hin) as Hc. cbn in Hc. rewrite map_length in Hc.
    destruct (nth_error servers c) as [[[host files] ss]|] eqn:E; [|apply nth_error_None in E; lia].
    pose proof (in_proj _ _ _ Hin) as Hp. rewrite (P1 _ _ _ _ E) in Hp.
    apply in_flat_map in Hp. destruct Hp as (r & Hr & [<-|[<-|[]]]); [|now left].
    right. split.
    - assert (Hcl : clean_server host files) by (rewrite Forall_forall in Hclean; apply (Hclean _ (nth_error_In _ _ E))).
      pose proof (server_records_clean host files ss Hcl) as F. rewrite Forall_forall in F. now apply F.
    - apply in_map_iff in Hr. destruct Hr as ([i r'] & <- & Hin'). unfold server_records in Hin'.
      apply server_run_source in Hin'. destruct Hin' as (n & rest & l & k & _ & _ & ->). apply record_not_hidden. }
  destruct (stdout_lines_gen _ Hrec) as (ws & Hp & Hmap & Hcat). exists ws. split; [exact Hp|]. split; [|exact Hmap].
  rewrite stdout_of_alt, Hcat. apply split_lines. eapply Forall_impl; [|exact Hp]. intros w. apply plain_no_nl.
Qed.
