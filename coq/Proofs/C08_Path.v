From DT Require Import Lib.Bytes Lib.Split Model.C08_Path.

Lemma cpath_eqb_eq a b : cpath_eqb a b = true <-> a = b.
Proof. apply lbytes_eqb_eq. Qed.

(* a canonical directory: every non-empty prefix is a directory of the file system *)
Definition dirpath (fs : fsys) (p : cpath) : Prop := forall k, 0 < k <= length p -> lookup fs (firstn k p) = Some NDir.
(* a canonical result: a canonical directory, or a file / other node in one *)
Definition canonical (fs : fsys) (r : cpath) : Prop :=
  dirpath fs r \/ exists d c, r = d ++ [c] /\ dirpath fs d /\ (lookup fs r = Some NFile \/ lookup fs r = Some NOther).
(* the components of the file system's keys are ordinary names *)
Definition plain (c : comp) : Prop := bytes_eqb c [] = false /\ bytes_eqb c dot = false /\ bytes_eqb c dotdot = false.
Definition wf_fs (fs : fsys) : Prop := forall p n, lookup fs p = Some n -> Forall plain p.

Lemma dirpath_nil fs : dirpath fs [].
Proof. intros k Hk. cbn in Hk. lia. Qed.

Lemma firstn_removelast {A} (l : list A) k : k <= length l - 1 -> firstn k (removelast l) = firstn k l.
Proof.
  revert k; induction l as [|x l IH]; intros k Hk; [reflexivity|]. destruct l as [|y l].
  - cbn in Hk. assert (k = 0) by lia. subst. reflexivity.
  - destruct k as [|k]; [reflexivity|]. cbn [removelast firstn]. f_equal. apply IH. cbn [length] in *. lia.
Qed.

Lemma dirpath_parent fs p : dirpath fs p -> dirpath fs (parent p).
Proof.
  intros H k Hk. unfold parent in *. destruct p as [|x p]; [cbn in Hk; lia|].
  assert (Hl : length (removelast (x :: p)) = length (x :: p) - 1).
  { rewrite removelast_firstn_len, firstn_length. lia. }
  rewrite firstn_removelast by lia. apply H. lia.
Qed.

Lemma dirpath_snoc fs p c : dirpath fs p -> lookup fs (p ++ [c]) = Some NDir -> dirpath fs (p ++ [c]).
Proof.
  intros H Hl k Hk. rewrite app_length in Hk. cbn in Hk.
  destruct (Nat.eq_dec k (length p + 1)) as [->|Hne].
  - rewrite firstn_all2 by (rewrite app_length; cbn; lia). exact Hl.
  - rewrite firstn_app. replace (k - length p) with 0 by lia. cbn [firstn]. rewrite app_nil_r. apply H. lia.
Qed.

(* the walk only ever returns canonical paths *)
Lemma go_canonical fs link : (forall cur todo r, dirpath fs cur -> link cur todo = Some r -> canonical fs r) ->
  forall todo cur r, dirpath fs cur -> go fs link cur todo = Some r -> canonical fs r.
Proof.
  intros Hlink. induction todo as [|c rest IH]; intros cur r Hd H; cbn [go] in H.
  - inversion H; subst. now left.
  - destruct (bytes_eqb c [] || bytes_eqb c dot); [now apply (IH cur)|].
    destruct (bytes_eqb c dotdot); [apply (IH (parent cur)); [now apply dirpath_parent|exact H]|].
    destruct (lookup fs (cur ++ [c])) as [[| | |abs t]|] eqn:E; try discriminate.
    + apply (IH (cur ++ [c])); [now apply dirpath_snoc|exact H].
    + destruct rest; [|discriminate]. inversion H; subst. right. exists cur, c. auto.
    + destruct rest; [|discriminate]. inversion H; subst. right. exists cur, c. auto.
    + apply (Hlink _ _ _ (if abs as b return dirpath fs (if b then [] else cur) then dirpath_nil fs else Hd) H).
Qed.

Theorem walk_canonical fs : forall fuel cur todo r, dirpath fs cur -> walk fs fuel cur todo = Some r -> canonical fs r.
Proof.
  induction fuel as [|f IH]; intros cur todo r Hd H; [discriminate|]. cbn [walk] in H.
  eapply go_canonical; [|exact Hd|exact H]. intros c t r' Hc Hr. eapply IH; eauto.
Qed.

(* walking a canonical path needs no link and returns the path itself *)
Lemma go_along fs link : wf_fs fs -> forall suf pre,
  dirpath fs pre ->
  (forall k, 0 < k < length suf -> lookup fs (pre ++ firstn k suf) = Some NDir) ->
  (suf <> [] -> lookup fs (pre ++ suf) = Some NDir \/ lookup fs (pre ++ suf) = Some NFile \/ lookup fs (pre ++ suf) = Some NOther) ->
  go fs link pre suf = Some (pre ++ suf).
Proof.
  intros Hwf. induction suf as [|c rest IH]; intros pre Hd Hmid Hlast; cbn [go]; [now rewrite app_nil_r|].
  assert (Hkey : exists n, lookup fs (pre ++ [c]) = Some n /\ (rest <> [] -> n = NDir) /\ (rest = [] -> n = NDir \/ n = NFile \/ n = NOther)).
  { destruct rest as [|d rest'].
    - destruct (Hlast ltac:(discriminate)) as [H|[H|H]]; eexists; (split; [exact H|split; [congruence|auto]]).
    - exists NDir. split; [apply (Hmid 1); cbn; lia|split; auto]. }
  destruct Hkey as (n & Hn & Hdir & Hfin).
  assert (Hp : plain c).
  { pose proof (Hwf _ _ Hn) as F. apply Forall_app in F. destruct F as [_ F]. now inversion F. }
  destruct Hp as (P1 & P2 & P3). rewrite P1, P2, P3. cbn [orb]. rewrite Hn.
  destruct rest as [|d rest'].
  - destruct (Hfin eq_refl) as [->|[->| ->]]; cbn [go]; reflexivity.
  - rewrite (Hdir ltac:(discriminate)).
    replace (pre ++ c :: d :: rest') with ((pre ++ [c]) ++ d :: rest') by (rewrite <- app_assoc; reflexivity).
    apply IH.
    + apply dirpath_snoc; [exact Hd|]. rewrite Hn. f_equal. apply Hdir. discriminate.
    + intros k Hk. rewrite <- app_assoc. cbn [app]. apply (Hmid (S k)). cbn [length] in *. lia.
    + intros _. rewrite <- app_assoc. cbn [app]. apply Hlast. discriminate.
Qed.

(* the resolved path is a fixed point: resolving it again, with a single unit of fuel, gives it back *)
Theorem resolve_idempotent fs fuel req r : wf_fs fs -> resolve fs fuel req = Some r -> resolve fs 1 r = Some r.
Proof.
  intros Hwf H. unfold resolve in *. pose proof (walk_canonical fs fuel [] req r (dirpath_nil fs) H) as C.
  cbn [walk]. change r with ([] ++ r) at 2. destruct C as [Hd|(d & c & -> & Hd & Hk)].
  - apply go_along; [exact Hwf|apply dirpath_nil| |].
    + intros k Hk. cbn [app]. apply Hd. lia.
    + intros Hne. left. cbn [app]. rewrite <- (firstn_all r). apply Hd. destruct r; [congruence|cbn; lia].
  - apply go_along; [exact Hwf|apply dirpath_nil| |].
    + intros k Hk'. cbn [app]. rewrite app_length in Hk'. cbn in Hk'. rewrite firstn_app. replace (k - length d) with 0 by lia.
      cbn [firstn]. rewrite app_nil_r. apply Hd. lia.
    + intros _. cbn [app]. right. exact Hk.
Qed.

Theorem resolve_canonical fs fuel req r : resolve fs fuel req = Some r -> canonical fs r.
Proof. intros H. exact (walk_canonical fs fuel [] req r (dirpath_nil fs) H). Qed.
