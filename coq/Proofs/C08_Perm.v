From DT Require Import Lib.Bytes Lib.Split Model.C08_Perm.

(* the repaired parser reads every rule as its meaning: any pattern, ':' included, bare or
   prefixed *)
Lemma parse_rule_fixed rule : parse_rule true rule = (readfiles, fst (rule_meaning rule), snd (rule_meaning rule)).
Proof.
  unfold parse_rule, rule_meaning.
  destruct (bprefix (readfiles ++ [colonb]) rule).
  - destruct (skipn (S (length readfiles)) rule) as [|c r]; [reflexivity|]. destruct (beqb c bang); reflexivity.
  - destruct rule as [|c r]; [reflexivity|]. destruct (beqb c bang); reflexivity.
Qed.

Section Decide.
  Variable compiles : bytes -> bool.
  Variable matches : bytes -> bool.

  Lemma iterate_fixed_spec : forall rules acc,
    (forall r, In r rules -> compiles (snd (rule_meaning r)) = true) ->
    iterate compiles matches true rules acc = last_match matches rules acc.
  Proof.
    induction rules as [|r rest IH]; intros acc Hc; [reflexivity|].
    cbn [iterate last_match]. rewrite parse_rule_fixed.
    destruct (rule_meaning r) as [neg pat] eqn:Em. cbn [fst snd].
    rewrite bytes_eqb_refl. cbn [negb].
    assert (Hcr : compiles pat = true) by (specialize (Hc r (or_introl eq_refl)); now rewrite Em in Hc).
    rewrite Hcr. cbn [negb].
    destruct (matches pat); apply IH; intros x Hx; apply Hc; now right.
  Qed.

  (* last match wins, stated without recursion: allowed iff some rule matches as an allow rule
     and no later rule matches as a deny rule ... (and symmetric) *)
  Lemma last_match_app : forall a b acc, last_match matches (a ++ b) acc = last_match matches b (last_match matches a acc).
  Proof.
    induction a as [|r a IH]; intros b acc; [reflexivity|]. cbn [app last_match].
    destruct (rule_meaning r) as [neg pat]. destruct (matches pat); apply IH.
  Qed.

  Lemma last_match_none : forall rules acc,
    (forall r, In r rules -> matches (snd (rule_meaning r)) = false) -> last_match matches rules acc = acc.
  Proof.
    induction rules as [|r rest IH]; intros acc H; [reflexivity|]. cbn [last_match].
    pose proof (H r (or_introl eq_refl)) as Hr. destruct (rule_meaning r) as [neg pat]. cbn [snd] in Hr. rewrite Hr.
    apply IH. intros x Hx. apply H. now right.
  Qed.

  Theorem last_match_decides rules :
    last_match matches rules false = true <->
    exists before r after, rules = before ++ r :: after
      /\ matches (snd (rule_meaning r)) = true /\ fst (rule_meaning r) = false
      /\ (forall x, In x after -> matches (snd (rule_meaning x)) = false).
  Proof.
    split.
    - (* find the last matching rule by induction from the right *)
      induction rules as [|r rest IH] using rev_ind; [discriminate|].
      rewrite last_match_app. cbn [last_match].
      destruct (rule_meaning r) as [neg pat] eqn:Em. destruct (matches pat) eqn:Emt.
      + intros H. apply negb_true_iff in H. subst neg.
        exists rest, r, []. rewrite Em. cbn. repeat split; auto. intros x [].
      + intros H. destruct (IH H) as (b & r0 & a & -> & H1 & H2 & H3).
        exists b, r0, (a ++ [r]). rewrite <- app_assoc. cbn. repeat split; auto.
        intros x Hx. apply in_app_or in Hx. destruct Hx as [Hx|[<-|[]]]; [now apply H3|]. rewrite Em. exact Emt.
    - intros (b & r & a & -> & H1 & H2 & H3).
      rewrite last_match_app. cbn [last_match]. destruct (rule_meaning r) as [neg pat]. cbn [fst snd] in *.
      rewrite H1, H2. cbn. now apply last_match_none.
  Qed.
End Decide.

Theorem served_iff : forall (compiles matches : bytes -> bool) defaults per_user resolved regular,
  (forall r, In r (rules_for defaults per_user) -> compiles (snd (rule_meaning r)) = true) ->
  served compiles matches true defaults per_user resolved regular = true <->
  (exists p, resolved = Some p) /\ regular = true /\
  exists before r after, rules_for defaults per_user = before ++ r :: after
    /\ matches (snd (rule_meaning r)) = true /\ fst (rule_meaning r) = false
    /\ (forall x, In x after -> matches (snd (rule_meaning x)) = false).
Proof.
  intros compiles matches defaults per_user resolved regular Hc. unfold served.
  destruct resolved as [p|].
  - unfold decide. rewrite (iterate_fixed_spec compiles matches _ false Hc).
    rewrite andb_true_iff, last_match_decides. split.
    + intros [H1 H2]. split; [eauto|]. split; assumption.
    + intros [_ [H1 H2]]. split; assumption.
  - split; [discriminate|]. intros [[p Hp] _]. discriminate.
Qed.

(* the pinned parser: a bare rule with a ':' is given a bogus type and skipped *)
Lemma parse_rule_pinned_posix :
  parse_rule false (B"!^/secret/[[:alpha:]]+$") = (B"!^/secret/[[", false, B"alpha:]]+$").
Proof. vm_compute. reflexivity. Qed.
