From DT Require Import Lib.Bytes Lib.Split Model.C09_Auth.

Lemma parse_next_some ls k r : parse_next ls = Some (k, r) ->
  In (LKey k) ls /\ length r < length ls /\ (forall j, In (LKey j) ls <-> j = k \/ In (LKey j) r).
Proof.
  induction ls as [|l ls IH]; [discriminate|]. simpl.
  destruct l as [| | |k0].
  1-3: (intros H; destruct (IH H) as (H1 & H2 & H3); split; [now right|]; split; [simpl; lia|];
        intros j; rewrite <- H3; split; [intros [H0|H0]; [discriminate|exact H0]|now right]).
  intros H; inversion H; subst. split; [now left|]. split; [simpl; lia|].
  intros j. split; [intros [H0|H0]; [inversion H0; auto|auto]|intros [->|H0]; auto].
Qed.

Lemma parse_next_none ls : parse_next ls = None -> forall j, ~ In (LKey j) ls.
Proof.
  induction ls as [|l ls IH]; intros H j; [tauto|]. simpl in *.
  destruct l; try discriminate; intros [H0|H0]; try discriminate; now apply (IH H j).
Qed.

Lemma collect_fixed : forall fuel ls acc, length ls < fuel ->
  exists keys, collect true fuel ls acc = Some keys /\ forall j, In j keys <-> In j acc \/ In (LKey j) ls.
Proof.
  induction fuel as [|f IH]; intros ls acc Hf; [lia|]. cbn [collect].
  destruct ls as [|l ls']; [exists acc; split; [reflexivity|]; intros j; simpl; tauto|].
  destruct (parse_next (l :: ls')) as [[k r]|] eqn:E.
  - destruct (parse_next_some _ _ _ E) as (H1 & H2 & H3).
    destruct (IH r (k :: acc)) as (keys & Hk & Hin); [simpl in *; lia|].
    exists keys. split; [exact Hk|]. intros j. rewrite Hin, H3. simpl. split; intros [H|H]; auto.
    + destruct H as [->|H]; auto.
    + destruct H as [->|H]; auto.
  - exists acc. split; [reflexivity|]. intros j. pose proof (parse_next_none _ E j). tauto.
Qed.

(* every key listed in the file - comments, blank or unparsable lines anywhere - is accepted,
   and nothing else *)
Theorem verify_fixed_iff ls offered : verify true ls offered = true <-> In (LKey offered) ls.
Proof.
  unfold verify. destruct (collect_fixed (S (length ls)) ls [] ltac:(lia)) as (keys & -> & Hin).
  rewrite existsb_exists. split.
  - intros (x & Hx & Heq). apply Nat.eqb_eq in Heq. subst x. apply Hin in Hx. destruct Hx as [[]|Hx]; exact Hx.
  - intros H. exists offered. split; [apply Hin; now right|apply Nat.eqb_refl].
Qed.

Section Password.
  Variable resolve : bytes -> list bytes.

  Lemma can_ssh_iff pw ip j : can_ssh resolve pw ip j = true <->
    pw = j_name j /\ exists a, In a (j_allow j) /\ In ip (resolve a).
  Proof.
    unfold can_ssh. rewrite andb_true_iff, bytes_eqb_eq, existsb_exists. split.
    - intros [-> (a & Ha & Hx)]. apply existsb_exists in Hx. destruct Hx as (i & Hi & Heq).
      apply bytes_eqb_eq in Heq. subst i. eauto.
    - intros [-> (a & Ha & Hi)]. split; [reflexivity|]. exists a. split; [exact Ha|].
      apply existsb_exists. exists ip. split; [exact Hi|apply bytes_eqb_refl].
  Qed.

  Theorem pw_ok_iff user pw ip schedule continuous :
    pw_ok resolve user pw ip schedule continuous = true <->
    (user = health_user /\ pw = health_user)
    \/ (user = schedule_user /\ exists j, In j schedule /\ pw = j_name j /\ exists a, In a (j_allow j) /\ In ip (resolve a))
    \/ (user = continuous_user /\ exists j, In j continuous /\ pw = j_name j /\ exists a, In a (j_allow j) /\ In ip (resolve a)).
  Proof.
    unfold pw_ok.
    destruct (bytes_eqb user health_user) eqn:Eh.
    - apply bytes_eqb_eq in Eh. subst user. rewrite bytes_eqb_eq. split; [intros ->; left; auto|].
      intros [[_ H]|[[H _]|[H _]]]; [exact H|discriminate H|discriminate H].
    - assert (Hnh : user <> health_user) by (intros ->; rewrite bytes_eqb_refl in Eh; discriminate).
      destruct (bytes_eqb user schedule_user) eqn:Es.
      + apply bytes_eqb_eq in Es. subst user. rewrite existsb_exists. split.
        * intros (j & Hj & Hc). apply can_ssh_iff in Hc. right; left. split; [reflexivity|]. exists j. tauto.
        * intros [[H _]|[[_ (j & Hj & Hc)]|[H _]]]; [contradiction|exists j; split; [exact Hj|now apply can_ssh_iff]|discriminate H].
      + assert (Hns : user <> schedule_user) by (intros ->; rewrite bytes_eqb_refl in Es; discriminate).
        destruct (bytes_eqb user continuous_user) eqn:Ec.
        * apply bytes_eqb_eq in Ec. subst user. rewrite existsb_exists. split.
          -- intros (j & Hj & Hc). apply can_ssh_iff in Hc. right; right. split; [reflexivity|]. exists j. tauto.
          -- intros [[H _]|[[H _]|[_ (j & Hj & Hc)]]]; [contradiction|contradiction|exists j; split; [exact Hj|now apply can_ssh_iff]].
        * assert (Hnc : user <> continuous_user) by (intros ->; rewrite bytes_eqb_refl in Ec; discriminate).
          split; [discriminate|]. intros [[H _]|[[H _]|[H _]]]; contradiction.
  Qed.
End Password.

Theorem health_only name : health_answer name = HealthOK <-> name = B"health".
Proof.
  unfold health_answer. destruct (bytes_eqb name (B"health")) eqn:E.
  - apply bytes_eqb_eq in E. tauto.
  - split; [destruct (bytes_eqb name (B".ack")); discriminate|]. intros ->. discriminate.
Qed.
