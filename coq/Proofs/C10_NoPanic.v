From DT Require Import Lib.Bytes Lib.Split Gen.Consts Model.Proto.

Section NoPanic.
  Variables (b64dec : bytes -> option bytes) (atoi : bytes -> option Z).
  Variable regex_compiles : bytes -> bool.
  Variable query_parses : bytes -> bool.

  Notation handle_command := (handle_command b64dec atoi regex_compiles query_parses).
  Notation srv_write := (srv_write b64dec atoi regex_compiles query_parses).
  Notation dispatch := (dispatch regex_compiles query_parses).

  Lemma read_cmd_no_panic tl b a m args : read_cmd regex_compiles tl b a m args <> OPanic.
  Proof.
    unfold read_cmd. destruct (if 4 <=? length args then _ else _); [discriminate|].
    destruct (Nat.ltb_spec (length args) 3); [discriminate|].
    destruct args as [|a0 [|a1 rest]]; simpl in *; try lia. discriminate.
  Qed.

  Lemma ack_cmd_no_panic args : ack_cmd args <> OPanic.
  Proof.
    unfold ack_cmd. destruct (Nat.ltb_spec (length args) 3); [discriminate|].
    destruct args as [|a0 [|a1 [|a2 rest]]]; simpl in *; try lia. discriminate.
  Qed.

  Lemma dispatch_no_panic name b a m args : dispatch name b a m args <> OPanic.
  Proof.
    unfold Proto.dispatch.
    destruct (_ || _); [apply read_cmd_no_panic|].
    destruct (bytes_eqb name (B"tail")); [apply read_cmd_no_panic|].
    destruct (bytes_eqb name (B"map")); [destruct (query_parses _); discriminate|].
    destruct (bytes_eqb name (B".ack")); [apply ack_cmd_no_panic|discriminate].
  Qed.

  Lemma decode_command_no_panic st s : snd (decode_command b64dec atoi st s) <> DPanic.
  Proof.
    unfold Proto.decode_command.
    pose proof (split_nonempty sp s) as Hne.
    destruct (split sp s) as [|a0 [|a1 [|a2 rest]]] eqn:Es; simpl length in *; try lia;
      try (cbn; discriminate).
    cbn [length Nat.leb orb nth_b nth_error].
    destruct (negb (bytes_eqb a0 (B"protocol"))); cbn [orb]; [cbn; discriminate|].
    destruct (negb (bytes_eqb a1 c_protocol_compat)); [cbn; discriminate|].
    cbn [skipn].
    destruct rest as [|a3 [|a4 rest']]; cbn [length Nat.eqb negb]; try (cbn; discriminate).
    cbn [nth_b nth_error].
    destruct (negb (bytes_eqb a2 (B"base64"))); [cbn; discriminate|].
    destruct (b64dec a3) as [decoded|]; [|cbn; discriminate].
    pose proof (split_nonempty sp decoded) as Hd.
    destruct (split sp decoded) as [|d0 drest] eqn:Ed; [simpl in Hd; lia|].
    cbn [nth_b nth_error].
    pose proof (split_nonempty colon d0) as Hc.
    destruct (split colon d0) as [|name popts]; [simpl in Hc; lia|].
    destruct popts as [|p1 ps]; [cbn [snd]; discriminate|].
    destruct p1 as [|c p1']; [cbn [snd]; discriminate|].
    destruct (deser_opts b64dec atoi _ _ _ _ _) as [[[[opts b] a] m]|]; cbn [snd]; discriminate.
  Qed.

  Lemma handle_command_no_panic st s : snd (handle_command st s) <> OPanic.
  Proof.
    unfold Proto.handle_command. pose proof (decode_command_no_panic st s) as H.
    destruct (decode_command b64dec atoi st s) as [st' [k|name b a m args|]]; cbn [snd] in *;
      [discriminate|apply dispatch_no_panic|congruence].
  Qed.

  Theorem srv_write_no_panic : forall s st buf,
    forallb (fun x => negb (is_panic x)) (snd (srv_write st buf s)) = true.
  Proof.
    induction s as [|c r IH]; intros st buf; cbn [Proto.srv_write]; [reflexivity|].
    destruct (beqb c semicolon); [|apply IH].
    pose proof (decode_command_no_panic st (rev' buf)) as Hd.
    pose proof (handle_command_no_panic st (rev' buf)) as Hh.
    destruct (decode_command b64dec atoi st (rev' buf)) as [st1 d] eqn:E. cbn [snd] in Hd.
    specialize (IH st1 []). destruct (srv_write st1 [] r) as [[st2 buf2] os]. cbn [snd forallb] in *.
    rewrite IH, andb_true_r. unfold is_panic.
    destruct d; try congruence; destruct (snd (handle_command st (rev' buf))); try congruence; reflexivity.
  Qed.
End NoPanic.
