(* C11 — valid clauses parse to what they denote: per clause kind, the update the clause builder
   computes from a canonical token rendering; together with [parse_run] / [run_ok] of C11_Order this
   gives the structure of the parsed query for any list of such clauses. *)
From DT Require Import Lib.Bytes Lib.Split Gen.Consts Model.C11_Query Proofs.C11_Query Proofs.C11_Order.

(* a token that tokensConsume hands on unchanged: not a keyword, not empty, not back-quoted *)
Definition simple (t : tok) : Prop := is_keyword t = false /\ t_str t <> [] /\ is_bquoted (t_str t) = false.

Lemma consume_simple : forall body, Forall simple body -> consume body = ([], body).
Proof.
  induction body as [|t b IH]; intros H; [reflexivity|]. inversion H as [|? ? (Hk & Hn & Hq) Hb]; subst.
  cbn [consume]. rewrite Hk, (IH Hb). destruct (t_str t) eqn:E; [contradiction|]. now rewrite Hq.
Qed.

Section Denote.
  Variable is_float : bytes -> bool.
  Variable atoi : bytes -> option Z.
  Notation eff := (eff is_float atoi).

  (* ---- select ---- *)
  Definition opname (o : aggop) : bytes :=
    match o with ACount => B"count" | ASum => B"sum" | AMin => B"min" | AMax => B"max" | ALast => B"last" | AAvg => B"avg" | ALen => B"len" end.
  Lemma agg_of_opname o : agg_of (opname o) = Some o.
  Proof. destruct o; reflexivity. Qed.
  Lemma opname_noparen o : ~ In lparen (opname o) /\ ~ In rparen (opname o).
  Proof. destruct o; split; cbn; intuition discriminate. Qed.

  Definition noparen (s : bytes) : Prop := ~ In lparen s /\ ~ In rparen s.
  Lemma has_byte_false c s : ~ In c s -> has_byte c s = false.
  Proof.
    intros H. unfold has_byte. destruct (existsb (beqb c) s) eqn:E; [|reflexivity].
    apply existsb_exists in E. destruct E as (x & Hx & Eb). apply beqb_eq in Eb. subst. contradiction.
  Qed.
  Lemma has_byte_true c s : In c s -> has_byte c s = true.
  Proof. intros H. unfold has_byte. apply existsb_exists. exists c. split; [exact H|apply beqb_refl]. Qed.

  (* an aggregation item "op(field)" *)
  Definition agg_text (o : aggop) (fld : bytes) : bytes := opname o ++ lparen :: fld ++ [rparen].
  Lemma make_select1_agg o fld : noparen fld ->
    make_select1 (bare_tok (agg_text o fld)) = ROk {| s_field := fld; s_storage := agg_text o fld; s_op := o |}.
  Proof.
    intros [Hl Hr]. unfold make_select1, agg_text. cbn [t_stripped t_str bare_tok orb].
    rewrite (has_byte_true lparen) by (apply in_or_app; right; now left). cbn [negb andb].
    destruct (opname_noparen o) as [Ho _].
    rewrite split_app_sep by exact Ho.
    rewrite split_plain by (intros Hin; apply in_app_or in Hin; destruct Hin as [Hin|[Hin|[]]]; [contradiction|discriminate]).
    replace (fld ++ [rparen]) with (fld ++ rparen :: []) by reflexivity.
    rewrite split_app_sep by exact Hr. rewrite split_plain by (intros []).
    now rewrite agg_of_opname.
  Qed.
  (* a bare field *)
  Lemma make_select1_field fld : noparen fld ->
    make_select1 (bare_tok fld) = ROk {| s_field := fld; s_storage := fld; s_op := ALast |}.
  Proof.
    intros [Hl Hr]. unfold make_select1. cbn [t_stripped t_str bare_tok orb].
    now rewrite !has_byte_false by assumption.
  Qed.

  Inductive sitem := SAgg (o : aggop) (fld : bytes) | SField (fld : bytes).
  Definition sitem_tok (i : sitem) : tok := match i with SAgg o f => bare_tok (agg_text o f) | SField f => bare_tok f end.
  Definition sitem_ok (i : sitem) : Prop := match i with SAgg _ f | SField f => noparen f end.
  Definition sitem_den (i : sitem) : selc :=
    match i with
    | SAgg o f => {| s_field := f; s_storage := agg_text o f; s_op := o |}
    | SField f => {| s_field := f; s_storage := f; s_op := ALast |}
    end.
  Lemma make_select_items : forall items, Forall sitem_ok items ->
    make_select (map sitem_tok items) = ROk (map sitem_den items).
  Proof.
    induction items as [|i r IH]; intros H; [reflexivity|]. inversion H as [|? ? Hi Hr]; subst.
    cbn [map make_select]. destruct i as [o f|f]; cbn [sitem_tok sitem_den].
    - rewrite make_select1_agg by exact Hi. cbn [rbind]. now rewrite (IH Hr).
    - rewrite make_select1_field by exact Hi. cbn [rbind]. now rewrite (IH Hr).
  Qed.

  Theorem select_denotes items : Forall sitem_ok items -> Forall simple (map sitem_tok items) ->
    eff (B"select") (map sitem_tok items) = ROk ([], USelect (map sitem_den items)).
  Proof.
    intros Hi Hs. unfold C11_Order.eff. cbn [bytes_eqb]. change (bytes_eqb (B"select") (B"select")) with true. cbn iota.
    rewrite (consume_simple _ Hs). now rewrite make_select_items.
  Qed.

  (* ---- from ---- *)
  Theorem from_denotes t : simple t -> eff (B"from") [t] = ROk ([], UTable (upper (t_str t))).
  Proof.
    intros Hs. unfold C11_Order.eff. change (bytes_eqb (B"from") (B"select")) with false. change (bytes_eqb (B"from") (B"from")) with true. cbn iota.
    now rewrite (consume_simple [t] (Forall_cons _ Hs (Forall_nil _))).
  Qed.

  (* ---- group [by] f1 f2 ... ---- *)
  Theorem group_denotes (by_given : bool) (flds : list tok) : flds <> [] -> Forall simple flds ->
    (forall t, nth_error flds 0 = Some t -> bytes_eqb (lower (t_str t)) (lower (B"by")) = false) ->
    eff (B"group") ((if by_given then [bare_tok (B"by")] else []) ++ flds) =
    ROk ([], UGroup (map t_str flds) (join_with x2c (map t_str flds))).
  Proof.
    intros Hne Hs Hnb. unfold C11_Order.eff.
    change (bytes_eqb (B"group") (B"select")) with false. change (bytes_eqb (B"group") (B"from")) with false.
    change (bytes_eqb (B"group") (B"where")) with false. change (bytes_eqb (B"group") (B"set")) with false.
    change (bytes_eqb (B"group") (B"group")) with true. cbn iota.
    assert (E : consume_optional ((if by_given then [bare_tok (B"by")] else []) ++ flds) (B"by") = flds).
    { destruct by_given; cbn [app consume_optional].
      - reflexivity.
      - destruct flds as [|t r]; [contradiction|]. cbn [consume_optional]. now rewrite (Hnb t eq_refl). }
    rewrite E. destruct flds as [|t r] eqn:Ef; [contradiction|]. rewrite <- Ef in *. rewrite (consume_simple _ Hs).
    rewrite Ef. reflexivity.
  Qed.

  (* ---- order / rorder [by] x ---- *)
  Theorem order_denotes (rev by_given : bool) (t : tok) : simple t ->
    bytes_eqb (lower (t_str t)) (lower (B"by")) = false ->
    eff (if rev then B"rorder" else B"order") ((if by_given then [bare_tok (B"by")] else []) ++ [t]) =
    ROk ([], UOrder (t_str t) rev).
  Proof.
    intros Hs Hnb. unfold C11_Order.eff.
    assert (E : consume_optional ((if by_given then [bare_tok (B"by")] else []) ++ [t]) (B"by") = [t]).
    { destruct by_given; cbn [app consume_optional]; [reflexivity|now rewrite Hnb]. }
    destruct rev.
    - change (bytes_eqb (B"rorder") (B"select")) with false. change (bytes_eqb (B"rorder") (B"from")) with false.
      change (bytes_eqb (B"rorder") (B"where")) with false. change (bytes_eqb (B"rorder") (B"set")) with false.
      change (bytes_eqb (B"rorder") (B"group")) with false. change (bytes_eqb (B"rorder") (B"rorder")) with true.
      cbn [orb]. cbn iota. rewrite E. now rewrite (consume_simple [t] (Forall_cons _ Hs (Forall_nil _))).
    - change (bytes_eqb (B"order") (B"select")) with false. change (bytes_eqb (B"order") (B"from")) with false.
      change (bytes_eqb (B"order") (B"where")) with false. change (bytes_eqb (B"order") (B"set")) with false.
      change (bytes_eqb (B"order") (B"group")) with false. change (bytes_eqb (B"order") (B"rorder")) with false.
      change (bytes_eqb (B"order") (B"order")) with true.
      cbn [orb]. cbn iota. rewrite E. now rewrite (consume_simple [t] (Forall_cons _ Hs (Forall_nil _))).
  Qed.

  (* ---- limit n / interval n ---- *)
  Theorem limit_denotes t z : simple t -> atoi (t_str t) = Some z -> eff (B"limit") [t] = ROk ([], ULimit z).
  Proof.
    intros Hs Ha. unfold C11_Order.eff.
    repeat match goal with |- context [bytes_eqb (B"limit") (B ?k)] =>
      let b := eval vm_compute in (bytes_eqb (B"limit") (B k)) in change (bytes_eqb (B"limit") (B k)) with b end.
    cbn [orb]. cbn iota. rewrite (consume_simple [t] (Forall_cons _ Hs (Forall_nil _))). now rewrite Ha.
  Qed.
  Theorem interval_denotes t z : simple t -> atoi (t_str t) = Some z -> eff (B"interval") [t] = ROk ([], UInterval z).
  Proof.
    intros Hs Ha. unfold C11_Order.eff.
    repeat match goal with |- context [bytes_eqb (B"interval") (B ?k)] =>
      let b := eval vm_compute in (bytes_eqb (B"interval") (B k)) in change (bytes_eqb (B"interval") (B k)) with b end.
    cbn [orb]. cbn iota. rewrite (consume_simple [t] (Forall_cons _ Hs (Forall_nil _))). now rewrite Ha.
  Qed.

  (* ---- where: l op r [and l op r ...] ---- *)
  Definition witem := (tok * tok * tok)%type.
  Definition witem_ok (w : witem) : Prop :=
    let '(l, o, r) := w in exists op, whereop_of (lower (t_str o)) = Some op /\ (is_float_op op = true -> t_bare l = true /\ t_bare r = true).
  Definition witem_den (w : witem) : wherec :=
    let '(l, o, r) := w in
    match whereop_of (lower (t_str o)) with
    | Some op =>
      if is_float_op op
      then {| w_ltype := if is_float (t_str l) then TFloat else TField; w_lstr := t_str l; w_op := op;
              w_rtype := if is_float (t_str r) then TFloat else TField; w_rstr := t_str r |}
      else {| w_ltype := if t_bare l then TField else TString; w_lstr := t_str l; w_op := op;
              w_rtype := if t_bare r then TField else TString; w_rstr := t_str r |}
    | None => {| w_ltype := TField; w_lstr := []; w_op := WFEq; w_rtype := TField; w_rstr := [] |}
    end.
  Lemma make_where1_den l o r : witem_ok (l, o, r) -> make_where1 is_float l o r = ROk (witem_den (l, o, r)).
  Proof.
    intros (op & Ho & Hb). unfold make_where1, witem_den. rewrite Ho. destruct (is_float_op op) eqn:Ef.
    - destruct (Hb eq_refl) as [Hl Hr]. rewrite Hl, Hr. reflexivity.
    - reflexivity.
  Qed.

  (* conditions joined by "and": c1 and c2 and c3 *)
  Fixpoint wtoks (ws : list witem) : list tok :=
    match ws with
    | [] => []
    | [(l, o, r)] => [l; o; r]
    | (l, o, r) :: rest => l :: o :: r :: bare_tok (B"and") :: wtoks rest
    end.
  Definition first_not_and (ws : list witem) : Prop :=
    forall l o r rest, ws = (l, o, r) :: rest -> bytes_eqb (lower (t_str l)) (lower (B"and")) = false.
  Lemma make_where_items : forall ws fuel, Forall witem_ok ws -> length (wtoks ws) < fuel ->
    (forall l o r, In (l, o, r) ws -> bytes_eqb (lower (t_str l)) (lower (B"and")) = false) ->
    make_where is_float fuel (wtoks ws) = ROk (map witem_den ws).
  Proof.
    induction ws as [|[[l o] r] rest IH]; intros fuel Hok Hf Hna.
    - destruct fuel; [cbn in Hf; lia|reflexivity].
    - inversion Hok as [|? ? Hw Hr]; subst. destruct fuel as [|f]; [lia|].
      destruct rest as [|[[l2 o2] r2] rest'].
      + cbn [wtoks make_where consume_optional]. rewrite make_where1_den by exact Hw. cbn [rbind map].
        simpl in Hf. destruct f; [lia|]. reflexivity.
      + change (wtoks ((l, o, r) :: (l2, o2, r2) :: rest')) with (l :: o :: r :: bare_tok (B"and") :: wtoks ((l2, o2, r2) :: rest')).
        cbn [make_where]. rewrite make_where1_den by exact Hw. cbn [rbind].
        cbn [consume_optional t_str bare_tok]. change (bytes_eqb (lower (B"and")) (lower (B"and"))) with true. cbn iota.
        rewrite IH; [reflexivity|exact Hr| |].
        * change (wtoks ((l, o, r) :: (l2, o2, r2) :: rest')) with (l :: o :: r :: bare_tok (B"and") :: wtoks ((l2, o2, r2) :: rest')) in Hf.
          cbn [length] in Hf.
          match goal with |- ?x < f => match type of Hf with S (S (S (S ?y))) < S f => change y with x in Hf end end. lia.
        * intros a b c Hin. apply (Hna a b c). now right.
  Qed.

  Theorem where_denotes ws : ws <> [] -> Forall witem_ok ws -> Forall simple (wtoks ws) ->
    (forall l o r, In (l, o, r) ws -> bytes_eqb (lower (t_str l)) (lower (B"and")) = false) ->
    eff (B"where") (wtoks ws) = ROk ([], UWhere (map witem_den ws)).
  Proof.
    intros Hne Hok Hs Hna. unfold C11_Order.eff.
    change (bytes_eqb (B"where") (B"select")) with false. change (bytes_eqb (B"where") (B"from")) with false.
    change (bytes_eqb (B"where") (B"where")) with true. cbn iota.
    rewrite (consume_simple _ Hs). rewrite make_where_items; [reflexivity|exact Hok|lia|exact Hna].
  Qed.
End Denote.

(* the structure of the parsed query: the updates of the clauses, applied in order *)
Theorem parse_denotes is_float atoi (cs : list cl) q f :
  Forall wf_clause cs -> all_ok is_float atoi cs -> length (toks cs) < f ->
  parse_tokens is_float atoi f q (toks cs) = ROk (apply_all q (upds is_float atoi cs)).
Proof. intros Hw Hok Hf. rewrite parse_run by assumption. now apply run_ok. Qed.

Section Denote2.
  Variable is_float : bytes -> bool.
  Variable atoi : bytes -> option Z.
  Notation eff := (eff is_float atoi).

  Ltac kw_eval k :=
    repeat match goal with |- context [bytes_eqb (B k) (B ?x)] =>
      let b := eval vm_compute in (bytes_eqb (B k) (B x)) in change (bytes_eqb (B k) (B x)) with b end.

  Theorem outfile_denotes (append : bool) t : simple t ->
    eff (B"outfile") ((if append then [bare_tok (B"append")] else []) ++ [t]) = ROk ([], UOutfile (Some (t_str t, append))).
  Proof.
    intros Hs. unfold C11_Order.eff.
    repeat match goal with |- context [bytes_eqb (B"outfile") (B ?k)] =>
      let b := eval vm_compute in (bytes_eqb (B"outfile") (B k)) in change (bytes_eqb (B"outfile") (B k)) with b end.
    cbn [orb]. cbn iota.
    assert (Ha : simple (bare_tok (B"append"))) by (split; [vm_compute; reflexivity|split; [cbn; discriminate|reflexivity]]).
    destruct append; cbn [app].
    - rewrite (consume_simple [bare_tok (B"append"); t] (Forall_cons _ Ha (Forall_cons _ Hs (Forall_nil _)))).
      cbn [t_str bare_tok]. change (bytes_eqb (B"append") (B"append")) with true. reflexivity.
    - now rewrite (consume_simple [t] (Forall_cons _ Hs (Forall_nil _))).
  Qed.

  Theorem logformat_denotes t : simple t -> eff (B"logformat") [t] = ROk ([], ULogformat (t_str t)).
  Proof.
    intros Hs. unfold C11_Order.eff.
    repeat match goal with |- context [bytes_eqb (B"logformat") (B ?k)] =>
      let b := eval vm_compute in (bytes_eqb (B"logformat") (B k)) in change (bytes_eqb (B"logformat") (B k)) with b end.
    cbn [orb]. cbn iota. now rewrite (consume_simple [t] (Forall_cons _ Hs (Forall_nil _))).
  Qed.
End Denote2.

(* ---- the post-checks of Query.parse ---- *)
Lemma finish_spec q s0 rest : q_select q = s0 :: rest ->
  let q1 := match q_groupby q with [] => set_group q [s_field s0] (q_groupkey q) | _ => q end in
  finish q = if match q_orderby q1 with [] => true | ob => existsb (fun s => bytes_eqb ob (s_storage s)) (q_select q1) end
             then ROk q1 else RErr.
Proof.
  intros Hs. unfold finish. rewrite Hs. cbv zeta.
  destruct (q_orderby (match q_groupby q with [] => _ | _ => q end)); [reflexivity|]. destruct (existsb _ _); reflexivity.
Qed.

Lemma finish_no_select q : q_select q = [] -> finish q = RErr.
Proof. intros H. unfold finish. now rewrite H. Qed.

(* ---- set: $a = x $b = y ...  (plain right-hand sides: a field, a number, no function call) ---- *)
Section DenoteSet.
  Variable is_float : bytes -> bool.
  Variable atoi : bytes -> option Z.
  Notation eff := (eff is_float atoi).

  Definition eitem := (tok * tok)%type.       (* left-hand side, right-hand side *)
  Definition eitem_ok (e : eitem) : Prop :=
    let '(l, r) := e in
    t_bare l = true /\ bprefix [dollar] (t_str l) = true /\ t_stripped r = false /\
    match last_byte (t_str r) with Some c => beqb c rparen | None => false end = false.
  Definition eitem_den (e : eitem) : setc :=
    let '(l, r) := e in
    {| e_lstr := t_str l; e_rtype := if is_float (t_str r) then TFloat else TField; e_rstr := t_str r; e_funcs := [] |}.
  Fixpoint etoks (es : list eitem) : list tok :=
    match es with [] => [] | (l, r) :: rest => l :: bare_tok (B"=") :: r :: etoks rest end.

  Lemma make_set1_den l r : eitem_ok (l, r) -> make_set1 is_float l (bare_tok (B"=")) r = ROk (eitem_den (l, r)).
  Proof.
    intros (Hb & Hp & Hst & Hl). unfold make_set1, eitem_den. cbn [t_str bare_tok].
    change (bytes_eqb (B"=") (B"=")) with true. cbn [negb]. rewrite Hb, Hp, Hst, Hl. reflexivity.
  Qed.

  Lemma make_set_items : forall es fuel, Forall eitem_ok es -> length (etoks es) < fuel ->
    (forall l r, In (l, r) es -> bytes_eqb (lower (t_str l)) (lower (B",")) = false) ->
    make_set is_float fuel (etoks es) = ROk (map eitem_den es).
  Proof.
    induction es as [|[l r] rest IH]; intros fuel Hok Hf Hnc.
    - destruct fuel; [cbn in Hf; lia|reflexivity].
    - inversion Hok as [|? ? He Hr]; subst. destruct fuel as [|f]; [lia|].
      cbn [etoks make_set]. rewrite make_set1_den by exact He. cbn [rbind].
      assert (Eo : consume_optional (etoks rest) (B",") = etoks rest).
      { destruct rest as [|[l2 r2] rest']; [reflexivity|]. cbn [etoks consume_optional]. rewrite (Hnc l2 r2) by (right; now left). reflexivity. }
      rewrite Eo, IH; [reflexivity|exact Hr| |].
      + cbn [etoks length] in Hf. lia.
      + intros a b Hin. apply (Hnc a b). now right.
  Qed.

  Theorem set_denotes es : es <> [] -> Forall eitem_ok es -> Forall simple (etoks es) ->
    (forall l r, In (l, r) es -> bytes_eqb (lower (t_str l)) (lower (B",")) = false) ->
    eff (B"set") (etoks es) = ROk ([], USet (map eitem_den es)).
  Proof.
    intros Hne Hok Hs Hnc. unfold C11_Order.eff.
    change (bytes_eqb (B"set") (B"select")) with false. change (bytes_eqb (B"set") (B"from")) with false.
    change (bytes_eqb (B"set") (B"where")) with false. change (bytes_eqb (B"set") (B"set")) with true. cbn iota.
    rewrite (consume_simple _ Hs). rewrite make_set_items; [reflexivity|exact Hok|lia|exact Hnc].
  Qed.
End DenoteSet.
