(* C11 — the order of the clauses of a query does not matter (clauses of different kinds,
   each with a non-empty body): every permutation parses to the same result. *)
From Coq Require Import Permutation.
From DT Require Import Lib.Bytes Lib.Split Gen.Consts Model.C11_Query Proofs.C11_Query.

Inductive upd :=
| USelect (v : list selc) | UTable (v : bytes) | UWhere (v : list wherec) | USet (v : list setc)
| UGroup (v : list bytes) (k : bytes) | UOrder (v : bytes) (rv : bool) | UInterval (z : Z) | UNop
| ULimit (z : Z) | UOutfile (o : option (bytes * bool)) | ULogformat (v : bytes).

Definition apply_upd (u : upd) (q : query) : query :=
  match u with
  | USelect v => set_select q v | UTable v => set_table q v | UWhere v => set_where q v | USet v => set_set q v
  | UGroup v k => set_group q v k | UOrder v rv => set_order q v rv | UInterval z => set_interval q z | UNop => q
  | ULimit z => set_limit q z | UOutfile o => set_outfile q o | ULogformat v => set_logformat q v
  end.

Definition slot (u : upd) : nat :=
  match u with
  | USelect _ => 0 | UTable _ => 1 | UWhere _ => 2 | USet _ => 3 | UGroup _ _ => 4 | UOrder _ _ => 5
  | UInterval _ | UNop => 6 | ULimit _ => 7 | UOutfile _ => 8 | ULogformat _ => 9
  end.

Lemma apply_comm u1 u2 q : slot u1 <> slot u2 -> apply_upd u1 (apply_upd u2 q) = apply_upd u2 (apply_upd u1 q).
Proof. destruct u1, u2; cbn [slot]; intros H; try contradiction; try reflexivity; destruct q; reflexivity. Qed.

Section Order.
  Variable is_float : bytes -> bool.
  Variable atoi : bytes -> option Z.
  Notation clause := (clause is_float atoi).
  Notation parse_tokens := (parse_tokens is_float atoi).

  (* the clause builders with the update made explicit *)
  Definition eff (kw : bytes) (r : list tok) : res (list tok * upd) :=
    if bytes_eqb kw (B"select") then
      let '(rest, found) := consume r in rbind (make_select found) (fun v => ROk (rest, USelect v))
    else if bytes_eqb kw (B"from") then
      let '(rest, found) := consume r in
      match found with [t] => ROk (rest, UTable (upper (t_str t))) | _ => RErr end
    else if bytes_eqb kw (B"where") then
      let '(rest, found) := consume r in rbind (make_where is_float (S (length found)) found) (fun v => ROk (rest, UWhere v))
    else if bytes_eqb kw (B"set") then
      let '(rest, found) := consume r in rbind (make_set is_float (S (length found)) found) (fun v => ROk (rest, USet v))
    else if bytes_eqb kw (B"group") then
      match consume_optional r (B"by") with
      | [] => RErr
      | r' => let '(rest, found) := consume r' in
              let strs := map t_str found in ROk (rest, UGroup strs (join_with x2c strs))
      end
    else if bytes_eqb kw (B"rorder") || bytes_eqb kw (B"order") then
      match consume_optional r (B"by") with
      | [] => RErr
      | r' => let '(rest, found) := consume r' in
              match found with
              | [] => RErr
              | t :: _ => ROk (rest, UOrder (t_str t) (bytes_eqb kw (B"rorder")))
              end
      end
    else if bytes_eqb kw (B"interval") then
      let '(rest, found) := consume r in
      match found with
      | [] => ROk (rest, UNop)
      | t :: _ => match atoi (t_str t) with Some z => ROk (rest, UInterval z) | None => RErr end
      end
    else if bytes_eqb kw (B"limit") then
      let '(rest, found) := consume r in
      match found with
      | [] => RErr
      | t :: _ => match atoi (t_str t) with Some z => ROk (rest, ULimit z) | None => RErr end
      end
    else if bytes_eqb kw (B"outfile") then
      let '(rest, found) := consume r in
      match found with
      | [t] => ROk (rest, UOutfile (Some (t_str t, false)))
      | [a; t] => if bytes_eqb (t_str a) (B"append") then ROk (rest, UOutfile (Some (t_str t, true))) else RErr
      | _ => RErr
      end
    else if bytes_eqb kw (B"logformat") then
      let '(rest, found) := consume r in
      match found with [] => RErr | t :: _ => ROk (rest, ULogformat (t_str t)) end
    else RErr.

  Lemma clause_eff q kw r :
    clause q kw r = rbind (eff kw r) (fun '(rest, u) => ROk (rest, apply_upd u q)).
  Proof.
    unfold C11_Query.clause, eff.
    repeat match goal with
    | |- (if ?b then _ else _) = rbind (if ?b then _ else _) _ => destruct b
    end; try reflexivity.
    - destruct (consume r) as [rest found]. destruct (make_select found); reflexivity.
    - destruct (consume r) as [rest found]. destruct found as [|t [|t' l]]; reflexivity.
    - destruct (consume r) as [rest found]. destruct (make_where _ _ _); reflexivity.
    - destruct (consume r) as [rest found]. destruct (make_set _ _ _); reflexivity.
    - destruct (consume_optional r (B"by")) as [|t r']; [reflexivity|]. destruct (consume (t :: r')); reflexivity.
    - destruct (consume_optional r (B"by")) as [|t r']; [reflexivity|]. destruct (consume (t :: r')) as [rest found].
      destruct found; reflexivity.
    - destruct (consume r) as [rest found]. destruct found as [|t l]; [reflexivity|]. destruct (atoi _); reflexivity.
    - destruct (consume r) as [rest found]. destruct found as [|t l]; [reflexivity|]. destruct (atoi _); reflexivity.
    - destruct (consume r) as [rest found]. destruct found as [|t [|t' [|t'' l]]]; try reflexivity. destruct (bytes_eqb _ _); reflexivity.
    - destruct (consume r) as [rest found]. destruct found; reflexivity.
  Qed.

  Lemma eff_np kw r : eff kw r <> RPanic.
  Proof.
    intros H. pose proof (clause_np is_float atoi q0 kw r) as Hc. rewrite clause_eff, H in Hc. now apply Hc.
  Qed.

  (* ---- consuming a clause body that is followed by the next clause ---- *)
  Definition next_ok (next : list tok) : Prop := next = [] \/ exists t r, next = t :: r /\ is_keyword t = true.
  Definition body_ok (body : list tok) : Prop := Forall (fun t => is_keyword t = false) body.

  Lemma consume_app : forall body next, body_ok body -> next_ok next ->
    consume (body ++ next) = (next, snd (consume body)) /\ fst (consume body) = [].
  Proof.
    induction body as [|t body IH]; intros next Hb Hn.
    - cbn [app consume]. destruct Hn as [->|(t & r & -> & Hk)]; [split; reflexivity|].
      cbn [consume]. rewrite Hk. split; reflexivity.
    - inversion Hb as [|? ? Ht Hb']; subst. cbn [app consume]. rewrite Ht.
      destruct (IH next Hb' Hn) as [E1 E2]. rewrite E1.
      destruct (consume body) as [rest0 cs0]. cbn [fst snd] in *. subst rest0.
      destruct (t_str t); [split; reflexivity|]. destruct (is_bquoted _); split; reflexivity.
  Qed.

  Lemma consume_optional_app body next o : body <> [] -> consume_optional (body ++ next) o = consume_optional body o ++ next.
  Proof. destruct body as [|t b]; [contradiction|]. intros _. cbn. destruct (bytes_eqb _ _); reflexivity. Qed.

  Lemma body_ok_opt body o : body_ok body -> body_ok (consume_optional body o).
  Proof. destruct body as [|t b]; [auto|]. intros H. cbn. destruct (bytes_eqb _ _); [inversion H; assumption|exact H]. Qed.

  Definition by_kw (kw : bytes) : bool := bytes_eqb kw (B"group") || bytes_eqb kw (B"rorder") || bytes_eqb kw (B"order").

  Definition lift (next : list tok) (r : res (list tok * upd)) : res (list tok * upd) :=
    match r with ROk (_, u) => ROk (next, u) | RErr => RErr | RPanic => RPanic end.

  Lemma eff_app kw body next : body_ok body -> next_ok next -> body <> [] ->
    (by_kw kw = true -> consume_optional body (B"by") <> []) ->
    eff kw (body ++ next) = lift next (eff kw body).
  Proof.
    intros Hb Hn Hne Hby. unfold eff, by_kw in *.
    destruct (consume_app body next Hb Hn) as [E1 E2]. destruct (consume_app body [] Hb (or_introl eq_refl)) as [E3 _].
    rewrite app_nil_r in E3.
    repeat match goal with
    | |- (if ?b then _ else _) = lift _ (if ?b then _ else _) => destruct b eqn:?
    end; try reflexivity;
    try (rewrite E1, E3; destruct (consume body) as [r0 found]; cbn [fst snd] in *; subst r0).
    - destruct (make_select found); reflexivity.
    - destruct found as [|t [|t' l]]; reflexivity.
    - destruct (make_where _ _ _); reflexivity.
    - destruct (make_set _ _ _); reflexivity.
    - rewrite consume_optional_app by exact Hne. specialize (Hby ltac:(rewrite ?orb_true_r; reflexivity)).
      pose proof (body_ok_opt body (B"by") Hb) as Hb2.
      destruct (consume_optional body (B"by")) as [|t b'] eqn:Eo; [contradiction|].
      destruct (consume_app (t :: b') next Hb2 Hn) as [F1 F2]. destruct (consume_app (t :: b') [] Hb2 (or_introl eq_refl)) as [F3 _].
      rewrite app_nil_r in F3. cbn [app] in F1 |- *. rewrite F1, F3.
      destruct (consume (t :: b')) as [r0 found]. reflexivity.
    - rewrite consume_optional_app by exact Hne.
      assert (Hby' : consume_optional body (B"by") <> []).
      { apply Hby. match goal with H : (_ || _) = true |- _ => apply orb_prop in H; destruct H as [H|H]; rewrite H end; rewrite ?orb_true_r; reflexivity. }
      pose proof (body_ok_opt body (B"by") Hb) as Hb2.
      destruct (consume_optional body (B"by")) as [|t b'] eqn:Eo; [contradiction|].
      destruct (consume_app (t :: b') next Hb2 Hn) as [F1 F2]. destruct (consume_app (t :: b') [] Hb2 (or_introl eq_refl)) as [F3 _].
      rewrite app_nil_r in F3. cbn [app] in F1 |- *. rewrite F1, F3.
      destruct (consume (t :: b')) as [r0 found]. destruct found; reflexivity.
    - destruct found as [|t l]; [reflexivity|]. destruct (atoi _); reflexivity.
    - destruct found as [|t l]; [reflexivity|]. destruct (atoi _); reflexivity.
    - destruct found as [|t [|t' [|t'' l]]]; try reflexivity. destruct (bytes_eqb (t_str t) _); reflexivity.
    - destruct found; reflexivity.
  Qed.
End Order.

Section Run.
  Variable is_float : bytes -> bool.
  Variable atoi : bytes -> option Z.
  Notation parse_tokens := (parse_tokens is_float atoi).
  Notation eff := (eff is_float atoi).

  (* a clause: its keyword token and its body *)
  Definition cl := (tok * list tok)%type.
  Definition ckw (c : cl) : bytes := lower (t_str (fst c)).
  Definition wf_clause (c : cl) : Prop :=
    is_keyword (fst c) = true /\ snd c <> [] /\ body_ok (snd c) /\
    (by_kw (ckw c) = true -> consume_optional (snd c) (B"by") <> []).
  Definition toks (cs : list cl) : list tok := flat_map (fun c => fst c :: snd c) cs.

  (* the clauses one after the other *)
  Fixpoint run (q : query) (cs : list cl) : res query :=
    match cs with
    | [] => ROk q
    | c :: r => match eff (ckw c) (snd c) with
                | ROk (_, u) => run (apply_upd u q) r
                | RErr => RErr
                | RPanic => RPanic
                end
    end.

  Lemma toks_next_ok cs : Forall wf_clause cs -> next_ok (toks cs).
  Proof.
    destruct cs as [|c r]; intros H; [now left|]. right. inversion H as [|? ? (Hk & _) _]; subst.
    exists (fst c), (snd c ++ toks r). split; [reflexivity|exact Hk].
  Qed.

  Lemma parse_run : forall cs fuel q, Forall wf_clause cs -> length (toks cs) < fuel ->
    parse_tokens fuel q (toks cs) = run q cs.
  Proof.
    induction cs as [|c r IH]; intros fuel q Hw Hf.
    - destruct fuel; [cbn in Hf; lia|reflexivity].
    - inversion Hw as [|? ? (Hk & Hne & Hb & Hby) Hr]; subst.
      destruct fuel as [|f]; [lia|]. cbn [toks flat_map app]. cbn [C11_Query.parse_tokens].
      fold (toks r). rewrite clause_eff. fold (ckw c).
      rewrite (eff_app is_float atoi (ckw c) (snd c) (toks r) Hb (toks_next_ok r Hr) Hne Hby).
      cbn [run]. destruct (eff (ckw c) (snd c)) as [[rest u]| |]; cbn [lift rbind]; [|reflexivity|reflexivity].
      apply IH; [exact Hr|].
      assert (L : length (toks (c :: r)) = S (length (snd c) + length (toks r))) by (unfold toks; cbn [flat_map]; cbn [app length]; rewrite app_length; reflexivity).
      rewrite L in Hf. lia.
  Qed.

  (* the update of each clause, when every clause is well-formed on its own *)
  Definition upd_of (c : cl) : option upd := match eff (ckw c) (snd c) with ROk (_, u) => Some u | _ => None end.
  Definition all_ok (cs : list cl) : Prop := forall c, In c cs -> upd_of c <> None.

  Fixpoint apply_all (q : query) (us : list upd) : query :=
    match us with [] => q | u :: r => apply_all (apply_upd u q) r end.

  Fixpoint upds (cs : list cl) : list upd :=
    match cs with [] => [] | c :: r => match upd_of c with Some u => u :: upds r | None => upds r end end.

  Lemma run_ok : forall cs q, all_ok cs -> run q cs = ROk (apply_all q (upds cs)).
  Proof.
    induction cs as [|c r IH]; intros q H; [reflexivity|]. cbn [run upds].
    assert (Hc : upd_of c <> None) by (apply H; now left). unfold upd_of in *.
    destruct (eff (ckw c) (snd c)) as [[rest u]| |]; try contradiction. cbn [apply_all]. apply IH.
    intros d Hd. apply H. now right.
  Qed.

  Lemma run_err : forall cs q, ~ all_ok cs -> run q cs = RErr.
  Proof.
    induction cs as [|c r IH]; intros q H; [exfalso; apply H; intros c []|]. cbn [run].
    pose proof (eff_np is_float atoi (ckw c) (snd c)) as Hnp.
    destruct (eff (ckw c) (snd c)) as [[rest u]| |] eqn:E; [|reflexivity|contradiction].
    apply IH. intros Hr. apply H. intros d [<-|Hd]; [unfold upd_of; now rewrite E|now apply Hr].
  Qed.

  Lemma apply_all_perm : forall us us', Permutation us us' -> NoDup (map slot us) ->
    forall q, apply_all q us = apply_all q us'.
  Proof.
    intros us us' P. induction P as [|x l l' P IH|x y l|l l' l'' P1 IH1 P2 IH2]; intros Hn q.
    - reflexivity.
    - cbn. apply IH. now inversion Hn.
    - cbn. rewrite apply_comm; [reflexivity|]. inversion Hn as [|? ? Hx _]; subst. cbn in Hx. intros E. apply Hx. left. now symmetry.
    - rewrite IH1 by exact Hn. apply IH2. eapply Permutation_NoDup; [apply Permutation_map; exact P1|exact Hn].
  Qed.

  Lemma upds_perm cs cs' : Permutation cs cs' -> Permutation (upds cs) (upds cs').
  Proof.
    intros P. induction P as [|x l l' P IH|x y l|l l' l'' P1 IH1 P2 IH2]; cbn [upds].
    - constructor.
    - destruct (upd_of x); [now constructor|exact IH].
    - destruct (upd_of x), (upd_of y); try apply Permutation_refl. constructor.
    - eapply Permutation_trans; eauto.
  Qed.

  Theorem clause_order cs cs' q f f' :
    Forall wf_clause cs -> Permutation cs cs' -> NoDup (map slot (upds cs)) ->
    length (toks cs) < f -> length (toks cs') < f' ->
    parse_tokens f q (toks cs) = parse_tokens f' q (toks cs').
  Proof.
    intros Hw P Hn Hf Hf'.
    assert (Hw' : Forall wf_clause cs') by (eapply Permutation_Forall; eauto).
    rewrite !parse_run by assumption.
    assert (Dec : all_ok cs \/ ~ all_ok cs).
    { clear. induction cs as [|c r [IH|IH]].
      - left. intros c [].
      - destruct (upd_of c) eqn:E.
        + left. intros d [<-|Hd]; [congruence|now apply IH].
        + right. intros H. apply (H c); [now left|exact E].
      - right. intros H. apply IH. intros d Hd. apply H. now right. }
    destruct Dec as [Hok|Hno].
    - assert (Hok' : all_ok cs') by (intros c Hc; apply Hok; eapply Permutation_in; [apply Permutation_sym; exact P|exact Hc]).
      rewrite !run_ok by assumption. f_equal. apply apply_all_perm; [now apply upds_perm|exact Hn].
    - assert (Hno' : ~ all_ok cs') by (intros H; apply Hno; intros c Hc; apply H; eapply Permutation_in; eauto).
      now rewrite !run_err.
  Qed.
End Run.

(* decidable well-formedness, for examples *)
Definition nonnil {A} (l : list A) : bool := match l with [] => false | _ => true end.
Definition wf_clause_b (c : cl) : bool :=
  is_keyword (fst c) && nonnil (snd c) && forallb (fun t => negb (is_keyword t)) (snd c)
  && (negb (by_kw (ckw c)) || nonnil (consume_optional (snd c) (B"by"))).
Lemma wf_clause_b_ok c : wf_clause_b c = true -> wf_clause c.
Proof.
  unfold wf_clause_b, wf_clause. intros H. apply andb_prop in H. destruct H as [H H4]. apply andb_prop in H. destruct H as [H H3].
  apply andb_prop in H. destruct H as [H1 H2]. split; [exact H1|]. split; [intros E; rewrite E in H2; discriminate H2|]. split.
  - apply Forall_forall. intros t Ht. rewrite forallb_forall in H3. apply H3 in Ht. now apply negb_true_iff in Ht.
  - intros Hb E. rewrite Hb, E in H4. cbn in H4. discriminate H4.
Qed.
