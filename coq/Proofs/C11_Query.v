From DT Require Import Lib.Bytes Lib.Split Gen.Consts Model.C11_Query.

Section Total.
  Variable is_float : bytes -> bool.
  Variable atoi : bytes -> option Z.

  Definition ok_or_err {A} (r : res A) : Prop := r <> RPanic.

  Lemma rbind_np {A B} (r : res A) (f : A -> res B) :
    r <> RPanic -> (forall a, r = ROk a -> f a <> RPanic) -> rbind r f <> RPanic.
  Proof. destruct r; simpl; intros H1 H2; [now apply H2|discriminate|congruence]. Qed.

  Lemma make_select1_np t : make_select1 t <> RPanic.
  Proof.
    unfold make_select1. destruct (_ || _); [discriminate|].
    destruct (split lparen (t_str t)) as [|a [|b [|c l]]]; try discriminate.
    destruct (split rparen b) as [|x [|y [|z l']]]; try discriminate.
    destruct (agg_of a); discriminate.
  Qed.

  Lemma make_select_np ts : make_select ts <> RPanic.
  Proof.
    induction ts as [|t r IH]; simpl; [discriminate|].
    apply rbind_np; [apply make_select1_np|]. intros s _. apply rbind_np; [exact IH|]. discriminate.
  Qed.

  Lemma consume_optional_len ts o : length (consume_optional ts o) <= length ts.
  Proof. destruct ts as [|t r]; simpl; [lia|]. destruct (bytes_eqb _ _); simpl; lia. Qed.

  Lemma make_where1_np t0 t1 t2 : make_where1 is_float t0 t1 t2 <> RPanic.
  Proof.
    unfold make_where1. destruct (whereop_of _); [|discriminate].
    destruct (is_float_op w); [|discriminate].
    destruct (negb (t_bare t0)); [discriminate|]. destruct (negb (t_bare t2)); discriminate.
  Qed.

  Lemma make_where_np : forall fuel ts, length ts < fuel -> make_where is_float fuel ts <> RPanic.
  Proof.
    induction fuel as [|f IH]; intros ts H; [lia|]. cbn [make_where].
    destruct ts as [|t0 [|t1 [|t2 r]]]; try discriminate.
    apply rbind_np; [apply make_where1_np|]. intros w _. apply rbind_np; [|discriminate].
    apply IH. pose proof (consume_optional_len r (B"and")). simpl in H. lia.
  Qed.

  (* the slice aux[idx+1 : len-1] in NewFunctionStack is always in range *)
  Lemma index_of_lt c : forall s i n, index_of c s i = Some n -> i <= n < i + length s /\ nth_error s (n - i) = Some c.
  Proof.
    induction s as [|d r IH]; intros i n H; simpl in H; [discriminate|].
    destruct (beqb_spec d c) as [->|Hne].
    - inversion H; subst. simpl. rewrite Nat.sub_diag. simpl. split; [lia|reflexivity].
    - destruct (IH _ _ H) as [Hr Hn]. split; [simpl; lia|].
      replace (n - i) with (S (n - S i)) by lia. simpl. exact Hn.
  Qed.

  Lemma last_byte_nth s c : last_byte s = Some c -> nth_error s (length s - 1) = Some c /\ 0 < length s.
  Proof.
    unfold last_byte. rewrite rev'_rev. destruct (rev s) as [|d r] eqn:E; [discriminate|].
    intros H; inversion H; subst.
    assert (Hs : s = rev r ++ [c]) by (rewrite <- (rev_involutive s), E; reflexivity).
    rewrite Hs, app_length. simpl. split; [|lia].
    rewrite nth_error_app2 by lia. replace (length (rev r) + 1 - 1 - length (rev r)) with 0 by lia. reflexivity.
  Qed.

  Lemma func_stack_np : forall fuel aux, length aux < fuel -> func_stack fuel aux <> RPanic.
  Proof.
    induction fuel as [|f IH]; intros aux H; [lia|]. cbn [func_stack].
    destruct (last_byte aux) as [c|] eqn:El; [|discriminate].
    destruct (beqb_spec c rparen) as [->|Hne]; [|discriminate].
    destruct (index_of lparen aux 0) as [[|idx]|] eqn:Ei; try discriminate.
    destruct (known_func _); [|discriminate].
    destruct (index_of_lt _ _ _ _ Ei) as [Hr Hn]. destruct (last_byte_nth _ _ El) as [Hl Hpos].
    rewrite Nat.sub_0_r in Hn.
    assert (Hidx : S idx <> length aux - 1).
    { intros Heq. rewrite Heq in Hn. rewrite Hn in Hl. inversion Hl. }
    destruct (Nat.leb_spec (S (S idx)) (length aux - 1)) as [Hle|Hgt]; [|lia].
    apply rbind_np; [|intros [ns arg] _; discriminate].
    apply IH. rewrite removelast_firstn_len, firstn_length, skipn_length. lia.
  Qed.

  Lemma make_set1_np t0 t1 t2 : make_set1 is_float t0 t1 t2 <> RPanic.
  Proof.
    unfold make_set1. destruct (negb _); [discriminate|]. destruct (negb _); [discriminate|].
    destruct (negb _); [discriminate|]. destruct (t_stripped t2); [discriminate|].
    destruct (match last_byte _ with Some c => _ | None => _ end); [|discriminate].
    apply rbind_np; [apply func_stack_np; lia|]. intros [ns arg] _. discriminate.
  Qed.

  Lemma make_set_np : forall fuel ts, length ts < fuel -> make_set is_float fuel ts <> RPanic.
  Proof.
    induction fuel as [|f IH]; intros ts H; [lia|]. cbn [make_set].
    destruct ts as [|t0 [|t1 [|t2 r]]]; try discriminate.
    apply rbind_np; [apply make_set1_np|]. intros w _. apply rbind_np; [|discriminate].
    apply IH. pose proof (consume_optional_len r (B",")). simpl in H. lia.
  Qed.

  Lemma consume_len : forall ts, length (fst (consume ts)) <= length ts.
  Proof.
    induction ts as [|t r IH]; simpl; [lia|].
    destruct (is_keyword t); [simpl; lia|].
    destruct (consume r) as [rest cs]. simpl in IH.
    destruct (t_str t); [simpl; lia|]. destruct (is_bquoted _); simpl; lia.
  Qed.

  Lemma clause_np q kw r : clause is_float atoi q kw r <> RPanic.
  Proof.
    unfold clause.
    repeat match goal with
    | |- (if ?b then _ else _) <> RPanic => destruct b
    | |- (let '(rest, found) := consume ?r in _) <> RPanic => destruct (consume r) as [rest found]
    end; try discriminate.
    - apply rbind_np; [apply make_select_np|discriminate].
    - destruct found as [|t [|t' l]]; discriminate.
    - apply rbind_np; [apply make_where_np; lia|discriminate].
    - apply rbind_np; [apply make_set_np; lia|discriminate].
    - destruct (consume_optional r (B"by")) as [|t r']; [discriminate|]. destruct (consume (t :: r')); discriminate.
    - destruct (consume_optional r (B"by")) as [|t r']; [discriminate|]. destruct (consume (t :: r')) as [rest found].
      destruct found; discriminate.
    - destruct found as [|t l]; [discriminate|]. destruct (atoi _); discriminate.
    - destruct found as [|t l]; [discriminate|]. destruct (atoi _); discriminate.
    - destruct found as [|t [|t' [|t'' l]]]; try discriminate. destruct (bytes_eqb _ _); discriminate.
    - destruct found; discriminate.
  Qed.

  Lemma clause_rest_len q kw r rest q' : clause is_float atoi q kw r = ROk (rest, q') -> length rest <= length r.
  Proof.
    unfold clause. intros H.
    repeat match type of H with
    | (if ?b then _ else _) = _ => destruct b
    end;
    try (destruct (consume r) as [rs found] eqn:Ec; pose proof (consume_len r) as Hl; rewrite Ec in Hl; simpl in Hl).
    - destruct (make_select found); simpl in H; inversion H; subst; lia.
    - destruct found as [|t [|t' l]]; inversion H; subst; lia.
    - destruct (make_where _ _ _); simpl in H; inversion H; subst; lia.
    - destruct (make_set _ _ _); simpl in H; inversion H; subst; lia.
    - pose proof (consume_optional_len r (B"by")) as Ho.
      destruct (consume_optional r (B"by")) as [|t r'] eqn:Eo; [discriminate|].
      destruct (consume (t :: r')) as [rs2 found2] eqn:Ec2. pose proof (consume_len (t :: r')) as Hl2. rewrite Ec2 in Hl2.
      inversion H; subst. simpl in *. lia.
    - pose proof (consume_optional_len r (B"by")) as Ho.
      destruct (consume_optional r (B"by")) as [|t r'] eqn:Eo; [discriminate|].
      destruct (consume (t :: r')) as [rs2 found2] eqn:Ec2. pose proof (consume_len (t :: r')) as Hl2. rewrite Ec2 in Hl2.
      destruct found2; inversion H; subst. simpl in *. lia.
    - destruct found as [|t l]; [inversion H; subst; lia|]. destruct (atoi _); inversion H; subst; lia.
    - destruct found as [|t l]; [discriminate|]. destruct (atoi _); inversion H; subst; lia.
    - destruct found as [|t [|t' [|t'' l]]]; try discriminate; [inversion H; subst; lia|].
      destruct (bytes_eqb _ _); inversion H; subst; lia.
    - destruct found; inversion H; subst; lia.
    - discriminate.
  Qed.

  Lemma parse_tokens_np : forall fuel q ts, length ts < fuel -> parse_tokens is_float atoi fuel q ts <> RPanic.
  Proof.
    induction fuel as [|f IH]; intros q ts H; [lia|]. cbn [parse_tokens].
    destruct ts as [|t r]; [discriminate|].
    apply rbind_np; [apply clause_np|]. intros [rest q'] Hc. apply IH.
    pose proof (clause_rest_len _ _ _ _ _ Hc). simpl in H. lia.
  Qed.

  Lemma finish_np q : finish q <> RPanic.
  Proof.
    unfold finish. destruct (q_select q); [discriminate|].
    destruct (q_orderby _); [discriminate|]. destruct (existsb _ _); discriminate.
  Qed.

  Theorem new_query_total s : new_query is_float atoi s <> Some RPanic.
  Proof.
    unfold new_query. destruct s as [|c s]; [discriminate|].
    intros H. injection H as H1.
    assert (Hnp : rbind (parse_tokens is_float atoi (S (length (tokenize (c :: s)))) q0 (tokenize (c :: s))) finish <> RPanic).
    { apply rbind_np; [apply parse_tokens_np; lia|]. intros q _. apply finish_np. }
    exact (Hnp H1).
  Qed.
End Total.

(* keyword detection does not depend on letter case (ASCII) *)
Lemma lower_upper_byte c : lower_byte (upper_byte c) = lower_byte c.
Proof. destruct c; reflexivity. Qed.
Lemma lower_lower_byte c : lower_byte (lower_byte c) = lower_byte c.
Proof. destruct c; reflexivity. Qed.
Lemma lower_upper s : lower (upper s) = lower s.
Proof. unfold lower, upper. rewrite map_map. apply map_ext. apply lower_upper_byte. Qed.
Lemma lower_idem s : lower (lower s) = lower s.
Proof. unfold lower. rewrite map_map. apply map_ext. apply lower_lower_byte. Qed.

(* any per-letter case variant: s' with lower s' = lower s is recognised exactly like s *)
Lemma is_keyword_case s s' : lower s = lower s' -> is_keyword (bare_tok s) = is_keyword (bare_tok s').
Proof. unfold is_keyword. simpl. now intros ->. Qed.
