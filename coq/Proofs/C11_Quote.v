(* C11 — quoting variants and function calls: what a double-quoted string, a back-quoted name and a
   function stack on the right-hand side of `set` denote. *)
From DT Require Import Lib.Bytes Lib.Split Gen.Consts Model.C11_Query Proofs.C11_Query Proofs.C11_Order Proofs.C11_Denote.

(* ---- double quotes: a quoted string is one token, byte for byte, and never a keyword ---- *)
Lemma tokenize_parts_app : forall a b even, Nat.even (length a) = true ->
  tokenize_parts even (a ++ b) = tokenize_parts even a ++ tokenize_parts even b.
Proof.
  fix IH 1. intros [|x [|y a]] b even H; [reflexivity|discriminate|].
  cbn [app tokenize_parts]. rewrite negb_involutive. rewrite (IH a b even) by exact H. now rewrite !app_assoc.
Qed.

Theorem tokenize_quoted pre s post : ~ In dquote pre -> ~ In dquote s ->
  tokenize (pre ++ dquote :: s ++ dquote :: post) = map bare_tok (fields pre) ++ quoted_tok s :: tokenize post.
Proof.
  intros Hp Hs. unfold tokenize. rewrite split_app_sep by exact Hp. rewrite split_app_sep by exact Hs.
  cbn [tokenize_parts negb app]. reflexivity.
Qed.

Lemma quoted_not_keyword s : is_keyword (quoted_tok s) = false.
Proof. reflexivity. Qed.

(* ---- tokensConsume on a keyword-free body: back-quoted words are unwrapped ---- *)
Definition unquote (t : tok) : tok :=
  match t_str t with
  | [] => t
  | _ => if is_bquoted (t_str t) then {| t_str := strip1 (t_str t); t_bare := t_bare t; t_stripped := true |} else t
  end.
Lemma consume_nokw : forall body, Forall (fun t => is_keyword t = false) body -> consume body = ([], map unquote body).
Proof.
  induction body as [|t b IH]; intros H; [reflexivity|]. inversion H as [|? ? Hk Hb]; subst.
  cbn [consume map]. rewrite Hk, (IH Hb). unfold unquote. destruct (t_str t); [reflexivity|]. destruct (is_bquoted _); reflexivity.
Qed.

Lemma last_byte_snoc s c : last_byte (s ++ [c]) = Some c.
Proof. unfold last_byte. rewrite rev'_rev, rev_app_distr. reflexivity. Qed.

Definition bq (fld : bytes) : bytes := bquote :: fld ++ [bquote].
Lemma is_bquoted_bq fld : is_bquoted (bq fld) = true.
Proof.
  unfold is_bquoted, bq. change (bquote :: fld ++ [bquote]) with ((bquote :: fld) ++ [bquote]). rewrite last_byte_snoc.
  cbn [app length]. rewrite app_length. cbn [length]. replace (2 <=? S (length fld + 1)) with true by (symmetry; apply Nat.leb_le; lia).
  now rewrite !beqb_refl.
Qed.
Lemma strip1_bq fld : strip1 (bq fld) = fld.
Proof. unfold strip1, bq. cbn [tl]. apply removelast_last. Qed.

Lemma keywords_no_bquote : Forall (fun kw => match kw with c :: _ => c <> bquote | [] => True end) c_query_keywords.
Proof. repeat constructor; discriminate. Qed.
Lemma bq_not_keyword fld : is_keyword (bare_tok (bq fld)) = false.
Proof.
  unfold is_keyword. cbn [t_bare t_str bare_tok andb]. pose proof keywords_no_bquote as H.
  induction H as [|kw l Hk _ IH]; [reflexivity|]. cbn [existsb]. rewrite IH, orb_false_r.
  unfold bq, lower. cbn [map]. change (lower_byte bquote) with bquote. destruct kw as [|c r]; [reflexivity|].
  unfold bytes_eqb. cbn [list_eqb]. destruct (beqb_spec bquote c) as [E|]; [congruence|reflexivity].
Qed.
Lemma unquote_bq fld : unquote (bare_tok (bq fld)) = {| t_str := fld; t_bare := true; t_stripped := true |}.
Proof. unfold unquote. cbn [t_str bare_tok t_bare]. unfold bq at 1. cbn iota. now rewrite is_bquoted_bq, strip1_bq. Qed.
Lemma unquote_simple t : simple t -> unquote t = t.
Proof. intros (_ & Hn & Hq). unfold unquote. destruct (t_str t); [reflexivity|]. now rewrite Hq. Qed.

Section Quote.
  Variable is_float : bytes -> bool.
  Variable atoi : bytes -> option Z.
  Notation eff := (eff is_float atoi).

  (* ---- select lists with back-quoted names: `avg(x)` is the FIELD called avg(x) ---- *)
  Inductive qitem := QPlain (i : sitem) | QBack (fld : bytes).
  Definition qitem_tok (i : qitem) : tok := match i with QPlain i => sitem_tok i | QBack f => bare_tok (bq f) end.
  Definition qitem_ok (i : qitem) : Prop := match i with QPlain i => sitem_ok i /\ simple (sitem_tok i) | QBack _ => True end.
  Definition qitem_den (i : qitem) : selc :=
    match i with QPlain i => sitem_den i | QBack f => {| s_field := f; s_storage := f; s_op := ALast |} end.

  Lemma qitem_nokw items : Forall qitem_ok items -> Forall (fun t => is_keyword t = false) (map qitem_tok items).
  Proof.
    induction 1 as [|i l Hi _ IH]; cbn [map]; constructor; auto.
    destruct i as [i|f]; cbn [qitem_tok]; [apply Hi|apply bq_not_keyword].
  Qed.

  Lemma make_select_qitems : forall items, Forall qitem_ok items ->
    make_select (map unquote (map qitem_tok items)) = ROk (map qitem_den items).
  Proof.
    induction items as [|i r IH]; intros H; [reflexivity|]. inversion H as [|? ? Hi Hr]; subst.
    cbn [map make_select]. destruct i as [i|f]; cbn [qitem_tok qitem_den].
    - destruct Hi as [Hok Hs]. rewrite (unquote_simple _ Hs).
      pose proof (make_select_items [i] (Forall_cons _ Hok (Forall_nil _))) as H1. cbn [map make_select] in H1.
      destruct (make_select1 (sitem_tok i)) as [s| |]; cbn [rbind] in H1; try discriminate. inversion H1; subst.
      cbn [rbind]. now rewrite (IH Hr).
    - rewrite unquote_bq. unfold make_select1. cbn [t_stripped orb rbind t_str]. now rewrite (IH Hr).
  Qed.

  Theorem select_denotes_bq items : Forall qitem_ok items ->
    eff (B"select") (map qitem_tok items) = ROk ([], USelect (map qitem_den items)).
  Proof.
    intros Hi. unfold C11_Order.eff. change (bytes_eqb (B"select") (B"select")) with true. cbn iota.
    rewrite (consume_nokw _ (qitem_nokw items Hi)). now rewrite make_select_qitems.
  Qed.

  (* ---- set: function stacks md5sum(maskdigits($x)) ---- *)
  Fixpoint wrap (names : list bytes) (arg : bytes) : bytes :=
    match names with [] => arg | n :: ns => n ++ lparen :: wrap ns arg ++ [rparen] end.
  Definition fname (n : bytes) : Prop := n = B"md5sum" \/ n = B"maskdigits".

  Lemma index_of_app c : forall a b i, ~ In c a -> index_of c (a ++ c :: b) i = Some (i + length a).
  Proof.
    induction a as [|x a IH]; intros b i H; cbn [app index_of length].
    - rewrite beqb_refl. f_equal. lia.
    - destruct (beqb_spec x c) as [->|Hn]; [exfalso; apply H; now left|]. rewrite IH by (intros Hin; apply H; now right). f_equal. lia.
  Qed.

  Lemma func_stack_step n inner f : fname n ->
    func_stack (S f) (n ++ lparen :: inner ++ [rparen]) = rbind (func_stack f inner) (fun '(ns, arg) => ROk (n :: ns, arg)).
  Proof.
    intros Hk. set (aux := n ++ lparen :: inner ++ [rparen]).
    assert (Hnl : ~ In lparen n) by (destruct Hk as [-> | ->]; cbv; intuition discriminate).
    assert (Hlen : length n <> 0) by (destruct Hk as [-> | ->]; discriminate).
    assert (Hkn : known_func n = true) by (destruct Hk as [-> | ->]; reflexivity).
    assert (E1 : last_byte aux = Some rparen).
    { unfold aux. replace (n ++ lparen :: inner ++ [rparen]) with ((n ++ lparen :: inner) ++ [rparen]) by (rewrite <- app_assoc; reflexivity).
      apply last_byte_snoc. }
    assert (E2 : index_of lparen aux 0 = Some (length n)) by (unfold aux; now rewrite index_of_app).
    assert (E3 : firstn (length n) aux = n).
    { unfold aux. rewrite firstn_app, Nat.sub_diag, firstn_all. cbn [firstn]. apply app_nil_r. }
    assert (E4 : length aux = length n + S (length inner + 1)).
    { unfold aux. rewrite app_length. cbn [length]. rewrite app_length. reflexivity. }
    assert (E5 : removelast (skipn (S (length n)) aux) = inner).
    { unfold aux. replace (n ++ lparen :: inner ++ [rparen]) with ((n ++ [lparen]) ++ (inner ++ [rparen])) by (rewrite <- app_assoc; reflexivity).
      rewrite skipn_app. rewrite skipn_all2 by (rewrite app_length; cbn [length]; lia).
      replace (S (length n) - length (n ++ [lparen])) with 0 by (rewrite app_length; cbn [length]; lia).
      cbn [skipn app]. apply removelast_last. }
    cbn [func_stack]. fold aux. rewrite E1, beqb_refl, E2.
    destruct (length n) as [|k] eqn:El; [congruence|]. rewrite E3, Hkn, E4, E5.
    replace (S (S k) <=? S k + S (length inner + 1) - 1) with true by (symmetry; apply Nat.leb_le; lia).
    reflexivity.
  Qed.

  Lemma func_stack_wrap : forall names arg fuel, Forall fname names -> length names < fuel ->
    match last_byte arg with Some c => beqb c rparen | None => false end = false ->
    func_stack fuel (wrap names arg) = ROk (names, arg).
  Proof.
    induction names as [|n ns IH]; intros arg fuel Hn Hf Ha; (destruct fuel as [|f]; [cbn in Hf; lia|]).
    - cbn [wrap func_stack]. destruct (last_byte arg) as [c|]; [|reflexivity]. now rewrite Ha.
    - inversion Hn as [|? ? Hk Hns]; subst. cbn [wrap]. rewrite func_stack_step by exact Hk.
      rewrite IH; [reflexivity|exact Hns|cbn in Hf; lia|exact Ha].
  Qed.

  Inductive rhs := RPlain (t : tok) | RFuncs (names : list bytes) (arg : bytes).
  Definition rhs_tok (r : rhs) : tok := match r with RPlain t => t | RFuncs ns a => bare_tok (wrap ns a) end.
  Definition fitem := (tok * rhs)%type.
  Definition fitem_ok (e : fitem) : Prop :=
    let '(l, r) := e in
    t_bare l = true /\ bprefix [dollar] (t_str l) = true /\
    match r with
    | RPlain t => t_stripped t = false /\ match last_byte (t_str t) with Some c => beqb c rparen | None => false end = false
    | RFuncs ns a => ns <> [] /\ Forall fname ns /\ match last_byte a with Some c => beqb c rparen | None => false end = false
    end.
  Definition fitem_den (e : fitem) : setc :=
    let '(l, r) := e in
    match r with
    | RPlain t => {| e_lstr := t_str l; e_rtype := if is_float (t_str t) then TFloat else TField; e_rstr := t_str t; e_funcs := [] |}
    | RFuncs ns a => {| e_lstr := t_str l; e_rtype := TFuncs; e_rstr := a; e_funcs := ns |}
    end.
  Fixpoint ftoks (es : list fitem) : list tok :=
    match es with [] => [] | (l, r) :: rest => l :: bare_tok (B"=") :: rhs_tok r :: ftoks rest end.

  Lemma wrap_last ns a : ns <> [] -> last_byte (wrap ns a) = Some rparen.
  Proof.
    destruct ns as [|n ns]; [congruence|]. intros _. cbn [wrap].
    change (n ++ lparen :: wrap ns a ++ [rparen]) with (n ++ (lparen :: wrap ns a) ++ [rparen]). rewrite app_assoc. apply last_byte_snoc.
  Qed.
  Lemma wrap_length ns a : length ns <= length (wrap ns a).
  Proof. induction ns as [|n ns IH]; cbn [wrap length]; [lia|]. rewrite app_length. cbn [length]. rewrite app_length. cbn [length]. lia. Qed.

  Lemma make_set1_fden l r : fitem_ok (l, r) -> make_set1 is_float l (bare_tok (B"=")) (rhs_tok r) = ROk (fitem_den (l, r)).
  Proof.
    intros (Hb & Hp & Hr). destruct r as [t|ns a]; cbn [rhs_tok fitem_den].
    - apply (make_set1_den is_float l t). destruct Hr. repeat split; auto.
    - destruct Hr as (Hne & Hfn & Ha). unfold make_set1. cbn [t_str bare_tok t_stripped].
      change (bytes_eqb (B"=") (B"=")) with true. cbn [negb]. rewrite Hb, Hp. cbn [negb].
      rewrite (wrap_last ns a Hne), beqb_refl.
      rewrite func_stack_wrap; [reflexivity|exact Hfn|pose proof (wrap_length ns a); lia|exact Ha].
  Qed.

  Lemma make_set_fitems : forall es fuel, Forall fitem_ok es -> length (ftoks es) < fuel ->
    (forall l r, In (l, r) es -> bytes_eqb (lower (t_str l)) (lower (B",")) = false) ->
    make_set is_float fuel (ftoks es) = ROk (map fitem_den es).
  Proof.
    induction es as [|[l r] rest IH]; intros fuel Hok Hf Hnc.
    - destruct fuel; [cbn in Hf; lia|reflexivity].
    - inversion Hok as [|? ? He Hr]; subst. destruct fuel as [|f]; [lia|].
      cbn [ftoks make_set]. rewrite make_set1_fden by exact He. cbn [rbind].
      assert (Eo : consume_optional (ftoks rest) (B",") = ftoks rest).
      { destruct rest as [|[l2 r2] rest']; [reflexivity|]. cbn [ftoks consume_optional]. rewrite (Hnc l2 r2) by (right; now left). reflexivity. }
      rewrite Eo, IH; [reflexivity|exact Hr| |].
      + cbn [ftoks length] in Hf. lia.
      + intros a b Hin. apply (Hnc a b). now right.
  Qed.

  Theorem set_denotes_funcs es : es <> [] -> Forall fitem_ok es -> Forall simple (ftoks es) ->
    (forall l r, In (l, r) es -> bytes_eqb (lower (t_str l)) (lower (B",")) = false) ->
    eff (B"set") (ftoks es) = ROk ([], USet (map fitem_den es)).
  Proof.
    intros Hne Hok Hs Hnc. unfold C11_Order.eff.
    change (bytes_eqb (B"set") (B"select")) with false. change (bytes_eqb (B"set") (B"from")) with false.
    change (bytes_eqb (B"set") (B"where")) with false. change (bytes_eqb (B"set") (B"set")) with true. cbn iota.
    rewrite (consume_simple _ Hs). rewrite make_set_fitems; [reflexivity|exact Hok|lia|exact Hnc].
  Qed.
End Quote.
