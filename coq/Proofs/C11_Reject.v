(* C11 — malformed queries are rejected with an error (never misread, never a panic): the malformed
   families, clause by clause, and the lift to whole queries. *)
From DT Require Import Lib.Bytes Lib.Split Gen.Consts Model.C11_Query Proofs.C11_Query Proofs.C11_Order Proofs.C11_Denote.

Ltac kw k :=
  repeat match goal with |- context [bytes_eqb k (B ?x)] =>
    let b := eval vm_compute in (bytes_eqb k (B x)) in change (bytes_eqb k (B x)) with b end; cbn [orb]; cbn iota.
Ltac simples := repeat (apply Forall_cons; [assumption|]); apply Forall_nil.

Section Reject.
  Variable is_float : bytes -> bool.
  Variable atoi : bytes -> option Z.
  Notation eff := (eff is_float atoi).
  Notation parse_tokens := (parse_tokens is_float atoi).

  (* one rejected clause rejects the query, wherever it stands *)
  Theorem parse_rejects (cs : list cl) (q : query) (fuel : nat) (c : cl) :
    Forall wf_clause cs -> In c cs -> eff (ckw c) (snd c) = RErr -> length (toks cs) < fuel ->
    parse_tokens fuel q (toks cs) = RErr.
  Proof.
    intros Hw Hin He Hf. rewrite (parse_run is_float atoi cs fuel q Hw Hf). apply run_err.
    intros Hall. apply (Hall c Hin). unfold upd_of. now rewrite He.
  Qed.

  (* from: exactly one table *)
  Theorem from_two_rejected t1 t2 rest : Forall simple (t1 :: t2 :: rest) -> eff (B"from") (t1 :: t2 :: rest) = RErr.
  Proof. intros Hs. unfold C11_Order.eff. kw (B"from"). now rewrite (consume_simple _ Hs). Qed.

  (* limit / interval: a number *)
  Theorem limit_nonnumber_rejected t rest : Forall simple (t :: rest) -> atoi (t_str t) = None -> eff (B"limit") (t :: rest) = RErr.
  Proof. intros Hs Ha. unfold C11_Order.eff. kw (B"limit"). rewrite (consume_simple _ Hs). now rewrite Ha. Qed.
  Theorem interval_nonnumber_rejected t rest : Forall simple (t :: rest) -> atoi (t_str t) = None -> eff (B"interval") (t :: rest) = RErr.
  Proof. intros Hs Ha. unfold C11_Order.eff. kw (B"interval"). rewrite (consume_simple _ Hs). now rewrite Ha. Qed.

  (* where: conditions are triples with a known operator; numeric operators take barewords only *)
  Theorem where_unknown_op_rejected l o r rest : Forall simple (l :: o :: r :: rest) ->
    whereop_of (lower (t_str o)) = None -> eff (B"where") (l :: o :: r :: rest) = RErr.
  Proof.
    intros Hs Ho. unfold C11_Order.eff. kw (B"where"). rewrite (consume_simple _ Hs).
    cbn [length make_where]. unfold make_where1. rewrite Ho. reflexivity.
  Qed.
  Theorem where_incomplete_rejected l rest : Forall simple (l :: rest) -> length rest < 2 -> eff (B"where") (l :: rest) = RErr.
  Proof.
    intros Hs Hl. unfold C11_Order.eff. kw (B"where"). rewrite (consume_simple _ Hs).
    destruct rest as [|a [|b r]]; cbn in Hl; try lia; reflexivity.
  Qed.
  Theorem where_quoted_number_rejected l o r rest op : Forall simple (l :: o :: r :: rest) ->
    whereop_of (lower (t_str o)) = Some op -> is_float_op op = true -> t_bare l = false \/ t_bare r = false ->
    eff (B"where") (l :: o :: r :: rest) = RErr.
  Proof.
    intros Hs Ho Hf Hb. unfold C11_Order.eff. kw (B"where"). rewrite (consume_simple _ Hs).
    cbn [length make_where]. unfold make_where1. rewrite Ho, Hf.
    destruct (t_bare l); cbn [negb]; [|reflexivity]. destruct Hb as [Hb|Hb]; [discriminate|]. rewrite Hb. reflexivity.
  Qed.

  (* set: $variable = value, with known functions only *)
  Theorem set_no_equals_rejected l o r rest : Forall simple (l :: o :: r :: rest) ->
    bytes_eqb (t_str o) (B"=") = false -> eff (B"set") (l :: o :: r :: rest) = RErr.
  Proof.
    intros Hs Ho. unfold C11_Order.eff. kw (B"set"). rewrite (consume_simple _ Hs).
    cbn [length make_set]. unfold make_set1. rewrite Ho. reflexivity.
  Qed.
  Theorem set_no_dollar_rejected l r rest : Forall simple (l :: bare_tok (B"=") :: r :: rest) ->
    bprefix [dollar] (t_str l) = false -> eff (B"set") (l :: bare_tok (B"=") :: r :: rest) = RErr.
  Proof.
    intros Hs Hd. unfold C11_Order.eff. kw (B"set"). rewrite (consume_simple _ Hs).
    cbn [length make_set]. unfold make_set1. cbn [t_str bare_tok]. change (bytes_eqb (B"=") (B"=")) with true. cbn [negb].
    destruct (t_bare l); cbn [negb]; [|reflexivity]. rewrite Hd. reflexivity.
  Qed.
  Theorem set_incomplete_rejected l rest : Forall simple (l :: rest) -> length rest < 2 -> eff (B"set") (l :: rest) = RErr.
  Proof.
    intros Hs Hl. unfold C11_Order.eff. kw (B"set"). rewrite (consume_simple _ Hs).
    destruct rest as [|a [|b r]]; cbn in Hl; try lia; reflexivity.
  Qed.

  (* outfile: a path, optionally preceded by "append" *)
  Theorem outfile_bad_mode_rejected a t : Forall simple [a; t] -> bytes_eqb (t_str a) (B"append") = false ->
    eff (B"outfile") [a; t] = RErr.
  Proof. intros Hs Ha. unfold C11_Order.eff. kw (B"outfile"). rewrite (consume_simple _ Hs). now rewrite Ha. Qed.
  Theorem outfile_three_rejected a b c rest : Forall simple (a :: b :: c :: rest) -> eff (B"outfile") (a :: b :: c :: rest) = RErr.
  Proof. intros Hs. unfold C11_Order.eff. kw (B"outfile"). now rewrite (consume_simple _ Hs). Qed.

  (* an unknown aggregation in the select list *)
  Theorem select_unknown_agg_rejected name fld rest : ~ In lparen name -> ~ In lparen fld /\ ~ In rparen fld ->
    agg_of name = None -> Forall simple (bare_tok (name ++ lparen :: fld ++ [rparen]) :: rest) ->
    eff (B"select") (bare_tok (name ++ lparen :: fld ++ [rparen]) :: rest) = RErr.
  Proof.
    intros Hn [Hl Hr] Ha Hs. unfold C11_Order.eff. kw (B"select"). rewrite (consume_simple _ Hs).
    cbn [make_select]. unfold make_select1. cbn [t_stripped t_str bare_tok orb].
    assert (Hin : In lparen (name ++ lparen :: fld ++ [rparen])) by (apply in_or_app; right; now left).
    rewrite (has_byte_true lparen _ Hin). cbn [negb andb].
    rewrite split_app_sep by exact Hn.
    rewrite split_plain by (intros H; apply in_app_or in H; destruct H as [H|[H|[]]]; [contradiction|discriminate]).
    replace (fld ++ [rparen]) with (fld ++ rparen :: []) by reflexivity.
    rewrite split_app_sep by exact Hr. rewrite split_plain by (intros []). now rewrite Ha.
  Qed.
End Reject.
