(* C11 — surface variations that provably do not matter: the separator style between words
   (any mix of blanks, tabs, newlines, CR, commas, in any amount, also leading and trailing). *)
From DT Require Import Lib.Bytes Lib.Split Gen.Consts Model.C11_Query.

Definition sepb (c : byte) : bool := is_space c || beqb c x2c.
Definition sep_string (s : bytes) : Prop := forall c, In c s -> sepb c = true.
Definition word (w : bytes) : Prop := w <> [] /\ forall c, In c w -> sepb c = false.

Lemma fields_acc_sep : forall s cur rest, sep_string s -> s <> [] ->
  fields_acc cur (s ++ rest) = match cur with [] => fields_acc [] rest | _ => rev' cur :: fields_acc [] rest end.
Proof.
  induction s as [|c s IH]; intros cur rest Hs Hn; [contradiction|].
  cbn [app fields_acc]. assert (Hc : sepb c = true) by (apply Hs; now left). unfold sepb in Hc. rewrite Hc.
  assert (Hs' : sep_string s) by (intros d Hd; apply Hs; now right).
  destruct s as [|d s'].
  - cbn [app]. destruct cur; reflexivity.
  - destruct cur as [|x cur]; rewrite IH by (auto; discriminate); reflexivity.
Qed.

Lemma fields_acc_word : forall w cur rest, (forall c, In c w -> sepb c = false) ->
  fields_acc cur (w ++ rest) = fields_acc (rev w ++ cur) rest.
Proof.
  induction w as [|c w IH]; intros cur rest Hw; [reflexivity|].
  cbn [app fields_acc]. assert (Hc : sepb c = false) by (apply Hw; now left). unfold sepb in Hc. rewrite Hc.
  rewrite IH by (intros d Hd; apply Hw; now right). cbn [rev]. now rewrite <- app_assoc.
Qed.

(* a rendering: leading separators, then every word followed by its separators (the last may have none) *)
Fixpoint render (items : list (bytes * bytes)) : bytes :=
  match items with [] => [] | (w, s) :: r => w ++ s ++ render r end.

Definition well_sep (items : list (bytes * bytes)) : Prop :=
  forall k w s, nth_error items k = Some (w, s) -> word w /\ sep_string s /\ (S k < length items -> s <> []).

Lemma fields_render : forall items, well_sep items -> fields_acc [] (render items) = map fst items.
Proof.
  induction items as [|[w s] r IH]; intros H; [reflexivity|].
  destruct (H 0 w s eq_refl) as ((Hne & Hw) & Hs & Hlast).
  assert (Hr : well_sep r).
  { intros k w' s' Hk. destruct (H (S k) w' s' Hk) as (A & B & C). split; [exact A|split; [exact B|]]. intros Hl. apply C. simpl length. lia. }
  cbn [render map fst]. rewrite fields_acc_word by exact Hw. rewrite app_nil_r.
  destruct s as [|c s'].
  - (* no separator after the word: it must be the last one *)
    destruct r as [|x r']; [|exfalso; apply Hlast; [cbn; lia|reflexivity]].
    cbn [app render fields_acc]. destruct (rev w) eqn:E; [apply (f_equal (@length byte)) in E; rewrite rev_length in E; destruct w; [contradiction|discriminate]|].
    rewrite <- E, rev'_rev, rev_involutive. reflexivity.
  - rewrite fields_acc_sep by (auto; discriminate).
    destruct (rev w) eqn:E; [apply (f_equal (@length byte)) in E; rewrite rev_length in E; destruct w; [contradiction|discriminate]|].
    rewrite <- E, rev'_rev, rev_involutive. f_equal. apply IH. exact Hr.
Qed.

Theorem fields_separators lead items : sep_string lead -> well_sep items ->
  fields (lead ++ render items) = map fst items.
Proof.
  intros Hl Hi. unfold fields. destruct lead as [|c l]; [now apply fields_render|].
  rewrite fields_acc_sep by (auto; discriminate). now apply fields_render.
Qed.

(* no double quote anywhere: the whole text is one bare part *)
Lemma split_on_no_dquote : forall s cur, ~ In dquote s -> split_on dquote cur s = [rev' cur ++ s].
Proof.
  induction s as [|c s IH]; intros cur H; cbn [split_on]; [now rewrite app_nil_r|].
  destruct (beqb_spec c dquote) as [->|Hne]; [exfalso; apply H; now left|].
  rewrite IH by (intros Hin; apply H; now right). rewrite !rev'_rev. cbn [rev]. now rewrite <- app_assoc.
Qed.

Theorem tokenize_separators lead items :
  sep_string lead -> well_sep items -> ~ In dquote (lead ++ render items) ->
  tokenize (lead ++ render items) = map bare_tok (map fst items).
Proof.
  intros Hl Hi Hq. unfold tokenize, split. rewrite split_on_no_dquote by exact Hq. cbn [rev' rev_append app tokenize_parts].
  rewrite app_nil_r. now rewrite fields_separators.
Qed.

(* two texts with the same words in the same order, whatever separates them, parse to the same thing *)
Theorem new_query_separators is_float atoi lead1 items1 lead2 items2 :
  sep_string lead1 -> well_sep items1 -> ~ In dquote (lead1 ++ render items1) ->
  sep_string lead2 -> well_sep items2 -> ~ In dquote (lead2 ++ render items2) ->
  map fst items1 = map fst items2 -> items1 <> [] ->
  new_query is_float atoi (lead1 ++ render items1) = new_query is_float atoi (lead2 ++ render items2).
Proof.
  intros L1 W1 Q1 L2 W2 Q2 E Hn.
  assert (N : forall lead items, well_sep items -> items <> [] -> lead ++ render items <> []).
  { intros lead [|[w s] r] Hw Hne; [contradiction|]. destruct (Hw 0 w s eq_refl) as ((Hw0 & _) & _).
    cbn [render]. destruct lead; [|discriminate]. destruct w; [contradiction|discriminate]. }
  assert (Hn2 : items2 <> []) by (destruct items2; [destruct items1; [contradiction|discriminate]|discriminate]).
  assert (Q : forall t, t <> [] -> new_query is_float atoi t =
             Some (rbind (parse_tokens is_float atoi (S (length (tokenize t))) q0 (tokenize t)) finish)).
  { intros [|c t] Ht; [contradiction|reflexivity]. }
  rewrite (Q _ (N lead1 items1 W1 Hn)), (Q _ (N lead2 items2 W2 Hn2)).
  rewrite (tokenize_separators lead1 items1 L1 W1 Q1), (tokenize_separators lead2 items2 L2 W2 Q2).
  now rewrite E.
Qed.

(* a decidable version of [well_sep], for examples and generated cases *)
Fixpoint well_sep_b (items : list (bytes * bytes)) : bool :=
  match items with
  | [] => true
  | (w, s) :: r =>
    match w with [] => false | _ => true end && forallb (fun c => negb (sepb c)) w && forallb sepb s
    && match r, s with _ :: _, [] => false | _, _ => true end && well_sep_b r
  end.

Lemma well_sep_b_ok : forall items, well_sep_b items = true -> well_sep items.
Proof.
  induction items as [|[w s] r IH]; intros H k w' s' Hk; [destruct k; discriminate|].
  cbn [well_sep_b] in H. apply andb_prop in H. destruct H as [H Hr]. apply andb_prop in H. destruct H as [H Hl].
  apply andb_prop in H. destruct H as [H Hs]. apply andb_prop in H. destruct H as [Hn Hw].
  destruct k as [|k].
  - injection Hk as <- <-. split; [split|split].
    + destruct w; [discriminate|discriminate].
    + intros c Hc. rewrite forallb_forall in Hw. apply Hw in Hc. now apply negb_true_iff in Hc.
    + intros c Hc. rewrite forallb_forall in Hs. now apply Hs.
    + intros Hlen Es. subst s. destruct r; [cbn in Hlen; lia|discriminate].
  - destruct (IH Hr k w' s' Hk) as (A & B & C). split; [exact A|split; [exact B|]].
    intros Hlen. apply C. cbn [length] in Hlen. lia.
Qed.
