From DT Require Import Lib.Bytes Lib.Split Gen.Consts Model.Proto.

Ltac nomem := cbv; intuition discriminate.

Section Codec.
  Variables (b64enc : bytes -> bytes) (b64dec : bytes -> option bytes).
  Variables (itoa : Z -> bytes) (atoi : bytes -> option Z).
  Variable regex_compiles : bytes -> bool.
  Variable query_parses : bytes -> bool.

  (* what is assumed of the standard library (encoding/base64, strconv) *)
  Hypothesis b64_roundtrip : forall s, b64dec (b64enc s) = Some s.
  Hypothesis b64_alphabet : forall s, ~ In sp (b64enc s) /\ ~ In semicolon (b64enc s).
  Hypothesis atoi_itoa : forall z, atoi (itoa z) = Some z.
  Hypothesis itoa_alphabet : forall z, ~ In sp (itoa z) /\ ~ In colon (itoa z) /\ ~ In eqsign (itoa z) /\ ~ In percent (itoa z).

  Notation command := (command itoa).
  Notation wire := (wire b64enc).
  Notation handle_command := (handle_command b64dec atoi regex_compiles query_parses).
  Notation srv_write := (srv_write b64dec atoi regex_compiles query_parses).
  Notation present_opts := (present_opts itoa).
  Notation opts_ser := (opts_ser itoa).

  Lemma in_app_not {A} (x : A) l1 l2 : ~ In x l1 -> ~ In x l2 -> ~ In x (l1 ++ l2).
  Proof. intros H1 H2 H. apply in_app_or in H. tauto. Qed.
  Lemma in_cons_not {A} (x y : A) l : x <> y -> ~ In x l -> ~ In x (y :: l).
  Proof. intros H1 H2 [H|H]; [congruence|contradiction]. Qed.

  (* ---- option strings ---- *)
  Definition clean_val (v : bytes) : Prop :=
    ~ In sp v /\ ~ In colon v /\ ~ In eqsign v /\ ~ In percent v.
  Lemma true_clean : clean_val (B"true"). Proof. unfold clean_val. repeat split; nomem. Qed.

  Lemma opt_kv_shape r k kv : opt_kv itoa r k = Some kv ->
    (~ In sp (fst kv) /\ ~ In colon (fst kv) /\ ~ In eqsign (fst kv)) /\ clean_val (snd kv).
  Proof.
    destruct k as [|[|[|[|[|[|k]]]]]]; simpl; try discriminate.
    - destruct (c_quiet r); [|discriminate]. intros H; inversion H; subst. split; [repeat split; nomem|apply true_clean].
    - destruct (c_plain r); [|discriminate]. intros H; inversion H; subst. split; [repeat split; nomem|apply true_clean].
    - destruct (c_serverless r); [|discriminate]. intros H; inversion H; subst. split; [repeat split; nomem|apply true_clean].
    - destruct (c_max r =? 0)%Z; [discriminate|]. intros H; inversion H; subst. split; [repeat split; nomem|apply itoa_alphabet].
    - destruct (c_before r =? 0)%Z; [discriminate|]. intros H; inversion H; subst. split; [repeat split; nomem|apply itoa_alphabet].
    - destruct (c_after r =? 0)%Z; [discriminate|]. intros H; inversion H; subst. split; [repeat split; nomem|apply itoa_alphabet].
  Qed.

  Lemma present_opts_shape r order :
    Forall (fun kv => (~ In sp (fst kv) /\ ~ In colon (fst kv) /\ ~ In eqsign (fst kv)) /\ clean_val (snd kv))
           (present_opts r order).
  Proof.
    induction order as [|k rest IH]; simpl; [constructor|].
    destruct (opt_kv itoa r k) eqn:E; [constructor; [now apply (opt_kv_shape r k)|exact IH]|exact IH].
  Qed.

  Lemma kv_str_no x kv : x <> eqsign -> ~ In x (fst kv) -> ~ In x (snd kv) -> ~ In x (kv_str kv).
  Proof. intros Hx H1 H2. unfold kv_str. apply in_app_not; [assumption|]. now apply in_cons_not. Qed.

  Lemma kvs_no_colon r order : Forall (fun e => ~ In colon e) (map kv_str (present_opts r order)).
  Proof.
    pose proof (present_opts_shape r order) as H. induction H as [|kv l [[_ [H1 _]] [_ [H2 _]]] _ IH]; simpl; constructor; auto.
    apply kv_str_no; auto. discriminate.
  Qed.

  Lemma join_no x sep : x <> sep -> forall parts, Forall (fun e => ~ In x e) parts -> ~ In x (join_with sep parts).
  Proof.
    intros Hx. induction parts as [|p ps IH]; intros Hf; [simpl; tauto|].
    inversion Hf; subst. destruct ps as [|q qs]; [simpl; assumption|].
    cbn [join_with]. apply in_app_not; [assumption|]. apply in_cons_not; [assumption|]. now apply IH.
  Qed.

  Lemma opts_ser_no_sp r order : ~ In sp (opts_ser r order).
  Proof.
    unfold opts_ser, Proto.opts_ser. apply join_no; [discriminate|].
    pose proof (present_opts_shape r order) as H. induction H as [|kv l [[H1 _] [H2 _]] _ IH]; simpl; constructor; auto.
    apply kv_str_no; auto. discriminate.
  Qed.

  (* ---- what DeserializeOptions computes from the client's option list, in any order ---- *)
  Definition has (k : nat) (order : list nat) : bool := existsb (Nat.eqb k) order.

  Lemma optval_clean v : clean_val v -> optval b64dec v = Some v.
  Proof.
    intros (_ & _ & _ & Hp). unfold optval.
    destruct (bprefix (B"base64%") v) eqn:E; [|reflexivity].
    exfalso. apply is_prefix_spec in E; [|apply beqb_eq]. destruct E as [rest ->].
    apply Hp. cbv. tauto.
  Qed.

  Lemma deser_step k v rest acc b a m : ~ In eqsign k -> clean_val v ->
    deser_opts b64dec atoi (kv_str (k, v) :: rest) acc b a m =
    if bytes_eqb k (B"before") then
      match atoi v with
      | Some z => if (c_max_before_context <? z)%Z then None else deser_opts b64dec atoi rest acc z a m
      | None => None
      end
    else if bytes_eqb k (B"after") then match atoi v with Some z => deser_opts b64dec atoi rest acc b z m | None => None end
    else if bytes_eqb k (B"max") then match atoi v with Some z => deser_opts b64dec atoi rest acc b a z | None => None end
    else deser_opts b64dec atoi rest ((k, v) :: acc) b a m.
  Proof.
    intros Hk Hv. cbn [deser_opts]. unfold kv_str. cbn [fst snd].
    rewrite splitn2_app by assumption. rewrite optval_clean by assumption. reflexivity.
  Qed.

  Lemma deser_opts_client r : (c_before r <= c_max_before_context)%Z -> forall order acc b a m,
    exists acc',
      deser_opts b64dec atoi (map kv_str (present_opts r order)) acc b a m
      = Some (acc',
              if has 4 order && negb (c_before r =? 0)%Z then c_before r else b,
              if has 5 order && negb (c_after r =? 0)%Z then c_after r else a,
              if has 3 order && negb (c_max r =? 0)%Z then c_max r else m)
      /\ is_true (lookup (B"quiet") acc') = (has 0 order && c_quiet r) || is_true (lookup (B"quiet") acc)
      /\ is_true (lookup (B"plain") acc') = (has 1 order && c_plain r) || is_true (lookup (B"plain") acc)
      /\ is_true (lookup (B"serverless") acc') = (has 2 order && c_serverless r) || is_true (lookup (B"serverless") acc).
  Proof.
    intros Hbound.
    induction order as [|k rest IH]; intros acc b a m.
    - simpl. exists acc. repeat split; reflexivity.
    - cbn [Proto.present_opts has existsb].
      destruct k as [|[|[|[|[|[|k]]]]]]; cbn [opt_kv Nat.eqb orb andb].
      + (* quiet *)
        destruct (c_quiet r) eqn:Eq; cbn [map].
        * rewrite deser_step by (try nomem; apply true_clean).
          replace (bytes_eqb (B"quiet") (B"before")) with false by reflexivity.
          replace (bytes_eqb (B"quiet") (B"after")) with false by reflexivity.
          replace (bytes_eqb (B"quiet") (B"max")) with false by reflexivity.
          destruct (IH ((B"quiet", B"true") :: acc) b a m) as (acc' & E & Hq & Hp & Hs).
          exists acc'. split; [exact E|]. rewrite Hq, Hp, Hs.
          repeat split; try reflexivity; cbn; rewrite ?andb_true_r, ?orb_true_r; reflexivity.
        * destruct (IH acc b a m) as (acc' & E & Hq & Hp & Hs). exists acc'. split; [exact E|].
          rewrite Hq, Hp, Hs. rewrite !andb_false_r. repeat split; reflexivity.
      + (* plain *)
        destruct (c_plain r) eqn:Eq; cbn [map].
        * rewrite deser_step by (try nomem; apply true_clean).
          replace (bytes_eqb (B"plain") (B"before")) with false by reflexivity.
          replace (bytes_eqb (B"plain") (B"after")) with false by reflexivity.
          replace (bytes_eqb (B"plain") (B"max")) with false by reflexivity.
          destruct (IH ((B"plain", B"true") :: acc) b a m) as (acc' & E & Hq & Hp & Hs).
          exists acc'. split; [exact E|]. rewrite Hq, Hp, Hs.
          repeat split; try reflexivity; cbn; rewrite ?andb_true_r, ?orb_true_r; reflexivity.
        * destruct (IH acc b a m) as (acc' & E & Hq & Hp & Hs). exists acc'. split; [exact E|].
          rewrite Hq, Hp, Hs. rewrite !andb_false_r. repeat split; reflexivity.
      + (* serverless *)
        destruct (c_serverless r) eqn:Eq; cbn [map].
        * rewrite deser_step by (try nomem; apply true_clean).
          replace (bytes_eqb (B"serverless") (B"before")) with false by reflexivity.
          replace (bytes_eqb (B"serverless") (B"after")) with false by reflexivity.
          replace (bytes_eqb (B"serverless") (B"max")) with false by reflexivity.
          destruct (IH ((B"serverless", B"true") :: acc) b a m) as (acc' & E & Hq & Hp & Hs).
          exists acc'. split; [exact E|]. rewrite Hq, Hp, Hs.
          repeat split; try reflexivity; cbn; rewrite ?andb_true_r, ?orb_true_r; reflexivity.
        * destruct (IH acc b a m) as (acc' & E & Hq & Hp & Hs). exists acc'. split; [exact E|].
          rewrite Hq, Hp, Hs. rewrite !andb_false_r. repeat split; reflexivity.
      + (* max *)
        destruct (c_max r =? 0)%Z eqn:Ez; cbn [map negb].
        * destruct (IH acc b a m) as (acc' & E & Hq & Hp & Hs). exists acc'. split; [|auto].
          rewrite E. rewrite !andb_false_r. reflexivity.
        * rewrite deser_step by (try nomem; apply itoa_alphabet).
          replace (bytes_eqb (B"max") (B"before")) with false by reflexivity.
          replace (bytes_eqb (B"max") (B"after")) with false by reflexivity.
          replace (bytes_eqb (B"max") (B"max")) with true by reflexivity.
          rewrite atoi_itoa.
          destruct (IH acc b a (c_max r)) as (acc' & E & Hq & Hp & Hs). exists acc'. split; [|auto].
          rewrite E. rewrite !andb_true_r. cbn [orb]. destruct (has 3 rest); reflexivity.
      + (* before *)
        destruct (c_before r =? 0)%Z eqn:Ez; cbn [map negb].
        * destruct (IH acc b a m) as (acc' & E & Hq & Hp & Hs). exists acc'. split; [|auto].
          rewrite E. rewrite !andb_false_r. reflexivity.
        * rewrite deser_step by (try nomem; apply itoa_alphabet).
          replace (bytes_eqb (B"before") (B"before")) with true by reflexivity.
          rewrite atoi_itoa.
          replace (c_max_before_context <? c_before r)%Z with false by (symmetry; apply Z.ltb_ge; exact Hbound).
          destruct (IH acc (c_before r) a m) as (acc' & E & Hq & Hp & Hs). exists acc'. split; [|auto].
          rewrite E. rewrite !andb_true_r. cbn [orb]. destruct (has 4 rest); reflexivity.
      + (* after *)
        destruct (c_after r =? 0)%Z eqn:Ez; cbn [map negb].
        * destruct (IH acc b a m) as (acc' & E & Hq & Hp & Hs). exists acc'. split; [|auto].
          rewrite E. rewrite !andb_false_r. reflexivity.
        * rewrite deser_step by (try nomem; apply itoa_alphabet).
          replace (bytes_eqb (B"after") (B"before")) with false by reflexivity.
          replace (bytes_eqb (B"after") (B"after")) with true by reflexivity.
          rewrite atoi_itoa.
          destruct (IH acc b (c_after r) m) as (acc' & E & Hq & Hp & Hs). exists acc'. split; [|auto].
          rewrite E. rewrite !andb_true_r. cbn [orb]. destruct (has 5 rest); reflexivity.
      + (* not an option key *)
        apply IH.
  Qed.

  (* ---- the server's Write cuts the stream at ';' ---- *)
  Lemma fst_handle st x : fst (handle_command st x) = fst (Proto.decode_command b64dec atoi st x).
  Proof. unfold Proto.handle_command. destruct (Proto.decode_command b64dec atoi st x) as [st' [k|n b a m args|]]; reflexivity. Qed.

  Lemma srv_write_one st : forall pre buf, ~ In semicolon pre ->
    srv_write st buf (pre ++ [semicolon]) =
    (fst (handle_command st (rev buf ++ pre)), [],
     [(fst (handle_command st (rev buf ++ pre)), snd (Proto.decode_command b64dec atoi st (rev buf ++ pre)),
       snd (handle_command st (rev buf ++ pre)))]).
  Proof.
    induction pre as [|c pre IH]; intros buf H.
    - cbn [app Proto.srv_write]. replace (beqb semicolon semicolon) with true by reflexivity.
      rewrite rev'_rev, app_nil_r. rewrite fst_handle.
      destruct (Proto.decode_command b64dec atoi st (rev buf)); reflexivity.
    - cbn [app Proto.srv_write]. destruct (beqb_spec c semicolon) as [->|Hn]; [exfalso; apply H; simpl; auto|].
      rewrite IH by (intros Hin; apply H; simpl; auto). cbn [rev]. now rewrite <- app_assoc.
  Qed.

  Definition wf_mode (m : bytes) : Prop := m = B"grep" \/ m = B"cat" \/ m = B"tail".

  Lemma flag_roundtrip f : flag_of_str (flag_str f) = Some f.
  Proof. destruct f; reflexivity. Qed.
  Lemma flag_str_clean f : ~ In sp (flag_str f) /\ ~ In colon (flag_str f) /\ ~ In comma (flag_str f).
  Proof. destruct f; repeat split; nomem. Qed.

  Lemma regex_deser_ser f p : regex_compiles p = true ->
    regex_deser regex_compiles (regex_ser (f, p)) = RxOk [f] p.
  Proof.
    intros Hc. unfold regex_deser, regex_ser. cbn [fst snd].
    assert (Hsp : ~ In sp (B"regex:" ++ flag_str f)).
    { apply in_app_not; [nomem|apply flag_str_clean]. }
    rewrite app_assoc. rewrite (splitn2_app sp (B"regex:" ++ flag_str f) p Hsp).
    assert (Hpre : bprefix (B"regex") (B"regex:" ++ flag_str f) = true) by reflexivity.
    rewrite Hpre. cbn [negb]. unfold flags_of.
    replace (B"regex:" ++ flag_str f) with (B"regex" ++ colon :: flag_str f) by reflexivity.
    rewrite (splitn2_app colon (B"regex") (flag_str f)) by nomem.
    rewrite split_plain by apply flag_str_clean. cbn [flat_map]. rewrite flag_roundtrip. cbn [app].
    now rewrite Hc.
  Qed.

  Theorem roundtrip (r : creq) (order : list nat) :
    wf_mode (c_mode r) -> ~ In sp (c_file r) -> (c_before r <= c_max_before_context)%Z ->
    (forall k, k < 6 -> has k order = true) ->
    regex_compiles (snd (regex_new (c_pattern r) (c_invert r))) = true ->
    let res := srv_write sopts0 [] (wire (command r order)) in
    snd (fst res) = [] /\
    map snd (snd res) = [ORead {| q_tail := bytes_eqb (c_mode r) (B"tail");
                        q_before := c_before r; q_after := c_after r; q_max := c_max r;
                        q_file := c_file r;
                        q_flags := [fst (regex_new (c_pattern r) (c_invert r))];
                        q_pattern := snd (regex_new (c_pattern r) (c_invert r)) |}] /\
    s_quiet (fst (fst res)) = c_quiet r /\ s_plain (fst (fst res)) = c_plain r /\
    s_serverless (fst (fst res)) = c_serverless r.
  Proof.
    intros Hmode Hfile Hbound Hall Hcomp res. subst res.
    set (cmd := command r order).
    assert (Hwire : wire cmd = (B"protocol" ++ sp :: c_protocol_compat ++ sp :: B"base64" ++ sp :: b64enc cmd) ++ [semicolon]).
    { unfold wire, Proto.wire. cbn. reflexivity. }
    rewrite Hwire.
    destruct (b64_alphabet cmd) as [Hesp Hesemi].
    rewrite srv_write_one.
    2:{ apply in_app_not; [nomem|]. apply in_cons_not; [discriminate|].
        apply in_app_not; [nomem|]. apply in_cons_not; [discriminate|].
        apply in_app_not; [nomem|]. apply in_cons_not; [discriminate|]. exact Hesemi. }
    cbn [rev app fst snd map].
    split; [reflexivity|].
    (* protocol header *)
    unfold Proto.handle_command, Proto.decode_command.
    rewrite (split_app_sep sp (B"protocol")) by nomem.
    rewrite (split_app_sep sp c_protocol_compat) by nomem.
    rewrite (split_app_sep sp (B"base64")) by nomem.
    rewrite (split_plain sp (b64enc cmd)) by exact Hesp.
    cbn [length Nat.leb orb nth_b nth_error negb skipn Nat.eqb].
    replace (bytes_eqb (B"protocol") (B"protocol")) with true by reflexivity.
    replace (bytes_eqb c_protocol_compat c_protocol_compat) with true by (symmetry; apply bytes_eqb_refl).
    replace (bytes_eqb (B"base64") (B"base64")) with true by reflexivity.
    cbn [negb orb]. rewrite b64_roundtrip.
    (* the decoded command *)
    unfold cmd, Proto.command.
    set (rx := regex_new (c_pattern r) (c_invert r)) in *.
    assert (Hm_sp : ~ In sp (c_mode r) /\ ~ In colon (c_mode r)).
    { destruct Hmode as [->|[->| ->]]; split; nomem. }
    assert (Hhead : ~ In sp (c_mode r ++ colon :: opts_ser r order)).
    { apply in_app_not; [apply Hm_sp|]. apply in_cons_not; [discriminate|]. apply opts_ser_no_sp. }
    replace (c_mode r ++ colon :: opts_ser r order ++ sp :: c_file r ++ sp :: regex_ser rx)
      with ((c_mode r ++ colon :: opts_ser r order) ++ sp :: c_file r ++ sp :: regex_ser rx)
      by (rewrite <- app_assoc; reflexivity).
    rewrite (split_app_sep sp _ _ Hhead).
    rewrite (split_app_sep sp (c_file r) _ Hfile).
    destruct rx as [f p] eqn:Erx. cbn [fst snd] in *.
    assert (Hrsp : ~ In sp (B"regex:" ++ flag_str f)).
    { apply in_app_not; [nomem|apply flag_str_clean]. }
    assert (Hrs : split sp (regex_ser (f, p)) = (B"regex:" ++ flag_str f) :: split sp p).
    { unfold regex_ser. cbn [fst snd]. rewrite app_assoc. now apply split_app_sep. }
    rewrite Hrs.
    cbn [nth_b nth_error].
    (* command name and options *)
    rewrite (split_app_sep colon (c_mode r)) by apply Hm_sp.
    (* the argument vector as the read command sees it *)
    assert (Hread : forall hd b a m, dispatch regex_compiles query_parses (c_mode r) b a m
                (hd :: c_file r :: (B"regex:" ++ flag_str f) :: split sp p)
              = ORead {| q_tail := bytes_eqb (c_mode r) (B"tail"); q_before := b; q_after := a; q_max := m;
                         q_file := c_file r; q_flags := [f]; q_pattern := p |}).
    { intros hd b a m. unfold dispatch.
      set (args := hd :: c_file r :: (B"regex:" ++ flag_str f) :: split sp p).
      assert (Hrd : forall tl, read_cmd regex_compiles tl b a m args
                = ORead {| q_tail := tl; q_before := b; q_after := a; q_max := m;
                           q_file := c_file r; q_flags := [f]; q_pattern := p |}).
      { intros tl. unfold read_cmd, args. cbn [length skipn].
        assert (Hlen : 4 <=? S (S (S (length (split sp p)))) = true).
        { apply Nat.leb_le. pose proof (split_nonempty sp p). lia. }
        rewrite Hlen.
        replace (join_with sp ((B"regex:" ++ flag_str f) :: split sp p))
          with (regex_ser (f, p)).
        2:{ unfold regex_ser. cbn [fst snd]. pose proof (split_nonempty sp p) as Hn.
            replace (B"regex:" ++ flag_str f ++ sp :: p)
              with (B"regex:" ++ flag_str f ++ sp :: join_with sp (split sp p)) by now rewrite join_split.
            destruct (split sp p) as [|q qs]; [simpl in Hn; lia|].
            cbn [join_with]. now rewrite <- app_assoc. }
        rewrite regex_deser_ser by exact Hcomp.
        assert (Hlt : S (S (S (length (split sp p)))) <? 3 = false) by (apply Nat.ltb_ge; lia).
        rewrite Hlt. reflexivity. }
      destruct Hmode as [Hm|[Hm|Hm]]; rewrite Hm; cbn [orb]; 
        repeat match goal with |- context [bytes_eqb (B ?a) (B ?b)] =>
          let v := eval vm_compute in (bytes_eqb (B a) (B b)) in replace (bytes_eqb (B a) (B b)) with v by reflexivity end;
        cbn [orb]; rewrite <- ?Hm; rewrite Hrd; rewrite ?Hm; reflexivity. }
    unfold opts_ser at 1, Proto.opts_ser.
    pose proof (kvs_no_colon r order) as Hnc.
    destruct (present_opts r order) as [|kv kvs] eqn:Ekvs.
    - (* no option present: every mode flag is false, every context value 0 *)
      cbn [map join_with]. replace (split colon []) with [@nil byte] by reflexivity.
      rewrite Hread. cbn [fst snd sopts0 s_quiet s_plain s_serverless].
      (* all requested values must be the defaults *)
      assert (Hnone : forall k, k < 6 -> opt_kv itoa r k = None).
      { intros k Hk. specialize (Hall k Hk). unfold has in Hall. apply existsb_exists in Hall.
        destruct Hall as (k' & Hin & Heq). apply Nat.eqb_eq in Heq. subst k'.
        clear - Ekvs Hin. induction order as [|o rest IH]; [destruct Hin|].
        cbn [Proto.present_opts] in Ekvs. destruct Hin as [->|Hin].
        - destruct (opt_kv itoa r k); [discriminate|reflexivity].
        - destruct (opt_kv itoa r o); [discriminate|]. now apply IH. }
      pose proof (Hnone 0 ltac:(lia)) as H0. pose proof (Hnone 1 ltac:(lia)) as H1.
      pose proof (Hnone 2 ltac:(lia)) as H2. pose proof (Hnone 3 ltac:(lia)) as H3.
      pose proof (Hnone 4 ltac:(lia)) as H4. pose proof (Hnone 5 ltac:(lia)) as H5.
      cbn [opt_kv] in *.
      destruct (c_quiet r); [discriminate|]. destruct (c_plain r); [discriminate|].
      destruct (c_serverless r); [discriminate|].
      destruct (c_max r =? 0)%Z eqn:E3; [|discriminate]. destruct (c_before r =? 0)%Z eqn:E4; [|discriminate].
      destruct (c_after r =? 0)%Z eqn:E5; [|discriminate].
      apply Z.eqb_eq in E3, E4, E5. rewrite E3, E4, E5. repeat split; reflexivity.
    - (* at least one option *)
      rewrite split_join; [| discriminate | exact Hnc].
      cbn [map].
      assert (Hne : (match kv_str kv with [] => true | _ :: _ => false end) = false).
      { unfold kv_str. destruct (fst kv); reflexivity. }
      rewrite Hne.
      replace (kv_str kv :: map kv_str kvs) with (map kv_str (present_opts r order)) by now rewrite Ekvs.
      destruct (deser_opts_client r Hbound order [] 0%Z 0%Z 0%Z) as (acc' & E & Hq & Hp & Hs).
      rewrite E. rewrite Hread. cbn [fst snd].
      rewrite !Hall by lia. cbn [andb].
      unfold apply_opts. cbn [sopts0 s_set s_quiet s_plain s_serverless].
      rewrite Hq, Hp, Hs, !Hall by lia. cbn [andb is_true lookup orb]. rewrite !orb_false_r.
      assert (Hz : forall z : Z, (if negb (z =? 0)%Z then z else 0%Z) = z).
      { intros z. destruct (Z.eqb_spec z 0); simpl; congruence. }
      rewrite !Hz. repeat split; reflexivity.
  Qed.
End Codec.
