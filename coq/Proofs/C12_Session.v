(* C12 over whole sessions: a client sends one command per file (and the mapreduce client an
   option-less "map <query>" first); the server's handleOptions runs once per session.  Every read
   command of the session is decoded to the request the client encoded, whatever precedes it, and
   the session modes are the ones the client asked for. *)
From DT Require Import Lib.Bytes Lib.Split Gen.Consts Model.Proto Proofs.C12_Codec.

Section Session.
  Variables (b64enc : bytes -> bytes) (b64dec : bytes -> option bytes).
  Variables (itoa : Z -> bytes) (atoi : bytes -> option Z).
  Variable regex_compiles : bytes -> bool.
  Variable query_parses : bytes -> bool.
  Hypothesis b64_roundtrip : forall s, b64dec (b64enc s) = Some s.
  Hypothesis b64_alphabet : forall s, ~ In sp (b64enc s) /\ ~ In semicolon (b64enc s).
  Hypothesis atoi_itoa : forall z, atoi (itoa z) = Some z.
  Hypothesis itoa_alphabet : forall z, ~ In sp (itoa z) /\ ~ In colon (itoa z) /\ ~ In eqsign (itoa z) /\ ~ In percent (itoa z).

  Notation command := (command itoa).
  Notation wire := (wire b64enc).
  Notation decode_command := (decode_command b64dec atoi).
  Notation handle_command := (handle_command b64dec atoi regex_compiles query_parses).
  Notation srv_write := (srv_write b64dec atoi regex_compiles query_parses).

  (* what one more command does to the session option state *)
  Definition merge (st st' : sopts) : sopts := if s_set st then st else if s_set st' then st' else st.

  Lemma decode_st st s :
    decode_command st s = (merge st (fst (decode_command sopts0 s)), snd (decode_command sopts0 s)).
  Proof.
    unfold Proto.decode_command.
    repeat match goal with
           | |- context [if ?b then _ else _] => destruct b eqn:?
           | |- context [match ?x with _ => _ end] => destruct x eqn:?
           end; cbn [fst snd]; unfold merge, apply_opts; cbn [sopts0 s_set]; destruct (s_set st); reflexivity.
  Qed.

  Lemma decode0_cases s : fst (decode_command sopts0 s) = sopts0 \/ s_set (fst (decode_command sopts0 s)) = true.
  Proof.
    unfold Proto.decode_command.
    repeat match goal with
           | |- context [if ?b then _ else _] => destruct b eqn:?; cbn [fst snd]
           | |- context [match ?x with _ => _ end] => destruct x eqn:?; cbn [fst snd]
           end; auto.
  Qed.

  Lemma handle_st st s : snd (handle_command st s) = snd (handle_command sopts0 s).
  Proof. unfold Proto.handle_command. rewrite (decode_st st s). destruct (decode_command sopts0 s) as [st' [k|n b a m args|]]; reflexivity. Qed.

  Lemma srv_write_cmd st : forall pre buf rest, ~ In semicolon pre ->
    srv_write st buf (pre ++ semicolon :: rest) =
    let st1 := fst (decode_command st (rev buf ++ pre)) in
    let r := srv_write st1 [] rest in
    (fst (fst r), snd (fst r), (st1, snd (decode_command st (rev buf ++ pre)), snd (handle_command st (rev buf ++ pre))) :: snd r).
  Proof.
    induction pre as [|c pre IH]; intros buf rest H.
    - cbn [app Proto.srv_write]. replace (beqb semicolon semicolon) with true by reflexivity.
      rewrite rev'_rev, app_nil_r. destruct (decode_command st (rev buf)) as [st1 d]. cbn [fst snd].
      destruct (srv_write st1 [] rest) as [[st2 buf2] os]. reflexivity.
    - cbn [app Proto.srv_write]. destruct (beqb_spec c semicolon) as [->|Hn]; [exfalso; apply H; simpl; auto|].
      rewrite IH by (intros Hin; apply H; simpl; auto). cbn [rev]. now rewrite <- app_assoc.
  Qed.

  (* ---- session items ---- *)
  Inductive item := IRead (r : creq) (order : list nat) | IMap (query : bytes).
  Definition item_cmd (i : item) : bytes :=
    match i with IRead r order => command r order | IMap q => B"map " ++ q end.
  Definition session_wire (is : list item) : bytes := flat_map (fun i => wire (item_cmd i)) is.
  Definition expected (i : item) : outcome :=
    match i with
    | IRead r _ => ORead {| q_tail := bytes_eqb (c_mode r) (B"tail"); q_before := c_before r; q_after := c_after r; q_max := c_max r;
                            q_file := c_file r; q_flags := [fst (regex_new (c_pattern r) (c_invert r))];
                            q_pattern := snd (regex_new (c_pattern r) (c_invert r)) |}
    | IMap q => if query_parses q then OMap q else OErr EQuery
    end.
  Definition wf_item (i : item) : Prop :=
    match i with
    | IRead r order => wf_mode (c_mode r) /\ ~ In sp (c_file r) /\ (c_before r <= c_max_before_context)%Z
                       /\ (forall k, k < 6 -> has k order = true) /\ regex_compiles (snd (regex_new (c_pattern r) (c_invert r))) = true
    | IMap q => True
    end.
  Definition modes (st : sopts) : bool * bool * bool := (s_quiet st, s_plain st, s_serverless st).
  Definition item_modes (m : bool * bool * bool) (i : item) : Prop :=
    match i with IRead r _ => (c_quiet r, c_plain r, c_serverless r) = m | IMap _ => True end.
  Definition is_read (i : item) : bool := match i with IRead _ _ => true | IMap _ => false end.

  Definition body (cmd : bytes) : bytes := B"protocol" ++ sp :: c_protocol_compat ++ sp :: B"base64" ++ sp :: b64enc cmd.
  Lemma wire_body cmd : wire cmd = body cmd ++ [semicolon].
  Proof. unfold Proto.wire, body. cbn. reflexivity. Qed.
  Lemma body_nosemi cmd : ~ In semicolon (body cmd).
  Proof.
    unfold body. destruct (b64_alphabet cmd) as [_ Hs].
    apply in_app_not; [nomem|]. apply in_cons_not; [discriminate|].
    apply in_app_not; [nomem|]. apply in_cons_not; [discriminate|].
    apply in_app_not; [nomem|]. apply in_cons_not; [discriminate|]. exact Hs.
  Qed.

  (* one read request, decoded from the initial option state (the single-command theorem, re-read) *)
  Lemma read_decoded r order : wf_item (IRead r order) ->
    snd (handle_command sopts0 (body (command r order))) = expected (IRead r order)
    /\ modes (fst (decode_command sopts0 (body (command r order)))) = (c_quiet r, c_plain r, c_serverless r).
  Proof.
    intros (Hm & Hf & Hb & Hall & Hc).
    pose proof (roundtrip b64enc b64dec itoa atoi regex_compiles query_parses b64_roundtrip b64_alphabet atoi_itoa itoa_alphabet
                          r order Hm Hf Hb Hall Hc) as H.
    cbv zeta in H. rewrite wire_body in H. rewrite srv_write_one in H by apply body_nosemi.
    cbn [rev app fst snd map] in H. destruct H as (_ & Ho & Hq & Hp & Hs).
    inversion Ho as [Ho']. split; [exact Ho'|].
    rewrite fst_handle in Hq, Hp, Hs. unfold modes. now rewrite Hq, Hp, Hs.
  Qed.

  (* the option-less map command leaves the option state alone *)
  Lemma map_decoded q :
    snd (handle_command sopts0 (body (B"map " ++ q))) = expected (IMap q)
    /\ fst (decode_command sopts0 (body (B"map " ++ q))) = sopts0.
  Proof.
    unfold Proto.handle_command, Proto.decode_command, body.
    destruct (b64_alphabet (B"map " ++ q)) as [Hesp _].
    rewrite (split_app_sep sp (B"protocol")) by nomem.
    rewrite (split_app_sep sp c_protocol_compat) by nomem.
    rewrite (split_app_sep sp (B"base64")) by nomem.
    rewrite (split_plain sp (b64enc (B"map " ++ q))) by exact Hesp.
    cbn [length Nat.leb orb nth_b nth_error negb skipn Nat.eqb].
    replace (bytes_eqb (B"protocol") (B"protocol")) with true by reflexivity.
    replace (bytes_eqb c_protocol_compat c_protocol_compat) with true by (symmetry; apply bytes_eqb_refl).
    replace (bytes_eqb (B"base64") (B"base64")) with true by reflexivity.
    cbn [negb orb]. rewrite b64_roundtrip.
    change (B"map " ++ q) with (B"map" ++ sp :: q).
    rewrite (split_app_sep sp (B"map")) by nomem.
    cbn [nth_b nth_error]. replace (split colon (B"map")) with [B"map"] by reflexivity.
    cbn [fst snd]. split; [|reflexivity].
    unfold dispatch.
    replace (bytes_eqb (B"map") (B"grep")) with false by reflexivity.
    replace (bytes_eqb (B"map") (B"cat")) with false by reflexivity.
    replace (bytes_eqb (B"map") (B"tail")) with false by reflexivity.
    replace (bytes_eqb (B"map") (B"map")) with true by reflexivity.
    cbn [orb skipn]. rewrite join_split. reflexivity.
  Qed.

  Lemma item_decoded i : wf_item i ->
    snd (handle_command sopts0 (body (item_cmd i))) = expected i
    /\ (forall m, item_modes m i -> is_read i = true -> modes (fst (decode_command sopts0 (body (item_cmd i)))) = m)
    /\ (is_read i = false -> fst (decode_command sopts0 (body (item_cmd i))) = sopts0).
  Proof.
    destruct i as [r order|q]; intros Hwf.
    - destruct (read_decoded r order Hwf) as [H1 H2]. repeat split; auto; [|discriminate].
      intros m Hm _. cbn [item_modes] in Hm. cbn [item_cmd]. rewrite H2. exact Hm.
    - destruct (map_decoded q) as [H1 H2]. repeat split; auto. discriminate.
  Qed.

  (* the invariant: once a read command was decoded, the session modes are the requested ones *)
  Definition ok_state m (st : sopts) : Prop := st = sopts0 \/ modes st = m.

  Lemma merge_step m i st : wf_item i -> item_modes m i -> ok_state m st ->
    let st1 := merge st (fst (decode_command sopts0 (body (item_cmd i)))) in
    ok_state m st1 /\ (is_read i = true \/ modes st = m -> modes st1 = m).
  Proof.
    intros Hwi Hmi Hst. cbv zeta. destruct (item_decoded i Hwi) as (_ & Hrd & Hmp).
    set (st0 := fst (decode_command sopts0 (body (item_cmd i)))) in *.
    assert (F2 : is_read i = true \/ modes st = m -> modes (merge st st0) = m).
    { intros Hc. unfold merge. destruct (is_read i) eqn:Er.
      - pose proof (Hrd m Hmi eq_refl) as Hm0.
        destruct Hst as [->|Hst]; cbn [sopts0 s_set].
        + destruct (decode0_cases (body (item_cmd i))) as [E|E]; fold st0 in E; [rewrite E in *; cbn [sopts0 s_set]; exact Hm0|rewrite E; exact Hm0].
        + destruct (s_set st); [exact Hst|]. destruct (s_set st0); [exact Hm0|exact Hst].
      - destruct Hc as [Hc|Hc]; [discriminate|]. rewrite (Hmp eq_refl). cbn [sopts0 s_set]. destruct (s_set st); exact Hc. }
    split; [|exact F2].
    destruct (is_read i) eqn:Er; [right; apply F2; now left|].
    destruct Hst as [->|Hst]; [|right; apply F2; now right].
    left. unfold merge. rewrite (Hmp eq_refl). reflexivity.
  Qed.

  Theorem session_from m : forall (is : list item) (st : sopts),
    Forall wf_item is -> Forall (item_modes m) is -> ok_state m st ->
    let res := srv_write st [] (session_wire is) in
    snd (fst res) = [] /\ map snd (snd res) = map expected is
    /\ ok_state m (fst (fst res)) /\ (existsb is_read is = true \/ modes st = m -> modes (fst (fst res)) = m).
  Proof.
    induction is as [|i is IH]; intros st Hwf Hmo Hst; cbv zeta.
    - cbn. repeat split; auto. intros [H|H]; [discriminate|exact H].
    - inversion Hwf as [|x l Hwi Hwf']; subst. inversion Hmo as [|x l Hmi Hmo']; subst.
      change (session_wire (i :: is)) with (wire (item_cmd i) ++ session_wire is). rewrite wire_body, <- app_assoc. cbn [app].
      rewrite srv_write_cmd by apply body_nosemi. cbn [rev app fst snd map].
      destruct (item_decoded i Hwi) as (Ho & _ & _).
      rewrite handle_st, Ho. rewrite (decode_st st). cbn [fst].
      destruct (merge_step m i st Hwi Hmi Hst) as [F1 F2]. cbv zeta in F1, F2.
      set (st1 := merge st (fst (decode_command sopts0 (body (item_cmd i))))) in *.
      specialize (IH st1 Hwf' Hmo' F1). cbv zeta in IH.
      destruct (srv_write st1 [] (session_wire is)) as [[st2 buf2] os]. cbn [fst snd] in *.
      destruct IH as (Hb & Hos & Hok & Hfin). split; [exact Hb|]. split; [now rewrite Hos|]. split; [exact Hok|].
      intros Hc. cbn [existsb] in Hc. apply Hfin.
      destruct Hc as [Hc|Hc]; [apply orb_true_iff in Hc; destruct Hc as [Hc|Hc]; [right; apply F2; now left|now left]|right; apply F2; now right].
  Qed.

  (* a whole session from the start *)
  Theorem session m (is : list item) :
    Forall wf_item is -> Forall (item_modes m) is -> existsb is_read is = true ->
    let res := srv_write sopts0 [] (session_wire is) in
    snd (fst res) = [] /\ map snd (snd res) = map expected is /\ modes (fst (fst res)) = m.
  Proof.
    intros Hwf Hmo Hex. pose proof (session_from m is sopts0 Hwf Hmo (or_introl eq_refl)) as H. cbv zeta in *.
    destruct H as (H1 & H2 & _ & H3). repeat split; auto.
  Qed.
End Session.
