From DT Require Import Lib.Bytes Model.C13_Limiter.

Lemma holders_setph_other s i p n :
  phase_eqb (ph s i) PHolding = false -> phase_eqb p PHolding = false ->
  holders {| tokens := tokens s; ph := setph (ph s) i p |} n = holders s n.
Proof.
  intros H1 H2. unfold holders. f_equal. apply filter_ext. intros x. cbn. unfold setph.
  destruct (Nat.eqb_spec x i) as [->|]; [now rewrite H1, H2|reflexivity].
Qed.

Lemma count_setph (f : nat -> phase) i p n : i < n ->
  length (filter (fun x => phase_eqb (setph f i p x) PHolding) (seq 0 n))
  + (if phase_eqb (f i) PHolding then 1 else 0)
  = length (filter (fun x => phase_eqb (f x) PHolding) (seq 0 n)) + (if phase_eqb p PHolding then 1 else 0).
Proof.
  intros Hi.
  assert (Hgen : forall m lo, lo <= i < lo + m ->
    length (filter (fun x => phase_eqb (setph f i p x) PHolding) (seq lo m)) + (if phase_eqb (f i) PHolding then 1 else 0)
    = length (filter (fun x => phase_eqb (f x) PHolding) (seq lo m)) + (if phase_eqb p PHolding then 1 else 0)).
  { induction m as [|m IH]; intros lo Hr; [lia|]. cbn [seq filter]. unfold setph at 1.
    destruct (Nat.eqb_spec lo i) as [->|Hne].
    - assert (Hs : filter (fun x => phase_eqb (setph f i p x) PHolding) (seq (S i) m)
                   = filter (fun x => phase_eqb (f x) PHolding) (seq (S i) m)).
      { apply filter_ext_in. intros x Hx. apply in_seq in Hx. unfold setph. destruct (Nat.eqb_spec x i); [lia|reflexivity]. }
      rewrite Hs. destruct (phase_eqb p PHolding), (phase_eqb (f i) PHolding); simpl; lia.
    - specialize (IH (S lo) ltac:(lia)). destruct (phase_eqb (f lo) PHolding); simpl; lia. }
  apply Hgen. lia.
Qed.

Section Fixed.
  Variables (cap n : nat).

  (* readers are 0..n-1; the channel length is the number of holders and never exceeds cap *)
  Definition LInv (s : lst) : Prop := tokens s = holders s n /\ tokens s <= cap /\ forall i, n <= i -> ph s i = PIdle.

  Definition in_range (e : lev) : Prop :=
    match e with LStart i | LAcquire i | LCancelWaiting i | LFinish i => i < n end.

  Lemma linv_init : LInv linit.
  Proof.
    unfold LInv, holders. cbn. split; [|split; [lia|auto]].
    induction (seq 0 n); cbn; auto.
  Qed.

  Lemma linv_step s e s' : LInv s -> in_range e -> lstep true cap s e = Some s' -> LInv s'.
  Proof.
    intros (Ht & Hc & Hi) Hr H. unfold LInv, holders in *.
    destruct e as [i|i|i|i]; cbn [lstep in_range] in *; destruct (ph s i) eqn:Ep; try discriminate.
    - inversion H; subst; clear H. cbn [tokens ph]. pose proof (count_setph (ph s) i PWaiting n Hr) as Hcnt.
      rewrite Ep in Hcnt. cbn in Hcnt. split; [lia|]. split; [lia|].
      intros j Hj. unfold setph. destruct (Nat.eqb_spec j i); [lia|auto].
    - destruct (Nat.ltb_spec (tokens s) cap); [|discriminate]. inversion H; subst; clear H. cbn [tokens ph].
      pose proof (count_setph (ph s) i PHolding n Hr) as Hcnt. rewrite Ep in Hcnt. cbn in Hcnt. split; [lia|]. split; [lia|].
      intros j Hj. unfold setph. destruct (Nat.eqb_spec j i); [lia|auto].
    - inversion H; subst; clear H. cbn [tokens ph]. pose proof (count_setph (ph s) i PDone n Hr) as Hcnt.
      rewrite Ep in Hcnt. cbn in Hcnt. split; [lia|]. split; [lia|].
      intros j Hj. unfold setph. destruct (Nat.eqb_spec j i); [lia|auto].
    - inversion H; subst; clear H. cbn [tokens ph]. pose proof (count_setph (ph s) i PDone n Hr) as Hcnt.
      rewrite Ep in Hcnt. cbn in Hcnt. split; [lia|]. split; [lia|].
      intros j Hj. unfold setph. destruct (Nat.eqb_spec j i); [lia|auto].
  Qed.

  Theorem linv_run : forall es s s', LInv s -> Forall in_range es -> lrun true cap s es = Some s' -> LInv s'.
  Proof.
    induction es as [|e es IH]; intros s s' I Hf H; cbn in H; [inversion H; subst; exact I|].
    inversion Hf; subst. destruct (lstep true cap s e) as [s1|] eqn:E; [|discriminate].
    apply (IH s1 s'); [eapply linv_step; eauto|assumption|exact H].
  Qed.

  (* a cancelled waiter neither keeps nor releases a slot *)
  Theorem cancel_waiting_neutral s i s' : lstep true cap s (LCancelWaiting i) = Some s' ->
    tokens s' = tokens s /\ forall j, j <> i -> ph s' j = ph s j.
  Proof.
    cbn. destruct (ph s i); try discriminate. intros H; inversion H; subst. cbn. split; [reflexivity|].
    intros j Hj. unfold setph. destruct (Nat.eqb_spec j i); [contradiction|reflexivity].
  Qed.

  (* no lost slot: whenever fewer than cap reads hold a slot, every waiting read can proceed *)
  Theorem waiter_can_proceed s i : LInv s -> ph s i = PWaiting -> holders s n < cap ->
    exists s', lstep true cap s (LAcquire i) = Some s'.
  Proof.
    intros (Ht & _ & _) Hp Hlt. unfold lstep. rewrite Hp, Ht.
    destruct (holders s n <? cap) eqn:E; [eexists; reflexivity|]. apply Nat.ltb_ge in E. lia.
  Qed.
End Fixed.
