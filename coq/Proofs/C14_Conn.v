From DT Require Import Lib.Bytes Model.C14_Conn.

Definition CInv (max : Z) (s : cst) : Prop :=
  count s = Z.of_nat (length (opened s)) /\ (count s <= Z.max max 0)%Z /\ NoDup (opened s).

Lemma mem_nat_In c l : mem_nat c l = true <-> In c l.
Proof.
  unfold mem_nat. rewrite existsb_exists. split.
  - intros (x & Hx & E). apply Nat.eqb_eq in E. now subst.
  - intros H. exists c. split; [exact H|apply Nat.eqb_refl].
Qed.

Lemma filter_remove_len c l : NoDup l -> In c l ->
  length (filter (fun x => negb (x =? c)) l) = length l - 1 /\ NoDup (filter (fun x => negb (x =? c)) l).
Proof.
  induction l as [|x l IH]; intros Hn Hi; [destruct Hi|]. inversion Hn as [|? ? Hx Hl]; subst. cbn [filter].
  destruct (Nat.eqb_spec x c) as [->|Hne]; cbn [negb].
  - assert (Hsame : filter (fun y => negb (y =? c)) l = l).
    { clear IH Hn Hi. induction l as [|y l IHl]; [reflexivity|]. inversion Hl; subst. cbn [filter].
      destruct (Nat.eqb_spec y c) as [->|]; [exfalso; apply Hx; now left|]. cbn. f_equal. apply IHl; auto.
      intros H; apply Hx; now right. }
    rewrite Hsame. simpl. split; [lia|exact Hl].
  - destruct Hi as [Hi|Hi]; [congruence|]. destruct (IH Hl Hi) as [H1 H2]. cbn [length].
    assert (Hpos : 0 < length l) by (destruct l; [destruct Hi|simpl; lia]).
    split; [lia|].
    constructor; [|exact H2]. intros Hin. apply filter_In in Hin. tauto.
Qed.

Lemma cinv_init max : CInv max cinit.
Proof. unfold CInv. cbn. split; [reflexivity|]. split; [lia|constructor]. Qed.

Lemma cinv_step max s e : CInv max s -> CInv max (fst (cstep max s e)).
Proof.
  intros (Hc & Hm & Hn). destruct e as [c|c]; cbn [cstep].
  - destruct (mem_nat c (opened s)) eqn:Em; [now repeat split|].
    destruct (Z.ltb_spec (count s) max); [|now repeat split].
    unfold CInv. cbn [fst count opened]. repeat split; [rewrite Hc; cbn [length]; lia|lia|].
    constructor; [|exact Hn]. intros Hin. apply mem_nat_In in Hin. congruence.
  - destruct (mem_nat c (opened s)) eqn:Em; [|now repeat split].
    apply mem_nat_In in Em. destruct (filter_remove_len c (opened s) Hn Em) as [Hl Hnd].
    unfold CInv. cbn [fst count opened]. repeat split; [|lia|exact Hnd]. rewrite Hl, Hc. destruct (opened s); [destruct Em|cbn [length]; lia].
Qed.

Theorem cinv_run max : forall es s, CInv max s -> CInv max (crun max s es).
Proof. induction es as [|e es IH]; intros s I; [exact I|]. cbn. apply IH. now apply cinv_step. Qed.

(* acceptance: a new connection is let in iff fewer than max are being served *)
Theorem accept_iff max s c : CInv max s -> ~ In c (opened s) ->
  snd (cstep max s (CAccept c)) = true <-> (Z.of_nat (length (opened s)) < max)%Z.
Proof.
  intros (Hc & _ & _) Hn. cbn [cstep].
  destruct (mem_nat c (opened s)) eqn:Em; [apply mem_nat_In in Em; contradiction|].
  rewrite <- Hc. destruct (Z.ltb_spec (count s) max) as [Hl|Hl]; cbn [snd].
  - split; auto.
  - split; [discriminate|lia].
Qed.

(* release: every served connection that ends gives its slot back, exactly once *)
Theorem end_releases max s c : CInv max s -> In c (opened s) ->
  count (fst (cstep max s (CEnd c))) = (count s - 1)%Z /\ ~ In c (opened (fst (cstep max s (CEnd c)))).
Proof.
  intros _ Hi. cbn. apply mem_nat_In in Hi. rewrite Hi. cbn. split; [reflexivity|].
  intros H. apply filter_In in H. destruct H as [_ H]. rewrite Nat.eqb_refl in H. discriminate.
Qed.
