From DT Require Import Lib.Bytes Model.C14_Proto.

Lemma ended_absorbing es : fold_left sstep es PEnded = PEnded.
Proof. induction es as [|e es IH]; [reflexivity|]. cbn [fold_left]. destruct e; exact IH. Qed.

(* a connection ends at most once: after it has ended nothing brings it back (its slot is given back once) *)
Theorem ends_once es1 es2 : holds_slot (srun es1) = false -> holds_slot (srun (es1 ++ es2)) = false.
Proof.
  unfold srun. rewrite fold_left_app. destruct (fold_left sstep es1 PHandshake); try discriminate.
  intros _. now rewrite ended_absorbing.
Qed.

(* channel-opens of any type and shell requests never end a connection: the slot stays taken *)
Definition harmless (e : sev) : bool := match e with SChan _ | SReq true | SAuthOk => true | _ => false end.
Lemma harmless_keeps p e : harmless e = true -> holds_slot p = true -> holds_slot (sstep p e) = true.
Proof. destruct p as [|c h|], e as [| |[|]|[|]| |]; try discriminate; intros _ H; try reflexivity; destruct c; reflexivity. Qed.
Theorem harmless_run : forall es p, forallb harmless es = true -> holds_slot p = true -> holds_slot (fold_left sstep es p) = true.
Proof.
  induction es as [|e es IH]; intros p H Hp; [exact Hp|]. cbn in H. apply andb_true_iff in H. destruct H as [He Hes].
  cbn [fold_left]. apply IH; [exact Hes|now apply harmless_keeps].
Qed.

(* anything but a shell request on an accepted channel ends the connection *)
Theorem other_request_ends c h : sstep (PServing (S c) h) (SReq false) = PEnded.
Proof. reflexivity. Qed.
(* so does a failed handshake, the client going away, and a handler finishing *)
Theorem auth_fail_ends : sstep PHandshake SAuthFail = PEnded.
Proof. reflexivity. Qed.
Theorem client_close_ends p : sstep p SClientClose = PEnded.
Proof. destruct p; reflexivity. Qed.
Theorem handler_done_ends c h : sstep (PServing c (S h)) SHandlerDone = PEnded.
Proof. reflexivity. Qed.
