From DT Require Import Lib.Bytes Model.C15_Outfile.

Definition touches (p : path) (o : fsop) : bool :=
  match o with
  | OpenTrunc q | OpenAppend q | Write q _ => path_eqb q p
  | Rename a b => path_eqb a p || path_eqb b p
  end.

Lemma path_eqb_refl p : path_eqb p p = true. Proof. destruct p; reflexivity. Qed.
Lemma path_eqb_eq a b : path_eqb a b = true <-> a = b.
Proof. destruct a, b; split; intros H; try reflexivity; discriminate. Qed.

Lemma apply_untouched f o p : touches p o = false -> apply_op f o p = f p.
Proof.
  destruct o as [q|q|q b|a b]; cbn [touches apply_op]; intros H.
  - unfold fs_set. destruct (path_eqb p q) eqn:E; [|reflexivity].
    apply path_eqb_eq in E. subst. rewrite path_eqb_refl in H. discriminate.
  - destruct (f q); [reflexivity|]. unfold fs_set. destruct (path_eqb p q) eqn:E; [|reflexivity].
    apply path_eqb_eq in E. subst. rewrite path_eqb_refl in H. discriminate.
  - destruct (f q); [|reflexivity]. unfold fs_set. destruct (path_eqb p q) eqn:E; [|reflexivity].
    apply path_eqb_eq in E. subst. rewrite path_eqb_refl in H. discriminate.
  - apply orb_false_iff in H. destruct H as [H1 H2]. destruct (f a); [|reflexivity]. unfold fs_set.
    destruct (path_eqb p a) eqn:E1; [apply path_eqb_eq in E1; subst; rewrite path_eqb_refl in H1; discriminate|].
    destruct (path_eqb p b) eqn:E2; [apply path_eqb_eq in E2; subst; rewrite path_eqb_refl in H2; discriminate|]. reflexivity.
Qed.

Lemma apply_ops_untouched : forall ops f p, forallb (fun o => negb (touches p o)) ops = true -> apply_ops f ops p = f p.
Proof.
  unfold apply_ops. induction ops as [|o ops IH]; intros f p H; [reflexivity|]. cbn [forallb] in H. apply andb_true_iff in H. destruct H as [H1 H2].
  cbn [fold_left]. rewrite IH by assumption. apply apply_untouched. now apply negb_true_iff.
Qed.

Lemma firstn_forallb {A} (P : A -> bool) : forall n l, forallb P l = true -> forallb P (firstn n l) = true.
Proof.
  induction n as [|n IH]; intros l H; [reflexivity|]. destruct l as [|x l]; [reflexivity|]. cbn in *.
  apply andb_true_iff in H. destruct H as [H1 H2]. now rewrite H1, IH.
Qed.

Lemma line_writes_untouched p q vals : path_eqb p q = false -> forallb (fun o => negb (touches q o)) (line_writes p vals) = true.
Proof.
  intros H. induction vals as [|v r IH]; [cbn; now rewrite H|].
  destruct r as [|w r']; [cbn; now rewrite H|]. cbn [line_writes forallb touches]. rewrite H. cbn. exact IH.
Qed.
Lemma rows_writes_untouched p q rows : path_eqb p q = false -> forallb (fun o => negb (touches q o)) (rows_writes p rows) = true.
Proof.
  intros H. unfold rows_writes. induction rows as [|r rows IH]; [reflexivity|]. cbn [flat_map].
  rewrite forallb_app, IH, line_writes_untouched by assumption. reflexivity.
Qed.

Lemma fs_set_same f p v : fs_set f p v p = v.
Proof. unfold fs_set. now rewrite path_eqb_refl. Qed.

Lemma write_content f p c b : f p = Some c -> apply_op f (Write p b) p = Some (c ++ b).
Proof. intros H. cbn [apply_op]. rewrite H. apply fs_set_same. Qed.

Lemma apply_ops_cons f o ops : apply_ops f (o :: ops) = apply_ops (apply_op f o) ops.
Proof. reflexivity. Qed.
Lemma apply_ops_app f a b : apply_ops f (a ++ b) = apply_ops (apply_ops f a) b.
Proof. unfold apply_ops. apply fold_left_app. Qed.

(* sequential writes of a line append exactly the line's bytes *)
Lemma line_writes_content p vals : forall f c, f p = Some c -> apply_ops f (line_writes p vals) p = Some (c ++ line_bytes vals).
Proof.
  induction vals as [|v r IH]; intros f c Hc.
  - cbn [line_writes line_bytes]. rewrite apply_ops_cons. cbn [apply_ops fold_left]. now apply write_content.
  - destruct r as [|w r'].
    + cbn [line_writes line_bytes]. rewrite !apply_ops_cons. cbn [apply_ops fold_left].
      rewrite (write_content _ p (c ++ v) nlc) by now apply write_content. now rewrite <- app_assoc.
    + change (line_writes p (v :: w :: r')) with (Write p v :: Write p comma :: line_writes p (w :: r')).
      change (line_bytes (v :: w :: r')) with (v ++ comma ++ line_bytes (w :: r')).
      rewrite !apply_ops_cons.
      rewrite (IH _ ((c ++ v) ++ comma)).
      * now rewrite <- !app_assoc.
      * apply write_content. now apply write_content.
Qed.
Lemma rows_writes_content p : forall rows f c, f p = Some c -> apply_ops f (rows_writes p rows) p = Some (c ++ rows_bytes rows).
Proof.
  induction rows as [|r rows IH]; intros f c Hc; [cbn; now rewrite app_nil_r|].
  change (rows_writes p (r :: rows)) with (line_writes p r ++ rows_writes p rows).
  change (rows_bytes (r :: rows)) with (line_bytes r ++ rows_bytes rows).
  rewrite apply_ops_app. rewrite (IH _ _ (line_writes_content p r f c Hc)). now rewrite <- app_assoc.
Qed.

(* ---- non-append mode: the outfile path is touched by one operation only, the final rename ---- *)
Theorem nonappend_atomic f q final header rows n :
  let ops := write_result f q false final header rows in
  crash_after f ops n POut = f POut
  \/ (final = true /\ crash_after f ops n POut = Some (complete header rows)).
Proof.
  cbv zeta. unfold write_result, result_ops, crash_after.
  set (pre := query_ops q ++ OpenTrunc POutTmp :: line_writes POutTmp header ++ rows_writes POutTmp rows).
  assert (Hpre : forallb (fun o => negb (touches POut o)) pre = true).
  { unfold pre. rewrite forallb_app. cbn [query_ops forallb touches path_eqb negb orb andb].
    rewrite forallb_app, line_writes_untouched, rows_writes_untouched by reflexivity. reflexivity. }
  destruct final.
  - replace (query_ops q ++ OpenTrunc POutTmp :: line_writes POutTmp header ++ rows_writes POutTmp rows ++ [Rename POutTmp POut])
      with (pre ++ [Rename POutTmp POut]) by (unfold pre; rewrite <- !app_assoc; cbn; now rewrite <- app_assoc).
    destruct (Nat.le_gt_cases n (length pre)) as [Hle|Hgt].
    + left. rewrite firstn_app. replace (n - length pre) with 0 by lia. cbn [firstn]. rewrite app_nil_r.
      apply apply_ops_untouched. now apply firstn_forallb.
    + right. split; [reflexivity|]. rewrite firstn_all2 by (rewrite app_length; change (length [Rename POutTmp POut]) with 1; lia).
      rewrite apply_ops_app.
      assert (Htmp : apply_ops f pre POutTmp = Some (complete header rows)).
      { unfold pre. rewrite apply_ops_app, apply_ops_cons, apply_ops_app.
        set (f1 := apply_op (apply_ops f (query_ops q)) (OpenTrunc POutTmp)).
        assert (H1 : f1 POutTmp = Some []) by (unfold f1; cbn [apply_op]; apply fs_set_same).
        rewrite (rows_writes_content POutTmp rows _ _ (line_writes_content POutTmp header f1 [] H1)). reflexivity. }
      rewrite apply_ops_cons. cbn [apply_ops fold_left apply_op]. rewrite Htmp.
      unfold fs_set. cbn. reflexivity.
  - left. rewrite app_nil_r. fold pre. apply apply_ops_untouched. now apply firstn_forallb.
Qed.

(* the .query file: absent/old, or the complete query text - never a prefix *)
Theorem query_atomic f q append final header rows n :
  let ops := write_result f q append final header rows in
  crash_after f ops n PQuery = f PQuery \/ crash_after f ops n PQuery = Some q.
Proof.
  cbv zeta. unfold write_result, crash_after.
  set (rest := result_ops append final _ header rows).
  assert (Hrest : forallb (fun o => negb (touches PQuery o)) rest = true).
  { unfold rest, result_ops. destruct append.
    - cbn [forallb touches path_eqb negb andb]. rewrite forallb_app, rows_writes_untouched by reflexivity.
      destruct (header_needed _); [rewrite line_writes_untouched by reflexivity|]; reflexivity.
    - cbn [forallb touches path_eqb negb andb]. rewrite !forallb_app, line_writes_untouched, rows_writes_untouched by reflexivity.
      destruct final; reflexivity. }
  destruct n as [|[|[|n]]].
  - left. reflexivity.
  - left. cbn. unfold fs_set. reflexivity.
  - left. cbn. unfold fs_set. cbn. reflexivity.
  - right. cbn [query_ops app firstn]. unfold apply_ops. cbn [fold_left].
    fold (apply_ops (apply_op (apply_op (apply_op f (OpenTrunc PQueryTmp)) (Write PQueryTmp q)) (Rename PQueryTmp PQuery)) (firstn n rest)).
    rewrite apply_ops_untouched by now apply firstn_forallb.
    cbn. unfold fs_set. cbn. reflexivity.
Qed.

(* append mode: after every prefix of the operations the outfile extends what was there *)
Definition grow_only (o : fsop) : bool :=
  match o with
  | OpenTrunc p => negb (path_eqb p POut)
  | Rename a b => negb (path_eqb a POut) && negb (path_eqb b POut)
  | _ => true
  end.

Lemma grow_step f o c : grow_only o = true -> f POut = Some c -> exists d, apply_op f o POut = Some (c ++ d).
Proof.
  intros Hg Hc. destruct o as [q|q|q b|a b]; cbn [apply_op grow_only] in *.
  - destruct q; try discriminate; exists []; unfold fs_set; cbn; rewrite ?Hc; now rewrite app_nil_r.
  - destruct (f q) eqn:E; [exists []; rewrite Hc; now rewrite app_nil_r|]. destruct q; [congruence| | |]; exists []; unfold fs_set; cbn; rewrite ?Hc; now rewrite app_nil_r.
  - destruct q.
    + rewrite Hc. exists b. apply fs_set_same.
    + destruct (f POutTmp); exists []; unfold fs_set; cbn; rewrite ?Hc; now rewrite app_nil_r.
    + destruct (f PQuery); exists []; unfold fs_set; cbn; rewrite ?Hc; now rewrite app_nil_r.
    + destruct (f PQueryTmp); exists []; unfold fs_set; cbn; rewrite ?Hc; now rewrite app_nil_r.
  - destruct a, b; try discriminate;
      match goal with |- context [match f ?x with _ => _ end] => destruct (f x) end;
      exists []; unfold fs_set; cbn; rewrite ?Hc; now rewrite app_nil_r.
Qed.

Lemma grow_ops : forall ops f c, forallb grow_only ops = true -> f POut = Some c -> exists d, apply_ops f ops POut = Some (c ++ d).
Proof.
  induction ops as [|o ops IH]; intros f c Hg Hc; [exists []; cbn; now rewrite app_nil_r|].
  cbn [forallb] in Hg. apply andb_true_iff in Hg. destruct Hg as [H1 H2].
  destruct (grow_step f o c H1 Hc) as [d Hd]. rewrite apply_ops_cons.
  destruct (IH _ _ H2 Hd) as [e He]. exists (d ++ e). now rewrite He, app_assoc.
Qed.

Lemma line_writes_grow p vals : forallb grow_only (line_writes p vals) = true.
Proof. induction vals as [|v r IH]; [reflexivity|]. destruct r; [reflexivity|]. cbn [line_writes forallb grow_only]. exact IH. Qed.
Lemma rows_writes_grow p rows : forallb grow_only (rows_writes p rows) = true.
Proof. unfold rows_writes. induction rows as [|r rows IH]; [reflexivity|]. cbn [flat_map]. now rewrite forallb_app, line_writes_grow, IH. Qed.

Theorem append_prefix f q final header rows n c : f POut = Some c ->
  exists d, crash_after f (write_result f q true final header rows) n POut = Some (c ++ d).
Proof.
  intros Hc. unfold crash_after. apply grow_ops; [|exact Hc]. apply firstn_forallb.
  unfold write_result, result_ops. rewrite forallb_app. cbn [query_ops forallb grow_only path_eqb negb andb].
  rewrite forallb_app, rows_writes_grow. destruct (header_needed _); [rewrite line_writes_grow|]; reflexivity.
Qed.

(* append mode without a crash: the header is written iff the file was absent or empty *)
Theorem append_header_rule f q final header rows :
  let f' := apply_ops f (write_result f q true final header rows) in
  f' POut = Some (match f POut with
                  | Some (x :: c) => (x :: c) ++ rows_bytes rows
                  | _ => line_bytes header ++ rows_bytes rows
                  end).
Proof.
  cbv zeta. unfold write_result. rewrite apply_ops_app.
  set (f1 := apply_ops f (query_ops q)).
  assert (H1 : f1 POut = f POut).
  { unfold f1. apply apply_ops_untouched. reflexivity. }
  unfold result_ops, header_needed. rewrite H1. rewrite apply_ops_cons.
  destruct (f POut) as [[|x c]|] eqn:E.
  - set (f2 := apply_op f1 (OpenAppend POut)). assert (H2 : f2 POut = Some []) by (unfold f2; cbn [apply_op]; now rewrite H1).
    rewrite apply_ops_app. rewrite (rows_writes_content POut rows _ _ (line_writes_content POut header f2 [] H2)). reflexivity.
  - set (f2 := apply_op f1 (OpenAppend POut)). assert (H2 : f2 POut = Some (x :: c)) by (unfold f2; cbn [apply_op]; now rewrite H1).
    cbn [app]. now rewrite (rows_writes_content POut rows f2 _ H2).
  - set (f2 := apply_op f1 (OpenAppend POut)). assert (H2 : f2 POut = Some []) by (unfold f2; cbn [apply_op]; rewrite H1; apply fs_set_same).
    rewrite apply_ops_app. rewrite (rows_writes_content POut rows _ _ (line_writes_content POut header f2 [] H2)). reflexivity.
Qed.
