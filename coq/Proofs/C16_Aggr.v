From DT Require Import Lib.Bytes Lib.Split Gen.Consts Model.C16_Color Model.C16_Aggr.

(* ---- cutting at a multi-byte separator loses nothing ---- *)
Lemma cut_seq_fuel_spec : forall fuel sep cur s a rest,
  cut_seq_fuel fuel sep cur s = Some (a, rest) -> rev cur ++ s = a ++ sep ++ rest.
Proof.
  induction fuel as [|f IH]; intros sep cur s a rest H; [discriminate|]. cbn [cut_seq_fuel] in H.
  destruct s as [|c r]; [discriminate|]. destruct (bprefix sep (c :: r)) eqn:E.
  - inversion H; subst. rewrite rev'_rev. f_equal.
    apply is_prefix_spec in E; [|apply beqb_eq]. destruct E as [x Hx]. rewrite Hx at 1.
    rewrite Hx. rewrite skipn_app, skipn_all, Nat.sub_diag. reflexivity.
  - apply IH in H. cbn [rev] in H. rewrite <- app_assoc in H. exact H.
Qed.
Lemma cut_seq_spec sep s a rest : cut_seq sep s = Some (a, rest) -> s = a ++ sep ++ rest.
Proof. intros H. apply cut_seq_fuel_spec in H. exact H. Qed.

Fixpoint join_seq (sep : bytes) (l : list bytes) : bytes :=
  match l with [] => [] | [a] => a | a :: r => a ++ sep ++ join_seq sep r end.
Lemma split_seq_fuel_nonempty fuel sep s : split_seq_fuel fuel sep s <> [].
Proof. destruct fuel as [|f]; cbn [split_seq_fuel]; [discriminate|]. destruct (cut_seq sep s) as [[a r]|]; discriminate. Qed.
Lemma split_seq_fuel_join : forall fuel sep s, join_seq sep (split_seq_fuel fuel sep s) = s.
Proof.
  induction fuel as [|f IH]; intros sep s; [reflexivity|]. cbn [split_seq_fuel].
  destruct (cut_seq sep s) as [[a rest]|] eqn:E; [|reflexivity].
  apply cut_seq_spec in E. specialize (IH sep rest).
  destruct (split_seq_fuel f sep rest) as [|x l] eqn:Es.
  - exfalso. exact (split_seq_fuel_nonempty f sep rest Es).
  - change (join_seq sep (a :: x :: l)) with (a ++ sep ++ join_seq sep (x :: l)). now rewrite IH.
Qed.
Theorem split_seq_join sep s : join_seq sep (split_seq sep s) = s.
Proof. apply split_seq_fuel_join. Qed.

(* ---- no AGGREGATE record panics the client ---- *)
Lemma client_aggregate_total p : client_aggregate p <> APanic.
Proof.
  unfold client_aggregate. destruct (length (split_seq c_aggregate_delimiter p) <? 4) eqn:E; [discriminate|].
  apply Nat.ltb_ge in E. destruct (split_seq c_aggregate_delimiter p) as [|a [|b l]]; cbn in E; try lia.
  cbn [nth_error]. destruct (go_atoi b); discriminate.
Qed.
Theorem handle_aggregate_total msg : handle_aggregate msg <> APanic.
Proof.
  unfold handle_aggregate. destruct (length (splitn3 msg) =? 3) eqn:E; cbn [negb]; [|discriminate].
  apply Nat.eqb_eq in E. destruct (splitn3 msg) as [|a [|b [|c [|d l]]]]; cbn in E; try lia.
  cbn [nth_error]. apply client_aggregate_total.
Qed.
Theorem stream_no_panic s : Forall (fun r => r <> APanic) (stream_results s).
Proof. unfold stream_results. apply Forall_forall. intros r Hin. apply in_map_iff in Hin. destruct Hin as (m & <- & _). apply handle_aggregate_total. Qed.

(* ---- what is accepted: a record is aggregated iff it has the three fields and its payload at least four parts with a
   decimal sample count; the group key, count and key/value parts are the payload's, byte for byte ---- *)
Theorem client_aggregate_ok p key n fields : client_aggregate p = AOk key n fields ->
  exists cnt rest, split_seq c_aggregate_delimiter p = key :: cnt :: rest /\ 2 <= length rest /\ go_atoi cnt = Some n /\ fields = make_fields rest.
Proof.
  unfold client_aggregate. destruct (length (split_seq c_aggregate_delimiter p) <? 4) eqn:E; [discriminate|].
  apply Nat.ltb_ge in E. destruct (split_seq c_aggregate_delimiter p) as [|a [|b l]]; cbn in E; try lia.
  cbn [nth_error skipn]. destruct (go_atoi b) eqn:Ea; [|discriminate]. intros H; inversion H; subst.
  exists b, l. repeat split; auto. lia.
Qed.

Lemma make_fields_in parts k v : In (k, v) (make_fields parts) -> exists p, In p parts /\ p = k ++ c_aggregate_kv_delimiter ++ v.
Proof.
  induction parts as [|p r IH]; cbn [make_fields]; [intros []|].
  destruct (cut_seq c_aggregate_kv_delimiter p) as [[a b]|] eqn:E.
  - intros [H|H]; [inversion H; subst; exists p; split; [now left|now apply cut_seq_spec]|].
    destruct (IH H) as (q & Hq & He). exists q. split; [now right|exact He].
  - intros H. destruct (IH H) as (q & Hq & He). exists q. split; [now right|exact He].
Qed.
