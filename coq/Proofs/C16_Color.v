From DT Require Import Lib.Bytes Lib.Split Gen.Consts Model.C16_Color.

Lemma trim_nl_spec t : let '(body, nl) := trim_nl t in t = body ++ (if nl then [nlb] else []).
Proof.
  unfold trim_nl. rewrite rev'_rev. destruct (rev t) as [|c r] eqn:E.
  - now rewrite app_nil_r.
  - destruct (beqb_spec c nlb) as [->|Hn]; [|now rewrite app_nil_r].
    rewrite rev'_rev. rewrite <- (rev_involutive t), E. reflexivity.
Qed.

Lemma texts_app a b : texts (a ++ b) = texts a ++ texts b.
Proof. induction a as [|[c|t] a IH]; simpl; auto. now rewrite IH, app_assoc. Qed.

Lemma texts_paint t : texts (paint t) = t.
Proof.
  unfold paint. pose proof (trim_nl_spec t) as H. destruct (trim_nl t) as [body nl].
  rewrite texts_app. simpl. rewrite app_nil_r. destruct nl; simpl; rewrite H; [reflexivity|now rewrite !app_nil_r].
Qed.

Lemma texts_paint_fields : forall fs, texts (paint_fields fs) = join_with bar fs.
Proof.
  induction fs as [|f r IH]; [reflexivity|].
  destruct r as [|g r']; [apply texts_paint|].
  change (paint_fields (f :: g :: r')) with (paint f ++ paint [bar] ++ paint_fields (g :: r')).
  rewrite !texts_app, !texts_paint, IH. reflexivity.
Qed.

Lemma splitn2_join sep : forall s a rest, splitn2 sep s = Some (a, rest) -> s = a ++ sep :: rest.
Proof.
  intros s. unfold splitn2.
  assert (H : forall cur a rest, splitn2_acc sep cur s = Some (a, rest) -> rev cur ++ s = a ++ sep :: rest).
  { induction s as [|c r IH]; intros cur a rest H; simpl in H; [discriminate|].
    destruct (beqb_spec c sep) as [->|Hn].
    - inversion H; subst. now rewrite rev'_rev.
    - specialize (IH (c :: cur) a rest H). simpl in IH. now rewrite <- app_assoc in IH. }
  intros a rest Hs. apply (H [] a rest Hs).
Qed.

Lemma join_splitn : forall n s, 0 < n -> join_with bar (splitn n s) = s.
Proof.
  induction n as [|n IH]; intros s Hn; [lia|].
  destruct n as [|k]; [reflexivity|].
  change (splitn (S (S k)) s) with (match splitn2 bar s with Some (a, rest) => a :: splitn (S k) rest | None => [s] end).
  destruct (splitn2 bar s) as [[a rest]|] eqn:E; [|reflexivity].
  pose proof (IH rest ltac:(lia)) as Hr.
  destruct (splitn (S k) rest) as [|x xs] eqn:Es.
  - destruct k; simpl in Es; [discriminate|destruct (splitn2 bar rest) as [[? ?]|]; discriminate].
  - change (join_with bar (a :: x :: xs)) with (a ++ bar :: join_with bar (x :: xs)).
    rewrite Hr. symmetry. now apply splitn2_join.
Qed.

(* colouring only inserts codes: the text parts, concatenated, are the message *)
Theorem colorfy_text fixed line segs : colorfy fixed line = COk segs -> texts segs = line.
Proof.
  unfold colorfy.
  set (need := if bprefix (B"REMOTE") line then 6 else if bprefix (B"CLIENT") line then 3
               else if bprefix (B"SERVER") line then 3 else 0).
  destruct (Nat.eqb_spec need 0) as [E0|E0].
  - intros H; inversion H; subst. apply texts_paint.
  - cbv zeta. destruct (length (splitn need line) =? need).
    + intros H; inversion H; subst. rewrite texts_paint_fields. apply join_splitn. lia.
    + destruct fixed; [|discriminate]. intros H; inversion H; subst. apply texts_paint.
Qed.

Theorem colorfy_fixed_total line : colorfy true line <> CPanic.
Proof.
  unfold colorfy. destruct (_ =? 0); [discriminate|]. cbv zeta.
  destruct (_ =? _); discriminate.
Qed.

Theorem mapr_write_fixed_total : forall s buf nl out, mapr_write true buf nl s out <> None.
Proof.
  induction s as [|c r IH]; intros buf nl out; simpl; [discriminate|].
  destruct (beqb c nlb); [apply IH|]. destruct (beqb c delimb); [|apply IH].
  destruct (rev' buf) as [|c0 m]; [apply IH|]. destruct (beqb c0 x41); apply IH.
Qed.

(* ---- finite sweep: stripping the coloured rendering = stripping the message, for every
   message of at most 5 symbols over an alphabet that contains every byte the painter and the
   stripper treat specially ---- *)
Definition alphabet : list bytes :=
  [B"REMOTE"; B"SERVER"; [bar]; [nlb]; [esc]; [x5b]; [x33]; [x6d]; [x61]].
Fixpoint words (n : nat) : list bytes :=
  match n with
  | 0 => [[]]
  | S k => [] :: flat_map (fun w => map (fun a => a ++ w) alphabet) (words k)
  end.
Definition strip_ok (m : bytes) : bool :=
  match colorfy true m with
  | COk segs => bytes_eqb (strip_sgr (flatten segs)) (strip_sgr m)
  | CPanic => false
  end.
Lemma strip_sweep_5 : forallb strip_ok (words 5) = true.
Proof. vm_compute. reflexivity. Qed.
