(* C16 — the unbounded stripping theorem: removing the SGR sequences from the coloured rendering of
   a message gives the same bytes as removing them from the message itself. *)
From DT Require Import Lib.Bytes Lib.Split Gen.Consts Model.C16_Color Proofs.C16_Color.

(* a byte that can neither continue nor close an escape sequence that is being scanned *)
Definition neutral (x : byte) : Prop := x <> x5b /\ is_param x = false /\ x <> x6d.
Definition good (X : bytes) : Prop := X = [] \/ exists x r, X = x :: r /\ neutral x.

Lemma neutral_esc : neutral esc.   Proof. repeat split; try discriminate. Qed.
Lemma neutral_nl : neutral nlb.    Proof. repeat split; try discriminate. Qed.
Lemma neutral_bar : neutral bar.   Proof. repeat split; try discriminate. Qed.

Lemma sgr_tail_shorter : forall s rest, sgr_tail s = Some rest -> length rest < length s.
Proof.
  induction s as [|c r IH]; intros rest H; [discriminate|]. cbn [sgr_tail] in H.
  destruct (beqb c x6d); [injection H as <-; cbn; lia|].
  destruct (is_param c); [|discriminate]. apply IH in H. cbn. lia.
Qed.

Lemma sgr_tail_app : forall r X, good X ->
  sgr_tail (r ++ X) = match sgr_tail r with Some rest => Some (rest ++ X) | None => None end.
Proof.
  induction r as [|c r IH]; intros X HX.
  - cbn [app sgr_tail]. destruct HX as [->|(x & r' & -> & Hx1 & Hx2 & Hx3)]; [reflexivity|].
    cbn [sgr_tail]. destruct (beqb_spec x x6d); [contradiction|]. now rewrite Hx2.
  - cbn [app sgr_tail]. destruct (beqb c x6d); [reflexivity|]. destruct (is_param c); [now apply IH|reflexivity].
Qed.

(* enough fuel is enough *)
Lemma strip_fuel_enough : forall n s f1 f2, length s <= n -> length s <= f1 -> length s <= f2 ->
  strip_fuel f1 s = strip_fuel f2 s.
Proof.
  induction n as [|n IH]; intros s f1 f2 Hn H1 H2.
  - destruct s; [|cbn in Hn; lia]. destruct f1, f2; reflexivity.
  - destruct s as [|c r]; [destruct f1, f2; reflexivity|]. cbn [length] in *.
    destruct f1 as [|f1]; [lia|]. destruct f2 as [|f2]; [lia|]. cbn [strip_fuel].
    destruct (beqb c esc).
    + destruct r as [|d r']; [reflexivity|]. cbn [length] in *.
      destruct (beqb d x5b).
      * destruct (sgr_tail r') as [rest|] eqn:E.
        -- apply sgr_tail_shorter in E. apply IH; lia.
        -- f_equal. apply IH; cbn [length]; lia.
      * f_equal. apply IH; cbn [length]; lia.
    + f_equal. apply IH; lia.
Qed.

Lemma strip_sgr_fuel s f : length s <= f -> strip_fuel f s = strip_sgr s.
Proof. intros H. unfold strip_sgr. apply (strip_fuel_enough (length s)); lia. Qed.

(* cutting in front of a neutral byte (or at the end) does not change what is stripped *)
Lemma strip_split_fuel : forall n t X f f1 f2, length t <= n -> good X ->
  length (t ++ X) <= f -> length t <= f1 -> length X <= f2 ->
  strip_fuel f (t ++ X) = strip_fuel f1 t ++ strip_fuel f2 X.
Proof.
  induction n as [|n IH]; intros t X f f1 f2 Hn HX Hf H1 H2.
  - destruct t; [|cbn in Hn; lia]. cbn [app]. replace (strip_fuel f1 []) with (@nil byte) by (destruct f1; reflexivity).
    cbn [app] in Hf. apply (strip_fuel_enough (length X)); lia.
  - destruct t as [|c r].
    + cbn [app]. replace (strip_fuel f1 []) with (@nil byte) by (destruct f1; reflexivity).
      cbn [app] in Hf. apply (strip_fuel_enough (length X)); lia.
    + cbn [app length] in *. rewrite app_length in Hf.
      destruct f as [|f]; [lia|]. destruct f1 as [|f1]; [lia|]. cbn [strip_fuel].
      destruct (beqb c esc) eqn:Ec.
      * destruct r as [|d r'].
        -- (* the text ends with ESC *)
           cbn [app]. destruct HX as [->|(x & rx & -> & Hx1 & Hx2 & Hx3)].
           ++ cbn. destruct f2; reflexivity.
           ++ destruct (beqb_spec x x5b); [contradiction|]. cbn [app]. f_equal.
              cbn [length] in *. apply (strip_fuel_enough (S (length rx))); cbn [length]; lia.
        -- cbn [app length] in *. destruct (beqb d x5b) eqn:Ed.
           ++ rewrite sgr_tail_app by exact HX. destruct (sgr_tail r') as [rest|] eqn:E.
              ** pose proof (sgr_tail_shorter _ _ E). apply IH; try lia; [exact HX|rewrite app_length; lia].
              ** cbn [app]. f_equal.
                 change (d :: r' ++ X) with ((d :: r') ++ X). apply IH; cbn [length]; try lia; [exact HX|rewrite app_length; cbn [length]; lia].
           ++ cbn [app]. f_equal. change (d :: r' ++ X) with ((d :: r') ++ X).
              apply IH; cbn [length]; try lia; [exact HX|rewrite app_length; cbn [length]; lia].
      * cbn [app]. f_equal. apply IH; try lia; [exact HX|rewrite app_length; lia].
Qed.

Lemma strip_split t X : good X -> strip_sgr (t ++ X) = strip_sgr t ++ strip_sgr X.
Proof. intros H. unfold strip_sgr. apply (strip_split_fuel (length t)); auto; lia. Qed.

Lemma strip_code_fuel f rest : strip_fuel (S f) (code0 ++ rest) = strip_fuel f rest.
Proof. reflexivity. Qed.

Lemma strip_code rest : strip_sgr (code0 ++ rest) = strip_sgr rest.
Proof.
  unfold strip_sgr. rewrite strip_code_fuel. apply (strip_fuel_enough (length rest)); try lia.
  all: try (rewrite app_length; cbn; lia).
Qed.

Lemma strip_cons x rest : x <> esc -> strip_sgr (x :: rest) = x :: strip_sgr rest.
Proof.
  intros H. unfold strip_sgr. cbn [length strip_fuel]. destruct (beqb_spec x esc); [contradiction|].
  f_equal; try (apply (strip_fuel_enough (length rest)); lia).
Qed.

Lemma good_esc_start rest : good (code0 ++ rest).
Proof. right. exists esc, ([x5b; x30; x6d] ++ rest). split; [reflexivity|apply neutral_esc]. Qed.

(* ---- one painted field ---- *)
Lemma flatten_app a b : flatten (a ++ b) = flatten a ++ flatten b.
Proof. induction a as [|[c|t] a IH]; cbn; [reflexivity| |]; now rewrite IH, app_assoc. Qed.

Lemma strip_paint t X : good X -> strip_sgr (flatten (paint t) ++ X) = strip_sgr (t ++ X).
Proof.
  intros HX. unfold paint. pose proof (trim_nl_spec t) as H. destruct (trim_nl t) as [body nl].
  rewrite H. destruct nl.
  - change (flatten ([Code code0; Text body; Code code0] ++ [Text [nlb]])) with (code0 ++ body ++ code0 ++ [nlb] ++ []).
    rewrite app_nil_r, <- !app_assoc. rewrite strip_code. rewrite strip_split by apply good_esc_start. rewrite strip_code.
    symmetry. apply strip_split. right. exists nlb, X. split; [reflexivity|apply neutral_nl].
  - change (flatten ([Code code0; Text body; Code code0] ++ [])) with (code0 ++ body ++ code0 ++ []).
    rewrite !app_nil_r, <- !app_assoc. rewrite strip_code. rewrite strip_split by apply good_esc_start. rewrite strip_code.
    symmetry. now apply strip_split.
Qed.

Lemma paint_bar : paint [bar] = [Code code0; Text [bar]; Code code0].
Proof. reflexivity. Qed.

Lemma strip_paint_fields : forall fs X, good X ->
  strip_sgr (flatten (paint_fields fs) ++ X) = strip_sgr (join_with bar fs ++ X).
Proof.
  induction fs as [|f r IH]; intros X HX; [reflexivity|].
  destruct r as [|g r']; [now apply strip_paint|].
  change (paint_fields (f :: g :: r')) with (paint f ++ paint [bar] ++ paint_fields (g :: r')).
  change (join_with bar (f :: g :: r')) with (f ++ bar :: join_with bar (g :: r')).
  rewrite !flatten_app, paint_bar. cbn [flatten]. rewrite app_nil_r. rewrite <- !app_assoc.
  rewrite strip_paint by apply good_esc_start.
  rewrite strip_split by apply good_esc_start. rewrite strip_code. cbn [app].
  rewrite strip_cons by discriminate. rewrite strip_code. rewrite (IH X HX).
  symmetry. rewrite strip_split by (right; exists bar, (join_with bar (g :: r') ++ X); split; [reflexivity|apply neutral_bar]).
  now rewrite strip_cons by discriminate.
Qed.

Theorem strip_full : forall m segs, colorfy true m = COk segs -> strip_sgr (flatten segs) = strip_sgr m.
Proof.
  intros m segs. unfold colorfy.
  set (need := if bprefix (B"REMOTE") m then 6 else if bprefix (B"CLIENT") m then 3
               else if bprefix (B"SERVER") m then 3 else 0).
  assert (P : strip_sgr (flatten (paint m)) = strip_sgr m).
  { pose proof (strip_paint m [] (or_introl eq_refl)) as H. now rewrite !app_nil_r in H. }
  destruct (Nat.eqb_spec need 0) as [E0|E0].
  - intros H; inversion H; subst. exact P.
  - cbv zeta. destruct (length (splitn need m) =? need).
    + intros H; inversion H; subst.
      pose proof (strip_paint_fields (splitn need m) [] (or_introl eq_refl)) as Hs. rewrite !app_nil_r in Hs.
      rewrite Hs. now rewrite join_splitn by lia.
    + intros H; inversion H; subst. exact P.
Qed.
