(* C17 over histories: a retrying client contacts its servers again and again through the same
   callback.  Whatever happened before - in particular a refusal, which Wrap records in
   untrustedHosts - a server is proceeded with only if its key matches the known-hosts file at
   that moment, or this round's answers approve it, or trust-all is in force (requested on the
   command line or by an earlier "all"). *)
From DT Require Import Lib.Bytes Lib.Split Model.C18_Discovery Model.C17_KnownHosts Proofs.C17_KnownHosts.

Definition approves (answers : list bytes) : bool :=
  match fst (fst (ask answers)) with Proceed => true | _ => false end.
Definition says_all (answers : list bytes) : bool := snd (fst (ask answers)).

Lemma round_decisions st a cs ds st' j c :
  round st a cs = (ds, st') -> nth_error cs j = Some c -> nth_error ds j = Some Proceed ->
  snd c = true \/ st_trust_all st = true \/ approves a = true.
Proof.
  unfold round. destruct (forallb snd cs) eqn:Hall.
  - intros H Hc _. left. rewrite forallb_forall in Hall. apply Hall. eapply nth_error_In; eauto.
  - destruct (batch (st_trust_all st) a) as [[d ta] rest] eqn:Hb. intros H Hc Hd. inversion H; subst ds st'; clear H.
    rewrite nth_error_map in Hd. unfold contact in *. rewrite Hc in Hd. cbn in Hd. inversion Hd as [Hd']; clear Hd.
    unfold host_decision in Hd'. destruct (snd c); [now left|right].
    unfold batch in Hb. destruct (st_trust_all st); [now left|right].
    unfold approves. rewrite Hb. cbn. subst d. reflexivity.
Qed.

Lemma round_trust_all st a cs ds st' :
  round st a cs = (ds, st') -> st_trust_all st' = true -> st_trust_all st = true \/ says_all a = true.
Proof.
  unfold round. destruct (forallb snd cs).
  - intros H; inversion H; subst. auto.
  - destruct (batch (st_trust_all st) a) as [[d ta] rest] eqn:Hb. intros H; inversion H; subst ds st'; clear H. cbn.
    unfold batch in Hb. destruct (st_trust_all st); [auto|]. intros ->. right. unfold says_all. now rewrite Hb.
Qed.

(* every round of every history *)
Theorem history_proceed : forall h st i a cs ds j c,
  st_trust_all st = false -> Forall (fun r => says_all (fst r) = false) h ->
  nth_error h i = Some (a, cs) -> nth_error (run st h) i = Some ds ->
  nth_error cs j = Some c -> nth_error ds j = Some Proceed ->
  snd c = true \/ approves a = true.
Proof.
  induction h as [|[a0 cs0] h IH]; intros st i a cs ds j c Hta Hall Hi Hr Hc Hd; [destruct i; discriminate|].
  cbn [run] in Hr. destruct (round st a0 cs0) as [ds0 st0] eqn:Hround.
  inversion Hall as [|x l Ha0 Hall']; subst. cbn in Ha0.
  destruct i as [|i]; cbn in Hi, Hr.
  - inversion Hi; inversion Hr; subst. destruct (round_decisions _ _ _ _ _ _ _ Hround Hc Hd) as [H|[H|H]]; auto. congruence.
  - assert (E : st_trust_all st0 = false).
    { destruct (st_trust_all st0) eqn:E; [|reflexivity]. destruct (round_trust_all _ _ _ _ _ Hround E); congruence. }
    exact (IH st0 i a cs ds j c E Hall' Hi Hr Hc Hd).
Qed.

(* the refusal itself changes nothing: the decisions of a history do not depend on the recorded
   untrusted hosts *)
Lemma round_refused_irrelevant st l a cs :
  fst (round st a cs) = fst (round {| st_trust_all := st_trust_all st; st_refused := l |} a cs)
  /\ st_trust_all (snd (round st a cs)) = st_trust_all (snd (round {| st_trust_all := st_trust_all st; st_refused := l |} a cs)).
Proof.
  unfold round. cbn [st_trust_all]. destruct (forallb snd cs); [split; reflexivity|].
  destruct (batch (st_trust_all st) a) as [[d ta] rest]. split; reflexivity.
Qed.

Theorem history_refused_irrelevant : forall h st l,
  run st h = run {| st_trust_all := st_trust_all st; st_refused := l |} h.
Proof.
  induction h as [|[a cs] h IH]; intros st l; [reflexivity|]. cbn [run].
  destruct (round_refused_irrelevant st l a cs) as [H1 H2].
  destruct (round st a cs) as [ds st1]. destruct (round _ a cs) as [ds' st1']. cbn in H1, H2. subst ds'. f_equal.
  rewrite (IH st1 (st_refused st1')). rewrite (IH st1' (st_refused st1')). destruct st1' as [t r]. cbn in *. subst t. reflexivity.
Qed.
