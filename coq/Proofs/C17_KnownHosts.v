From DT Require Import Lib.Bytes Lib.Split Model.C18_Discovery Model.C17_KnownHosts.

(* the first decisive answer decides; details / anything else re-asks *)
Definition decisive (a : bytes) : bool :=
  match classify_answer a with AYes | AAll | ANo => true | _ => false end.

Lemma ask_spec : forall answers,
  match fst (fst (ask answers)) with
  | Proceed => exists pre a post, answers = pre ++ a :: post /\ forallb (fun x => negb (decisive x)) pre = true
                                  /\ (classify_answer a = AYes \/ classify_answer a = AAll)
  | Refuse => exists pre a post, answers = pre ++ a :: post /\ forallb (fun x => negb (decisive x)) pre = true
                                 /\ classify_answer a = ANo
  | Blocked => forallb (fun x => negb (decisive x)) answers = true
  end.
Proof.
  induction answers as [|a r IH]; [reflexivity|]. cbn [ask]. unfold decisive in *.
  destruct (classify_answer a) eqn:E.
  - cbn. exists [], a, r. repeat split; auto.
  - cbn. exists [], a, r. repeat split; auto.
  - cbn. exists [], a, r. repeat split; auto.
  - destruct (fst (fst (ask r))).
    + destruct IH as (pre & x & post & -> & Hp & Hx). exists (a :: pre), x, post. cbn. rewrite E. repeat split; auto.
    + destruct IH as (pre & x & post & -> & Hp & Hx). exists (a :: pre), x, post. cbn. rewrite E. repeat split; auto.
    + cbn. rewrite E. exact IH.
  - destruct (fst (fst (ask r))).
    + destruct IH as (pre & x & post & -> & Hp & Hx). exists (a :: pre), x, post. cbn. rewrite E. repeat split; auto.
    + destruct IH as (pre & x & post & -> & Hp & Hx). exists (a :: pre), x, post. cbn. rewrite E. repeat split; auto.
    + cbn. rewrite E. exact IH.
Qed.

(* the client proceeds with a server iff its key is known, trust-all was requested, or the first
   decisive answer at the prompt is yes / all *)
Theorem proceed_iff known trust_all answers :
  host_decision known (fst (fst (batch trust_all answers))) = Proceed <->
  known = true \/ trust_all = true \/
  exists pre a post, answers = pre ++ a :: post /\ forallb (fun x => negb (decisive x)) pre = true
                     /\ (classify_answer a = AYes \/ classify_answer a = AAll).
Proof.
  unfold host_decision, batch. destruct known; [split; auto|]. destruct trust_all; [split; auto|]. cbn [fst].
  pose proof (ask_spec answers) as H. split.
  - intros Hp. rewrite Hp in H. auto.
  - intros [Hk|[Ht|(pre & a & post & -> & Hpre & Ha)]]; try discriminate.
    destruct (fst (fst (ask (pre ++ a :: post)))) eqn:E; [reflexivity| |].
    + exfalso. destruct H as (pre' & a' & post' & Heq & Hpre' & Ha').
      (* the first decisive answer is unique *)
      assert (Hu : forall p1 x1 s1 p2 x2 s2, p1 ++ x1 :: s1 = p2 ++ x2 :: s2 ->
                   forallb (fun x => negb (decisive x)) p1 = true -> decisive x1 = true ->
                   forallb (fun x => negb (decisive x)) p2 = true -> decisive x2 = true -> x1 = x2).
      { induction p1 as [|y p1 IHp]; intros x1 s1 p2 x2 s2 He H1 D1 H2 D2; destruct p2 as [|z p2]; cbn in *.
        - now inversion He.
        - inversion He; subst. apply andb_true_iff in H2. destruct H2 as [H2 _]. rewrite D1 in H2. discriminate.
        - inversion He; subst. apply andb_true_iff in H1. destruct H1 as [H1 _]. rewrite D2 in H1. discriminate.
        - inversion He; subst. apply andb_true_iff in H1, H2. eapply IHp; try eassumption; tauto. }
      assert (a = a').
      { eapply Hu; try eassumption; unfold decisive; [destruct Ha as [-> | ->]; reflexivity|now rewrite Ha']. }
      subst. destruct Ha as [Ha|Ha]; congruence.
    + exfalso. rewrite forallb_app in H. apply andb_true_iff in H. destruct H as [_ H]. cbn in H.
      apply andb_true_iff in H. destruct H as [H _]. unfold decisive in H. destruct Ha as [Ha|Ha]; rewrite Ha in H; discriminate.
Qed.

(* the rewritten file: every new entry, every unrelated old line byte for byte and in order,
   nothing else *)
Theorem rewrite_spec entries addrs old l :
  In l (rewrite entries addrs old) <->
  In l entries \/ (In l (file_lines old) /\ ~ In (first_field l) addrs).
Proof.
  unfold rewrite. rewrite in_app_iff, filter_In. unfold keep_line. rewrite negb_true_iff.
  split; intros [H|[H1 H2]]; auto; right; split; auto.
  - intros Hin. assert (existsb (bytes_eqb (first_field l)) addrs = true); [|congruence].
    apply existsb_exists. exists (first_field l). split; [exact Hin|apply bytes_eqb_refl].
  - destruct (existsb _ addrs) eqn:E; [|reflexivity]. apply existsb_exists in E. destruct E as (x & Hx & Heq).
    apply bytes_eqb_eq in Heq. subst x. contradiction.
Qed.

Theorem rewrite_order entries addrs old :
  rewrite entries addrs old = entries ++ filter (keep_line addrs) (file_lines old).
Proof. reflexivity. Qed.
