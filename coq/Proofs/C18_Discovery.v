From DT Require Import Lib.Bytes Lib.Split Model.C18_Discovery.
From Coq Require Import Permutation.

Section Generic.
  Context {A : Type} (eqb : A -> A -> bool).
  Hypothesis eqb_ok : forall a b, eqb a b = true <-> a = b.

  Lemma mem_In x l : mem eqb x l = true <-> In x l.
  Proof.
    induction l as [|y l IH]; simpl; [split; [discriminate|tauto]|].
    rewrite orb_true_iff, eqb_ok, IH. split; intros [H|H]; auto.
  Qed.

  Lemma dedup_acc_In seen l x :
    In x (dedup_acc eqb seen l) <-> In x l /\ ~ In x seen.
  Proof.
    revert seen; induction l as [|y l IH]; intros seen; simpl; [tauto|].
    destruct (mem eqb y seen) eqn:Hm.
    - apply mem_In in Hm. rewrite IH. split.
      + intros [H1 H2]; auto.
      + intros [[->|H1] H2]; [contradiction|auto].
    - assert (Hn : ~ In y seen) by (rewrite <- mem_In, Hm; discriminate).
      simpl. rewrite IH. simpl. split.
      + intros [->|[H1 H2]]; auto.
      + intros [[->|H1] H2]; auto.
        destruct (eqb y x) eqn:E; [apply eqb_ok in E; auto|].
        right. split; auto. intros [->|H]; [|contradiction].
        assert (eqb x x = true) by now apply eqb_ok. congruence.
  Qed.

  Lemma dedup_acc_NoDup seen l : NoDup (dedup_acc eqb seen l).
  Proof.
    revert seen; induction l as [|y l IH]; intros seen; simpl; [constructor|].
    destruct (mem eqb y seen); [apply IH|].
    constructor; [|apply IH]. rewrite dedup_acc_In. simpl. tauto.
  Qed.

  Lemma dedup_In l x : In x (dedup eqb l) <-> In x l.
  Proof. unfold dedup. rewrite dedup_acc_In. simpl. tauto. Qed.

  Lemma dedup_NoDup l : NoDup (dedup eqb l).
  Proof. apply dedup_acc_NoDup. Qed.

  Lemma remove_at_some : forall (l : list A) i, i < length l -> exists x r, remove_at i l = Some (x, r).
  Proof.
    induction l as [|y l IH]; intros i Hi; [simpl in Hi; lia|].
    destruct i as [|k]; cbn [remove_at]; [eauto|].
    destruct (IH k) as (x & r & E); [simpl in Hi; lia|]. rewrite E. eauto.
  Qed.

  Lemma remove_at_perm i (l : list A) x r : remove_at i l = Some (x, r) -> Permutation l (x :: r).
  Proof.
    revert i x r; induction l as [|y l IH]; intros i x r; simpl; [discriminate|].
    destruct i as [|k].
    - intros H; inversion H; subst; reflexivity.
    - destruct (remove_at k l) as [[z r']|] eqn:E; [|discriminate].
      intros H; inversion H; subst. rewrite (IH _ _ _ E). apply perm_swap.
  Qed.

  Lemma remove_at_length i (l : list A) x r : remove_at i l = Some (x, r) -> length l = S (length r).
  Proof. intros H. apply remove_at_perm in H. now rewrite (Permutation_length H). Qed.

  (* idxs is a legal draw sequence for a list of length n: the k-th index is below n - k,
     which is what r.Intn(len(servers)) guarantees *)
  Fixpoint valid_idxs (idxs : list nat) (n : nat) : Prop :=
    match n with
    | 0 => True
    | S m => match idxs with [] => False | i :: is' => i < S m /\ valid_idxs is' m end
    end.

  Lemma shuffle_perm idxs : forall (l : list A),
    valid_idxs idxs (length l) -> exists l', shuffle idxs l = Some l' /\ Permutation l l'.
  Proof.
    induction idxs as [|i is' IH]; intros l Hv.
    - destruct l; simpl in *; [eauto|contradiction].
    - destruct l as [|y l]; [simpl; eauto|].
      cbn [length valid_idxs] in Hv. destruct Hv as [Hi Hv].
      destruct (remove_at_some (y :: l) i) as (x & r & E); [simpl; lia|].
      cbn [shuffle]. rewrite E.
      pose proof (remove_at_length _ _ _ _ E) as Hl. simpl in Hl.
      destruct (IH r) as (t & Et & Pt); [now replace (length r) with (length l) by lia|].
      rewrite Et. simpl. eexists; split; [reflexivity|].
      rewrite (remove_at_perm _ _ _ _ E). now constructor.
  Qed.

  Lemma valid_zeros n : valid_idxs (zeros n) n.
  Proof. induction n; simpl; auto. split; [lia|assumption]. Qed.

  (* any successful shuffle (whatever the indices) is a permutation: nothing lost or invented *)
  Lemma shuffle_some_perm idxs : forall (l l' : list A), shuffle idxs l = Some l' -> Permutation l l'.
  Proof.
    induction idxs as [|i is' IH]; intros l l'.
    - destruct l; simpl; [intros H; inversion H; constructor|discriminate].
    - destruct l as [|y l]; [simpl; intros H; inversion H; constructor|].
      cbn [shuffle]. destruct (remove_at i (y :: l)) as [[x r]|] eqn:E; [|discriminate].
      destruct (shuffle is' r) as [t|] eqn:Et; simpl; [|discriminate].
      intros H; inversion H; subst. rewrite (remove_at_perm _ _ _ _ E). constructor. now apply IH.
  Qed.

  Theorem server_list_exact flt idxs entries :
    let wanted := match flt with Some m => filter m entries | None => entries end in
    valid_idxs idxs (length (dedup eqb wanted)) ->
    exists l, server_list eqb flt idxs entries = Some l
              /\ NoDup l
              /\ (forall x, In x l <-> In x wanted)
              /\ Permutation l (dedup eqb wanted).
  Proof.
    intros wanted Hv. unfold server_list. fold wanted.
    destruct (shuffle_perm idxs _ Hv) as (l & E & P).
    exists l. split; [exact E|]. split; [|split].
    - eapply Permutation_NoDup; [exact P|apply dedup_NoDup].
    - intros x. rewrite <- (dedup_In wanted x). split; intros H.
      + eapply Permutation_in; [apply Permutation_sym; exact P|exact H].
      + eapply Permutation_in; [exact P|exact H].
    - now apply Permutation_sym.
  Qed.
End Generic.

(* ---- sources ---- *)
Theorem comma_split_spec s :
  join_with x2c (comma_split s) = s /\ Forall (fun e => ~ In x2c e) (comma_split s).
Proof.
  split; [apply (split_on_join x2c [] s)|apply split_on_no_sep; simpl; tauto].
Qed.

(* file source: with '\n'-terminated lines that contain no CR/LF, file_lines is the inverse of
   writing the lines out one per line *)
Fixpoint unlines (l : list bytes) : bytes :=
  match l with [] => [] | x :: r => x ++ x0a :: unlines r end.

Definition clean_line (e : bytes) : Prop := ~ In x0a e /\ ~ In x0d e.

Lemma drop_cr_rev_clean cur : ~ In x0d cur -> drop_cr_rev cur = rev cur.
Proof.
  intros H. unfold drop_cr_rev. destruct cur as [|b r]; [reflexivity|].
  destruct b; try (now rewrite rev'_rev). exfalso; apply H; simpl; auto.
Qed.

Lemma scan_lines_acc_unlines e : forall cur rest,
  clean_line e -> ~ In x0d cur ->
  scan_lines_acc cur (e ++ x0a :: rest) = (rev cur ++ e) :: scan_lines_acc [] rest.
Proof.
  induction e as [|c e IH]; intros cur rest [H1 H2] Hc; simpl.
  - rewrite ?beqb_refl. now rewrite drop_cr_rev_clean, app_nil_r.
  - destruct (beqb_spec c x0a) as [->|Hn]; [exfalso; apply H1; simpl; auto|].
    rewrite IH.
    + simpl. now rewrite <- app_assoc.
    + split; intros H; [apply H1|apply H2]; simpl; auto.
    + simpl. intros [H|H]; [apply H2; simpl; auto|contradiction].
Qed.

Theorem file_lines_unlines l : Forall clean_line l -> file_lines (unlines l) = l.
Proof.
  unfold file_lines. induction l as [|e l IH]; intros H; simpl; [reflexivity|].
  inversion H; subst. rewrite scan_lines_acc_unlines; auto. simpl. now rewrite IH.
Qed.
