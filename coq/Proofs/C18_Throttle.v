From DT Require Import Lib.Bytes Model.C18_Throttle.

Lemma set_nth_length l i v : length (set_nth l i v) = length l.
Proof. revert i; induction l as [|x l IH]; intros [|i]; cbn; auto. Qed.

Lemma count_set_nth c l i old v : nth_error l i = Some old ->
  count_stat c (set_nth l i v) + (if cstat_eqb c old then 1 else 0) = count_stat c l + (if cstat_eqb c v then 1 else 0).
Proof.
  unfold count_stat. revert i; induction l as [|x l IH]; intros [|i] H; cbn in H; try discriminate.
  - inversion H; subst. cbn [set_nth filter]. destruct (cstat_eqb c old), (cstat_eqb c v); cbn; lia.
  - cbn [set_nth filter]. specialize (IH i H). destruct (cstat_eqb c x); cbn; lia.
Qed.

(* slots in use = connections being established: never more than the capacity, none leaked *)
Definition TInv (cap : nat) (s : tstate) : Prop := free s + count_stat Dialing (conns s) = cap.

Lemma count_repeat_waiting n : count_stat Dialing (repeat Waiting n) = 0.
Proof. unfold count_stat. induction n; cbn; auto. Qed.
Lemma tinv_init n cap : TInv cap (tinit n cap).
Proof. unfold TInv, tinit. cbn [free conns]. rewrite count_repeat_waiting. lia. Qed.

Lemma tinv_step cap s e s' : TInv cap s -> tstep s e = Some s' -> TInv cap s'.
Proof.
  unfold TInv. intros I H. destruct e as [i|i|i|i]; cbn [tstep] in H; destruct (nth_error (conns s) i) as [[| | |]|] eqn:E; try discriminate.
  - destruct (free s) as [|f] eqn:Ef; [discriminate|]. inversion H; subst; cbn [free conns].
    pose proof (count_set_nth Dialing _ _ _ Dialing E) as C. cbn in C. lia.
  - inversion H; subst; cbn [free conns]. pose proof (count_set_nth Dialing _ _ _ Ended E) as C. cbn in C. lia.
  - inversion H; subst; cbn [free conns]. pose proof (count_set_nth Dialing _ _ _ Established E) as C. cbn in C. lia.
  - inversion H; subst; cbn [free conns]. pose proof (count_set_nth Dialing _ _ _ Ended E) as C. cbn in C. lia.
Qed.

Lemma tinv_run cap : forall es s s', TInv cap s -> trun s es = Some s' -> TInv cap s'.
Proof.
  induction es as [|e es IH]; intros s s' I H; cbn in H; [inversion H; subst; exact I|].
  destruct (tstep s e) as [s1|] eqn:E; [|discriminate]. eapply IH; [|exact H]. eapply tinv_step; eauto.
Qed.

Theorem throttle_bound n cap es s : trun (tinit n cap) es = Some s -> count_stat Dialing (conns s) <= cap.
Proof. intros H. pose proof (tinv_run cap es _ _ (tinv_init n cap) H) as I. unfold TInv in I. lia. Qed.

(* every event strictly decreases a measure: no schedule is infinite *)
Definition weight (c : cstat) : nat := match c with Waiting => 3 | Dialing => 2 | Established => 1 | Ended => 0 end.
Definition tmu (s : tstate) : nat := fold_right plus 0 (map weight (conns s)).
Lemma tmu_set_nth l i old v : nth_error l i = Some old ->
  fold_right plus 0 (map weight (set_nth l i v)) + weight old = fold_right plus 0 (map weight l) + weight v.
Proof.
  revert i; induction l as [|x l IH]; intros [|i] H; cbn in H; try discriminate.
  - inversion H; subst. cbn. lia.
  - cbn [set_nth map fold_right]. specialize (IH i H). lia.
Qed.
Lemma tstep_decreases s e s' : tstep s e = Some s' -> tmu s' < tmu s.
Proof.
  unfold tmu. destruct e as [i|i|i|i]; cbn [tstep]; destruct (nth_error (conns s) i) as [[| | |]|] eqn:E; try discriminate.
  - destruct (free s); [discriminate|]. intros H; inversion H; subst; cbn [conns]. pose proof (tmu_set_nth _ _ _ Dialing E). cbn in *. lia.
  - intros H; inversion H; subst; cbn [conns]. pose proof (tmu_set_nth _ _ _ Ended E). cbn in *. lia.
  - intros H; inversion H; subst; cbn [conns]. pose proof (tmu_set_nth _ _ _ Established E). cbn in *. lia.
  - intros H; inversion H; subst; cbn [conns]. pose proof (tmu_set_nth _ _ _ Ended E). cbn in *. lia.
Qed.
Theorem trun_bounded : forall es s s', trun s es = Some s' -> length es + tmu s' <= tmu s.
Proof.
  induction es as [|e es IH]; intros s s' H; cbn in H; [inversion H; subst; cbn; lia|].
  destruct (tstep s e) as [s1|] eqn:E; [|discriminate]. pose proof (tstep_decreases _ _ _ E). specialize (IH _ _ H). cbn [length]. lia.
Qed.

(* a schedule that cannot be extended has dialled every server: with a positive capacity no server
   is left waiting, whatever failed before it *)
Lemma count_pos_nth c l : 0 < count_stat c l -> exists i, nth_error l i = Some c.
Proof.
  unfold count_stat. induction l as [|x l IH]; cbn; [lia|]. destruct (cstat_eqb c x) eqn:E.
  - intros _. exists 0. destruct c, x; try discriminate; reflexivity.
  - intros H. destruct (IH H) as [i Hi]. exists (S i). exact Hi.
Qed.
Theorem stuck_all_contacted n cap es s : 0 < cap -> trun (tinit n cap) es = Some s ->
  (forall e, tstep s e = None) -> count_stat Waiting (conns s) = 0 /\ count_stat Dialing (conns s) = 0.
Proof.
  intros Hcap Hr Hstuck. pose proof (tinv_run cap es _ _ (tinv_init n cap) Hr) as I. unfold TInv in I.
  assert (Hd : count_stat Dialing (conns s) = 0).
  { destruct (count_stat Dialing (conns s)) eqn:E; [reflexivity|]. destruct (count_pos_nth Dialing (conns s)) as [i Hi]; [lia|].
    specialize (Hstuck (DialFail i)). cbn in Hstuck. rewrite Hi in Hstuck. discriminate. }
  split; [|exact Hd].
  destruct (count_stat Waiting (conns s)) eqn:E; [reflexivity|]. destruct (count_pos_nth Waiting (conns s)) as [i Hi]; [lia|].
  specialize (Hstuck (Acquire i)). cbn in Hstuck. rewrite Hi in Hstuck. destruct (free s) eqn:Ef; [lia|discriminate].
Qed.

(* the default capacity (ConnectionsPerCPU * NumCPU) is positive on every machine *)
From DT Require Import Gen.Consts.
Lemma default_slots_positive (ncpu : Z) : (1 <= ncpu)%Z -> (0 < c_default_connections_per_cpu * ncpu)%Z.
Proof. unfold c_default_connections_per_cpu. lia. Qed.
