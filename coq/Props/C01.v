(* C01 — dcat reproduces file content byte for byte.  Statements only. *)
From DT Require Import Lib.Bytes Gen.Consts Model.C01_Cat Proofs.C01_Cat Model.C01_Eof Proofs.C01_Eof.

(* Full statement: for every content, MaxLineLength >= 1 and transport chunking, plain dcat
   prints the content with a newline after each run of MaxLineLength non-newline bytes. *)
Definition C01_full : Prop :=
  forall (maxlen : nat) (cuts : list nat) (content : bytes),
    1 <= maxlen -> dcat_bytes maxlen cuts content = spec_bytes maxlen content.

(* The faithful model of the unchanged protocol refutes it in two ways (known findings):
   a content byte equal to the message delimiter is deleted, and a line starting with '.' is
   taken for a hidden protocol message and swallowed. *)
Theorem C01_refuted_delimiter_byte : ~ C01_full.
Proof.
  intros H. specialize (H 1024 [] [x61; delim_byte; x62; x0a] ltac:(lia)). vm_compute in H. discriminate.
Qed.
Print Assumptions C01_refuted_delimiter_byte.

Theorem C01_refuted_leading_dot : ~ C01_full.
Proof.
  intros H. specialize (H 1024 [] (B".hidden line" ++ [x0a] ++ B"after" ++ [x0a]) ltac:(lia)).
  vm_compute in H. discriminate.
Qed.
Print Assumptions C01_refuted_leading_dot.

(* Partial (weakest guard the faithful model allows): whenever the expected output contains no
   delimiter byte and no line of it starts with '.', the output is exactly the specification -
   for every MaxLineLength (0 included), every chunking of the wire stream, every content. *)
Theorem C01_fidelity_partial : forall (maxlen : nat) (cuts : list nat) (content : bytes),
  guard_bytes maxlen content = true ->
  dcat_bytes maxlen cuts content = spec_bytes maxlen content.
Proof.
  exact (dcat_fidelity beqb beqb_eq nl_byte delim_byte dot_byte delim_is_not_nl dot_is_not_nl).
Qed.
Print Assumptions C01_fidelity_partial.

(* The output never depends on how the transport cuts the byte stream (no guard). *)
Theorem C01_chunking : forall (maxlen : nat) (cuts : list nat) (content : bytes),
  dcat_bytes maxlen cuts content = dcat_bytes maxlen [] content.
Proof. exact (dcat_chunking beqb nl_byte delim_byte dot_byte). Qed.
Print Assumptions C01_chunking.

(* What the specification means: with no run of maxlen non-newline bytes it is the identity
   (empty lines, missing final newline, any byte values) ... *)
Theorem C01_short_lines : forall (maxlen : nat) (content : bytes),
  short_lines beqb nl_byte maxlen maxlen content = true -> spec_bytes maxlen content = content.
Proof. exact (fun maxlen content => insert_nl_short beqb nl_byte maxlen content maxlen). Qed.
Print Assumptions C01_short_lines.

(* ... and in general it only ever inserts newlines: all other bytes are kept, once, in order. *)
Theorem C01_only_newlines_inserted : forall (maxlen : nat) (content : bytes),
  filter (fun c => negb (beqb c nl_byte)) (spec_bytes maxlen content)
  = filter (fun c => negb (beqb c nl_byte)) content.
Proof. exact (fun maxlen content => insert_nl_only_nl beqb beqb_eq nl_byte maxlen content maxlen). Qed.
Print Assumptions C01_only_newlines_inserted.

(* wire constants the proofs depend on, re-checked against the regenerated Consts.v *)
Theorem C01_delimiter_facts :
  nl_byte <> delim_byte /\ dot_byte <> nl_byte /\ dot_byte <> delim_byte /\ (0 <= c_message_delimiter <= 255)%Z.
Proof. exact (conj delim_is_not_nl (conj dot_is_not_nl (conj dot_is_not_delim delim_in_range))). Qed.
Print Assumptions C01_delimiter_facts.

(* non-vacuity: a content with empty lines, a long line (split at 4), no final newline, a dot
   and a 0xC2 byte inside a line meets the guard; the chunking cuts inside a frame *)
Example C01_example :
  let content := [x61; x62; x0a; x0a; x31; x32; x33; x34; x35; x2e; xc2; x0a; x7a] in
  guard_bytes 4 content = true
  /\ dcat_bytes 4 [3; 1; 5] content = [x61; x62; x0a; x0a; x31; x32; x33; x34; x0a; x35; x2e; xc2; x0a; x7a].
Proof. vm_compute. split; reflexivity. Qed.

(* The end of the file.  When a read returns EOF the reader (cat / grep / mapreduce mode) hands on the pending
   unterminated last line and stops - for every file nobody shortened, whether or not the truncation timer (first tick
   3 s after the reader started) has ticked and whichever ready case its select takes: the EOF branch of [reader] above.
   The comparison operator of readFile.truncated is read from the Go source on every run (c_truncated_cmp). *)
Theorem C01_eof_delivers_rest : forall (tick pick pending : bool) (offset size : Z), (offset <= size)%Z ->
  at_eof false tick false pick pending (Some offset) (Some size) = EofStop pending.
Proof. exact eof_delivers_rest. Qed.
Print Assumptions C01_eof_delivers_rest.
Theorem C01_eof_truncated_stops : forall (follow pick pending : bool) (offset size : Z), (size < offset)%Z ->
  at_eof follow true false pick pending (Some offset) (Some size) = EofStop false.
Proof. exact eof_truncated_stops. Qed.
Theorem C01_eof_follow_continues : forall (tick pick pending : bool) (offset size : Z), (offset <= size)%Z ->
  at_eof true tick false pick pending (Some offset) (Some size) = EofContinue.
Proof. exact eof_follow_continues. Qed.
