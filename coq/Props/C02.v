(* C02 — every selected line is delivered before the session closes, at any pace.
   Statements only.  Schedules are event lists over the LTS of Model/C02_Session.v; the consumer's
   pace is the environment's freedom to delay ReadLine / ReadMsg events arbitrarily. *)
From DT Require Import Lib.Bytes Gen.Consts Model.C02_Session Proofs.C02_Session Proofs.C02_Live Model.C01_Eof Proofs.C01_Eof.

(* Full statement for a configuration: on every schedule, once the .syn has reached the
   client and all requested commands were received, every line of every file was delivered
   before it - once and in file order. *)
Definition C02_full (c : cfg) : Prop :=
  forall es s, run c init es = Some s -> has_syn (stream s) = true -> recv s = length (sizes c) ->
               delivered_all c s = true.

(* (a) The flush of the pinned tree gives up after its retries: refuted by a schedule in which
   the consumer stalls while a line is still queued (the defect fixed in /repo). *)
Theorem C02_refuted_bounded_flush :
  ~ C02_full {| sizes := [1]; qcap := 100; bounded_flush := true; late_commands := false |}.
Proof.
  intros H. specialize (H [RecvCmd; Push 0; CmdDone 0; FlushGiveUp; ReadMsg]). vm_compute in H.
  specialize (H _ eq_refl eq_refl eq_refl). discriminate.
Qed.
Print Assumptions C02_refuted_bounded_flush.

(* (b) A command that arrives after the counter returned to 0 (an empty first file): refuted
   even with the repaired flush - the known finding
   command_received_after_counter_returned_to_zero. *)
Theorem C02_refuted_late_command :
  ~ C02_full {| sizes := [0; 2]; qcap := 100; bounded_flush := false; late_commands := true |}.
Proof.
  intros H. specialize (H [RecvCmd; CmdDone 0; FlushOk; RecvCmd; ReadMsg]). vm_compute in H.
  specialize (H _ eq_refl eq_refl eq_refl). discriminate.
Qed.
Print Assumptions C02_refuted_late_command.

(* With the repaired flush (waits until the queues are empty) and every command received before
   the counter first returns to 0: the full statement, for every number and size of files, every
   queue capacity (>= 0) and every schedule - in particular every consumer pace. *)
Theorem C02_partial : forall (c : cfg),
  bounded_flush c = false -> late_commands c = false -> C02_full c.
Proof. exact (fun c Hf Hl es s => delivered c Hf Hl es s). Qed.
Print Assumptions C02_partial.

(* Liveness of the session model.  (1) No schedule of ANY configuration is infinite: every event
   strictly decreases a measure, so a schedule has at most 4*files + 2*lines events.  (2) With the
   repaired flush, a lines channel of capacity >= 1 and at least one requested command: a schedule
   that cannot be extended has handed the .syn to the transport (no deadlock before it) - so under
   any scheduler that keeps taking some enabled event, at whatever pace the consumer reads, the
   session ends with the .syn delivered; (3) and every schedule can be completed within the bound.
   What the model cannot exhibit: wall-clock time-outs of the real transport, observed by the
   paced sessions of the correspondence check only. *)
Theorem C02_no_infinite_schedule : forall c es s, run c init es = Some s ->
  length es <= 4 * length (sizes c) + 2 * fold_right plus 0 (sizes c).
Proof. exact schedule_bound. Qed.
Print Assumptions C02_no_infinite_schedule.

Theorem C02_no_deadlock : forall c, bounded_flush c = false -> late_commands c = false -> 0 < qcap c -> 0 < length (sizes c) ->
  forall es s, run c init es = Some s -> (forall e, step c s e = None) -> has_syn (stream s) = true.
Proof. exact stuck_is_done. Qed.
Print Assumptions C02_no_deadlock.

Theorem C02_completes : forall c, bounded_flush c = false -> late_commands c = false -> 0 < qcap c -> 0 < length (sizes c) ->
  forall es s, run c init es = Some s ->
  exists es' s', run c s es' = Some s' /\ has_syn (stream s') = true /\ length es + length es' <= mu c init.
Proof. exact completes. Qed.
Print Assumptions C02_completes.

(* non-vacuity: two files behind a queue of capacity 1, interleaved pushes, stalled consumer *)
Example C02_example :
  let c := {| sizes := [2; 1]; qcap := 1; bounded_flush := false; late_commands := false |} in
  exists s, run c init [RecvCmd; RecvCmd; Push 1; ReadLine; Push 0; CmdDone 1; ReadLine; Push 0; CmdDone 0;
                         ReadLine; FlushOk; ReadMsg] = Some s
            /\ has_syn (stream s) = true /\ recv s = 2 /\ delivered_all c s = true
            /\ before_syn (stream s) = [(1, 0); (0, 0); (0, 1)].
Proof. vm_compute. eexists. repeat split; reflexivity. Qed.

(* End of file (a slow consumer makes a read last longer than 3 s: the last, unterminated line of a file is still delivered): see Props/C01.v; the operator of the truncation test comes from the source. *)
Theorem C02_eof_delivers_rest : forall (tick pick pending : bool) (offset size : Z), (offset <= size)%Z ->
  at_eof false tick false pick pending (Some offset) (Some size) = EofStop pending.
Proof. exact eof_delivers_rest. Qed.
