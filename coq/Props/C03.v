(* C03 — dgrep selects exactly the lines grep semantics prescribe.  Statements only. *)
From DT Require Import Lib.Bytes Model.C03_Grep Proofs.C03_Grep Proofs.C03_Full Model.C01_Eof Proofs.C01_Eof.

(* Full statement: for every file (as selection bits), before, after and max, the state machine
   of filterWithLContext emits exactly the indices the declarative grep semantics [emitted]
   selects - each once, in file order (grep_spec is a filter of seq 0 n). *)
Definition C03_full : Prop :=
  forall (b a m : nat) (ms : list bool), grep_run b a m ms = grep_spec b a m ms.

(* The full statement holds: for files of every length and all option values (invariant over the
   prefix read so far: the machine's counters, its after-countdown and the contents of the before
   buffer are functions of the prefix; what is still buffered at a position is emitted iff the
   declarative semantics selects it). *)
Theorem C03_full_holds : C03_full.
Proof. exact grep_equiv. Qed.
Print Assumptions C03_full_holds.

(* every emitted line carries its own position in the file as running number *)
Theorem C03_numbers : forall (b a m : nat) (ms : list bool),
  Forall (fun r => fst r = S (snd r)) (grep_recs b a m ms).
Proof. exact grep_numbers. Qed.
Print Assumptions C03_numbers.

(* kept as an independent cross-check of the statement: exhaustive kernel evaluation of the 40 880
   cases with |file| <= 8, before, after <= 3, max <= 4 *)
Theorem C03_grep_partial : forall (b a m : nat) (ms : list bool),
  length ms <= 8 -> b <= 3 -> a <= 3 -> m <= 4 -> grep_run b a m ms = grep_spec b a m ms.
Proof. exact (fun b a m ms => grep_equiv_bounded ms b a m). Qed.
Print Assumptions C03_grep_partial.

(* The patterns '', '.' and '.*' select every line, whatever --invert says ... *)
Theorem C03_noop : forall (inv : bool) (verdicts : list bool),
  map (selected [] inv) verdicts = repeat true (length verdicts)
  /\ map (selected (B".") inv) verdicts = repeat true (length verdicts)
  /\ map (selected (B".*") inv) verdicts = repeat true (length verdicts).
Proof.
  exact (fun inv v => conj (noop_selects_all [] inv v (proj1 noop_patterns))
                     (conj (noop_selects_all _ inv v (proj1 (proj2 noop_patterns)))
                           (noop_selects_all _ inv v (proj2 (proj2 noop_patterns))))).
Qed.
Print Assumptions C03_noop.

(* ... and then, without context options, every line is output once, in order. *)
Theorem C03_noop_all_lines : forall n, grep_run 0 0 0 (repeat true n) = seq 0 n.
Proof. exact (fun n => plain_run_all n 0). Qed.
Print Assumptions C03_noop_all_lines.

Example C03_example :
  grep_run 1 1 2 [false; false; true; false; false; false; true; false; true; false] = [1; 2; 3; 5; 6; 7]
  /\ grep_spec 1 1 2 [false; false; true; false; false; false; true; false; true; false] = [1; 2; 3; 5; 6; 7].
Proof. vm_compute. split; reflexivity. Qed.

(* End of file (a slow consumer makes a read last longer than 3 s): the last, unterminated line of a file still reaches the
   filter - see Props/C01.v; the operator of the truncation test comes from the Go source on every run. *)
Theorem C03_eof_delivers_rest : forall (tick pick pending : bool) (offset size : Z), (offset <= size)%Z ->
  at_eof false tick false pick pending (Some offset) (Some size) = EofStop pending.
Proof. exact eof_delivers_rest. Qed.
