(* C04 — following a file delivers every appended line once, in order.  Statements only. *)
From DT Require Import Lib.Bytes Lib.Split Gen.Consts Model.C01_Cat Model.C04_Tail Proofs.C04_Tail.

(* Reading side, EVERY schedule: whatever the chunks of the writer, the read boundaries of the
   reader and the moments the filter and the consumer run, the raw lines handed to the filter are
   the raw lines of the bytes read so far; those bytes are a prefix of the APPENDED bytes (the file
   is opened at its end: nothing of the pre-existing content [pre] can appear); once the reader has
   caught up, they are the raw lines of everything appended, and the unfinished line is held. *)
Theorem C04_chunking : forall (matches : bytes -> bool) (maxlen cap : nat) (pre : bytes) (es : list tev),
  let s := trun matches maxlen cap (tinit maxlen pre) es in
  exists n, n <= length (twritten es) /\ f_off (t_r s) = length pre + n /\
    f_file (t_r s) = pre ++ twritten es /\
    produced s = raw_lines maxlen (firstn n (twritten es)) /\
    rev' (f_cur (t_r s)) = partial_line maxlen (firstn n (twritten es)) /\
    (f_off (t_r s) = length (f_file (t_r s)) ->
       produced s = raw_lines maxlen (twritten es) /\ rev' (f_cur (t_r s)) = partial_line maxlen (twritten es)).
Proof. exact chunking. Qed.
Print Assumptions C04_chunking.

(* What the raw lines are: when no line reaches MaxLineLength, exactly the newline-terminated
   pieces of the appended bytes, unmodified and in order, and the held part is the unterminated
   rest; in general the lines of the cat reader (C01: a newline inserted after every MaxLineLength
   bytes) minus the unterminated rest. *)
Theorem C04_lines : forall maxlen s, 0 < maxlen -> short_lines maxlen s = true ->
  raw_lines maxlen s = complete_lines s /\ partial_line maxlen s = last (split x0a s) [].
Proof. exact raw_lines_short. Qed.
Print Assumptions C04_lines.

Theorem C04_lines_long : forall maxlen s,
  reader beqb x0a maxlen [] maxlen s =
  raw_lines maxlen s ++ match fst (fst (tfeed maxlen [] maxlen s)) with [] => [] | c => [rev' c] end.
Proof. intros. apply reader_tfeed. Qed.

Theorem C04_read_boundaries : forall maxlen chunks cur k,
  tfeed_chunks maxlen cur k chunks = tfeed maxlen cur k (concat chunks).
Proof. exact tfeed_chunks_concat. Qed.

(* Delivery side, EVERY schedule: what the consumer received plus what waits in the queue is the
   subsequence of the raw lines that match the filter and did not find the queue full - each once,
   in order, unmodified. *)
Theorem C04_delivery : forall (matches : bytes -> bool) (maxlen cap : nat) (pre : bytes) (es : list tev),
  let s := trun matches maxlen cap (tinit maxlen pre) es in
  sent s = delivered_of (t_hist s) /\
  map l_text (sent s) = map fst (filter accepted (t_hist s)) /\
  Forall (fun e => fst (snd e) = matches (chomp (fst e))) (t_hist s).
Proof. exact delivery. Qed.
Print Assumptions C04_delivery.

(* Lines are dropped only when the client cannot keep up: if the filter never finds the queue
   full, every matching raw line is delivered. *)
Theorem C04_no_drop : forall (matches : bytes -> bool) (maxlen cap : nat) (pre : bytes) (es : list tev),
  keeps_up matches maxlen cap (tinit maxlen pre) es ->
  let s := trun matches maxlen cap (tinit maxlen pre) es in
  map l_text (sent s) = filter (fun l => matches (chomp l)) (map fst (t_hist s)).
Proof. exact no_drop. Qed.
Print Assumptions C04_no_drop.

(* the number on a delivered line is its position among all raw lines since the follow began *)
Theorem C04_count : forall es j n p, nth_error (frun finit es) j = Some (Some (n, p)) -> n = N.of_nat (S j).
Proof. exact count_label. Qed.

(* After a drop, every line delivered within the statistics window (fewer than [ring] raw lines
   later - in particular the next delivered line, unless ring-1 or more non-delivered lines lie in
   between) reports a percentage below 100.  The percentage is computed in binary64 exactly as the
   Go code does; the bound is proved by evaluating all pairs 0 <= t < m <= ring in the kernel. *)
Theorem C04_perc : forall (flags : list (bool * bool)) i j,
  i < j -> j - i < ring ->
  nth_error flags i = Some (true, true) -> nth_error flags j = Some (true, false) ->
  exists n p, nth_error (frun finit flags) j = Some (Some (n, p)) /\ p < 100.
Proof. exact perc_after_drop. Qed.
Print Assumptions C04_perc.

(* The sentence as written ("the next delivered line reports < 100", no window) is false of the
   faithful model: drop, ring-1 non-matching lines, then a delivered line with 100.
   Recorded finding drop_forgotten_after_window. *)
Theorem C04_perc_next_refuted :
  nth_error refute_flags 0 = Some (true, true) /\
  (forall k, 0 < k < ring -> nth_error (frun finit refute_flags) k = Some None) /\
  nth_error (frun finit refute_flags) ring = Some (Some (N.of_nat (S ring), 100)).
Proof. exact perc_next_refuted. Qed.
Print Assumptions C04_perc_next_refuted.

(* non-vacuity: a schedule with a split inside a line, a slow consumer, a drop and its report *)
Example C04_example :
  let m := fun l : bytes => negb (bprefix (B"#") l) in
  let s := trun m 1000 1 (tinit 1000 (B"old line" ++ [x0a] ++ B"old par"))
             [TWrite (B"tial" ++ [x0a] ++ B"se"); TRead 3; TRead 100; TFilter; TWrite (B"cond" ++ [x0a] ++ B"#c" ++ [x0a] ++ B"third" ++ [x0a] ++ B"fou");
              TRead 7; TRead 100; TFilter; TFilter; TFilter; TConsume; TConsume; TWrite (B"rth" ++ [x0a]); TRead 9; TFilter] in
  map obs_of (t_got s) = [(B"tial" ++ [x0a], 1, 100)%Z] /\
  map obs_of (t_queue s) = [(B"fourth" ++ [x0a], 5, 50)%Z] /\
  map snd (t_hist s) = [(true, false); (true, true); (false, true); (true, true); (true, false)].
Proof. vm_compute. repeat split; reflexivity. Qed.
