(* C05 — the distributed mapreduce result equals the central evaluation.  Statements only.
   Records = log lines after the line-local steps (format parsing, where, set, group key), which
   are the same code centrally and distributed and are checked against an independent reference
   by the correspondence run; this file is about the aggregation algebra. *)
From Coq Require Import Permutation.
From Coq Require Import Sorting.Sorted.
From DT Require Import Lib.Bytes Model.C05_Mapr Proofs.C05_Mapr Proofs.C05_Order Model.C05_Pipeline Proofs.C05_Pipeline.

(* However the records are cut into chunks - servers x files x serialisation intervals, any
   number and any sizes, empty chunks included - aggregating every chunk where it lives, sending
   it and merging it at the client gives, for every group, exactly the aggregate set (sample
   count and every column: count, sum, min, max, avg's sum, last, len) of aggregating all records
   once.  Any select list, any values (numeric or not, fields present or missing). *)
Theorem C05_partition : forall (ops : list aop) (chunks : list (list record)) (k : bytes),
  gget (distributed true ops chunks) k = gget (central ops (concat chunks)) k.
Proof. exact distributed_is_central. Qed.
Print Assumptions C05_partition.

(* The pinned Merge read a storage key the partial result does not have as 0 / "": refuted.
   Server 1 reports min(x) = 5 for a group, server 2 only counted something else for it. *)
Theorem C05_refuted_pinned_merge : exists ops chunks k,
  gget (distributed false ops chunks) k <> gget (central ops (concat chunks)) k.
Proof.
  exists [OMin; OCount],
         [[(B"a", [Some {| v_raw := B"5"; v_num := Some 5000%Z |}; None])];
          [(B"a", [None; Some {| v_raw := B"w"; v_num := None |}])]],
         (B"a").
  vm_compute. discriminate.
Qed.
Print Assumptions C05_refuted_pinned_merge.

(* Arrival order: for the numeric operations two aggregation steps commute on the stored number
   (so count / sum / min / max / avg do not depend on the order in which servers deliver);
   last and len keep the value that arrived last - the property allows any candidate. *)
Theorem C05_order_numeric : forall op c v1 v2 c1 c12 c2 c21, numeric_op op = true ->
  agg1 op c v1 = Some c1 -> agg1 op c1 v2 = Some c12 -> agg1 op c v2 = Some c2 -> agg1 op c2 v1 = Some c21 -> c12 = c21.
Proof. exact agg1_comm_num. Qed.
Print Assumptions C05_order_numeric.

(* Whole runs: the partial results of the servers may reach the client in any order - for a select
   list of numeric aggregations (count, sum, min, max, avg) every group's aggregate set is the same
   for every permutation of the chunk list. *)
Theorem C05_order : forall (ops : list aop) (chunks chunks' : list (list record)) (k : bytes),
  forallb numeric_op ops = true -> Permutation chunks chunks' ->
  gget (distributed true ops chunks) k = gget (distributed true ops chunks') k.
Proof. exact distributed_order. Qed.
Print Assumptions C05_order.

(* The whole pipeline.  Lines, not records: whatever the line-local steps do (log format parsing, the where filter,
   the set-assignments, the group key - [prep] is ANY function of the single line), however the lines are spread over
   servers, files and partial-result transmissions: group by group the distributed run holds what the central
   evaluation over all lines holds, ... *)
Theorem C05_lines : forall (line : Type) (prep : line -> option record) (ops : list aop) (chunks : list (list line)) (k : bytes),
  gget (distributed_lines line prep ops chunks) k = gget (central_lines line prep ops (concat chunks)) k.
Proof. exact @lines_distributed_is_central. Qed.
Print Assumptions C05_lines.

(* ... and the result tables are the same: for ANY ordering relation (order by / rorder by any column; rows the
   relation does not separate may stand either way - the choice among tied rows) and any limit, a table is a possible
   result of the distributed run iff it is a possible result of the central evaluation.  A result table = the groups
   that have samples, sorted, cut at the limit. *)
Theorem C05_pipeline : forall (line : Type) (prep : line -> option record) (before : row -> row -> Prop)
                              (ops : list aop) (chunks : list (list line)) (limit : option nat) (rows : list row),
  is_result before (distributed_lines line prep ops chunks) limit rows
  <-> is_result before (central_lines line prep ops (concat chunks)) limit rows.
Proof. exact @pipeline. Qed.
Print Assumptions C05_pipeline.

(* non-vacuity: lines (group, number); where number >= 0; set number := 2 * number; select sum, order by sum, limit 1 *)
Example C05_pipeline_example :
  let prep := fun l : bytes * Z => if (snd l <? 0)%Z then None else Some (fst l, [Some {| v_raw := []; v_num := Some (2 * snd l)%Z |}]) in
  let key := fun r : row => match a_cells (snd r) with c :: _ => match c_f c with Some z => z | None => 0%Z end | [] => 0%Z end in
  let before := fun a b : row => (key b <= key a)%Z in
  let chunks := [[(B"a", 1000%Z); (B"b", 5000%Z)]; []; [(B"a", (-7000)%Z); (B"a", 3000%Z)]] in
  exists s, is_result before (distributed_lines _ prep [OSum] chunks) (Some 1) [(B"b", s)] /\ a_cells s = [{| c_f := Some 10000%Z; c_s := None |}].
Proof.
  cbv zeta. exists {| a_samples := 1; a_cells := [{| c_f := Some 10000%Z; c_s := None |}] |}. split; [|reflexivity].
  exists [(B"b", {| a_samples := 1; a_cells := [{| c_f := Some 10000%Z; c_s := None |}] |}); (B"a", {| a_samples := 2; a_cells := [{| c_f := Some 8000%Z; c_s := None |}] |})].
  split; [vm_compute; apply perm_swap|]. split; [|reflexivity].
  repeat constructor; cbn; lia.
Qed.

Example C05_example :
  let v s n := Some {| v_raw := s; v_num := n |} in
  let recs1 := [(B"a", [v (B"5") (Some 5000%Z); v (B"x") None]); (B"b", [v (B"1") (Some 1000%Z); None])] in
  let recs2 := [(B"a", [v (B"-3") (Some (-3000)%Z); v (B"yy") None]); (B"a", [None; None])] in
  let ops := [OAvg; OLast] in
  gget (distributed true ops [recs1; []; recs2]) (B"a") = gget (central ops (recs1 ++ recs2)) (B"a")
  /\ option_map (result_row ops) (gget (central ops (recs1 ++ recs2)) (B"a")) = Some [RAvg 2000 2; RStr (B"yy")].
Proof. vm_compute. split; reflexivity. Qed.
