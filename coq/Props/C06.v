(* C06 — mapreduce accounts for every file of every server under any scheduling.
   Statements only. *)
From DT Require Import Lib.Bytes Model.C06_Account Proofs.C06_Account Proofs.C06_Full Model.C01_Eof Proofs.C01_Eof.

(* Client side, repaired (blocking Merge): whatever the servers send and however the messages of
   different connections interleave, every partial result is merged into the global group exactly
   once - the global count equals everything received, nothing is left in a local group. *)
Theorem C06_client : forall (msgs : list (nat * nat)),
  exists c, crun true cinit0 (fixed_history msgs) = Some c
            /\ glob c = fold_right (fun m acc => snd m + acc) 0 msgs
            /\ (forall s, locals c s = 0) /\ received c = glob c.
Proof.
  exact (fun msgs => match fixed_history_total msgs cinit0 (fun _ => eq_refl) with
                     | ex_intro _ c (conj a (conj b (conj d e))) => ex_intro _ c (conj a (conj b (conj d (eq_trans e (eq_sym b))))) end).
Qed.
Print Assumptions C06_client.

(* Client side, pinned (MergeNoblock): refuted - the semaphore is busy when the last partial
   result of a connection arrives, the local group is kept "for next time", which never comes. *)
Theorem C06_client_refuted : exists es c, crun false cinit0 es = Some c /\ glob c < received c.
Proof. exists [CRecv 0 5; CMergeBusy 0]. eexists. split; [reflexivity|cbn; lia]. Qed.
Print Assumptions C06_client_refuted.

(* Server side, pinned: refuted twice - (a) the aggregator sees its current channel closed and the
   queue momentarily empty while reader 1 has been accepted but has not registered its channel;
   (b) ... while the channel of reader 0 is in the hands of the re-queue goroutine. *)
Theorem C06_server_refuted_unregistered : exists es s,
  srun false sinit es = Some s /\ finished s = true /\ 0 < pending s.
Proof.
  exists [SAccept; SAccept; SRegister 0; SFirst; SPush 0; STake; SCloseDone 0; SStop]. eexists.
  split; [vm_compute; reflexivity|]. split; [reflexivity|cbn; lia].
Qed.
Theorem C06_server_refuted_requeue : exists es s,
  srun false sinit es = Some s /\ finished s = true /\ consumed s < produced s.
Proof.
  exists [SAccept; SAccept; SRegister 0; SRegister 1; SFirst; SSwapIdle; SPush 0; SCloseDone 1; SStop]. eexists.
  split; [vm_compute; reflexivity|]. split; [reflexivity|cbn; lia].
Qed.
Print Assumptions C06_server_refuted_requeue.

(* Server side, repaired, EVERY schedule (any interleaving of command arrivals, registrations, pushes,
   closes, the aggregator's takes, swaps and re-queues): when the aggregator has finished, no accepted
   read command is outstanding, every registered channel is closed and empty, and every line any
   reader produced has been consumed.  Channel-tracking invariant: every registered channel is the
   current one, queued, in the hands of a re-queue goroutine, or closed and drained; produced =
   consumed + what is queued; open channels <= outstanding commands. *)
Theorem C06_server : forall es s, srun true sinit es = Some s -> finished s = true ->
  pending s = 0 /\ consumed s = produced s /\
  forall i, In i (regd s) -> closed (chans s i) = true /\ queued (chans s i) = 0.
Proof. exact server_complete. Qed.
Print Assumptions C06_server.

(* the guard of the stop decision itself *)
Theorem C06_server_partial : forall s s', sstep true s SStop = Some s' ->
  pending s = 0 /\ inflight s = [] /\ nextq s = [] /\
  exists c, cur s = Some c /\ closed (chans s c) = true /\ queued (chans s c) = 0.
Proof. exact stop_guard. Qed.
Print Assumptions C06_server_partial.

Theorem C06_server_only_stop_finishes : forall fixed s e s', sstep fixed s e = Some s' -> finished s' = true -> e = SStop.
Proof. exact finish_only_by_stop. Qed.

(* the witness of (b) cannot finish in the repaired system *)
Example C06_requeue_blocked :
  srun true sinit [SAccept; SAccept; SRegister 0; SRegister 1; SFirst; SSwapIdle; SPush 0; SCloseDone 1; SStop] = None.
Proof. vm_compute. reflexivity. Qed.

(* End of file (a long mapreduce read: the last, unterminated line of a file still counts): see Props/C01.v; the operator of the truncation test comes from the source. *)
Theorem C06_eof_delivers_rest : forall (tick pick pending : bool) (offset size : Z), (offset <= size)%Z ->
  at_eof false tick false pick pending (Some offset) (Some size) = EofStop pending.
Proof. exact eof_delivers_rest. Qed.
