(* C07 — multi-source output is a whole-line interleaving with correct attribution.  Statements only. *)
From DT Require Import Lib.Bytes Lib.Split Gen.Consts Model.C01_Cat Proofs.C01_Cat Model.C07_Multi Proofs.C07_Multi.

(* The whole system: any number of servers, each with any number of files and ANY schedule of its
   shared lines queue; ANY cutting of every connection's byte stream by the transport and ANY order
   in which the pieces of different connections arrive.  Once everything has arrived:
   (1) per connection, the printed messages are exactly that server's records, each whole, in the
       server's order (every record followed by the empty message of its frame delimiter);
   (2) stdout consists of whole lines, and the lines are exactly the printed records in print order:
       no line of stdout mixes two sources. *)
Theorem C07_interleave : forall (servers : list srv) (csched : list (nat * nat)),
  Forall srv_clean servers ->
  let st := crun (map srv_stream servers) csched in
  (forall c, c < length servers -> exists buf, nth_error (fst st) c = Some ([], buf)) ->
  (forall c host files ss, nth_error servers c = Some (host, files, ss) ->
     proj c (snd st) = flat_map (fun r => [r; []]) (map snd (server_records host files ss))) /\
  exists ws, Forall (plain nl_byte delim_byte) ws /\
    split nl_byte (stdout_of (snd st)) = ws ++ [[]] /\
    map (fun w => w ++ [nl_byte]) ws = filter nonempty (map snd (snd st)).
Proof. exact interleave. Qed.
Print Assumptions C07_interleave.

(* At any moment (not only at the end), for every connection: what has been printed for it is what
   its own bytes alone produce - independent of the other connections and of the chunking. *)
Theorem C07_client : forall streams sched c s,
  nth_error streams c = Some s ->
  exists consumed pending buf,
    nth_error (fst (crun streams sched)) c = Some (pending, buf) /\ s = consumed ++ pending /\
    cli_feed beqb nl_byte delim_byte [] consumed = (buf, proj c (snd (crun streams sched))) /\
    (pending = [] -> proj c (snd (crun streams sched)) = snd (cli_feed beqb nl_byte delim_byte [] s)).
Proof. exact client_interleave. Qed.
Print Assumptions C07_client.

(* Attribution: whatever the schedule, the records of file f are, in order, record(host, 100, k,
   id_f, k-th line) for k = 1, 2, ...: host name, file identifier and running number are those of
   the line's own source, the text is unmodified, per-source order is kept. *)
Theorem C07_label : forall host files sched f id lines,
  nth_error files f = Some (id, lines) ->
  exists k, proj f (server_records host files sched) =
            map (fun p => record host 100 (fst p) id (snd p)) (firstn k (number_from 0 lines)).
Proof. exact server_label. Qed.
Print Assumptions C07_label.

(* makeGlobID: total on what filepath.Glob returns (as many path components as the cleaned glob),
   base name without a star *)
Theorem C07_globid_total : forall path glob,
  length (split slash glob) <= length (split slash path) -> glob_id path glob <> None.
Proof. exact glob_id_total. Qed.
Theorem C07_globid_nostar : forall path glob,
  forallb (fun g => negb (has_star g)) (split slash glob) = true -> glob_id path glob = Some (last (split slash path) []).
Proof. exact glob_id_nostar. Qed.
Print Assumptions C07_globid_total.

Example C07_example :
  let f1 := (B"a", [B"one" ++ [x0a]; B"two" ++ [x0a]]) in
  let f2 := (B"b", [B"uno" ++ [x0a]]) in
  let s1 := server_stream (B"h1") [f1; f2] [0; 1; 0] in
  let s2 := server_stream (B"h2") [f2] [0] in
  stdout_of (snd (crun [s1; s2] [(0, 9); (1, 4); (0, 30); (1, 100); (0, 100)])) =
    B"REMOTE|h1|100|1|a|one" ++ [x0a] ++ B"REMOTE|h2|100|1|b|uno" ++ [x0a] ++ B"REMOTE|h1|100|1|b|uno" ++ [x0a] ++ B"REMOTE|h1|100|2|a|two" ++ [x0a]
  /\ glob_id (B"/var/log/app7/x/service.log") (B"/var/log/app*/x/*.log") = Some (B"app7/service.log")
  /\ glob_id (B"/var/log/service.log") (B"/var/log/service.log") = Some (B"service.log")
  /\ glob_id (B"/var/log") (B"/var/*/*/x*") = None.
Proof. vm_compute. repeat split; reflexivity. Qed.
