(* C08 — users read only files their permission rules allow.  Statements only. *)
From DT Require Import Lib.Bytes Lib.Split Model.C08_Perm Proofs.C08_Perm Model.C08_Path Proofs.C08_Path.

(* Every rule - any pattern, ':' included (POSIX classes), bare or 'readfiles:'-prefixed, with or
   without '!' - is read as (readfiles, negate, pattern) of its meaning. *)
Theorem C08_parse : forall rule,
  parse_rule true rule = (readfiles, fst (rule_meaning rule), snd (rule_meaning rule)).
Proof. exact parse_rule_fixed. Qed.
Print Assumptions C08_parse.

(* The pinned reading is refuted: a bare deny rule with a POSIX class is taken for a rule of the
   unknown type "!^/secret/[[" and skipped - with "^/.*" before it, the file is GRANTED. *)
Theorem C08_refuted_colon_in_pattern :
  let rules := [B"^/.*"; B"!^/secret/[[:alpha:]]+$"] in
  decide (fun _ => true) (fun p => negb (bytes_eqb p (B"nomatch"))) false rules = true
  /\ last_match (fun p => negb (bytes_eqb p (B"nomatch"))) rules false = false.
Proof. vm_compute. split; reflexivity. Qed.
Print Assumptions C08_refuted_colon_in_pattern.

(* A file is served iff its path resolves, the resolved path is a regular file, and the LAST
   rule matching the resolved path is an allow rule (no match: deny) - for every rule list whose
   patterns compile, every match oracle, default or per-user rules (which replace the defaults). *)
Theorem C08_served_iff : forall (compiles matches : bytes -> bool) defaults per_user resolved regular,
  (forall r, In r (rules_for defaults per_user) -> compiles (snd (rule_meaning r)) = true) ->
  served compiles matches true defaults per_user resolved regular = true <->
  (exists p, resolved = Some p) /\ regular = true /\
  exists before r after, rules_for defaults per_user = before ++ r :: after
    /\ matches (snd (rule_meaning r)) = true /\ fst (rule_meaning r) = false
    /\ (forall x, In x after -> matches (snd (rule_meaning x)) = false).
Proof. exact served_iff. Qed.
Print Assumptions C08_served_iff.

(* non-vacuity: default allow-all, per-user rules replace it, a symlink resolved into a denied
   directory is refused *)
Example C08_example :
  let m := fun resolved (p : bytes) => if bytes_eqb p (B"^/.*") then true
                                       else if bytes_eqb p (B"^/var/log/[[:alnum:]]+\\.log$") then bytes_eqb resolved (B"/var/log/app.log")
                                       else if bytes_eqb p (B"^/var/log/secret") then bprefix (B"/var/log/secret") resolved else false in
  let rules := Some [B"^/var/log/[[:alnum:]]+\\.log$"; B"readfiles:!^/var/log/secret"] in
  served (fun _ => true) (m (B"/var/log/app.log")) true [B"^/.*"] rules (Some (B"/var/log/app.log")) true = true
  /\ served (fun _ => true) (m (B"/var/log/secret/x.log")) true [B"^/.*"] rules (Some (B"/var/log/secret/x.log")) true = false
  /\ served (fun _ => true) (m (B"/etc/passwd")) true [B"^/.*"] None (Some (B"/etc/passwd")) true = true.
Proof. vm_compute. repeat split; reflexivity. Qed.

(* Path resolution (Model/C08_Path.v: the physical walk of open(2) / filepath.EvalSymlinks over an abstract file system -
   symbolic links followed, ".." taken in the directory actually reached, ELOOP by fuel).  The path the permission rules
   are matched against is canonical - a chain of real directories, ending in a directory or in a file - and a fixed point of
   the walk: opening the requested path and opening the path that was checked reach the same file. *)
Theorem C08_resolved_canonical : forall fs fuel req r, resolve fs fuel req = Some r -> canonical fs r.
Proof. exact resolve_canonical. Qed.
Theorem C08_resolve_idempotent : forall fs fuel req r, wf_fs fs -> resolve fs fuel req = Some r -> resolve fs 1 r = Some r.
Proof. exact resolve_idempotent. Qed.
Print Assumptions C08_resolve_idempotent.

(* The order matters: cleaning the path lexically BEFORE the links are resolved (filepath.Abs first) checks a different
   file than the one that is opened - ".." behind a directory link. *)
Theorem C08_clean_first_refuted : exists fs req r1 r2,
  resolve fs 40 req = Some r1 /\ resolve fs 40 (clean req) = Some r2 /\ r1 <> r2.
Proof.
  exists [([B"ok"], NDir); ([B"ok"; B"app.log"], NFile); ([B"rel"], NDir); ([B"rel"; B"v2"], NDir); ([B"rel"; B"v2"; B"logs"], NDir);
          ([B"rel"; B"v2"; B"app.log"], NFile); ([B"ok"; B"current"], NLink false [B".."; B"rel"; B"v2"; B"logs"])],
         [B"ok"; B"current"; B".."; B"app.log"], [B"rel"; B"v2"; B"app.log"], [B"ok"; B"app.log"].
  vm_compute. repeat split; congruence.
Qed.
