(* C09 — sessions are granted only to authorised keys and the fixed service users.
   Statements only. *)
From DT Require Import Lib.Bytes Lib.Split Model.C09_Auth Proofs.C09_Auth.

(* An offered key is accepted iff it is listed in the authorized-keys file - whatever blank,
   comment or unparsable lines the file holds and wherever they are. *)
Theorem C09_keys : forall (ls : list akline) (offered : nat),
  verify true ls offered = true <-> In (LKey offered) ls.
Proof. exact verify_fixed_iff. Qed.
Print Assumptions C09_keys.

(* The pinned loop is refuted: one blank (or comment) line after the last key makes the parser
   report "no key found", the error aborts verification and the listed key is rejected. *)
Theorem C09_refuted_trailing_line : exists ls k, In (LKey k) ls /\ verify false ls k = false.
Proof. exists [LKey 7; LBlank], 7. split; [now left|reflexivity]. Qed.
Print Assumptions C09_refuted_trailing_line.

(* Passwords: granted iff health/health, or a background user whose password is a configured
   job name with the peer address on that job's allow list (DNS as an oracle). *)
Theorem C09_password : forall (resolve : bytes -> list bytes) user pw ip schedule continuous,
  pw_ok resolve user pw ip schedule continuous = true <->
  (user = health_user /\ pw = health_user)
  \/ (user = schedule_user /\ exists j, In j schedule /\ pw = j_name j /\ exists a, In a (j_allow j) /\ In ip (resolve a))
  \/ (user = continuous_user /\ exists j, In j continuous /\ pw = j_name j /\ exists a, In a (j_allow j) /\ In ip (resolve a)).
Proof. exact pw_ok_iff. Qed.
Print Assumptions C09_password.

(* A health session answers OK to the health command only. *)
Theorem C09_health_only : forall name, health_answer name = HealthOK <-> name = B"health".
Proof. exact health_only. Qed.
Print Assumptions C09_health_only.

Example C09_example :
  verify true [LComment; LKey 1; LBlank; LJunk; LKey 2; LBlank; LComment] 2 = true
  /\ verify true [LComment; LKey 1; LBlank; LJunk; LKey 2; LBlank; LComment] 3 = false
  /\ pw_ok (fun a => [a]) schedule_user (B"nightly") (B"10.0.0.7")
        [{| j_name := B"hourly"; j_allow := [B"10.0.0.7"] |}; {| j_name := B"nightly"; j_allow := [B"10.0.0.9"; B"10.0.0.7"] |}] [] = true
  /\ pw_ok (fun a => [a]) schedule_user (B"nightly") (B"10.0.0.8")
        [{| j_name := B"nightly"; j_allow := [B"10.0.0.9"; B"10.0.0.7"] |}] [] = false.
Proof. vm_compute. repeat split; reflexivity. Qed.
