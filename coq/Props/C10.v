(* C10 — no client-supplied bytes can crash the server.  Statements only.
   Scope of this model: Write (cut at ';'), handleCommand, handleProtocolVersion, handleBase64,
   option parsing, dispatch, the arity checks of the read / ack / map commands.  Query parsing is
   C11's model (C11_total); the reader's channel allocation is covered by C10_context_bounded. *)
From DT Require Import Lib.Bytes Lib.Split Gen.Consts Model.Proto Proofs.C10_NoPanic.

(* For every byte string written to a session, in every session state, with any behaviour of
   the standard-library oracles: no handled command reaches a Go panic (index out of range,
   slice bounds, nil dereference) - each one yields an error message, a started command, an
   acknowledgement, or nothing. *)
Theorem C10_no_panic :
  forall (b64dec : bytes -> option bytes) (atoi : bytes -> option Z) (regex_compiles query_parses : bytes -> bool)
         (stream : bytes) (st : sopts) (buf : bytes),
    forallb (fun x => negb (is_panic x)) (snd (srv_write b64dec atoi regex_compiles query_parses st buf stream)) = true.
Proof. exact srv_write_no_panic. Qed.
Print Assumptions C10_no_panic.

Example C10_example :
  map (fun x => snd x) (run_session [(B"dGFpbA==", Some (B"tail")); (B"Y2F0", Some (B"cat")); (B"LmFjayBjbG9zZQ==", Some (B".ack close"))] [] [] []
     (B"protocol " ++ c_protocol_compat ++ B" base64 dGFpbA==;protocol " ++ c_protocol_compat ++ B" base64 Y2F0;protocol "
      ++ c_protocol_compat ++ B" base64 LmFjayBjbG9zZQ==;garbage;"))
  = [OErr EArgs; OErr EArgs; OErr EAckArgs; OErr EProto].
Proof. vm_compute. reflexivity. Qed.
