(* C11 — valid queries parse to the structure they denote; invalid ones are rejected; parsing
   never panics.  Statements only. *)
From DT Require Import Lib.Bytes Lib.Split Gen.Consts Model.C11_Query Proofs.C11_Query Proofs.C11_Surface.

(* Parsing never panics: for every query text and every behaviour of strconv's ParseFloat / Atoi,
   NewQuery returns (nil,nil) for the empty string, an error, or a query - every slice and index
   of tokenize / tokensConsume / parseTokens / makeSelect / makeWhere / makeSet / NewFunctionStack
   is in range (the lone back-quote token of the pinned tree is the repaired case). *)
Theorem C11_total : forall (is_float : bytes -> bool) (atoi : bytes -> option Z) (s : bytes),
  new_query is_float atoi s <> Some RPanic.
Proof. exact new_query_total. Qed.
Print Assumptions C11_total.

(* Keyword detection does not depend on letter case: any per-letter case variant of a word is
   classified like the word itself. *)
Theorem C11_keyword_case : forall s s', lower s = lower s' -> is_keyword (bare_tok s) = is_keyword (bare_tok s').
Proof. exact is_keyword_case. Qed.
Print Assumptions C11_keyword_case.

(* The separator style does not matter: for a text without double quotes, whatever separates its words
   - any non-empty mix of blanks, tabs, newlines, carriage returns, form feeds and commas, also in front
   of the first and behind the last word - the tokens are exactly the words; hence two texts with the same
   words in the same order parse to the same result (query, error, or nothing). *)
Theorem C11_separators : forall lead items,
  sep_string lead -> well_sep items -> ~ In dquote (lead ++ render items) ->
  tokenize (lead ++ render items) = map bare_tok (map fst items).
Proof. exact tokenize_separators. Qed.
Print Assumptions C11_separators.

Theorem C11_separators_parse : forall is_float atoi lead1 items1 lead2 items2,
  sep_string lead1 -> well_sep items1 -> ~ In dquote (lead1 ++ render items1) ->
  sep_string lead2 -> well_sep items2 -> ~ In dquote (lead2 ++ render items2) ->
  map fst items1 = map fst items2 -> items1 <> [] ->
  new_query is_float atoi (lead1 ++ render items1) = new_query is_float atoi (lead2 ++ render items2).
Proof. exact new_query_separators. Qed.
Print Assumptions C11_separators_parse.

(* The full round-trip statement (every valid query in every surface variation - clause order, quoting -
   parses to the structure it denotes; everything else is rejected) is NOT proved: it is exercised by the
   correspondence check, which renders random abstract queries in random clause orders, keyword cases,
   separator styles and quotings, mutates them, and compares every parsed field of mapr.NewQuery with this
   model.  What is proved is totality, keyword case-insensitivity and separator invariance. *)
Example C11_example :
  let text := B"SeLeCt count(x),`avg(y)`  from stats WHERE a >= 2.5 and ""s t"" eq b group by h rorder by count(x) limit 10" in
  match new_query (fun s => bytes_eqb s (B"2.5")) (fun s => if bytes_eqb s (B"10") then Some 10%Z else None) text with
  | Some (ROk q) => map s_storage (q_select q) = [B"count(x)"; B"avg(y)"] /\ q_table q = B"STATS"
                    /\ length (q_where q) = 2 /\ q_groupby q = [B"h"] /\ q_reverse q = true /\ q_limit q = 10%Z
  | _ => False
  end.
Proof. vm_compute. repeat split; reflexivity. Qed.

Example C11_separators_example :
  well_sep [(B"select", [x09]); (B"count(x)", [x2c; x0a; x20]); (B"from", [x0d; x0a]); (B"S", [])]
  /\ tokenize ([x0a] ++ render [(B"select", [x09]); (B"count(x)", [x2c; x0a; x20]); (B"from", [x0d; x0a]); (B"S", [])])
     = map bare_tok [B"select"; B"count(x)"; B"from"; B"S"].
Proof. split; [apply well_sep_b_ok; vm_compute; reflexivity|vm_compute; reflexivity]. Qed.
