(* C11 — valid queries parse to the structure they denote; invalid ones are rejected; parsing
   never panics.  Statements only. *)
From DT Require Import Lib.Bytes Lib.Split Gen.Consts Model.C11_Query Proofs.C11_Query.

(* Parsing never panics: for every query text and every behaviour of strconv's ParseFloat / Atoi,
   NewQuery returns (nil,nil) for the empty string, an error, or a query - every slice and index
   of tokenize / tokensConsume / parseTokens / makeSelect / makeWhere / makeSet / NewFunctionStack
   is in range (the lone back-quote token of the pinned tree is the repaired case). *)
Theorem C11_total : forall (is_float : bytes -> bool) (atoi : bytes -> option Z) (s : bytes),
  new_query is_float atoi s <> Some RPanic.
Proof. exact new_query_total. Qed.
Print Assumptions C11_total.

(* Keyword detection does not depend on letter case: any per-letter case variant of a word is
   classified like the word itself. *)
Theorem C11_keyword_case : forall s s', lower s = lower s' -> is_keyword (bare_tok s) = is_keyword (bare_tok s').
Proof. exact is_keyword_case. Qed.
Print Assumptions C11_keyword_case.

(* The full round-trip statement (every valid query in every surface variation parses to the
   structure it denotes; everything else is rejected) is NOT proved: it is exercised by the
   correspondence check, which renders random abstract queries in random clause orders, keyword
   cases, separator styles and quotings, mutates them, and compares every parsed field of
   mapr.NewQuery with this model.  What is proved is totality and case-insensitivity above. *)
Example C11_example :
  let text := B"SeLeCt count(x),`avg(y)`  from stats WHERE a >= 2.5 and ""s t"" eq b group by h rorder by count(x) limit 10" in
  match new_query (fun s => bytes_eqb s (B"2.5")) (fun s => if bytes_eqb s (B"10") then Some 10%Z else None) text with
  | Some (ROk q) => map s_storage (q_select q) = [B"count(x)"; B"avg(y)"] /\ q_table q = B"STATS"
                    /\ length (q_where q) = 2 /\ q_groupby q = [B"h"] /\ q_reverse q = true /\ q_limit q = 10%Z
  | _ => False
  end.
Proof. vm_compute. repeat split; reflexivity. Qed.
