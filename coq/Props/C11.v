(* C11 — valid queries parse to the structure they denote; invalid ones are rejected; parsing
   never panics.  Statements only. *)
From Coq Require Import Permutation.
From DT Require Import Lib.Bytes Lib.Split Gen.Consts Model.C11_Query Proofs.C11_Query Proofs.C11_Surface Proofs.C11_Order Proofs.C11_Denote Proofs.C11_Quote Proofs.C11_Reject.

(* Parsing never panics: for every query text and every behaviour of strconv's ParseFloat / Atoi,
   NewQuery returns (nil,nil) for the empty string, an error, or a query - every slice and index
   of tokenize / tokensConsume / parseTokens / makeSelect / makeWhere / makeSet / NewFunctionStack
   is in range (the lone back-quote token of the pinned tree is the repaired case). *)
Theorem C11_total : forall (is_float : bytes -> bool) (atoi : bytes -> option Z) (s : bytes),
  new_query is_float atoi s <> Some RPanic.
Proof. exact new_query_total. Qed.
Print Assumptions C11_total.

(* Keyword detection does not depend on letter case: any per-letter case variant of a word is
   classified like the word itself. *)
Theorem C11_keyword_case : forall s s', lower s = lower s' -> is_keyword (bare_tok s) = is_keyword (bare_tok s').
Proof. exact is_keyword_case. Qed.
Print Assumptions C11_keyword_case.

(* The separator style does not matter: for a text without double quotes, whatever separates its words
   - any non-empty mix of blanks, tabs, newlines, carriage returns, form feeds and commas, also in front
   of the first and behind the last word - the tokens are exactly the words; hence two texts with the same
   words in the same order parse to the same result (query, error, or nothing). *)
Theorem C11_separators : forall lead items,
  sep_string lead -> well_sep items -> ~ In dquote (lead ++ render items) ->
  tokenize (lead ++ render items) = map bare_tok (map fst items).
Proof. exact tokenize_separators. Qed.
Print Assumptions C11_separators.

Theorem C11_separators_parse : forall is_float atoi lead1 items1 lead2 items2,
  sep_string lead1 -> well_sep items1 -> ~ In dquote (lead1 ++ render items1) ->
  sep_string lead2 -> well_sep items2 -> ~ In dquote (lead2 ++ render items2) ->
  map fst items1 = map fst items2 -> items1 <> [] ->
  new_query is_float atoi (lead1 ++ render items1) = new_query is_float atoi (lead2 ++ render items2).
Proof. exact new_query_separators. Qed.
Print Assumptions C11_separators_parse.

(* The order of the clauses does not matter: a query made of well-formed clauses (keyword + non-empty
   body without keywords) of pairwise different kinds parses to the same result - the same query or the
   same rejection - in every permutation of its clauses, whatever strconv does. *)
Theorem C11_clause_order : forall is_float atoi (cs cs' : list cl) (q : query) (f f' : nat),
  Forall wf_clause cs -> Permutation cs cs' -> NoDup (map slot (upds is_float atoi cs)) ->
  length (toks cs) < f -> length (toks cs') < f' ->
  parse_tokens is_float atoi f q (toks cs) = parse_tokens is_float atoi f' q (toks cs').
Proof. exact clause_order. Qed.
Print Assumptions C11_clause_order.

(* Valid clauses parse to what they denote.  (1) The parsed query is the initial query with the updates
   of its clauses applied in order; (2) per clause kind, the update computed from a canonical rendering:
   the select list (aggregations op(field) and bare fields), the table (upper-cased), where conditions
   joined by "and" (operator from the operator table, operand types as NewQuery assigns them), group [by],
   order / rorder [by], limit and interval (through Atoi). *)
Theorem C11_denote : forall is_float atoi (cs : list cl) (q : query) (f : nat),
  Forall wf_clause cs -> all_ok is_float atoi cs -> length (toks cs) < f ->
  parse_tokens is_float atoi f q (toks cs) = ROk (apply_all q (upds is_float atoi cs)).
Proof. exact parse_denotes. Qed.
Print Assumptions C11_denote.

Theorem C11_denote_select : forall is_float atoi items, Forall sitem_ok items -> Forall simple (map sitem_tok items) ->
  eff is_float atoi (B"select") (map sitem_tok items) = ROk ([], USelect (map sitem_den items)).
Proof. exact select_denotes. Qed.
Theorem C11_denote_from : forall is_float atoi t, simple t ->
  eff is_float atoi (B"from") [t] = ROk ([], UTable (upper (t_str t))).
Proof. exact from_denotes. Qed.
Theorem C11_denote_where : forall is_float atoi ws, ws <> [] -> Forall witem_ok ws -> Forall simple (wtoks ws) ->
  (forall l o r, In (l, o, r) ws -> bytes_eqb (lower (t_str l)) (lower (B"and")) = false) ->
  eff is_float atoi (B"where") (wtoks ws) = ROk ([], UWhere (map (witem_den is_float) ws)).
Proof. exact where_denotes. Qed.
Theorem C11_denote_group : forall is_float atoi (by_given : bool) flds, flds <> [] -> Forall simple flds ->
  (forall t, nth_error flds 0 = Some t -> bytes_eqb (lower (t_str t)) (lower (B"by")) = false) ->
  eff is_float atoi (B"group") ((if by_given then [bare_tok (B"by")] else []) ++ flds) =
  ROk ([], UGroup (map t_str flds) (join_with x2c (map t_str flds))).
Proof. exact group_denotes. Qed.
Theorem C11_denote_order : forall is_float atoi (rev by_given : bool) t, simple t ->
  bytes_eqb (lower (t_str t)) (lower (B"by")) = false ->
  eff is_float atoi (if rev then B"rorder" else B"order") ((if by_given then [bare_tok (B"by")] else []) ++ [t]) =
  ROk ([], UOrder (t_str t) rev).
Proof. exact order_denotes. Qed.
Theorem C11_denote_limit : forall is_float atoi t z, simple t -> atoi (t_str t) = Some z ->
  eff is_float atoi (B"limit") [t] = ROk ([], ULimit z).
Proof. exact limit_denotes. Qed.
Theorem C11_denote_interval : forall is_float atoi t z, simple t -> atoi (t_str t) = Some z ->
  eff is_float atoi (B"interval") [t] = ROk ([], UInterval z).
Proof. exact interval_denotes. Qed.
Theorem C11_denote_outfile : forall is_float atoi (append : bool) t, simple t ->
  eff is_float atoi (B"outfile") ((if append then [bare_tok (B"append")] else []) ++ [t]) = ROk ([], UOutfile (Some (t_str t, append))).
Proof. exact outfile_denotes. Qed.
Theorem C11_denote_logformat : forall is_float atoi t, simple t ->
  eff is_float atoi (B"logformat") [t] = ROk ([], ULogformat (t_str t)).
Proof. exact logformat_denotes. Qed.
Theorem C11_denote_set : forall is_float atoi es, es <> [] -> Forall eitem_ok es -> Forall simple (etoks es) ->
  (forall l r, In (l, r) es -> bytes_eqb (lower (t_str l)) (lower (B",")) = false) ->
  eff is_float atoi (B"set") (etoks es) = ROk ([], USet (map (eitem_den is_float) es)).
Proof. exact set_denotes. Qed.
(* the post-checks: no select list is an error; an empty group-by defaults to the first selected field;
   an order-by that is not one of the selected columns is an error *)
Theorem C11_finish : forall q s0 rest, q_select q = s0 :: rest ->
  let q1 := match q_groupby q with [] => set_group q [s_field s0] (q_groupkey q) | _ => q end in
  finish q = if match q_orderby q1 with [] => true | ob => existsb (fun s => bytes_eqb ob (s_storage s)) (q_select q1) end
             then ROk q1 else RErr.
Proof. exact finish_spec. Qed.
Theorem C11_finish_no_select : forall q, q_select q = [] -> finish q = RErr.
Proof. exact finish_no_select. Qed.
Print Assumptions C11_denote_where.

(* Quoting.  A double-quoted string is ONE token, byte for byte (blanks, commas, keywords inside it do not count), and it is
   never a keyword; as a where operand it is a string literal (C11_denote_where: t_bare = false gives TString). *)
Theorem C11_quoted_literal : forall pre s post, ~ In dquote pre -> ~ In dquote s ->
  tokenize (pre ++ dquote :: s ++ dquote :: post) = map bare_tok (fields pre) ++ quoted_tok s :: tokenize post.
Proof. exact tokenize_quoted. Qed.
Theorem C11_quoted_not_keyword : forall s, is_keyword (quoted_tok s) = false.
Proof. exact quoted_not_keyword. Qed.
(* A back-quoted word in a select list is the FIELD of that name, whatever it contains (`avg(x)` is not an aggregation),
   and it is never a keyword (`from` is a field). *)
Theorem C11_denote_select_backquoted : forall is_float atoi items, Forall qitem_ok items ->
  eff is_float atoi (B"select") (map qitem_tok items) = ROk ([], USelect (map qitem_den items)).
Proof. exact select_denotes_bq. Qed.
(* Function stacks on the right-hand side of set: f1(f2(...(arg))) over md5sum / maskdigits denotes the functions outermost
   first and the innermost argument (which does not end in a closing parenthesis). *)
Theorem C11_denote_set_funcs : forall is_float atoi es, es <> [] -> Forall (fitem_ok) es -> Forall simple (ftoks es) ->
  (forall l r, In (l, r) es -> bytes_eqb (lower (t_str l)) (lower (B",")) = false) ->
  eff is_float atoi (B"set") (ftoks es) = ROk ([], USet (map (fitem_den is_float) es)).
Proof. exact set_denotes_funcs. Qed.
Print Assumptions C11_denote_set_funcs.

(* Malformed queries are rejected.  (1) One rejected clause rejects the whole query, wherever it stands among well-formed
   clauses.  (2) The malformed families, clause by clause: two tables; a limit / interval that is not a number; a where
   condition with an unknown operator, with fewer than three parts, or with a quoted operand under a numeric operator; a set
   assignment without '=', without a $variable on the left, or incomplete; an outfile with a wrong mode word or three words;
   an unknown aggregation.  (No select list, and an order-by column that is not selected: C11_finish above.) *)
Theorem C11_reject : forall is_float atoi (cs : list cl) (q : query) (fuel : nat) (c : cl),
  Forall wf_clause cs -> In c cs -> eff is_float atoi (ckw c) (snd c) = RErr -> length (toks cs) < fuel ->
  parse_tokens is_float atoi fuel q (toks cs) = RErr.
Proof. exact parse_rejects. Qed.
Print Assumptions C11_reject.
Theorem C11_reject_two_tables : forall is_float atoi t1 t2 rest, Forall simple (t1 :: t2 :: rest) -> eff is_float atoi (B"from") (t1 :: t2 :: rest) = RErr.
Proof. exact from_two_rejected. Qed.
Theorem C11_reject_limit : forall is_float atoi t rest, Forall simple (t :: rest) -> atoi (t_str t) = None -> eff is_float atoi (B"limit") (t :: rest) = RErr.
Proof. exact limit_nonnumber_rejected. Qed.
Theorem C11_reject_interval : forall is_float atoi t rest, Forall simple (t :: rest) -> atoi (t_str t) = None -> eff is_float atoi (B"interval") (t :: rest) = RErr.
Proof. exact interval_nonnumber_rejected. Qed.
Theorem C11_reject_where_operator : forall is_float atoi l o r rest, Forall simple (l :: o :: r :: rest) ->
  whereop_of (lower (t_str o)) = None -> eff is_float atoi (B"where") (l :: o :: r :: rest) = RErr.
Proof. exact where_unknown_op_rejected. Qed.
Theorem C11_reject_where_incomplete : forall is_float atoi l rest, Forall simple (l :: rest) -> length rest < 2 -> eff is_float atoi (B"where") (l :: rest) = RErr.
Proof. exact where_incomplete_rejected. Qed.
Theorem C11_reject_where_quoted_number : forall is_float atoi l o r rest op, Forall simple (l :: o :: r :: rest) ->
  whereop_of (lower (t_str o)) = Some op -> is_float_op op = true -> t_bare l = false \/ t_bare r = false ->
  eff is_float atoi (B"where") (l :: o :: r :: rest) = RErr.
Proof. exact where_quoted_number_rejected. Qed.
Theorem C11_reject_set_no_equals : forall is_float atoi l o r rest, Forall simple (l :: o :: r :: rest) ->
  bytes_eqb (t_str o) (B"=") = false -> eff is_float atoi (B"set") (l :: o :: r :: rest) = RErr.
Proof. exact set_no_equals_rejected. Qed.
Theorem C11_reject_set_no_dollar : forall is_float atoi l r rest, Forall simple (l :: bare_tok (B"=") :: r :: rest) ->
  bprefix [dollar] (t_str l) = false -> eff is_float atoi (B"set") (l :: bare_tok (B"=") :: r :: rest) = RErr.
Proof. exact set_no_dollar_rejected. Qed.
Theorem C11_reject_set_incomplete : forall is_float atoi l rest, Forall simple (l :: rest) -> length rest < 2 -> eff is_float atoi (B"set") (l :: rest) = RErr.
Proof. exact set_incomplete_rejected. Qed.
Theorem C11_reject_outfile_mode : forall is_float atoi a t, Forall simple [a; t] -> bytes_eqb (t_str a) (B"append") = false ->
  eff is_float atoi (B"outfile") [a; t] = RErr.
Proof. exact outfile_bad_mode_rejected. Qed.
Theorem C11_reject_outfile_three : forall is_float atoi a b c rest, Forall simple (a :: b :: c :: rest) -> eff is_float atoi (B"outfile") (a :: b :: c :: rest) = RErr.
Proof. exact outfile_three_rejected. Qed.
Theorem C11_reject_unknown_aggregation : forall is_float atoi name fld rest, ~ In lparen name -> ~ In lparen fld /\ ~ In rparen fld ->
  agg_of name = None -> Forall simple (bare_tok (name ++ lparen :: fld ++ [rparen]) :: rest) ->
  eff is_float atoi (B"select") (bare_tok (name ++ lparen :: fld ++ [rparen]) :: rest) = RErr.
Proof. exact select_unknown_agg_rejected. Qed.

(* What is still NOT proved: malformed texts outside these families (unbalanced back-quotes, stray parentheses, keywords as
   operands ...) and back-quoted words outside select lists are decided by the correspondence check, which renders random
   abstract queries in random clause orders, keyword cases, separator styles and quotings, mutates them, and compares every
   parsed field of mapr.NewQuery with this model and an independent denotation. *)
Example C11_example :
  let text := B"SeLeCt count(x),`avg(y)`  from stats WHERE a >= 2.5 and ""s t"" eq b group by h rorder by count(x) limit 10" in
  match new_query (fun s => bytes_eqb s (B"2.5")) (fun s => if bytes_eqb s (B"10") then Some 10%Z else None) text with
  | Some (ROk q) => map s_storage (q_select q) = [B"count(x)"; B"avg(y)"] /\ q_table q = B"STATS"
                    /\ length (q_where q) = 2 /\ q_groupby q = [B"h"] /\ q_reverse q = true /\ q_limit q = 10%Z
  | _ => False
  end.
Proof. vm_compute. repeat split; reflexivity. Qed.

Example C11_separators_example :
  well_sep [(B"select", [x09]); (B"count(x)", [x2c; x0a; x20]); (B"from", [x0d; x0a]); (B"S", [])]
  /\ tokenize ([x0a] ++ render [(B"select", [x09]); (B"count(x)", [x2c; x0a; x20]); (B"from", [x0d; x0a]); (B"S", [])])
     = map bare_tok [B"select"; B"count(x)"; B"from"; B"S"].
Proof. split; [apply well_sep_b_ok; vm_compute; reflexivity|vm_compute; reflexivity]. Qed.

Local Notation w s := (bare_tok (B s)) (only parsing).
Example C11_clause_order_example :
  let cs := [(w "select", [w "count(x)"; w "host"]); (w "from", [w "stats"]); (w "group", [w "by"; w "host"]); (w "limit", [w "10"])] in
  let cs' := [(w "limit", [w "10"]); (w "group", [w "by"; w "host"]); (w "select", [w "count(x)"; w "host"]); (w "from", [w "stats"])] in
  let atoi := fun s => if bytes_eqb s (B"10") then Some 10%Z else None in
  Forall wf_clause cs /\ Permutation cs cs' /\ NoDup (map slot (upds (fun _ => false) atoi cs))
  /\ match parse_tokens (fun _ => false) atoi 20 q0 (toks cs') with ROk q => q_table q = B"STATS" /\ q_limit q = 10%Z /\ q_groupby q = [B"host"] | _ => False end.
Proof.
  cbv zeta. split; [repeat constructor; apply wf_clause_b_ok; vm_compute; reflexivity|]. split.
  - eapply perm_trans; [apply Permutation_rev|]. cbn [rev app].
    apply perm_skip. apply perm_skip. apply perm_swap.
  - split; [vm_compute; repeat constructor; cbn; intuition discriminate|vm_compute; repeat split; reflexivity].
Qed.

Example C11_quote_example :
  let items := [QBack (B"avg(x)"); QPlain (SAgg ACount (B"y")); QBack (B"from")] in
  Forall qitem_ok items
  /\ map s_storage (map qitem_den items) = [B"avg(x)"; B"count(y)"; B"from"] /\ map s_op (map qitem_den items) = [ALast; ACount; ALast]
  /\ tokenize (B"where msg eq ""select, from"" and x") = [w "where"; w "msg"; w "eq"; quoted_tok (B"select, from"); w "and"; w "x"]
  /\ func_stack 9 (wrap [B"md5sum"; B"maskdigits"] (B"$line")) = ROk ([B"md5sum"; B"maskdigits"], B"$line").
Proof.
  cbv zeta. split; [|vm_compute; repeat split; reflexivity].
  repeat constructor; try (vm_compute; reflexivity); cbn; try discriminate; intuition discriminate.
Qed.

Example C11_reject_example :
  let cs := [(w "select", [w "count(x)"]); (w "from", [w "A"; w "B"]); (w "limit", [w "10"])] in
  Forall wf_clause cs /\ parse_tokens (fun _ => false) (fun _ => Some 10%Z) 20 q0 (toks cs) = RErr
  /\ new_query (fun _ => false) (fun _ => None) (B"select count(x) from S where a nosuchop 1") = Some RErr
  /\ new_query (fun _ => false) (fun _ => None) (B"select nosuch(x) from S") = Some RErr.
Proof.
  cbv zeta. split; [repeat constructor; apply wf_clause_b_ok; vm_compute; reflexivity|]. vm_compute. repeat split; reflexivity.
Qed.

Example C11_denote_example :
  let items := [SAgg ACount (B"x"); SField (B"host")] in
  Forall sitem_ok items /\ Forall simple (map sitem_tok items)
  /\ map s_storage (map sitem_den items) = [B"count(x)"; B"host"] /\ map s_op (map sitem_den items) = [ACount; ALast].
Proof.
  cbv zeta. split; [|split; [|split; reflexivity]].
  - repeat constructor; cbn; intuition discriminate.
  - repeat constructor; try (vm_compute; reflexivity); cbn; discriminate.
Qed.
