(* C11 — valid queries parse to the structure they denote; invalid ones are rejected; parsing
   never panics.  Statements only. *)
From Coq Require Import Permutation.
From DT Require Import Lib.Bytes Lib.Split Gen.Consts Model.C11_Query Proofs.C11_Query Proofs.C11_Surface Proofs.C11_Order.

(* Parsing never panics: for every query text and every behaviour of strconv's ParseFloat / Atoi,
   NewQuery returns (nil,nil) for the empty string, an error, or a query - every slice and index
   of tokenize / tokensConsume / parseTokens / makeSelect / makeWhere / makeSet / NewFunctionStack
   is in range (the lone back-quote token of the pinned tree is the repaired case). *)
Theorem C11_total : forall (is_float : bytes -> bool) (atoi : bytes -> option Z) (s : bytes),
  new_query is_float atoi s <> Some RPanic.
Proof. exact new_query_total. Qed.
Print Assumptions C11_total.

(* Keyword detection does not depend on letter case: any per-letter case variant of a word is
   classified like the word itself. *)
Theorem C11_keyword_case : forall s s', lower s = lower s' -> is_keyword (bare_tok s) = is_keyword (bare_tok s').
Proof. exact is_keyword_case. Qed.
Print Assumptions C11_keyword_case.

(* The separator style does not matter: for a text without double quotes, whatever separates its words
   - any non-empty mix of blanks, tabs, newlines, carriage returns, form feeds and commas, also in front
   of the first and behind the last word - the tokens are exactly the words; hence two texts with the same
   words in the same order parse to the same result (query, error, or nothing). *)
Theorem C11_separators : forall lead items,
  sep_string lead -> well_sep items -> ~ In dquote (lead ++ render items) ->
  tokenize (lead ++ render items) = map bare_tok (map fst items).
Proof. exact tokenize_separators. Qed.
Print Assumptions C11_separators.

Theorem C11_separators_parse : forall is_float atoi lead1 items1 lead2 items2,
  sep_string lead1 -> well_sep items1 -> ~ In dquote (lead1 ++ render items1) ->
  sep_string lead2 -> well_sep items2 -> ~ In dquote (lead2 ++ render items2) ->
  map fst items1 = map fst items2 -> items1 <> [] ->
  new_query is_float atoi (lead1 ++ render items1) = new_query is_float atoi (lead2 ++ render items2).
Proof. exact new_query_separators. Qed.
Print Assumptions C11_separators_parse.

(* The order of the clauses does not matter: a query made of well-formed clauses (keyword + non-empty
   body without keywords) of pairwise different kinds parses to the same result - the same query or the
   same rejection - in every permutation of its clauses, whatever strconv does. *)
Theorem C11_clause_order : forall is_float atoi (cs cs' : list cl) (q : query) (f f' : nat),
  Forall wf_clause cs -> Permutation cs cs' -> NoDup (map slot (upds is_float atoi cs)) ->
  length (toks cs) < f -> length (toks cs') < f' ->
  parse_tokens is_float atoi f q (toks cs) = parse_tokens is_float atoi f' q (toks cs').
Proof. exact clause_order. Qed.
Print Assumptions C11_clause_order.

(* What is still NOT proved of the round trip: that the structure obtained is the one the query denotes
   (this direction, the quoting variants and the rejection of malformed families are decided by the
   correspondence check, which renders random abstract queries in random clause orders, keyword cases,
   separator styles and quotings, mutates them, and compares every parsed field of mapr.NewQuery with this
   model and with an independent denotation).  Proved: totality, keyword case-insensitivity, separator
   invariance, clause-order invariance. *)
Example C11_example :
  let text := B"SeLeCt count(x),`avg(y)`  from stats WHERE a >= 2.5 and ""s t"" eq b group by h rorder by count(x) limit 10" in
  match new_query (fun s => bytes_eqb s (B"2.5")) (fun s => if bytes_eqb s (B"10") then Some 10%Z else None) text with
  | Some (ROk q) => map s_storage (q_select q) = [B"count(x)"; B"avg(y)"] /\ q_table q = B"STATS"
                    /\ length (q_where q) = 2 /\ q_groupby q = [B"h"] /\ q_reverse q = true /\ q_limit q = 10%Z
  | _ => False
  end.
Proof. vm_compute. repeat split; reflexivity. Qed.

Example C11_separators_example :
  well_sep [(B"select", [x09]); (B"count(x)", [x2c; x0a; x20]); (B"from", [x0d; x0a]); (B"S", [])]
  /\ tokenize ([x0a] ++ render [(B"select", [x09]); (B"count(x)", [x2c; x0a; x20]); (B"from", [x0d; x0a]); (B"S", [])])
     = map bare_tok [B"select"; B"count(x)"; B"from"; B"S"].
Proof. split; [apply well_sep_b_ok; vm_compute; reflexivity|vm_compute; reflexivity]. Qed.

Local Notation w s := (bare_tok (B s)) (only parsing).
Example C11_clause_order_example :
  let cs := [(w "select", [w "count(x)"; w "host"]); (w "from", [w "stats"]); (w "group", [w "by"; w "host"]); (w "limit", [w "10"])] in
  let cs' := [(w "limit", [w "10"]); (w "group", [w "by"; w "host"]); (w "select", [w "count(x)"; w "host"]); (w "from", [w "stats"])] in
  let atoi := fun s => if bytes_eqb s (B"10") then Some 10%Z else None in
  Forall wf_clause cs /\ Permutation cs cs' /\ NoDup (map slot (upds (fun _ => false) atoi cs))
  /\ match parse_tokens (fun _ => false) atoi 20 q0 (toks cs') with ROk q => q_table q = B"STATS" /\ q_limit q = 10%Z /\ q_groupby q = [B"host"] | _ => False end.
Proof.
  cbv zeta. split; [repeat constructor; apply wf_clause_b_ok; vm_compute; reflexivity|]. split.
  - eapply perm_trans; [apply Permutation_rev|]. cbn [rev app].
    apply perm_skip. apply perm_skip. apply perm_swap.
  - split; [vm_compute; repeat constructor; cbn; intuition discriminate|vm_compute; repeat split; reflexivity].
Qed.
