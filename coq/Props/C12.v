(* C12 — the server applies exactly the filter and options the user specified.  Statements only.
   encoding/base64 and strconv are standard-library oracles: what is assumed of them is stated
   as hypotheses (round trip and output alphabet). *)
From DT Require Import Lib.Bytes Lib.Split Gen.Consts Model.Proto Proofs.C12_Codec Proofs.C12_Session.

(* For every pattern (any bytes: spaces, ':', ';', ',', '%', '=', non-ASCII, leading/trailing
   blanks), flag, file path without a blank, before/after/max in Z, quiet/plain/serverless, and
   every order in which the Go map of options may be iterated: what the server decodes from the
   bytes the client sends is a read command with the same mode, context values, output modes,
   file, and the regex normalised by the documented no-op rule.  Nothing is left in the buffer. *)
Theorem C12_roundtrip :
  forall (b64enc : bytes -> bytes) (b64dec : bytes -> option bytes) (itoa : Z -> bytes) (atoi : bytes -> option Z)
         (regex_compiles query_parses : bytes -> bool),
    (forall s, b64dec (b64enc s) = Some s) ->
    (forall s, ~ In sp (b64enc s) /\ ~ In semicolon (b64enc s)) ->
    (forall z, atoi (itoa z) = Some z) ->
    (forall z, ~ In sp (itoa z) /\ ~ In colon (itoa z) /\ ~ In eqsign (itoa z) /\ ~ In percent (itoa z)) ->
  forall (r : creq) (order : list nat),
    wf_mode (c_mode r) -> ~ In sp (c_file r) ->
    (c_before r <= c_max_before_context)%Z ->     (* larger values are refused with an error (C10) *)
    (forall k, k < 6 -> has k order = true) ->
    regex_compiles (snd (regex_new (c_pattern r) (c_invert r))) = true ->
    let res := srv_write b64dec atoi regex_compiles query_parses sopts0 [] (wire b64enc (command itoa r order)) in
    snd (fst res) = [] /\
    map snd (snd res) = [ORead {| q_tail := bytes_eqb (c_mode r) (B"tail");
                                  q_before := c_before r; q_after := c_after r; q_max := c_max r;
                                  q_file := c_file r;
                                  q_flags := [fst (regex_new (c_pattern r) (c_invert r))];
                                  q_pattern := snd (regex_new (c_pattern r) (c_invert r)) |}] /\
    s_quiet (fst (fst res)) = c_quiet r /\ s_plain (fst (fst res)) = c_plain r /\
    s_serverless (fst (fst res)) = c_serverless r.
Proof. exact roundtrip. Qed.
Print Assumptions C12_roundtrip.

(* the regex part alone: Deserialize inverts Serialize for every flag and every pattern *)
Theorem C12_regex : forall (regex_compiles : bytes -> bool) (f : flag) (p : bytes),
  regex_compiles p = true -> regex_deser regex_compiles (regex_ser (f, p)) = RxOk [f] p.
Proof. exact (fun rc => regex_deser_ser rc (fun _ => true)). Qed.
Print Assumptions C12_regex.

(* Whole sessions.  A client sends one command per file, all with the same options; the mapreduce
   client sends an option-less "map <query>" first; the server's handleOptions runs once per
   session.  For every such sequence (any number of read requests and map commands in any order,
   at least one read request): every command is decoded to what the client encoded - each read
   request with ITS context values, file and regex, each query verbatim - nothing is left in the
   buffer, and the session runs in the output modes the client asked for (an option-less command
   in front does not use up the once-only setting). *)
Theorem C12_session :
  forall (b64enc : bytes -> bytes) (b64dec : bytes -> option bytes) (itoa : Z -> bytes) (atoi : bytes -> option Z)
         (regex_compiles query_parses : bytes -> bool),
    (forall s, b64dec (b64enc s) = Some s) ->
    (forall s, ~ In sp (b64enc s) /\ ~ In semicolon (b64enc s)) ->
    (forall z, atoi (itoa z) = Some z) ->
    (forall z, ~ In sp (itoa z) /\ ~ In colon (itoa z) /\ ~ In eqsign (itoa z) /\ ~ In percent (itoa z)) ->
  forall (m : bool * bool * bool) (items : list item),
    Forall (wf_item regex_compiles) items -> Forall (item_modes m) items -> existsb is_read items = true ->
    let res := srv_write b64dec atoi regex_compiles query_parses sopts0 [] (session_wire b64enc itoa items) in
    snd (fst res) = [] /\ map snd (snd res) = map (expected query_parses) items /\ modes (fst (fst res)) = m.
Proof. exact session. Qed.
Print Assumptions C12_session.

(* non-vacuity: a hostile pattern through table oracles *)
Example C12_example :
  let pat := B" a b;c:%d=, " in
  let cmd := B"grep:plain=true:max=-3 /tmp/x regex:invert " ++ pat in
  map snd (run_session [(B"Q", Some cmd)] [(B"-3", Some (-3)%Z); (B"true", None)] [(pat, true)] []
             (B"protocol " ++ c_protocol_compat ++ B" base64 Q;"))
  = [ORead {| q_tail := false; q_before := 0; q_after := 0; q_max := (-3); q_file := B"/tmp/x";
              q_flags := [FInvert]; q_pattern := pat |}].
Proof. vm_compute. reflexivity. Qed.

(* a mapreduce session: option-less map command, then two reads carrying the modes *)
Example C12_session_example :
  let c1 := B"map select count(x) from S" in
  let c2 := B"cat:quiet=true:plain=true /tmp/a regex:noop " in
  let c3 := B"cat:quiet=true:plain=true /tmp/b regex:noop " in
  let hd := B"protocol " ++ c_protocol_compat ++ B" base64 " in
  let res := run_session [(B"Q1", Some c1); (B"Q2", Some c2); (B"Q3", Some c3)] [(B"true", None)] [([], true)] [(B"select count(x) from S", true)]
               (hd ++ B"Q1;" ++ hd ++ B"Q2;" ++ hd ++ B"Q3;") in
  map snd res = [OMap (B"select count(x) from S");
                 ORead {| q_tail := false; q_before := 0; q_after := 0; q_max := 0; q_file := B"/tmp/a"; q_flags := [FNoop]; q_pattern := [] |};
                 ORead {| q_tail := false; q_before := 0; q_after := 0; q_max := 0; q_file := B"/tmp/b"; q_flags := [FNoop]; q_pattern := [] |}]
  /\ map (fun x => modes (fst (fst x))) res = [(false, false, false); (true, true, false); (true, true, false)].
Proof. vm_compute. split; reflexivity. Qed.
