(* C13 — concurrent file reads never exceed the configured limits.  Statements only.
   Histories are event lists over the LTS of Model/C13_Limiter.v (sessions starting, acquiring,
   being cancelled while waiting, finishing), for every limit and every number of readers. *)
From DT Require Import Lib.Bytes Model.C13_Limiter Proofs.C13_Limiter.

(* In every reachable state the channel length equals the number of reads holding a slot and is
   at most the limit - so at most [cap] files are being read (a file is opened only while
   holding). *)
Theorem C13_inv : forall (cap n : nat) (es : list lev) (s : lst),
  Forall (in_range n) es -> lrun true cap linit es = Some s ->
  tokens s = holders s n /\ tokens s <= cap.
Proof.
  exact (fun cap n es s Hf Hr => match linv_run cap n es linit s (linv_init cap n) Hf Hr with conj a (conj b _) => conj a b end).
Qed.
Print Assumptions C13_inv.

(* A read cancelled while waiting neither keeps a slot nor releases somebody else's. *)
Theorem C13_cancel : forall cap s i s', lstep true cap s (LCancelWaiting i) = Some s' ->
  tokens s' = tokens s /\ forall j, j <> i -> ph s' j = ph s j.
Proof. exact cancel_waiting_neutral. Qed.
Print Assumptions C13_cancel.

(* No lost slot: in a reachable state with fewer than [cap] holders every waiting read can
   acquire. *)
Theorem C13_progress : forall (cap n : nat) (es : list lev) (s : lst) (i : nat),
  Forall (in_range n) es -> lrun true cap linit es = Some s -> ph s i = PWaiting -> holders s n < cap ->
  exists s', lstep true cap s (LAcquire i) = Some s'.
Proof.
  exact (fun cap n es s i Hf Hr => waiter_can_proceed cap n s i (linv_run cap n es linit s (linv_init cap n) Hf Hr)).
Qed.
Print Assumptions C13_progress.

(* The pinned code (release deferred before the acquisition) is refuted: a cancelled waiter steals
   the holder's token and a third read starts beside the first - two holders under limit 1. *)
Theorem C13_refuted_pinned : exists es s,
  lrun false 1 linit es = Some s /\ holders s 3 = 2.
Proof.
  exists [LStart 0; LAcquire 0; LStart 1; LCancelWaiting 1; LStart 2; LAcquire 2]. eexists. split; [vm_compute; reflexivity|vm_compute; reflexivity].
Qed.
Print Assumptions C13_refuted_pinned.
