(* C14 — connection slots are bounded by MaxConnections and always given back.
   Statements only.  Histories are lists of Accept / End events (an End stands for every way a
   connection can finish: failed authentication, no channel, several channels or shell requests,
   normal or abrupt close). *)
From DT Require Import Lib.Bytes Model.C14_Conn Proofs.C14_Conn.

(* For every MaxConnections and every history: the reported number equals the number of
   connections being served, is never negative and never exceeds the maximum. *)
Theorem C14_inv : forall (max : Z) (es : list cev),
  let s := crun max cinit es in
  count s = Z.of_nat (length (opened s)) /\ (0 <= count s)%Z /\ (count s <= Z.max max 0)%Z.
Proof.
  exact (fun max es => match cinv_run max es cinit (cinv_init max) with
                       | conj a (conj b _) => conj a (conj (eq_ind_r (fun z => (0 <= z)%Z) (Zle_0_nat _) a) b) end).
Qed.
Print Assumptions C14_inv.

(* A new connection is admitted iff fewer than MaxConnections are being served. *)
Theorem C14_admit : forall max es c,
  let s := crun max cinit es in ~ In c (opened s) ->
  snd (cstep max s (CAccept c)) = true <-> (Z.of_nat (length (opened s)) < max)%Z.
Proof. exact (fun max es c => admit_iff max _ c (cinv_run max es cinit (cinv_init max))). Qed.
Print Assumptions C14_admit.

(* Every served connection that ends frees exactly its own slot. *)
Theorem C14_release : forall max es c,
  let s := crun max cinit es in In c (opened s) ->
  count (fst (cstep max s (CEnd c))) = (count s - 1)%Z /\ ~ In c (opened (fst (cstep max s (CEnd c)))).
Proof. exact (fun max es c => end_releases max _ c (cinv_run max es cinit (cinv_init max))). Qed.
Print Assumptions C14_release.

(* The pinned accounting is refuted three ways. *)
Theorem C14_refuted_leak :           (* authenticated, closed without a shell request: slot kept *)
  pcount (prun 3 [PAccept 1; PHandshakeOK 1; PClose 1]) = 1%Z.
Proof. vm_compute. reflexivity. Qed.
Theorem C14_refuted_negative :       (* two shell requests on one connection: counted down twice *)
  pcount (prun 3 [PAccept 1; PHandshakeOK 1; PShell 1; PShell 1; PClose 1]) = (-1)%Z.
Proof. vm_compute. reflexivity. Qed.
Theorem C14_refuted_burst :          (* a burst passes the check before anybody is counted *)
  pcount (prun 1 [PAccept 1; PAccept 2; PAccept 3; PHandshakeOK 1; PHandshakeOK 2; PHandshakeOK 3]) = 3%Z.
Proof. vm_compute. reflexivity. Qed.
Print Assumptions C14_refuted_burst.
