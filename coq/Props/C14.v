(* C14 — connection slots are bounded by MaxConnections and always given back.
   Statements only.  Histories are lists of Accept / End events (an End stands for every way a
   connection can finish: failed authentication, no channel, several channels or shell requests,
   normal or abrupt close). *)
From DT Require Import Lib.Bytes Model.C14_Conn Proofs.C14_Conn Model.C14_Proto Proofs.C14_Proto.

(* For every MaxConnections and every history: the reported number equals the number of
   connections being served, is never negative and never exceeds the maximum. *)
Theorem C14_inv : forall (max : Z) (es : list cev),
  let s := crun max cinit es in
  count s = Z.of_nat (length (opened s)) /\ (0 <= count s)%Z /\ (count s <= Z.max max 0)%Z.
Proof.
  exact (fun max es => match cinv_run max es cinit (cinv_init max) with
                       | conj a (conj b _) => conj a (conj (eq_ind_r (fun z => (0 <= z)%Z) (Zle_0_nat _) a) b) end).
Qed.
Print Assumptions C14_inv.

(* A new connection is let in iff fewer than MaxConnections are being served. *)
Theorem C14_accept : forall max es c,
  let s := crun max cinit es in ~ In c (opened s) ->
  snd (cstep max s (CAccept c)) = true <-> (Z.of_nat (length (opened s)) < max)%Z.
Proof. exact (fun max es c => accept_iff max _ c (cinv_run max es cinit (cinv_init max))). Qed.
Print Assumptions C14_accept.

(* Every served connection that ends frees exactly its own slot. *)
Theorem C14_release : forall max es c,
  let s := crun max cinit es in In c (opened s) ->
  count (fst (cstep max s (CEnd c))) = (count s - 1)%Z /\ ~ In c (opened (fst (cstep max s (CEnd c)))).
Proof. exact (fun max es c => end_releases max _ c (cinv_run max es cinit (cinv_init max))). Qed.
Print Assumptions C14_release.

(* The pinned accounting is refuted three ways. *)
Theorem C14_refuted_leak :           (* authenticated, closed without a shell request: slot kept *)
  pcount (prun 3 [PAccept 1; PHandshakeOK 1; PClose 1]) = 1%Z.
Proof. vm_compute. reflexivity. Qed.
Theorem C14_refuted_negative :       (* two shell requests on one connection: counted down twice *)
  pcount (prun 3 [PAccept 1; PHandshakeOK 1; PShell 1; PShell 1; PClose 1]) = (-1)%Z.
Proof. vm_compute. reflexivity. Qed.
Theorem C14_refuted_burst :          (* a burst passes the check before anybody is counted *)
  pcount (prun 1 [PAccept 1; PAccept 2; PAccept 3; PHandshakeOK 1; PHandshakeOK 2; PHandshakeOK 3]) = 3%Z.
Proof. vm_compute. reflexivity. Qed.
Print Assumptions C14_refuted_burst.

(* What ends a served connection (the End events above), Model/C14_Proto.v.  A connection ends at most once; channel-opens
   of ANY type (a rejected "direct-tcpip" included) and shell requests never end it - its slot stays taken for as long as
   the client stays; a request other than "shell", a failed handshake, the client going away and a finishing handler end it. *)
Theorem C14_ends_once : forall es1 es2, holds_slot (srun es1) = false -> holds_slot (srun (es1 ++ es2)) = false.
Proof. exact ends_once. Qed.
Theorem C14_channels_and_shells_keep_the_slot : forall es p, forallb harmless es = true -> holds_slot p = true ->
  holds_slot (fold_left sstep es p) = true.
Proof. exact harmless_run. Qed.
Theorem C14_other_request_ends : forall c h, sstep (PServing (S c) h) (SReq false) = PEnded.
Proof. exact other_request_ends. Qed.
Theorem C14_client_close_ends : forall p, sstep p SClientClose = PEnded.
Proof. exact client_close_ends. Qed.
Print Assumptions C14_channels_and_shells_keep_the_slot.

Example C14_proto_example :
  holds_slot (srun [SAuthOk; SChan false; SChan true; SReq true; SReq true]) = true
  /\ holds_slot (srun [SAuthOk; SChan true; SReq false; SChan true]) = false
  /\ holds_slot (srun [SAuthFail; SAuthOk]) = false /\ holds_slot (srun []) = true.
Proof. vm_compute. repeat split; reflexivity. Qed.
