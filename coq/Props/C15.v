(* C15 — a mapreduce outfile is never observable half-written.  Statements only.
   Crash points: the file system after ANY prefix of the operation sequence of a WriteResult call
   (every fd.WriteString is one operation), from ANY initial file system state - hence also any
   history of earlier runs, crashed or not. *)
From DT Require Import Lib.Bytes Model.C15_Outfile Proofs.C15_Outfile.

(* Without 'append': at every crash point of an interim or final write the outfile path holds
   what it held before (absent, or an earlier complete result) or - only after the final
   rename - the complete final result, header first.  Never a partial file. *)
Theorem C15_atomic : forall (f : fs) (q : bytes) (final : bool) (header : list bytes) (rows : list (list bytes)) (n : nat),
  let ops := write_result f q false final header rows in
  crash_after f ops n POut = f POut
  \/ (final = true /\ crash_after f ops n POut = Some (complete header rows)).
Proof. exact nonappend_atomic. Qed.
Print Assumptions C15_atomic.

(* The .query file beside it is absent / the old one, or holds the complete query text. *)
Theorem C15_query : forall f q append final header rows n,
  let ops := write_result f q append final header rows in
  crash_after f ops n PQuery = f PQuery \/ crash_after f ops n PQuery = Some q.
Proof. exact query_atomic. Qed.
Print Assumptions C15_query.

(* With 'append': at every crash point the outfile extends what it held before - earlier rows
   are never altered. *)
Theorem C15_append_prefix : forall f q final header rows n c, f POut = Some c ->
  exists d, crash_after f (write_result f q true final header rows) n POut = Some (c ++ d).
Proof. exact append_prefix. Qed.
Print Assumptions C15_append_prefix.

(* With 'append', crash-free: the header is written iff the file was absent or empty - hence
   exactly once over any crash-free history of runs. *)
Theorem C15_append_header_once : forall f q final header rows,
  apply_ops f (write_result f q true final header rows) POut
  = Some (match f POut with
          | Some (x :: c) => (x :: c) ++ rows_bytes rows
          | _ => line_bytes header ++ rows_bytes rows
          end).
Proof. exact append_header_rule. Qed.
Print Assumptions C15_append_header_once.

(* "Header exactly once" under crashes is refuted: a kill between two writes of the header
   leaves a non-empty file holding a torn header; every later run skips the header for ever
   (the recorded finding append_kill_inside_header). *)
Theorem C15_append_header_crash_refuted : exists f q header rows n,
  let f1 := crash_after f (write_result f q true true header rows) n in
  let f2 := apply_ops f1 (write_result f1 q true true header rows) in
  f POut = None /\ f2 POut = Some (B"a," ++ B"1,2" ++ nlc).
Proof.
  exists (fun _ => None), (B"q"), [B"a"; B"b"], [[B"1"; B"2"]], 6. vm_compute. split; reflexivity.
Qed.
Print Assumptions C15_append_header_crash_refuted.

Example C15_example :
  let f0 : fs := fun p => match p with POut => Some (B"old,result" ++ nlc) | _ => None end in
  let ops := write_result f0 (B"select x") false true [B"a"; B"b"] [[B"1"; B"2"]; [B"3"; B"4"]] in
  length ops = 17 /\ crash_after f0 ops 16 POut = Some (B"old,result" ++ nlc)
  /\ crash_after f0 ops 17 POut = Some (B"a,b" ++ nlc ++ B"1,2" ++ nlc ++ B"3,4" ++ nlc)
  /\ crash_after f0 ops 9 POutTmp = Some (B"a,b" ++ nlc ++ B"1").
Proof. vm_compute. repeat split; reflexivity. Qed.
