(* C16 — no message content can crash the client; colouring never alters text.  Statements only. *)
From DT Require Import Lib.Bytes Lib.Split Gen.Consts Model.C16_Color Proofs.C16_Color Proofs.C16_Strip.

(* Colouring is lossless: whenever a message is rendered, the text parts of the rendering,
   concatenated, are exactly the message - codes are only inserted, no byte of any field,
   delimiter or trailing newline is altered, dropped or reordered.  (Both painter versions.) *)
Theorem C16_text : forall (fixed : bool) (m : bytes) (segs : list seg),
  colorfy fixed m = COk segs -> texts segs = m.
Proof. exact colorfy_text. Qed.
Print Assumptions C16_text.

(* The pinned painters index REMOTE / CLIENT / SERVER records positionally: refuted. *)
Theorem C16_refuted_positional_fields : exists m, colorfy false m = CPanic.
Proof. exists (B"CLIENT|x"). vm_compute. reflexivity. Qed.
Print Assumptions C16_refuted_positional_fields.

(* With the repaired painters no message content panics, ... *)
Theorem C16_no_panic_colorfy : forall m, colorfy true m <> CPanic.
Proof. exact colorfy_fixed_total. Qed.
Print Assumptions C16_no_panic_colorfy.

(* ... and the mapreduce client handler survives every byte stream (empty messages included). *)
Theorem C16_no_panic_mapr_handler : forall s buf nl out, mapr_write true buf nl s out <> None.
Proof. exact mapr_write_fixed_total. Qed.
Print Assumptions C16_no_panic_mapr_handler.

(* Removing the SGR sequences from the coloured rendering gives the same bytes as removing them from
   the message - for EVERY message: the painters insert only complete sequences, always in front of a
   byte that can neither continue nor close a sequence the scanner may be in (ESC, '|', newline) or at
   the end, so no inserted code ever merges with message bytes (a partial escape sequence at the end of
   a field included). *)
Definition C16_strip_full : Prop :=
  forall m segs, colorfy true m = COk segs -> strip_sgr (flatten segs) = strip_sgr m.
Theorem C16_strip : C16_strip_full.
Proof. exact strip_full. Qed.
Print Assumptions C16_strip.

(* kept as an independent cross-check of the statement: all 66 430 messages of at most 5 symbols over
   {REMOTE, SERVER, '|', newline, ESC, '[', '3', 'm', 'a'} by kernel evaluation *)
Theorem C16_strip_partial : forall m, In m (words 5) -> strip_ok m = true.
Proof. exact (proj1 (forallb_forall strip_ok (words 5)) strip_sweep_5). Qed.
Print Assumptions C16_strip_partial.

Example C16_example :
  match colorfy true (B"REMOTE|host|100|7|id|payload | with bar" ++ [nlb]) with
  | COk segs => texts segs = B"REMOTE|host|100|7|id|payload | with bar" ++ [nlb]
                /\ strip_sgr (flatten segs) = B"REMOTE|host|100|7|id|payload | with bar" ++ [nlb]
                /\ length segs = 34
  | CPanic => False
  end.
Proof. vm_compute. repeat split; reflexivity. Qed.
