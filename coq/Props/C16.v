(* C16 — no message content can crash the client; colouring never alters text.  Statements only. *)
From DT Require Import Lib.Bytes Lib.Split Gen.Consts Model.C16_Color Proofs.C16_Color Proofs.C16_Strip Model.C16_Aggr Proofs.C16_Aggr.

(* Colouring is lossless: whenever a message is rendered, the text parts of the rendering,
   concatenated, are exactly the message - codes are only inserted, no byte of any field,
   delimiter or trailing newline is altered, dropped or reordered.  (Both painter versions.) *)
Theorem C16_text : forall (fixed : bool) (m : bytes) (segs : list seg),
  colorfy fixed m = COk segs -> texts segs = m.
Proof. exact colorfy_text. Qed.
Print Assumptions C16_text.

(* The pinned painters index REMOTE / CLIENT / SERVER records positionally: refuted. *)
Theorem C16_refuted_positional_fields : exists m, colorfy false m = CPanic.
Proof. exists (B"CLIENT|x"). vm_compute. reflexivity. Qed.
Print Assumptions C16_refuted_positional_fields.

(* With the repaired painters no message content panics, ... *)
Theorem C16_no_panic_colorfy : forall m, colorfy true m <> CPanic.
Proof. exact colorfy_fixed_total. Qed.
Print Assumptions C16_no_panic_colorfy.

(* ... and the mapreduce client handler survives every byte stream (empty messages included). *)
Theorem C16_no_panic_mapr_handler : forall s buf nl out, mapr_write true buf nl s out <> None.
Proof. exact mapr_write_fixed_total. Qed.
Print Assumptions C16_no_panic_mapr_handler.

(* Removing the SGR sequences from the coloured rendering gives the same bytes as removing them from
   the message - for EVERY message: the painters insert only complete sequences, always in front of a
   byte that can neither continue nor close a sequence the scanner may be in (ESC, '|', newline) or at
   the end, so no inserted code ever merges with message bytes (a partial escape sequence at the end of
   a field included). *)
Definition C16_strip_full : Prop :=
  forall m segs, colorfy true m = COk segs -> strip_sgr (flatten segs) = strip_sgr m.
Theorem C16_strip : C16_strip_full.
Proof. exact strip_full. Qed.
Print Assumptions C16_strip.

(* kept as an independent cross-check of the statement: all 66 430 messages of at most 5 symbols over
   {REMOTE, SERVER, '|', newline, ESC, '[', '3', 'm', 'a'} by kernel evaluation *)
Theorem C16_strip_partial : forall m, In m (words 5) -> strip_ok m = true.
Proof. exact (proj1 (forallb_forall strip_ok (words 5)) strip_sweep_5). Qed.
Print Assumptions C16_strip_partial.

(* AGGREGATE records (the mapreduce client): whatever a server puts into one - any number of fields, any payload, any
   sample count, any key/value parts - handling it never panics: it is aggregated, or refused with one of three logged
   errors.  (The Go indices parts[2], parts[0], parts[1], kv[0], kv[1] are checked operations of the model.) *)
Theorem C16_no_panic_aggregate : forall msg, handle_aggregate msg <> APanic.
Proof. exact handle_aggregate_total. Qed.
Print Assumptions C16_no_panic_aggregate.
Theorem C16_no_panic_aggregate_stream : forall s, Forall (fun r => r <> APanic) (stream_results s).
Proof. exact stream_no_panic. Qed.
(* ... and what is aggregated is the payload's own group key, sample count (a decimal int64) and key/value parts *)
Theorem C16_aggregate_accepts : forall p key n fields, client_aggregate p = AOk key n fields ->
  exists cnt rest, split_seq c_aggregate_delimiter p = key :: cnt :: rest /\ 2 <= length rest /\ go_atoi cnt = Some n /\ fields = make_fields rest.
Proof. exact client_aggregate_ok. Qed.
Theorem C16_split_seq_lossless : forall sep s, join_seq sep (split_seq sep s) = s.
Proof. exact split_seq_join. Qed.

Example C16_aggregate_example :
  let d := c_aggregate_delimiter in let kv := c_aggregate_kv_delimiter in
  handle_aggregate (B"AGGREGATE|host|web01" ++ d ++ B"3" ++ d ++ B"count(x)" ++ kv ++ B"3" ++ d ++ B"junk" ++ d)
    = AOk (B"web01") 3 [(B"count(x)", B"3")]
  /\ handle_aggregate (B"AGGREGATE|web01" ++ d ++ B"3" ++ d) = AErrParts
  /\ handle_aggregate (B"AGGREGATE|h|web01" ++ d ++ B"3" ++ d) = AErrNoData
  /\ handle_aggregate (B"AGGREGATE|h|web01" ++ d ++ B"9223372036854775808" ++ d ++ d) = AErrCount
  /\ handle_aggregate (B"AGGREGATE|h|" ++ d ++ B"-0" ++ d ++ d) = AOk [] 0 [].
Proof. vm_compute. repeat split; reflexivity. Qed.

Example C16_example :
  match colorfy true (B"REMOTE|host|100|7|id|payload | with bar" ++ [nlb]) with
  | COk segs => texts segs = B"REMOTE|host|100|7|id|payload | with bar" ++ [nlb]
                /\ strip_sgr (flatten segs) = B"REMOTE|host|100|7|id|payload | with bar" ++ [nlb]
                /\ length segs = 34
  | CPanic => False
  end.
Proof. vm_compute. repeat split; reflexivity. Qed.
