(* C17 — the client talks only to servers whose host key is trusted.  Statements only. *)
From DT Require Import Lib.Bytes Lib.Split Model.C18_Discovery Model.C17_KnownHosts Proofs.C17_KnownHosts Proofs.C17_History.

(* The client proceeds with a server iff its key matches the known-hosts file, trust-all was
   requested, or the user's first decisive answer at the prompt is yes / all (details and any
   other input re-ask; running out of answers blocks - it never proceeds by default). *)
Theorem C17_proceed : forall (known trust_all : bool) (answers : list bytes),
  host_decision known (fst (fst (batch trust_all answers))) = Proceed <->
  known = true \/ trust_all = true \/
  exists pre a post, answers = pre ++ a :: post /\ forallb (fun x => negb (decisive x)) pre = true
                     /\ (classify_answer a = AYes \/ classify_answer a = AAll).
Proof. exact proceed_iff. Qed.
Print Assumptions C17_proceed.

(* Recording newly trusted hosts: the new file holds every new entry and every old line whose
   first field is not one of the newly trusted addresses - unchanged - and nothing else; the new
   entries come first, the kept lines keep their order. *)
Theorem C17_rewrite : forall entries addrs old l,
  In l (rewrite entries addrs old) <-> In l entries \/ (In l (file_lines old) /\ ~ In (first_field l) addrs).
Proof. exact rewrite_spec. Qed.
Print Assumptions C17_rewrite.

Theorem C17_rewrite_order : forall entries addrs old,
  rewrite entries addrs old = entries ++ filter (keep_line addrs) (file_lines old).
Proof. exact rewrite_order. Qed.

(* Histories: a retrying client (dtail, tail-mode dmap) contacts its servers again and again through
   the same callback object.  In every round of every history - whatever was answered, refused or
   recorded before - a server is proceeded with only if its key matches the known-hosts file at that
   moment or the answers typed in this very round approve it, as long as trust-all is not in force
   (not requested and nobody answered "all").  In particular a host the user refused stays out. *)
Theorem C17_history : forall h st i a cs ds j c,
  st_trust_all st = false -> Forall (fun r => says_all (fst r) = false) h ->
  nth_error h i = Some (a, cs) -> nth_error (run st h) i = Some ds ->
  nth_error cs j = Some c -> nth_error ds j = Some Proceed ->
  snd c = true \/ approves a = true.
Proof. exact history_proceed. Qed.
Print Assumptions C17_history.

(* ... and the record of refused hosts (untrustedHosts) takes no part in any decision. *)
Theorem C17_history_refused_irrelevant : forall h st l,
  run st h = run {| st_trust_all := st_trust_all st; st_refused := l |} h.
Proof. exact history_refused_irrelevant. Qed.

Example C17_history_example :
  let h := [([B"n"], [(1, false); (2, true)]); ([B"maybe"; B"n"], [(1, false); (2, true)]); ([B"y"], [(1, false)]); ([], [(1, true)])] in
  Forall (fun r => says_all (fst r) = false) h
  /\ run {| st_trust_all := false; st_refused := [] |} h = [[Refuse; Proceed]; [Refuse; Proceed]; [Proceed]; [Proceed]].
Proof. split; [repeat constructor|vm_compute; reflexivity]. Qed.

Example C17_example :
  fst (fst (batch false [B"d"; B"maybe"; B"n"; B"y"])) = Refuse
  /\ fst (fst (batch false [B"details"; B""; B"a"])) = Proceed
  /\ fst (fst (batch false [B"Y"; B" "])) = Blocked
  /\ rewrite [B"[web2]:2222 ssh-ed25519 K2"] [B"[web2]:2222"; B"[10.0.0.2]:2222"]
       (B"# c" ++ [x0a] ++ B"[web2]:2222 ssh-ed25519 OLD" ++ [x0a] ++ B"[web20]:2222 ssh-ed25519 K20" ++ [x0d; x0a])
     = [B"[web2]:2222 ssh-ed25519 K2"; B"# c"; B"[web20]:2222 ssh-ed25519 K20"].
Proof. vm_compute. repeat split; reflexivity. Qed.
