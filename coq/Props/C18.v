(* C18 — Server discovery yields each wanted server exactly once.
   Only statements, closed by [exact]; proofs live in Proofs/C18_Discovery.v. *)
From DT Require Import Lib.Bytes Lib.Split Model.C18_Discovery Proofs.C18_Discovery Model.C18_Throttle Proofs.C18_Throttle Gen.Consts.
From Coq Require Import Permutation.

(* For every entry list, every optional filter and every index sequence the random source can
   produce, the contacted servers are exactly the distinct wanted entries: each once (NoDup),
   none invented, none lost, in some order. *)
Theorem C18_set : forall (flt : option (bytes -> bool)) (idxs : list nat) (entries : list bytes),
  let wanted := match flt with Some m => filter m entries | None => entries end in
  valid_idxs idxs (length (dedup bytes_eqb wanted)) ->
  exists l, server_list bytes_eqb flt idxs entries = Some l
            /\ NoDup l
            /\ (forall x, In x l <-> In x wanted)
            /\ Permutation l (dedup bytes_eqb wanted).
Proof. exact (server_list_exact bytes_eqb bytes_eqb_eq). Qed.
Print Assumptions C18_set.

(* The shuffle alone: any legal draw sequence yields a permutation, no index panic. *)
Theorem C18_shuffle_perm : forall (idxs : list nat) (l : list bytes),
  valid_idxs idxs (length l) -> exists l', shuffle idxs l = Some l' /\ Permutation l l'.
Proof. exact (fun idxs l => shuffle_perm idxs l). Qed.
Print Assumptions C18_shuffle_perm.

Theorem C18_dedup : forall l : list bytes,
  NoDup (dedup bytes_eqb l) /\ forall x, In x (dedup bytes_eqb l) <-> In x l.
Proof. exact (fun l => conj (dedup_NoDup bytes_eqb bytes_eqb_eq l) (dedup_In bytes_eqb bytes_eqb_eq l)). Qed.
Print Assumptions C18_dedup.

(* The comma source: the entries are the comma-free pieces whose ","-join is the argument. *)
Theorem C18_comma : forall s,
  join_with x2c (comma_split s) = s /\ Forall (fun e => ~ In x2c e) (comma_split s).
Proof. exact comma_split_spec. Qed.
Print Assumptions C18_comma.

(* The file source: a file written one entry per line reads back as exactly those entries. *)
Theorem C18_file : forall l, Forall clean_line l -> file_lines (unlines l) = l.
Proof. exact file_lines_unlines. Qed.
Print Assumptions C18_file.

(* non-vacuity: duplicates, a filter and a 4-element shuffle with non-zero indices *)
Example C18_example :
  let entries := [B"a"; B"b:2222"; B"a"; B"c"; B"b:2222"; B"skip"; B"d"] in
  let m := fun e => negb (bytes_eqb e (B"skip")) in
  valid_idxs [2; 0; 1; 0] (length (dedup bytes_eqb (filter m entries)))
  /\ server_list bytes_eqb (Some m) [2; 0; 1; 0] entries = Some [B"c"; B"a"; B"d"; B"b:2222"].
Proof. vm_compute. repeat split; lia. Qed.

(* Contacting the servers: the connection throttle.  Every connection takes one of [cap] slots before it dials and gives
   it back when its session is established or its dial has failed.  On every schedule: never more than [cap] connections
   are being established; no schedule is infinite; and a schedule that cannot be extended has dialled EVERY server -
   none is left waiting, however many dials failed before it (cap >= 1). *)
Theorem C18_throttle_bound : forall n cap es s, trun (tinit n cap) es = Some s -> count_stat Dialing (conns s) <= cap.
Proof. exact throttle_bound. Qed.
Theorem C18_throttle_terminates : forall es s s', trun s es = Some s' -> length es + tmu s' <= tmu s.
Proof. exact trun_bounded. Qed.
Theorem C18_all_contacted : forall n cap es s, 0 < cap -> trun (tinit n cap) es = Some s ->
  (forall e, tstep s e = None) -> count_stat Waiting (conns s) = 0 /\ count_stat Dialing (conns s) = 0.
Proof. exact stuck_all_contacted. Qed.
Print Assumptions C18_all_contacted.

(* the default number of slots, ConnectionsPerCPU (read from the source) times NumCPU, is positive: the hypothesis of
   C18_all_contacted holds for a client started without --cpc *)
Theorem C18_default_throttle_positive : forall ncpu : Z, (1 <= ncpu)%Z -> (0 < c_default_connections_per_cpu * ncpu)%Z.
Proof. exact default_slots_positive. Qed.

Example C18_throttle_example :
  exists s, trun (tinit 3 1) [Acquire 2; DialFail 2; Acquire 0; DialOk 0; Acquire 1; DialFail 1; SessionEnd 0] = Some s
            /\ conns s = [Ended; Ended; Ended] /\ free s = 1 /\ (forall e, tstep s e = None).
Proof.
  eexists. split; [vm_compute; reflexivity|]. repeat split.
  intros [i|i|i|i]; destruct i as [|[|[|i]]]; cbn; try reflexivity; destruct i; reflexivity.
Qed.
