module constgen

go 1.20
