// constgen: reads named constants out of /repo's current Go sources (go/ast, go/constant) and
// writes coq/Gen/Consts.v plus a JSON copy.  Part of the trusted base (DESIGN.md §2).
//
// usage: constgen <repo> <out.v> <out.json>
package main

import (
	"encoding/json"
	"fmt"
	"go/ast"
	"go/constant"
	"go/parser"
	"go/token"
	"os"
	"path/filepath"
	"sort"
	"strconv"
	"strings"
)

type spec struct {
	Name string // Coq identifier
	File string // path relative to repo
	Kind string // const | field | chancap | strlist | call | arraylen | cmpop
	Key  string // Go identifier / field name
	Fn   string // enclosing function (optional)
	Arg  int    // argument index for kind call
}

var specs = []spec{
	{"protocol_compat", "internal/protocol/protocol.go", "const", "ProtocolCompat", "", 0},
	{"message_delimiter", "internal/protocol/protocol.go", "const", "MessageDelimiter", "", 0},
	{"field_delimiter", "internal/protocol/protocol.go", "const", "FieldDelimiter", "", 0},
	{"csv_delimiter", "internal/protocol/protocol.go", "const", "CSVDelimiter", "", 0},
	{"aggregate_kv_delimiter", "internal/protocol/protocol.go", "const", "AggregateKVDelimiter", "", 0},
	{"aggregate_delimiter", "internal/protocol/protocol.go", "const", "AggregateDelimiter", "", 0},
	{"aggregate_group_key_combinator", "internal/protocol/protocol.go", "const", "AggregateGroupKeyCombinator", "", 0},
	{"default_max_concurrent_cats", "internal/config/server.go", "field", "MaxConcurrentCats", "newDefaultServerConfig", 0},
	{"default_max_concurrent_tails", "internal/config/server.go", "field", "MaxConcurrentTails", "newDefaultServerConfig", 0},
	{"default_max_connections", "internal/config/server.go", "field", "MaxConnections", "newDefaultServerConfig", 0},
	{"default_max_line_length", "internal/config/server.go", "field", "MaxLineLength", "newDefaultServerConfig", 0},
	{"chan_lines_cap", "internal/server/handlers/serverhandler.go", "chancap", "lines", "NewServerHandler", 0},
	{"chan_server_messages_cap", "internal/server/handlers/serverhandler.go", "chancap", "serverMessages", "NewServerHandler", 0},
	{"chan_mapr_messages_cap", "internal/server/handlers/serverhandler.go", "chancap", "maprMessages", "NewServerHandler", 0},
	{"max_before_context", "internal/config/args.go", "const", "maxBeforeContext", "", 0},
	{"stats_ring_matched", "internal/io/fs/stats.go", "arraylen", "matched", "stats", 0},
	{"stats_ring_transmitted", "internal/io/fs/stats.go", "arraylen", "transmitted", "stats", 0},
	{"chan_raw_lines_cap", "internal/io/fs/readfile.go", "chancap", "rawLines", "Start", 0},
	{"query_keywords", "internal/mapr/token.go", "strlist", "keywords", "", 0},
	{"default_connections_per_cpu", "internal/config/config.go", "const", "DefaultConnectionsPerCPU", "", 0},
	{"truncated_cmp", "internal/io/fs/readfile.go", "cmpop", "currentPosition,pathPosition", "truncated", 0},
}

type value struct {
	Kind string   `json:"kind"` // string | int | strlist
	S    string   `json:"s,omitempty"`
	Hex  string   `json:"hex,omitempty"`
	I    int64    `json:"i,omitempty"`
	L    []string `json:"l,omitempty"`
	Src  string   `json:"src"`
}

func evalExpr(e ast.Expr, consts map[string]constant.Value) (constant.Value, bool) {
	switch x := e.(type) {
	case *ast.BasicLit:
		return constant.MakeFromLiteral(x.Value, x.Kind, 0), true
	case *ast.ParenExpr:
		return evalExpr(x.X, consts)
	case *ast.BinaryExpr:
		a, ok1 := evalExpr(x.X, consts)
		b, ok2 := evalExpr(x.Y, consts)
		if !ok1 || !ok2 {
			return nil, false
		}
		if x.Op == token.SHL || x.Op == token.SHR {
			s, _ := constant.Uint64Val(b)
			return constant.Shift(a, x.Op, uint(s)), true
		}
		return constant.BinaryOp(a, x.Op, b), true
	case *ast.UnaryExpr:
		a, ok := evalExpr(x.X, consts)
		if !ok {
			return nil, false
		}
		return constant.UnaryOp(x.Op, a, 0), true
	case *ast.Ident:
		v, ok := consts[x.Name]
		return v, ok
	case *ast.SelectorExpr:
		// time.Millisecond etc.
		if id, ok := x.X.(*ast.Ident); ok && id.Name == "time" {
			switch x.Sel.Name {
			case "Nanosecond":
				return constant.MakeInt64(1), true
			case "Microsecond":
				return constant.MakeInt64(1000), true
			case "Millisecond":
				return constant.MakeInt64(1000000), true
			case "Second":
				return constant.MakeInt64(1000000000), true
			case "Minute":
				return constant.MakeInt64(60000000000), true
			}
		}
	}
	return nil, false
}

func fileConsts(f *ast.File) map[string]constant.Value {
	m := map[string]constant.Value{}
	for _, d := range f.Decls {
		gd, ok := d.(*ast.GenDecl)
		if !ok || gd.Tok != token.CONST {
			continue
		}
		for _, s := range gd.Specs {
			vs := s.(*ast.ValueSpec)
			for i, n := range vs.Names {
				if i < len(vs.Values) {
					if v, ok := evalExpr(vs.Values[i], m); ok {
						// typed byte constants from rune literals: keep the integer
						m[n.Name] = v
					}
				}
			}
		}
	}
	return m
}

func findFunc(f *ast.File, name string) ast.Node {
	if name == "" {
		return f
	}
	for _, d := range f.Decls {
		if fd, ok := d.(*ast.FuncDecl); ok && fd.Name.Name == name {
			return fd
		}
	}
	return nil
}

func toValue(v constant.Value, src string) (value, error) {
	switch v.Kind() {
	case constant.String:
		s := constant.StringVal(v)
		return value{Kind: "string", S: s, Hex: fmt.Sprintf("%x", s), Src: src}, nil
	case constant.Int:
		i, ok := constant.Int64Val(v)
		if !ok {
			return value{}, fmt.Errorf("int out of range")
		}
		return value{Kind: "int", I: i, Src: src}, nil
	}
	return value{}, fmt.Errorf("unsupported constant kind %v", v.Kind())
}

func extract(repo string, sp spec) (value, error) {
	path := filepath.Join(repo, sp.File)
	fset := token.NewFileSet()
	f, err := parser.ParseFile(fset, path, nil, 0)
	if err != nil {
		return value{}, err
	}
	consts := fileConsts(f)
	src := sp.File + ":" + sp.Key
	switch sp.Kind {
	case "const":
		v, ok := consts[sp.Key]
		if !ok {
			return value{}, fmt.Errorf("constant %s not found in %s", sp.Key, sp.File)
		}
		return toValue(v, src)
	case "field", "chancap":
		scope := findFunc(f, sp.Fn)
		if scope == nil {
			return value{}, fmt.Errorf("function %s not found in %s", sp.Fn, sp.File)
		}
		var res *value
		var rerr error
		ast.Inspect(scope, func(n ast.Node) bool {
			if res != nil {
				return false
			}
			var key string
			var val ast.Expr
			switch kv := n.(type) {
			case *ast.KeyValueExpr:
				id, ok := kv.Key.(*ast.Ident)
				if !ok {
					return true
				}
				key, val = id.Name, kv.Value
			case *ast.AssignStmt:
				if len(kv.Lhs) != 1 || len(kv.Rhs) != 1 {
					return true
				}
				switch l := kv.Lhs[0].(type) {
				case *ast.Ident:
					key = l.Name
				case *ast.SelectorExpr:
					key = l.Sel.Name
				default:
					return true
				}
				val = kv.Rhs[0]
			default:
				return true
			}
			if key != sp.Key {
				return true
			}
			if sp.Kind == "chancap" {
				call, ok := val.(*ast.CallExpr)
				if !ok {
					return true
				}
				if id, ok := call.Fun.(*ast.Ident); !ok || id.Name != "make" {
					return true
				}
				if len(call.Args) < 2 {
					v := value{Kind: "int", I: 0, Src: src}
					res = &v
					return false
				}
				val = call.Args[1]
			}
			cv, ok := evalExpr(val, consts)
			if !ok {
				rerr = fmt.Errorf("cannot evaluate %s in %s", sp.Key, sp.File)
				return true
			}
			v, err := toValue(cv, src)
			if err != nil {
				rerr = err
				return true
			}
			res = &v
			return false
		})
		if res == nil {
			if rerr != nil {
				return value{}, rerr
			}
			return value{}, fmt.Errorf("%s %s not found in %s(%s)", sp.Kind, sp.Key, sp.File, sp.Fn)
		}
		return *res, nil
	case "strlist":
		var res *value
		ast.Inspect(f, func(n ast.Node) bool {
			if res != nil {
				return false
			}
			var name string
			var val ast.Expr
			switch x := n.(type) {
			case *ast.ValueSpec:
				if len(x.Names) == 1 && len(x.Values) == 1 {
					name, val = x.Names[0].Name, x.Values[0]
				}
			case *ast.AssignStmt:
				if len(x.Lhs) == 1 && len(x.Rhs) == 1 {
					if id, ok := x.Lhs[0].(*ast.Ident); ok {
						name, val = id.Name, x.Rhs[0]
					}
				}
			}
			if name != sp.Key || val == nil {
				return true
			}
			cl, ok := val.(*ast.CompositeLit)
			if !ok {
				return true
			}
			var l []string
			for _, e := range cl.Elts {
				cv, ok := evalExpr(e, consts)
				if !ok || cv.Kind() != constant.String {
					return true
				}
				l = append(l, constant.StringVal(cv))
			}
			res = &value{Kind: "strlist", L: l, Src: src}
			return false
		})
		if res == nil {
			return value{}, fmt.Errorf("string list %s not found in %s", sp.Key, sp.File)
		}
		return *res, nil
	case "arraylen":
		// length of the array-typed field Key of struct type Fn
		var res *value
		ast.Inspect(f, func(n ast.Node) bool {
			ts, ok := n.(*ast.TypeSpec)
			if !ok || ts.Name.Name != sp.Fn {
				return true
			}
			st, ok := ts.Type.(*ast.StructType)
			if !ok {
				return true
			}
			for _, fld := range st.Fields.List {
				for _, nm := range fld.Names {
					if nm.Name != sp.Key {
						continue
					}
					if at, ok := fld.Type.(*ast.ArrayType); ok && at.Len != nil {
						if cv, ok := evalExpr(at.Len, consts); ok {
							if v, err := toValue(cv, src); err == nil {
								res = &v
							}
						}
					}
				}
			}
			return false
		})
		if res == nil {
			return value{}, fmt.Errorf("array field %s.%s not found in %s", sp.Fn, sp.Key, sp.File)
		}
		return *res, nil
	case "cmpop":
		// the comparison operator between the two identifiers "a,b" (Key) inside Fn:
		// 1 '>'  2 '>='  3 '<'  4 '<='  5 '=='  6 '!='
		scope := findFunc(f, sp.Fn)
		if scope == nil {
			return value{}, fmt.Errorf("function %s not found in %s", sp.Fn, sp.File)
		}
		ab := strings.Split(sp.Key, ",")
		var res *value
		n := 0
		ast.Inspect(scope, func(nd ast.Node) bool {
			be, ok := nd.(*ast.BinaryExpr)
			if !ok {
				return true
			}
			x, ok1 := be.X.(*ast.Ident)
			y, ok2 := be.Y.(*ast.Ident)
			if !ok1 || !ok2 || x.Name != ab[0] || y.Name != ab[1] {
				return true
			}
			code := map[token.Token]int64{token.GTR: 1, token.GEQ: 2, token.LSS: 3, token.LEQ: 4, token.EQL: 5, token.NEQ: 6}[be.Op]
			if code != 0 {
				n++
				res = &value{Kind: "int", I: code, Src: src}
			}
			return true
		})
		if res == nil || n != 1 {
			return value{}, fmt.Errorf("exactly one comparison of %s expected in %s(%s), found %d", sp.Key, sp.File, sp.Fn, n)
		}
		return *res, nil
	case "call":
		// first call to function named Key inside Fn; evaluate argument Arg
		scope := findFunc(f, sp.Fn)
		if scope == nil {
			return value{}, fmt.Errorf("function %s not found in %s", sp.Fn, sp.File)
		}
		var res *value
		ast.Inspect(scope, func(n ast.Node) bool {
			if res != nil {
				return false
			}
			call, ok := n.(*ast.CallExpr)
			if !ok {
				return true
			}
			var fname string
			switch fn := call.Fun.(type) {
			case *ast.Ident:
				fname = fn.Name
			case *ast.SelectorExpr:
				if id, ok := fn.X.(*ast.Ident); ok {
					fname = id.Name + "." + fn.Sel.Name
				} else {
					fname = fn.Sel.Name
				}
			}
			if fname != sp.Key || sp.Arg >= len(call.Args) {
				return true
			}
			cv, ok := evalExpr(call.Args[sp.Arg], consts)
			if !ok {
				return true
			}
			if v, err := toValue(cv, src); err == nil {
				res = &v
			}
			return false
		})
		if res == nil {
			return value{}, fmt.Errorf("call %s not found in %s(%s)", sp.Key, sp.File, sp.Fn)
		}
		return *res, nil
	}
	return value{}, fmt.Errorf("unknown kind %s", sp.Kind)
}

func hexBytesCoq(s string) string {
	var parts []string
	for i := 0; i < len(s); i++ {
		parts = append(parts, fmt.Sprintf("x%02x", s[i]))
	}
	return "[" + strings.Join(parts, "; ") + "]"
}

func main() {
	if len(os.Args) != 4 {
		fmt.Fprintln(os.Stderr, "usage: constgen <repo> <out.v> <out.json>")
		os.Exit(2)
	}
	repo, outV, outJ := os.Args[1], os.Args[2], os.Args[3]
	vals := map[string]value{}
	var missing []string
	for _, sp := range specs {
		v, err := extract(repo, sp)
		if err != nil {
			missing = append(missing, sp.Name+": "+err.Error())
			continue
		}
		vals[sp.Name] = v
	}
	names := make([]string, 0, len(vals))
	for n := range vals {
		names = append(names, n)
	}
	sort.Strings(names)
	var b strings.Builder
	b.WriteString("(* GENERATED by harness/constgen from the Go sources in the repository working tree.\n   Do not edit: rewritten on every check run. *)\n")
	b.WriteString("From DT Require Import Lib.Bytes.\n\n")
	for _, n := range names {
		v := vals[n]
		fmt.Fprintf(&b, "(* %s *)\n", v.Src)
		switch v.Kind {
		case "string":
			fmt.Fprintf(&b, "Definition c_%s : bytes := %s.\n", n, hexBytesCoq(v.S))
		case "int":
			fmt.Fprintf(&b, "Definition c_%s : Z := (%s)%%Z.\n", n, strconv.FormatInt(v.I, 10))
		case "strlist":
			var parts []string
			for _, s := range v.L {
				parts = append(parts, hexBytesCoq(s))
			}
			fmt.Fprintf(&b, "Definition c_%s : list bytes := [%s].\n", n, strings.Join(parts, "; "))
		}
	}
	out := b.String()
	old, _ := os.ReadFile(outV)
	if string(old) != out {
		if err := os.WriteFile(outV, []byte(out), 0o644); err != nil {
			fmt.Fprintln(os.Stderr, err)
			os.Exit(2)
		}
	}
	j, _ := json.MarshalIndent(map[string]interface{}{"values": vals, "missing": missing}, "", " ")
	os.WriteFile(outJ, j, 0o644)
	if len(missing) > 0 {
		for _, m := range missing {
			fmt.Println("MISSING " + m)
		}
		os.Exit(3)
	}
}
