//go:build verif

package main

import (
	"encoding/json"
	"net"

	"github.com/mimecast/dtail/internal/config"
	"github.com/mimecast/dtail/internal/server"
	sshserver "github.com/mimecast/dtail/internal/ssh/server"

	gossh "golang.org/x/crypto/ssh"
)

// C09: the two authentication decisions, called directly.
type fakeMeta struct {
	user   string
	remote net.Addr
}

func (m fakeMeta) User() string          { return m.user }
func (m fakeMeta) SessionID() []byte     { return []byte("verif") }
func (m fakeMeta) ClientVersion() []byte { return []byte("SSH-2.0-verif") }
func (m fakeMeta) ServerVersion() []byte { return []byte("SSH-2.0-verif") }
func (m fakeMeta) RemoteAddr() net.Addr  { return m.remote }
func (m fakeMeta) LocalAddr() net.Addr   { return &net.TCPAddr{IP: net.IPv4(127, 0, 0, 1), Port: 2222} }

type strAddr string

func (a strAddr) Network() string { return "tcp" }
func (a strAddr) String() string  { return string(a) }

func init() {
	serverSide["auth"] = true
	commands["auth"] = func(raw json.RawMessage) (interface{}, error) {
		var c struct {
			Kind     string `json:"kind"`
			File     string `json:"file"`    // hex: authorized_keys content
			Offered  string `json:"offered"` // authorized_keys style line of the offered key
			User     string `json:"user"`
			Password string `json:"password"`
			Remote   string `json:"remote"` // "ip:port"
			Schedule []struct {
				Name      string
				AllowFrom []string
			} `json:"schedule"`
			Continuous []struct {
				Name      string
				AllowFrom []string
			} `json:"continuous"`
		}
		if err := json.Unmarshal(raw, &c); err != nil {
			return nil, err
		}
		switch c.Kind {
		case "keys":
			offered, _, _, _, err := gossh.ParseAuthorizedKey([]byte(c.Offered))
			if err != nil {
				return nil, err
			}
			ok, msg := sshserver.VerifVerifyAuthorizedKeys("alice", unhx(c.File), offered)
			return map[string]interface{}{"accepted": ok, "msg": msg}, nil
		case "password":
			config.Server.Schedule = nil
			config.Server.Continuous = nil
			for _, j := range c.Schedule {
				var s config.Scheduled
				s.Name, s.AllowFrom, s.Enable = j.Name, j.AllowFrom, true
				config.Server.Schedule = append(config.Server.Schedule, s)
			}
			for _, j := range c.Continuous {
				var s config.Continuous
				s.Name, s.AllowFrom, s.Enable = j.Name, j.AllowFrom, true
				config.Server.Continuous = append(config.Server.Continuous, s)
			}
			var s server.Server
			_, err := s.Callback(fakeMeta{user: c.User, remote: strAddr(c.Remote)}, []byte(c.Password))
			return map[string]interface{}{"granted": err == nil}, nil
		}
		return nil, nil
	}
}
