//go:build verif

package main

import (
	"encoding/base64"
	"encoding/json"
	"regexp"
	"strconv"
	"strings"

	"github.com/mimecast/dtail/internal/clients"
	clienthandlers "github.com/mimecast/dtail/internal/clients/handlers"
	"github.com/mimecast/dtail/internal/config"
	"github.com/mimecast/dtail/internal/lcontext"
	"github.com/mimecast/dtail/internal/mapr"
	"github.com/mimecast/dtail/internal/omode"
	"github.com/mimecast/dtail/internal/regex"
	"github.com/mimecast/dtail/internal/server/handlers"
	user "github.com/mimecast/dtail/internal/user/server"
)

// C12 / C10: client-side command construction (real client constructors, real SendMessage) and
// server-side decoding (real ServerHandler.Write up to the command callback).
type codecCase struct {
	Tool       string `json:"tool"` // grep | cat | tail | "" (raw)
	Regex      string `json:"regex"` // hex
	Invert     bool   `json:"invert"`
	Before     int    `json:"before"`
	After      int    `json:"after"`
	Max        int    `json:"max"`
	Plain      bool   `json:"plain"`
	Quiet      bool   `json:"quiet"`
	Files      string `json:"files"` // hex, comma separated list as given to --files
	Query      string `json:"query"` // hex: for tool "map"
	RawChunks  []string `json:"raw_chunks"` // hex: for tool "", bytes written to the session as they are
	RawPayloads []string `json:"raw_payloads"` // hex: for tool "", payloads wrapped like the client does
}

type tables struct {
	B64   map[string]*string `json:"b64"`   // payload(hex) -> decoded(hex) or null
	Atoi  map[string]*int64  `json:"atoi"`  // string(hex) -> value or null
	Rx    map[string]bool    `json:"rx"`    // pattern(hex) -> compiles
	Query map[string]bool    `json:"query"` // query(hex) -> NewQuery returns a query without error
}

func wrap(cmd string) string {
	h := clienthandlers.NewClientHandler("verif")
	go h.SendMessage(cmd)
	buf := make([]byte, 1<<20)
	n, _ := h.Read(buf)
	h.Shutdown()
	return string(buf[:n])
}

// oracle tables: every string the decoder may hand to base64 / Atoi / regexp / NewQuery
func fillTables(t *tables, wire string) {
	for _, cmd := range strings.Split(wire, ";") {
		for _, w := range strings.Split(cmd, " ") {
			addB64(t, w)
		}
	}
}

func addB64(t *tables, w string) {
	k := hx([]byte(w))
	if _, ok := t.B64[k]; ok {
		return
	}
	dec, err := base64.StdEncoding.DecodeString(w)
	if err != nil {
		t.B64[k] = nil
		return
	}
	d := hx(dec)
	t.B64[k] = &d
	decoded := string(dec)
	args := strings.Split(decoded, " ")
	// option values
	parts := strings.Split(args[0], ":")
	for _, o := range parts[1:] {
		kv := strings.SplitN(o, "=", 2)
		if len(kv) != 2 {
			continue
		}
		v := kv[1]
		if strings.HasPrefix(v, "base64%") {
			enc := strings.SplitN(v, "%", 2)[1]
			addB64(t, enc)
			if d2, err := base64.StdEncoding.DecodeString(enc); err == nil {
				v = string(d2)
			}
		}
		if n, err := strconv.Atoi(v); err == nil {
			n64 := int64(n)
			t.Atoi[hx([]byte(v))] = &n64
		} else {
			t.Atoi[hx([]byte(v))] = nil
		}
	}
	// regex candidates: everything after the first space of join(args[2:])
	if len(args) > 2 {
		s := strings.SplitN(strings.Join(args[2:], " "), " ", 2)
		if len(s) == 2 {
			_, err := regexp.Compile(s[1])
			t.Rx[hx([]byte(s[1]))] = err == nil
		}
	}
	if len(args) > 1 {
		q := strings.Join(args[1:], " ")
		ok := false
		func() {
			defer func() { recover() }()
			qq, err := mapr.NewQuery(q)
			ok = err == nil && qq != nil
		}()
		t.Query[hx([]byte(q))] = ok
	}
}

func init() {
	serverSide["codec"] = true
	commands["codec"] = func(raw json.RawMessage) (interface{}, error) {
		var c codecCase
		if err := json.Unmarshal(raw, &c); err != nil {
			return nil, err
		}
		var cmds []string
		var wires []string
		if c.Tool != "" {
			args := config.Args{
				LContext:  lcontext.LContext{AfterContext: c.After, BeforeContext: c.Before, MaxCount: c.Max},
				RegexStr:  string(unhx(c.Regex)), RegexInvert: c.Invert, Plain: c.Plain, Quiet: c.Quiet,
				What: string(unhx(c.Files)), Serverless: true, ConnectionsPerCPU: 1, UserName: "verif",
			}
			if _, err := regexp.Compile(args.RegexStr); err != nil {
				return map[string]interface{}{"skip": "regex does not compile"}, nil
			}
			switch c.Tool {
			case "grep":
				cl, err := clients.NewGrepClient(args)
				if err != nil {
					return map[string]interface{}{"skip": err.Error()}, nil
				}
				cmds = cl.VerifCommands()
			case "cat":
				args.RegexStr = ""
				cl, err := clients.NewCatClient(args)
				if err != nil {
					return map[string]interface{}{"skip": err.Error()}, nil
				}
				cmds = cl.VerifCommands()
			case "map":
				args.QueryStr = string(unhx(c.Query))
				args.Mode = omode.MapClient
				args.RegexStr = ""
				if q, err := mapr.NewQuery(args.QueryStr); err != nil || q == nil {
					return map[string]interface{}{"skip": "query does not parse"}, nil
				}
				cl, err := clients.NewMaprClient(args, clients.DefaultMode)
				if err != nil {
					return map[string]interface{}{"skip": err.Error()}, nil
				}
				cmds = cl.VerifCommands()
			case "tail":
				cl, err := clients.NewTailClient(args)
				if err != nil {
					return map[string]interface{}{"skip": err.Error()}, nil
				}
				cmds = cl.VerifCommands()
			}
			for _, cmd := range cmds {
				wires = append(wires, wrap(cmd))
			}
		} else {
			for _, p := range c.RawPayloads {
				wires = append(wires, wrap(string(unhx(p))))
			}
			for _, ch := range c.RawChunks {
				wires = append(wires, string(unhx(ch)))
			}
		}
		t := tables{B64: map[string]*string{}, Atoi: map[string]*int64{}, Rx: map[string]bool{}, Query: map[string]bool{}}
		var chunks [][]byte
		for _, w := range wires {
			chunks = append(chunks, []byte(w))
		}
		fillTables(&t, strings.Join(wires, ""))
		u, err := user.New("verif", "127.0.0.1:1")
		if err != nil {
			return nil, err
		}
		decoded, messages := handlers.VerifDecode(u, chunks)
		type dec struct {
			Name       string   `json:"name"`
			Argc       int      `json:"argc"`
			Args       []string `json:"args"`
			Before     int      `json:"before"`
			After      int      `json:"after"`
			Max        int      `json:"max"`
			Quiet      bool     `json:"quiet"`
			Plain      bool     `json:"plain"`
			Serverless bool     `json:"serverless"`
			RxErr      bool     `json:"rxerr"`
			RxStr      string   `json:"rxstr"`
		}
		var ds []dec
		for _, d := range decoded {
			x := dec{Name: hx([]byte(d.Name)), Argc: d.Argc, Before: d.Ltx.BeforeContext, After: d.Ltx.AfterContext, Max: d.Ltx.MaxCount,
				Quiet: d.Quiet, Plain: d.Plain, Serverless: d.Serverless}
			for _, a := range d.Args {
				x.Args = append(x.Args, hx([]byte(a)))
			}
			// what readCommand.Start does with the arguments (one line, repeated here to observe it)
			if len(d.Args) >= 4 {
				re, err := regex.Deserialize(strings.Join(d.Args[2:], " "))
				x.RxErr = err != nil
				x.RxStr = re.String()
			}
			ds = append(ds, x)
		}
		hcmds := []string{}
		for _, cmd := range cmds {
			hcmds = append(hcmds, hx([]byte(cmd)))
		}
		hw := []string{}
		for _, w := range wires {
			hw = append(hw, hx([]byte(w)))
		}
		return map[string]interface{}{"commands": hcmds, "wires": hw, "decoded": ds, "messages": len(messages), "tables": t}, nil
	}
}
