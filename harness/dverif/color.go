//go:build verif

package main

import (
	"encoding/json"
	"fmt"
	"io"
	"os"

	"github.com/mimecast/dtail/internal/clients"
	"github.com/mimecast/dtail/internal/clients/handlers"
	"github.com/mimecast/dtail/internal/color/brush"
	"github.com/mimecast/dtail/internal/config"
	"github.com/mimecast/dtail/internal/mapr"
)

// C16: brush.Colorfy on arbitrary messages and the client handlers' Write on arbitrary byte
// streams (needs DVERIF_LOGGER=stdout: what the handlers print is captured from os.Stdout).

func captureStdout(f func()) (out []byte, panicked string) {
	old := os.Stdout
	r, w, _ := os.Pipe()
	os.Stdout = w
	done := make(chan []byte)
	go func() { b, _ := io.ReadAll(r); done <- b }()
	func() {
		defer func() {
			if rec := recover(); rec != nil {
				panicked = fmt.Sprint(rec)
			}
		}()
		f()
	}()
	w.Close()
	os.Stdout = old
	out = <-done
	r.Close()
	return
}

func init() {
	commands["colorfy"] = func(raw json.RawMessage) (interface{}, error) {
		var c struct {
			M string `json:"m"`
		}
		if err := json.Unmarshal(raw, &c); err != nil {
			return nil, err
		}
		msg := string(unhx(c.M))
		var out string
		panicked := ""
		func() {
			defer func() {
				if rec := recover(); rec != nil {
					panicked = fmt.Sprint(rec)
				}
			}()
			out = brush.Colorfy(msg)
		}()
		return map[string]interface{}{"panicked": panicked != "", "panic": panicked, "out": hx([]byte(out))}, nil
	}
	commands["cwrite"] = func(raw json.RawMessage) (interface{}, error) {
		var c struct {
			Kind   string   `json:"kind"` // client | mapr | health | maprreport
			Chunks []string `json:"chunks"`
			Query  string   `json:"query"`      // maprreport: the client's query
			Cumul  bool     `json:"cumulative"` // maprreport: cumulative mode
		}
		if err := json.Unmarshal(raw, &c); err != nil {
			return nil, err
		}
		run := func(colors bool) ([]byte, string) {
			config.Client.TermColorsEnable = colors
			return captureStdout(func() {
				var w io.Writer
				if c.Kind == "maprreport" {
					// the whole client side of a mapreduce session: one handler per server (chunk i goes to
					// server i mod 2), an interim report after every chunk and the final report
					mc, err := clients.VerifNewMaprClient(c.Query, c.Cumul)
					if err != nil {
						panic("query: " + err.Error())
					}
					hs := []io.Writer{mc.VerifHandler("s0"), mc.VerifHandler("s1")}
					for i, ch := range c.Chunks {
						hs[i%2].Write(unhx(ch))
						mc.VerifReport(false)
					}
					mc.VerifReport(true)
					return
				}
				switch c.Kind {
				case "mapr":
					q, _ := mapr.NewQuery("select count(x) from STATS")
					w = handlers.NewMaprHandler("verif", q, mapr.NewGlobalGroupSet())
				case "health":
					w = handlers.NewHealthHandler("verif")
				default:
					w = handlers.NewClientHandler("verif")
				}
				for _, ch := range c.Chunks {
					w.Write(unhx(ch))
				}
			})
		}
		plain, p1 := run(false)
		colored, p2 := run(true)
		config.Client.TermColorsEnable = false
		return map[string]interface{}{"plain": hx(plain), "colored": hx(colored), "panicked": p1 != "" || p2 != "", "panic": p1 + p2}, nil
	}
}
