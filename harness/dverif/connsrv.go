//go:build verif

package main

import (
	"context"
	"crypto/ed25519"
	"crypto/rand"
	"encoding/json"
	"fmt"
	"net"
	"os"
	"path/filepath"
	"sync"
	"time"

	"github.com/mimecast/dtail/internal/config"
	"github.com/mimecast/dtail/internal/server"

	gossh "golang.org/x/crypto/ssh"
)

// C14: scripted connection histories against the real server (listener loop, handshake, channel
// and request handling) inside this process.  After every event the harness waits for the
// reported counter to settle and records it together with its own ground truth.
type connCase struct {
	Max    int        `json:"max"`
	Events [][]string `json:"events"` // ["open", id, kind] | ["close", id] | ["burst", n, kind]
}

type cliConn struct {
	tcp    net.Conn
	ssh    *gossh.Client
	closed bool
	dead   chan struct{} // closed when the SSH connection ended (either side)
}

var connOnce sync.Once
var connSrv *server.Server
var connPort int
var connSigner gossh.Signer

func startConnServer() error {
	var err error
	connOnce.Do(func() {
		dir, e := os.MkdirTemp("", "dverif-conn-*")
		if e != nil {
			err = e
			return
		}
		os.MkdirAll(filepath.Join(dir, "cache"), 0o755)
		os.Chdir(dir)
		_, priv, _ := ed25519.GenerateKey(rand.Reader)
		connSigner, _ = gossh.NewSignerFromKey(priv)
		// (a comment in front of and behind the key: a file as users have them)
		ak := append([]byte("# keys of root\n"), gossh.MarshalAuthorizedKey(connSigner.PublicKey())...)
		ak = append(ak, []byte("# end of file\n")...)
		os.WriteFile(filepath.Join(dir, "cache", "root.authorized_keys"), ak, 0o600)
		config.Server.HostKeyBits = 2048
		config.Server.HostKeyFile = filepath.Join(dir, "cache", "ssh_host_key")
		config.Server.SSHBindAddress = "127.0.0.1"
		l, e := net.Listen("tcp", "127.0.0.1:0")
		if e != nil {
			err = e
			return
		}
		connPort = l.Addr().(*net.TCPAddr).Port
		l.Close()
		config.Common.SSHPort = connPort
		connSrv = server.New()
		go connSrv.Start(context.Background())
		for i := 0; i < 200; i++ {
			c, e := net.DialTimeout("tcp", fmt.Sprintf("127.0.0.1:%d", connPort), 100*time.Millisecond)
			if e == nil {
				c.Close()
				break
			}
			time.Sleep(10 * time.Millisecond)
		}
		time.Sleep(100 * time.Millisecond)
	})
	return err
}

// readCount reads the server's counter; a counter that cannot be read within two seconds (a stuck
// mutex) is reported as -1000 so that the history is judged instead of hanging the harness
func readCount() int {
	ch := make(chan int, 1)
	go func() { ch <- connSrv.VerifCurrentConnections() }()
	select {
	case v := <-ch:
		return v
	case <-time.After(2 * time.Second):
		return -1000
	}
}

func settleCount() int {
	last := readCount()
	if last == -1000 {
		return last
	}
	stable := time.Now()
	deadline := time.Now().Add(1500 * time.Millisecond)
	for time.Now().Before(deadline) {
		time.Sleep(10 * time.Millisecond)
		c := readCount()
		if c == -1000 {
			return c
		}
		if c != last {
			last, stable = c, time.Now()
		} else if time.Since(stable) > 150*time.Millisecond {
			break
		}
	}
	return last
}

// tcpAlive: the server has not closed the raw connection
func tcpAlive(c net.Conn) bool {
	c.SetReadDeadline(time.Now().Add(30 * time.Millisecond))
	buf := make([]byte, 1)
	_, err := c.Read(buf)
	if err == nil {
		return true
	}
	if ne, ok := err.(net.Error); ok && ne.Timeout() {
		return true
	}
	return false
}

func openConn(kind string) (*cliConn, bool) {
	addr := fmt.Sprintf("127.0.0.1:%d", connPort)
	tcp, err := net.DialTimeout("tcp", addr, time.Second)
	if err != nil {
		return nil, false
	}
	cc := &cliConn{tcp: tcp}
	switch kind {
	case "tcp_only":
		time.Sleep(60 * time.Millisecond)
		// the server sends its version string when it serves the connection; a refused one is closed
		tcp.SetReadDeadline(time.Now().Add(300 * time.Millisecond))
		buf := make([]byte, 64)
		n, _ := tcp.Read(buf)
		return cc, n > 0
	case "tcp_reset":
		tcp.Close()
		cc.closed = true
		return cc, false
	}
	cfg := &gossh.ClientConfig{User: "root", HostKeyCallback: gossh.InsecureIgnoreHostKey(), Timeout: 2 * time.Second}
	switch kind {
	case "badpw":
		cfg.User = "DTAIL-HEALTH"
		cfg.Auth = []gossh.AuthMethod{gossh.Password("wrong")}
	case "key_nouser": // a user the operating system does not know and nobody cached keys for
		cfg.User = "no-such-user-c14"
		cfg.Auth = []gossh.AuthMethod{gossh.PublicKeys(connSigner)}
	case "key_osuser": // an operating-system user without cached keys: the key file is looked up in its home directory
		cfg.User = "daemon"
		cfg.Auth = []gossh.AuthMethod{gossh.PublicKeys(connSigner)}
	case "health", "health_nochan":
		cfg.User = "DTAIL-HEALTH"
		cfg.Auth = []gossh.AuthMethod{gossh.Password("DTAIL-HEALTH")}
	default:
		cfg.Auth = []gossh.AuthMethod{gossh.PublicKeys(connSigner)}
	}
	tcp.SetDeadline(time.Now().Add(3 * time.Second))
	c, chans, reqs, err := gossh.NewClientConn(tcp, addr, cfg)
	if err != nil {
		tcp.Close()
		cc.closed = true
		return cc, false
	}
	tcp.SetDeadline(time.Time{})
	cc.ssh = gossh.NewClient(c, chans, reqs)
	cc.dead = make(chan struct{})
	go func() { cc.ssh.Wait(); close(cc.dead) }()
	shells := 0
	channels := 0
	switch kind {
	case "key_chan":
		channels = 1
	case "key_shell", "health":
		channels, shells = 1, 1
	case "key_2shell":
		channels, shells = 2, 2
	case "key_shell_twice": // two shell requests on one channel
		channels, shells = 1, 2
	case "key_exec", "key_pty", "key_env", "key_subsystem": // what a plain OpenSSH client sends: the server kicks it out
		channels = 1
	}
	for i := 0; i < channels; i++ {
		ch, rq, err := cc.ssh.OpenChannel("session", nil)
		if err != nil {
			break
		}
		go gossh.DiscardRequests(rq)
		go func() { b := make([]byte, 4096); for { if _, e := ch.Read(b); e != nil { return } } }()
		n := shells / channels
		if kind == "key_shell_twice" {
			n = 2
		}
		for j := 0; j < n; j++ {
			ch.SendRequest("shell", true, nil)
		}
		switch kind {
		case "key_exec":
			ch.SendRequest("exec", true, gossh.Marshal(struct{ Command string }{"id"}))
		case "key_pty":
			ch.SendRequest("pty-req", true, gossh.Marshal(struct {
				Term           string
				W, H, Wpx, Hpx uint32
				Modes          string
			}{"xterm", 80, 24, 0, 0, ""}))
		case "key_env":
			ch.SendRequest("env", true, gossh.Marshal(struct{ Name, Value string }{"LANG", "C"}))
		case "key_subsystem":
			ch.SendRequest("subsystem", true, gossh.Marshal(struct{ Name string }{"sftp"}))
		}
	}
	if kind == "key_direct" {
		// what ssh -L / -W send: a channel type the server does not serve; the connection stays up
		cc.ssh.OpenChannel("direct-tcpip", gossh.Marshal(struct {
			Host  string
			Port  uint32
			OHost string
			OPort uint32
		}{"127.0.0.1", 80, "127.0.0.1", 1234}))
	}
	return cc, true
}

func init() {
	serverSide["connsrv"] = true
	commands["connsrv"] = func(raw json.RawMessage) (interface{}, error) {
		var c connCase
		if err := json.Unmarshal(raw, &c); err != nil {
			return nil, err
		}
		if err := startConnServer(); err != nil {
			return nil, err
		}
		base := settleCount() // leaked slots of earlier histories in this process are the baseline
		config.Server.MaxConnections = c.Max + base
		conns := map[string]*cliConn{}
		type obs struct {
			Count    int   `json:"count"`
			Admitted []bool `json:"admitted"`
			Open     int   `json:"open"`
		}
		var trace []obs
		countOpen := func() int {
			n := 0
			for _, cc := range conns {
				if cc == nil || cc.closed {
					continue
				}
				alive := false
				if cc.ssh != nil {
					select {
					case <-cc.dead:
					default:
						alive = true
					}
				} else {
					alive = tcpAlive(cc.tcp)
				}
				if alive {
					n++
				} else {
					cc.closed = true
				}
			}
			return n
		}
		for _, ev := range c.Events {
			var admitted []bool
			switch ev[0] {
			case "open":
				cc, ok := openConn(ev[2])
				conns[ev[1]] = cc
				admitted = []bool{ok}
			case "burst":
				var n int
				fmt.Sscan(ev[1], &n)
				var wg sync.WaitGroup
				var mu sync.Mutex
				res := make([]bool, n)
				for k := 0; k < n; k++ {
					wg.Add(1)
					go func(k int) {
						defer wg.Done()
						cc, ok := openConn(ev[2])
						mu.Lock()
						conns[fmt.Sprintf("burst-%s-%d", ev[3], k)] = cc
						res[k] = ok
						mu.Unlock()
					}(k)
				}
				wg.Wait()
				admitted = res
			case "close":
				if cc := conns[ev[1]]; cc != nil && !cc.closed {
					if cc.ssh != nil {
						cc.ssh.Close()
					}
					cc.tcp.Close()
					cc.closed = true
				}
			}
			cnt := settleCount() - base
			trace = append(trace, obs{Count: cnt, Admitted: admitted, Open: countOpen()})
		}
		for _, cc := range conns {
			if cc != nil && !cc.closed {
				if cc.ssh != nil {
					cc.ssh.Close()
				}
				cc.tcp.Close()
			}
		}
		final := settleCount() - base
		return map[string]interface{}{"trace": trace, "final": final, "base": base}, nil
	}
}
