//go:build verif

package main

import (
	"encoding/json"
	"os"
	"regexp"
	"syscall"

	"github.com/mimecast/dtail/internal/discovery"
)

// C18: server discovery.
type discCase struct {
	Kind    string   `json:"kind"`    // comma | file | module
	Server  string   `json:"server"`  // hex: --servers argument (comma) or file content (file) or "/regex/" (module)
	Entries []string `json:"entries"` // hex entries for module source
	Regex   string   `json:"regex"`   // hex: regex text without slashes ("" = none), module kind only
	Fifo    bool     `json:"fifo"`    // file kind: the server file is a named pipe (what --servers <(cmd) passes)
	Symlink bool     `json:"symlink"` // file kind: the server file is reached through a symbolic link
}

func init() {
	commands["disc"] = func(raw json.RawMessage) (interface{}, error) {
		var c discCase
		if err := json.Unmarshal(raw, &c); err != nil {
			return nil, err
		}
		var d *discovery.Discovery
		matches := []bool{}
		switch c.Kind {
		case "comma":
			d = discovery.New("", string(unhx(c.Server)), discovery.Shuffle)
		case "file":
			if c.Fifo || c.Symlink {
				dir, err := os.MkdirTemp("", "dverif-servers-*")
				if err != nil {
					return nil, err
				}
				defer os.RemoveAll(dir)
				path := dir + "/servers"
				if c.Fifo {
					if err := syscall.Mkfifo(path, 0o600); err != nil {
						return nil, err
					}
					go func() {
						w, err := os.OpenFile(path, os.O_WRONLY, 0)
						if err == nil {
							w.Write(unhx(c.Server))
							w.Close()
						}
					}()
				} else {
					os.WriteFile(dir+"/real", unhx(c.Server), 0o600)
					os.Symlink(dir+"/real", path)
				}
				d = discovery.New("", path, discovery.Shuffle)
				break
			}
			f, err := os.CreateTemp("", "dverif-servers-*")
			if err != nil {
				return nil, err
			}
			defer os.Remove(f.Name())
			f.Write(unhx(c.Server))
			f.Close()
			d = discovery.New("", f.Name(), discovery.Shuffle)
		case "module":
			var l []string
			for _, e := range c.Entries {
				l = append(l, string(unhx(e)))
			}
			discovery.VerifList = l
			server := ""
			if c.Regex != "" {
				rx := string(unhx(c.Regex))
				server = "/" + rx + "/"
				// the oracle's match table comes straight from regexp, not from dtail
				re, err := regexp.Compile(rx)
				if err != nil {
					return map[string]interface{}{"skip": "regex does not compile"}, nil
				}
				for _, e := range l {
					matches = append(matches, re.MatchString(e))
				}
			}
			d = discovery.New("verif", server, discovery.Shuffle)
		}
		out := d.ServerList()
		hexed := make([]string, 0, len(out))
		for _, s := range out {
			hexed = append(hexed, hx([]byte(s)))
		}
		return map[string]interface{}{"servers": hexed, "matches": matches}, nil
	}
}
