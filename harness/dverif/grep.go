//go:build verif

package main

import (
	"context"
	"encoding/json"
	"os"
	"regexp"
	"strconv"
	"strings"

	"github.com/mimecast/dtail/internal/io/fs"
	"github.com/mimecast/dtail/internal/io/line"
	"github.com/mimecast/dtail/internal/lcontext"
	"github.com/mimecast/dtail/internal/regex"
)

// C03: the cat/grep reader API with a local context, regex built the way client and server do
// (regex.New -> Serialize -> Deserialize).  Lines carry a unique "NNNNN:" prefix so that emitted
// contents identify file indices; RE2 verdicts come straight from regexp (the oracle).
type grepCase struct {
	Lines   []string `json:"lines"` // hex, without newline
	Pattern string   `json:"pattern"` // hex
	Invert  bool     `json:"invert"`
	Before  int      `json:"before"`
	After   int      `json:"after"`
	Max     int      `json:"max"`
	NoNl    bool     `json:"nonl"` // the last line of the file is not newline-terminated
}

func init() {
	serverSide["grep"] = true
	commands["grep"] = func(raw json.RawMessage) (interface{}, error) {
		var c grepCase
		if err := json.Unmarshal(raw, &c); err != nil {
			return nil, err
		}
		pattern := string(unhx(c.Pattern))
		f, err := os.CreateTemp("", "dverif-grep-*")
		if err != nil {
			return nil, err
		}
		defer os.Remove(f.Name())
		var sb strings.Builder
		texts := make([]string, len(c.Lines))
		for i, l := range c.Lines {
			texts[i] = strconv.Itoa(100000+i)[1:] + ":" + string(unhx(l))
			sb.WriteString(texts[i])
			if !c.NoNl || i < len(c.Lines)-1 {
				sb.WriteByte('\n')
			}
		}
		f.WriteString(sb.String())
		f.Close()

		rawRe, err := regexp.Compile(pattern)
		if err != nil {
			return map[string]interface{}{"skip": "pattern does not compile"}, nil
		}
		verdicts := make([]bool, len(texts))
		for i, t := range texts {
			verdicts[i] = rawRe.MatchString(t)
		}

		flag := regex.Default
		if c.Invert {
			flag = regex.Invert
		}
		re0, err := regex.New(pattern, flag)
		if err != nil {
			return map[string]interface{}{"skip": "regex.New: " + err.Error()}, nil
		}
		ser, err := re0.Serialize()
		if err != nil {
			return nil, err
		}
		re, err := regex.Deserialize(ser)
		if err != nil {
			return map[string]interface{}{"error": "deserialize: " + err.Error()}, nil
		}

		serverMessages := make(chan string, 1000)
		lines := make(chan *line.Line, 100)
		reader := fs.NewCatFile(f.Name(), "id", serverMessages)
		ltx := lcontext.LContext{AfterContext: c.After, BeforeContext: c.Before, MaxCount: c.Max}
		done := make(chan error, 1)
		go func() {
			done <- reader.Start(context.Background(), ltx, lines, re)
			close(lines)
		}()
		idx := []int{}
		nums := []uint64{}
		bad := []string{}
		for l := range lines {
			content := l.Content.String()
			n, perr := strconv.Atoi(strings.SplitN(content, ":", 2)[0])
			if c.NoNl && perr == nil && n == len(texts)-1 && content == texts[n] {
				content += "\n" // the unterminated last line (its delivery form is C01's subject)
			}
			if perr != nil || n < 0 || n >= len(texts) || content != texts[n]+"\n" {
				bad = append(bad, hx([]byte(content)))
				continue
			}
			idx = append(idx, n)
			nums = append(nums, l.Count)
		}
		res := map[string]interface{}{"idx": idx, "nums": nums, "verdicts": verdicts}
		if err := <-done; err != nil {
			res["starterr"] = err.Error()
		}
		if len(bad) > 0 {
			res["bad"] = bad
		}
		return res, nil
	}
}
