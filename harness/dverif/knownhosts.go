//go:build verif

package main

import (
	"context"
	"crypto/ed25519"
	"encoding/json"
	"fmt"
	"net"
	"os"
	"strings"
	"sync"
	"time"

	sshclient "github.com/mimecast/dtail/internal/ssh/client"

	gossh "golang.org/x/crypto/ssh"
	"golang.org/x/crypto/ssh/knownhosts"
)

// C17: the real KnownHostsCallback (Wrap + PromptAddHosts + trustHosts) with scripted answers on
// stdin.  Keys are derived from small integers so that the Python side can refer to them.
type khLine struct {
	Kind   string   `json:"kind"` // host | hashed | comment | blank | raw | marker
	Hosts  []string `json:"hosts"`
	Key    int      `json:"key"`
	Text   string   `json:"text"`
	Marker string   `json:"marker"`
}
type khCase struct {
	File      []khLine `json:"file"`
	NoFinalNl bool     `json:"no_final_nl"`
	CRLF      bool     `json:"crlf"`
	TrustAll  bool     `json:"trust_all"`
	Answers   string   `json:"answers"` // what the user types (lines)
	// a reconnecting client: after the first round has been decided the same servers are contacted
	// again through the same callback object; Answers2 is typed only then
	Recontact bool   `json:"recontact"`
	Answers2  string `json:"answers2"`
	// the client is shut down (its context cancelled) this long after the contacts were made - inside the
	// window in which unknown hosts are still being collected for the prompt
	CancelAfterMs int `json:"cancel_after_ms"`
	Contacts      []struct {
		Server string `json:"server"` // "host:port" as dialled
		Remote string `json:"remote"` // "ip:port"
		Key    int    `json:"key"`
	} `json:"contacts"`
}

func khKey(n int) gossh.PublicKey {
	seed := make([]byte, ed25519.SeedSize)
	seed[0], seed[1] = byte(n), byte(n>>8)
	priv := ed25519.NewKeyFromSeed(seed)
	pub, _ := gossh.NewPublicKey(priv.Public())
	return pub
}

func init() {
	commands["knownhosts"] = func(raw json.RawMessage) (interface{}, error) {
		var c khCase
		if err := json.Unmarshal(raw, &c); err != nil {
			return nil, err
		}
		dir, err := os.MkdirTemp("", "dverif-kh-*")
		if err != nil {
			return nil, err
		}
		defer os.RemoveAll(dir)
		path := dir + "/known_hosts"
		var lines []string
		for _, l := range c.File {
			switch l.Kind {
			case "host":
				lines = append(lines, knownhosts.Line(l.Hosts, khKey(l.Key)))
			case "marker":
				lines = append(lines, l.Marker+" "+knownhosts.Line(l.Hosts, khKey(l.Key)))
			case "hashed":
				k := khKey(l.Key)
				lines = append(lines, knownhosts.HashHostname(knownhosts.Normalize(l.Hosts[0]))+" "+k.Type()+" "+strings.TrimSpace(strings.SplitN(string(gossh.MarshalAuthorizedKey(k)), " ", 2)[1]))
			case "comment":
				lines = append(lines, "# "+l.Text)
			case "blank":
				lines = append(lines, "")
			case "raw":
				lines = append(lines, l.Text)
			}
		}
		eol := "\n"
		if c.CRLF {
			eol = "\r\n"
		}
		content := strings.Join(lines, eol)
		if len(lines) > 0 && !c.NoFinalNl {
			content += eol
		}
		os.WriteFile(path, []byte(content), 0o600)

		// scripted terminal
		oldIn, oldOut := os.Stdin, os.Stdout
		r, w, _ := os.Pipe()
		os.Stdin = r
		devnull, _ := os.OpenFile("/dev/null", os.O_WRONLY, 0)
		os.Stdout = devnull
		w.WriteString(c.Answers)
		// stdin is left open: a prompt whose answers ran out blocks (the client would wait for the user)
		defer func() { os.Stdin, os.Stdout = oldIn, oldOut; w.Close(); r.Close(); devnull.Close() }()

		throttle := make(chan struct{}, 100)
		for i := 0; i < 100; i++ {
			throttle <- struct{}{}
		}
		cb, err := sshclient.NewKnownHostsCallback(path, c.TrustAll, throttle)
		if err != nil {
			return nil, err
		}
		ctx, cancel := context.WithCancel(context.Background())
		defer cancel()
		go cb.PromptAddHosts(ctx)
		wrap := cb.Wrap()
		settle := func() {
			// trustHosts answers the waiting callbacks before it has finished rewriting the file:
			// wait until the rewrite has settled
			var last []byte
			for k := 0; k < 40; k++ {
				time.Sleep(50 * time.Millisecond)
				cur, _ := os.ReadFile(path)
				_, tmpE := os.Stat(path + ".tmp")
				if tmpE != nil && k >= 4 && string(cur) == string(last) {
					break
				}
				last = cur
			}
		}
		round := func() []string {
			results := make([]string, len(c.Contacts))
			var wg sync.WaitGroup
			for i, ct := range c.Contacts {
				wg.Add(1)
				go func(i int, server, remote string, key int) {
					defer wg.Done()
					host, port, _ := net.SplitHostPort(remote)
					var p int
					fmt.Sscan(port, &p)
					addr := &net.TCPAddr{IP: net.ParseIP(host), Port: p}
					done := make(chan error, 1)
					go func() { done <- wrap(server, addr, khKey(key)) }()
					select {
					case err := <-done:
						if err == nil {
							results[i] = "proceed"
						} else {
							results[i] = "refused: " + err.Error()
						}
					case <-time.After(6 * time.Second):
						results[i] = "blocked"
					}
				}(i, ct.Server, ct.Remote, ct.Key)
			}
			wg.Wait()
			return results
		}
		if c.CancelAfterMs > 0 {
			go func() { time.Sleep(time.Duration(c.CancelAfterMs) * time.Millisecond); cancel() }()
		}
		results := round()
		var results2 []string
		if c.Recontact {
			settle()
			w.WriteString(c.Answers2)
			results2 = round()
		}
		// a prompt whose scripted answers ran out is still waiting: answer "no" so that it terminates
		// before the terminal is given back (otherwise it would spin on the closed pipe)
		blocked := false
		for _, r := range append(append([]string{}, results...), results2...) {
			if r == "blocked" {
				blocked = true
			}
		}
		if blocked {
			w.WriteString("n\nn\nn\n")
			time.Sleep(300 * time.Millisecond)
		}
		type ent struct {
			HostLine string `json:"host_line"`
			IPLine   string `json:"ip_line"`
			NormHost string `json:"norm_host"`
			NormIP   string `json:"norm_ip"`
		}
		var ents []ent
		for _, ct := range c.Contacts {
			ents = append(ents, ent{knownhosts.Line([]string{ct.Server}, khKey(ct.Key)), knownhosts.Line([]string{ct.Remote}, khKey(ct.Key)),
				knownhosts.Normalize(ct.Server), knownhosts.Normalize(ct.Remote)})
		}
		settle()
		after, _ := os.ReadFile(path)
		_, tmpErr := os.Stat(path + ".tmp")
		return map[string]interface{}{"before": hx([]byte(content)), "after": hx(after), "results": results, "results2": results2, "tmp_left": tmpErr == nil, "entries": ents}, nil
	}
}
