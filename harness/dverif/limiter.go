//go:build verif

package main

import (
	"encoding/json"
	"fmt"
	"os"
	"path/filepath"
	"sync"
	"time"

	"github.com/mimecast/dtail/internal/server/handlers"
	user "github.com/mimecast/dtail/internal/user/server"
	"github.com/mimecast/dtail/internal/verifhook"
)

// C13: scripted histories over sessions that share one limiter channel.  Readers follow files
// (tail mode), so a holder keeps its slot until its session is shut down.  After every event the
// harness waits for quiescence and records len(limiter) and the set of test files that are open.
type limCase struct {
	Cap    int        `json:"cap"`
	N      int        `json:"n"`
	Events [][]string `json:"events"` // ["start", "i"] | ["stop", "i"]
}

var limMu sync.Mutex
var limLog []string // "<hook> <path>"

func init() {
	serverSide["limiter"] = true
	commands["limiter"] = func(raw json.RawMessage) (interface{}, error) {
		var c limCase
		if err := json.Unmarshal(raw, &c); err != nil {
			return nil, err
		}
		verifhook.Register(func(name string, args ...interface{}) {
			if len(name) < 8 || name[:8] != "limiter." {
				return
			}
			limMu.Lock()
			limLog = append(limLog, name+" "+fmt.Sprint(args[1]))
			limMu.Unlock()
		})
		defer verifhook.Register(nil)
		limMu.Lock()
		limLog = nil
		limMu.Unlock()
		dir, err := os.MkdirTemp("", "dverif-lim-*")
		if err != nil {
			return nil, err
		}
		defer os.RemoveAll(dir)
		tailLim := make(chan struct{}, c.Cap)
		catLim := make(chan struct{}, 10)
		paths := make([]string, c.N)
		hs := make([]*handlers.ServerHandler, c.N)
		for i := range paths {
			paths[i] = filepath.Join(dir, fmt.Sprintf("f%02d.log", i))
			os.WriteFile(paths[i], []byte("old\n"), 0o644)
		}
		u, _ := user.New("verif", "127.0.0.1:1")
		hookSeen := func(prefixes []string, path string, from int) bool {
			limMu.Lock()
			defer limMu.Unlock()
			for _, e := range limLog[from:] {
				for _, p := range prefixes {
					if e == p+" "+path {
						return true
					}
				}
			}
			return false
		}
		observe := func() (int, []int) {
			open := []int{}
			ents, _ := os.ReadDir("/proc/self/fd")
			seen := map[int]bool{}
			for _, e := range ents {
				t, err := os.Readlink("/proc/self/fd/" + e.Name())
				if err != nil {
					continue
				}
				for i, p := range paths {
					if t == p && !seen[i] {
						seen[i] = true
						open = append(open, i)
					}
				}
			}
			return len(tailLim), open
		}
		settle := func() (int, []int) {
			// stable for 120 ms (the truncation check opens a second descriptor only every 3 s)
			lastT, lastO := observe()
			stable := time.Now()
			deadline := time.Now().Add(1500 * time.Millisecond)
			for time.Now().Before(deadline) {
				time.Sleep(15 * time.Millisecond)
				t, o := observe()
				if t != lastT || fmt.Sprint(o) != fmt.Sprint(lastO) {
					lastT, lastO, stable = t, o, time.Now()
				} else if time.Since(stable) > 120*time.Millisecond {
					break
				}
			}
			return lastT, lastO
		}
		type obs struct {
			Tokens int   `json:"tokens"`
			Open   []int `json:"open"`
		}
		var trace []obs
		for _, ev := range c.Events {
			var i int
			fmt.Sscan(ev[1], &i)
			limMu.Lock()
			from := len(limLog)
			limMu.Unlock()
			switch ev[0] {
			case "start":
				h := handlers.NewServerHandler(u, catLim, tailLim)
				hs[i] = h
				go func() {
					buf := make([]byte, 32*1024)
					for {
						if _, err := h.Read(buf); err != nil {
							return
						}
					}
				}()
				go h.Write([]byte(wrap("tail: " + paths[i] + " regex:noop ")))
				deadline := time.Now().Add(2 * time.Second)
				for time.Now().Before(deadline) && !hookSeen([]string{"limiter.acquired", "limiter.queued"}, paths[i], from) {
					time.Sleep(2 * time.Millisecond)
				}
			case "startstop":
				// the session is gone by the time its read command reaches the limiter
				h := handlers.NewServerHandler(u, catLim, tailLim)
				hs[i] = h
				go func() {
					buf := make([]byte, 32*1024)
					for {
						if _, err := h.Read(buf); err != nil {
							return
						}
					}
				}()
				h.Shutdown()
				go h.Write([]byte(wrap("tail: " + paths[i] + " regex:noop ")))
				time.Sleep(60 * time.Millisecond)
			case "stop":
				if hs[i] != nil {
					hs[i].Shutdown()
				}
				time.Sleep(30 * time.Millisecond)
				// a read that owns a slot gives it back when its reader has noticed the cancellation (a follower polls
				// every 100 ms; on a loaded machine that can take longer than the observation window): wait for the
				// release itself - up to 3 s; a slot that is still held then is what the oracle reports
				if hookSeen([]string{"limiter.acquired"}, paths[i], 0) {
					held := func() bool {
						limMu.Lock()
						defer limMu.Unlock()
						n := 0
						for _, e := range limLog {
							if e == "limiter.acquired "+paths[i] {
								n++
							} else if e == "limiter.released "+paths[i] {
								n--
							}
						}
						return n > 0
					}
					deadline := time.Now().Add(3 * time.Second)
					for time.Now().Before(deadline) && held() {
						time.Sleep(5 * time.Millisecond)
					}
				}
			case "trunc", "truncstop":
				// the followed file is truncated: within ~3 s the reader notices, closes the file, pauses 2 s and
				// re-opens it (keeping its slot).  "truncstop" ends the session during that pause.
				isOpen := func() bool {
					_, o := observe()
					for _, x := range o {
						if x == i {
							return true
						}
					}
					return false
				}
				if isOpen() {
					os.WriteFile(paths[i], []byte("a considerably longer first generation of the file\n"), 0o644)
					time.Sleep(300 * time.Millisecond)
					os.Truncate(paths[i], 0)
					deadline := time.Now().Add(5 * time.Second)
					for time.Now().Before(deadline) && isOpen() {
						time.Sleep(10 * time.Millisecond)
					}
					if ev[0] == "truncstop" {
						time.Sleep(300 * time.Millisecond)
						if hs[i] != nil {
							hs[i].Shutdown()
						}
						time.Sleep(2500 * time.Millisecond) // beyond the end of the pause
					} else {
						deadline = time.Now().Add(5 * time.Second)
						for time.Now().Before(deadline) && !isOpen() {
							time.Sleep(10 * time.Millisecond)
						}
					}
				} else if ev[0] == "truncstop" && hs[i] != nil {
					hs[i].Shutdown()
					time.Sleep(30 * time.Millisecond)
				}
			}
			t, o := settle()
			trace = append(trace, obs{t, o})
		}
		for _, h := range hs {
			if h != nil {
				h.Shutdown()
			}
		}
		time.Sleep(150 * time.Millisecond)
		limMu.Lock()
		log := append([]string(nil), limLog...)
		limMu.Unlock()
		return map[string]interface{}{"trace": trace, "hooks": len(log)}, nil
	}
}
