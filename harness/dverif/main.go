//go:build verif

// dverif: correspondence harness for /verif.  Injected into the repository's module with
// `go build -overlay` as cmd/dverif (never committed there).  Every subcommand reads JSON lines
// (one case per line) from stdin and writes one JSON line per case to stdout.
package main

import (
	"bufio"
	"context"
	"encoding/hex"
	"encoding/json"
	"fmt"
	"os"
	"strconv"
	"sync"

	"github.com/mimecast/dtail/internal/config"
	"github.com/mimecast/dtail/internal/io/dlog"
	"github.com/mimecast/dtail/internal/source"
)

type handler func(raw json.RawMessage) (interface{}, error)

var commands = map[string]handler{}

func hx(b []byte) string { return hex.EncodeToString(b) }
func unhx(s string) []byte {
	b, err := hex.DecodeString(s)
	if err != nil {
		panic(err)
	}
	return b
}

func setup(src source.Source) {
	logger := os.Getenv("DVERIF_LOGGER")
	if logger == "" {
		logger = "none"
	}
	level := os.Getenv("DVERIF_LOGLEVEL")
	if level == "" {
		level = "error"
	}
	logDir := os.Getenv("DVERIF_LOGDIR")
	if logDir == "" {
		logDir = os.TempDir()
	}
	args := config.Args{ConfigFile: "none", Logger: logger, LogLevel: level, LogDir: logDir,
		NoColor: true, ConnectionsPerCPU: 10, SSHPort: 2222}
	if cfg := os.Getenv("DVERIF_CFG"); cfg != "" {
		args.ConfigFile = cfg
	}
	config.Setup(src, &args, nil)
	var wg sync.WaitGroup
	wg.Add(1)
	dlog.Start(context.Background(), &wg, src)
}

func main() {
	if len(os.Args) < 2 {
		fmt.Fprintln(os.Stderr, "usage: dverif <subcommand>")
		os.Exit(2)
	}
	sub := os.Args[1]
	if special, ok := specials[sub]; ok {
		special(os.Args[2:])
		return
	}
	h, ok := commands[sub]
	if !ok {
		fmt.Fprintln(os.Stderr, "unknown subcommand", sub)
		os.Exit(2)
	}
	src := source.Client
	if serverSide[sub] {
		src = source.Server
	}
	setup(src)
	in := bufio.NewReaderSize(os.Stdin, 1<<20)
	out := bufio.NewWriterSize(os.Stdout, 1<<20)
	defer out.Flush()
	dec := json.NewDecoder(in)
	enc := json.NewEncoder(out)
	par, _ := strconv.Atoi(os.Getenv("DVERIF_PAR"))
	if par > 1 {
		// concurrent mode: results are tagged with the case index ("_i") and flushed as they
		// complete, so that after a crash the unfinished cases are known
		var raws []json.RawMessage
		for dec.More() {
			var raw json.RawMessage
			if err := dec.Decode(&raw); err != nil {
				fmt.Fprintln(os.Stderr, "bad case:", err)
				os.Exit(2)
			}
			raws = append(raws, raw)
		}
		var mu sync.Mutex
		var wg sync.WaitGroup
		sem := make(chan struct{}, par)
		for i, raw := range raws {
			wg.Add(1)
			sem <- struct{}{}
			go func(i int, raw json.RawMessage) {
				defer wg.Done()
				defer func() { <-sem }()
				res, err := safely(h, raw)
				if err != nil {
					res = map[string]interface{}{"error": err.Error()}
				}
				mu.Lock()
				defer mu.Unlock()
				b, _ := json.Marshal(res)
				fmt.Fprintf(out, "{\"_i\":%d,\"r\":%s}\n", i, b)
				out.Flush()
			}(i, raw)
		}
		wg.Wait()
		return
	}
	for dec.More() {
		var raw json.RawMessage
		if err := dec.Decode(&raw); err != nil {
			fmt.Fprintln(os.Stderr, "bad case:", err)
			os.Exit(2)
		}
		res, err := safely(h, raw)
		if err != nil {
			res = map[string]interface{}{"error": err.Error()}
		}
		if err := enc.Encode(res); err != nil {
			fmt.Fprintln(os.Stderr, "encode:", err)
			os.Exit(2)
		}
		out.Flush()
	}
}

// specials are subcommands with their own argument handling (servers, single-shot runs).
var specials = map[string]func([]string){}

// serverSide marks subcommands that need the server-side config/logger setup.
var serverSide = map[string]bool{}

func safely(h handler, raw json.RawMessage) (res interface{}, err error) {
	defer func() {
		if r := recover(); r != nil {
			res = map[string]interface{}{"panic": fmt.Sprint(r)}
			err = nil
		}
	}()
	return h(raw)
}
