//go:build verif

package main

import (
	"bytes"
	"context"
	"encoding/json"
	"fmt"
	"time"

	chandlers "github.com/mimecast/dtail/internal/clients/handlers"
	"github.com/mimecast/dtail/internal/io/line"
	"github.com/mimecast/dtail/internal/mapr"
	maprclient "github.com/mimecast/dtail/internal/mapr/client"
	maprserver "github.com/mimecast/dtail/internal/mapr/server"
)

// C05: a distributed mapreduce run in-process.  Every "server" is a real server-side Aggregate
// fed through one lines channel (several files per server are C06's subject), forced to
// serialise at the given cut points; the messages of all servers are fed, in the given
// interleaving, to real client-side Aggregates sharing one GlobalGroupSet.
type maprCase struct {
	Query   string       `json:"query"`   // hex
	Servers [][][]string `json:"servers"` // server -> chunk -> lines (hex)
	Order   []int        `json:"order"`   // which server's next message is delivered (indices; exhausted servers are skipped)
	Reports bool         `json:"reports"` // the client renders an interim result after every delivered message (periodicReportResults)
}

func runServer(query string, chunks [][]string) ([]string, error) {
	agg, err := maprserver.NewAggregate(query)
	if err != nil {
		return nil, err
	}
	ctx, cancel := context.WithCancel(context.Background())
	defer cancel()
	msgs := make(chan string, 100000)
	done := make(chan struct{})
	go func() { agg.Start(ctx, msgs); close(done) }()
	ch := make(chan *line.Line, 100)
	agg.NextLinesCh <- ch
	n := uint64(0)
	for ci, chunk := range chunks {
		for _, l := range chunk {
			n++
			ch <- line.New(bytes.NewBuffer(append(unhx(l), '\n')), n, 100, "id")
		}
		if ci < len(chunks)-1 {
			// a periodic partial result; wait until the aggregator has taken the lines of this chunk, so that the cut
			// really falls between the chunks (otherwise the interim result is empty and no message is sent)
			deadline := time.Now().Add(2 * time.Second)
			for len(ch) > 0 && time.Now().Before(deadline) {
				time.Sleep(200 * time.Microsecond)
			}
			time.Sleep(3 * time.Millisecond)
			agg.Serialize(ctx)
		}
	}
	close(ch)
	select {
	case <-done:
	case <-time.After(20 * time.Second):
		return nil, fmt.Errorf("server-side aggregate did not finish")
	}
	close(msgs)
	var out []string
	for m := range msgs {
		out = append(out, m)
	}
	return out, nil
}

func init() {
	serverSide["mapr"] = true
	commands["mapr"] = func(raw json.RawMessage) (interface{}, error) {
		var c maprCase
		if err := json.Unmarshal(raw, &c); err != nil {
			return nil, err
		}
		queryStr := string(unhx(c.Query))
		query, err := mapr.NewQuery(queryStr)
		if err != nil || query == nil {
			return map[string]interface{}{"skip": "query does not parse"}, nil
		}
		perServer := make([][]string, len(c.Servers))
		for i, chunks := range c.Servers {
			m, err := runServer(queryStr, chunks)
			if err != nil {
				return nil, err
			}
			perServer[i] = m
		}
		global := mapr.NewGlobalGroupSet()
		// the client side as a connection sees it: one mapreduce client handler per server, fed with the
		// framed AGGREGATE records
		clients := make([]*chandlers.MaprHandler, len(c.Servers))
		for i := range clients {
			clients[i] = chandlers.NewMaprHandler(fmt.Sprintf("s%d", i), query, global)
		}
		next := make([]int, len(c.Servers))
		deliver := func(s int) bool {
			if next[s] >= len(perServer[s]) {
				return false
			}
			clients[s].Write(append([]byte(fmt.Sprintf("AGGREGATE|s%d|%s", s, perServer[s][next[s]])), 0xac))
			next[s]++
			if c.Reports {
				global.Result(query, 10)
			}
			return true
		}
		for _, s := range c.Order {
			if s >= 0 && s < len(next) {
				deliver(s)
			}
		}
		for s := range next {
			for deliver(s) {
			}
		}
		rows, err := global.VerifRows(query)
		if err != nil {
			return nil, err
		}
		nmsgs := 0
		for _, m := range perServer {
			nmsgs += len(m)
		}
		return map[string]interface{}{"rows": rows, "messages": nmsgs}, nil
	}
}

// maprwire: the number formatting on the wire.  Partial results with given numbers are serialised by the
// real AggregateSet.Serialize and merged by real client-side Aggregates; the final row is returned.
func init() {
	commands["maprwire"] = func(raw json.RawMessage) (interface{}, error) {
		var c struct {
			Parts []struct {
				Samples int                `json:"samples"`
				F       map[string]float64 `json:"f"`
			} `json:"parts"`
		}
		if err := json.Unmarshal(raw, &c); err != nil {
			return nil, err
		}
		query, err := mapr.NewQuery("select count(x),sum(x),min(x),max(x) from . group by g logformat generickv")
		if err != nil {
			return nil, err
		}
		global := mapr.NewGlobalGroupSet()
		msgs := []string{}
		for i, p := range c.Parts {
			set := mapr.NewAggregateSet()
			set.Samples = p.Samples
			for k, v := range p.F {
				set.FValues[k] = v
			}
			ch := make(chan string, 1)
			set.Serialize(context.Background(), "g1", ch)
			m := <-ch
			msgs = append(msgs, m)
			maprclient.NewAggregate(fmt.Sprintf("s%d", i), query, global).Aggregate(m)
		}
		rows, err := global.VerifRows(query)
		if err != nil {
			return nil, err
		}
		return map[string]interface{}{"rows": rows, "messages": msgs}, nil
	}
}
