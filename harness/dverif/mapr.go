//go:build verif

package main

import (
	"bytes"
	"context"
	"encoding/json"
	"fmt"
	"time"

	"github.com/mimecast/dtail/internal/io/line"
	"github.com/mimecast/dtail/internal/mapr"
	maprclient "github.com/mimecast/dtail/internal/mapr/client"
	maprserver "github.com/mimecast/dtail/internal/mapr/server"
)

// C05: a distributed mapreduce run in-process.  Every "server" is a real server-side Aggregate
// fed through one lines channel (several files per server are C06's subject), forced to
// serialise at the given cut points; the messages of all servers are fed, in the given
// interleaving, to real client-side Aggregates sharing one GlobalGroupSet.
type maprCase struct {
	Query   string       `json:"query"`   // hex
	Servers [][][]string `json:"servers"` // server -> chunk -> lines (hex)
	Order   []int        `json:"order"`   // which server's next message is delivered (indices; exhausted servers are skipped)
}

func runServer(query string, chunks [][]string) ([]string, error) {
	agg, err := maprserver.NewAggregate(query)
	if err != nil {
		return nil, err
	}
	ctx, cancel := context.WithCancel(context.Background())
	defer cancel()
	msgs := make(chan string, 100000)
	done := make(chan struct{})
	go func() { agg.Start(ctx, msgs); close(done) }()
	ch := make(chan *line.Line, 100)
	agg.NextLinesCh <- ch
	n := uint64(0)
	for ci, chunk := range chunks {
		for _, l := range chunk {
			n++
			ch <- line.New(bytes.NewBuffer(append(unhx(l), '\n')), n, 100, "id")
		}
		if ci < len(chunks)-1 {
			agg.Serialize(ctx) // a periodic partial result (placement relative to in-flight lines is the scheduler's)
		}
	}
	close(ch)
	select {
	case <-done:
	case <-time.After(20 * time.Second):
		return nil, fmt.Errorf("server-side aggregate did not finish")
	}
	close(msgs)
	var out []string
	for m := range msgs {
		out = append(out, m)
	}
	return out, nil
}

func init() {
	serverSide["mapr"] = true
	commands["mapr"] = func(raw json.RawMessage) (interface{}, error) {
		var c maprCase
		if err := json.Unmarshal(raw, &c); err != nil {
			return nil, err
		}
		queryStr := string(unhx(c.Query))
		query, err := mapr.NewQuery(queryStr)
		if err != nil || query == nil {
			return map[string]interface{}{"skip": "query does not parse"}, nil
		}
		perServer := make([][]string, len(c.Servers))
		for i, chunks := range c.Servers {
			m, err := runServer(queryStr, chunks)
			if err != nil {
				return nil, err
			}
			perServer[i] = m
		}
		global := mapr.NewGlobalGroupSet()
		clients := make([]*maprclient.Aggregate, len(c.Servers))
		for i := range clients {
			clients[i] = maprclient.NewAggregate(fmt.Sprintf("s%d", i), query, global)
		}
		next := make([]int, len(c.Servers))
		deliver := func(s int) bool {
			if next[s] >= len(perServer[s]) {
				return false
			}
			clients[s].Aggregate(perServer[s][next[s]])
			next[s]++
			return true
		}
		for _, s := range c.Order {
			if s >= 0 && s < len(next) {
				deliver(s)
			}
		}
		for s := range next {
			for deliver(s) {
			}
		}
		rows, err := global.VerifRows(query)
		if err != nil {
			return nil, err
		}
		nmsgs := 0
		for _, m := range perServer {
			nmsgs += len(m)
		}
		return map[string]interface{}{"rows": rows, "messages": nmsgs}, nil
	}
}
