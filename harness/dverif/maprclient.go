//go:build verif

package main

import (
	"encoding/json"
	"fmt"
	"sync"
	"time"

	chandlers "github.com/mimecast/dtail/internal/clients/handlers"
	"github.com/mimecast/dtail/internal/mapr"
	maprclient "github.com/mimecast/dtail/internal/mapr/client"
)

// C06 (client side): many per-server client Aggregates deliver their partial results
// concurrently into one GlobalGroupSet while a reporter keeps asking for interim results - the
// way connection handlers and periodicReportResults do.  Every message carries count(x) = 1 for
// one of a few groups; the final total must be the number of messages.
func init() {
	commands["maprclient"] = func(raw json.RawMessage) (interface{}, error) {
		var c struct {
			Servers  int `json:"servers"`
			Messages int `json:"messages"`
			Reporter int `json:"reporter_us"` // pause between interim reports (0 = no reporter)
			HoldUs   int `json:"hold_us"`
			Rounds   int `json:"rounds"` // repeat the whole scenario (fresh global set each time); report the worst round
		}
		if err := json.Unmarshal(raw, &c); err != nil {
			return nil, err
		}
		query, err := mapr.NewQuery("select count(x) from . group by g logformat generickv")
		if err != nil {
			return nil, err
		}
		if c.Rounds > 1 {
			worst, bad := c.Servers*c.Messages, 0
			for r := 0; r < c.Rounds; r++ {
				global := mapr.NewGlobalGroupSet()
				start := make(chan struct{})
				var wg sync.WaitGroup
				for s := 0; s < c.Servers; s++ {
					wg.Add(1)
					go func(s int) {
						defer wg.Done()
						agg := maprclient.NewAggregate(fmt.Sprintf("s%d", s), query, global)
						<-start // all connections deliver their first partial result at the same instant
						for m := 0; m < c.Messages; m++ {
							agg.Aggregate(fmt.Sprintf("g%d∥1∥count(x)≔1∥", (s+m)%3))
						}
					}(s)
				}
				close(start)
				wg.Wait()
				rows, err := global.VerifRows(query)
				if err != nil {
					return nil, err
				}
				total := 0
				for _, row := range rows {
					var n int
					fmt.Sscan(row[1], &n)
					total += n
				}
				if total != c.Servers*c.Messages {
					bad++
					if total < worst {
						worst = total
					}
				}
			}
			return map[string]interface{}{"total": worst, "expected": c.Servers * c.Messages, "bad_rounds": bad, "rounds": c.Rounds}, nil
		}
		global := mapr.NewGlobalGroupSet()
		stop := make(chan struct{})
		var rwg sync.WaitGroup
		if c.Reporter > 0 {
			rwg.Add(1)
			go func() {
				defer rwg.Done()
				for {
					select {
					case <-stop:
						return
					default:
					}
					global.Result(query, -1)
					time.Sleep(time.Duration(c.Reporter) * time.Microsecond)
				}
			}()
		}
		var wg sync.WaitGroup
		for s := 0; s < c.Servers; s++ {
			wg.Add(1)
			go func(s int) {
				defer wg.Done()
				// every second connection is a real client handler fed with framed records (group keys with a '|' in them:
				// what "group by $line" over piped log formats produces), the others call the Aggregate directly
				if s%2 == 1 {
					h := chandlers.NewMaprHandler(fmt.Sprintf("s%d", s), query, global)
					for m := 0; m < c.Messages; m++ {
						h.Write(append([]byte(fmt.Sprintf("AGGREGATE|s%d|g|%d∥1∥count(x)≔1∥", s, (s+m)%3)), 0xac))
					}
					return
				}
				agg := maprclient.NewAggregate(fmt.Sprintf("s%d", s), query, global)
				for m := 0; m < c.Messages; m++ {
					msg := fmt.Sprintf("g%d∥1∥count(x)≔1∥", (s+m)%3)
					agg.Aggregate(msg)
				}
			}(s)
		}
		wg.Wait()
		close(stop)
		rwg.Wait()
		rows, err := global.VerifRows(query)
		if err != nil {
			return nil, err
		}
		total := 0
		for _, r := range rows {
			var n int
			fmt.Sscan(r[1], &n)
			total += n
		}
		return map[string]interface{}{"total": total, "expected": c.Servers * c.Messages}, nil
	}
}
