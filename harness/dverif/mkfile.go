//go:build verif

package main

import (
	"bytes"
	"compress/gzip"
	"encoding/json"
	"os"

	"github.com/DataDog/zstd"
)

// mkfile: write a (possibly compressed) file.  Compression uses Go's gzip and the same zstd
// library the reader links, so only the decoders are exercised inside dtail.
func init() {
	commands["mkfile"] = func(raw json.RawMessage) (interface{}, error) {
		var c struct {
			Path string `json:"path"`
			Kind string `json:"kind"` // plain | gz | zst
			Data string `json:"data"` // hex
			Members int `json:"members"` // gz: the data is stored as this many concatenated gzip members (gzip -c x >> f.gz)
		}
		if err := json.Unmarshal(raw, &c); err != nil {
			return nil, err
		}
		data := unhx(c.Data)
		switch c.Kind {
		case "gz":
			var b bytes.Buffer
			n := c.Members
			if n < 1 {
				n = 1
			}
			for k := 0; k < n; k++ {
				w := gzip.NewWriter(&b)
				w.Write(data[len(data)*k/n : len(data)*(k+1)/n])
				w.Close()
			}
			data = b.Bytes()
		case "zst":
			out, err := zstd.Compress(nil, data)
			if err != nil {
				return nil, err
			}
			data = out
		}
		if err := os.WriteFile(c.Path, data, 0o644); err != nil {
			return nil, err
		}
		return map[string]interface{}{"ok": true, "size": len(data)}, nil
	}
}
