//go:build verif

package main

import (
	"encoding/json"
	"sync"

	chandlers "github.com/mimecast/dtail/internal/clients/handlers"
	"github.com/mimecast/dtail/internal/config"
	"github.com/mimecast/dtail/internal/server/handlers"
)

// C07: several real client handlers (one per connection, as baseclient.Start creates them) fed
// with the chunks of their streams - in a scripted global order ("seq") or by one goroutine per
// connection ("par") - while everything they print is captured from os.Stdout
// (needs DVERIF_LOGGER=stdout).  globid: the real makeGlobID.
func init() {
	serverSide["globid"] = true
	commands["globid"] = func(raw json.RawMessage) (interface{}, error) {
		var c struct {
			Path string `json:"path"`
			Glob string `json:"glob"`
		}
		if err := json.Unmarshal(raw, &c); err != nil {
			return nil, err
		}
		id, p := handlers.VerifMakeGlobID(string(unhx(c.Path)), string(unhx(c.Glob)))
		return map[string]interface{}{"id": hx([]byte(id)), "panicked": p}, nil
	}
	commands["mwrite"] = func(raw json.RawMessage) (interface{}, error) {
		var c struct {
			Conns  int         `json:"conns"`
			Mode   string      `json:"mode"`
			Events [][2]string `json:"events"` // [connection index (decimal), chunk hex]
		}
		if err := json.Unmarshal(raw, &c); err != nil {
			return nil, err
		}
		config.Client.TermColorsEnable = false
		type ev struct {
			c int
			b []byte
		}
		evs := make([]ev, len(c.Events))
		for i, e := range c.Events {
			n := 0
			for _, ch := range e[0] {
				n = n*10 + int(ch-'0')
			}
			evs[i] = ev{n, unhx(e[1])}
		}
		out, panicked := captureStdout(func() {
			hs := make([]*chandlers.ClientHandler, c.Conns)
			for i := range hs {
				hs[i] = chandlers.NewClientHandler("verif")
			}
			if c.Mode == "par" {
				var wg sync.WaitGroup
				for i := range hs {
					wg.Add(1)
					go func(i int) {
						defer wg.Done()
						for _, e := range evs {
							if e.c == i {
								hs[i].Write(e.b)
							}
						}
					}(i)
				}
				wg.Wait()
				return
			}
			for _, e := range evs {
				if e.c < len(hs) {
					hs[e.c].Write(e.b)
				}
			}
		})
		return map[string]interface{}{"out": hx(out), "panicked": panicked != "", "panic": panicked}, nil
	}
}
