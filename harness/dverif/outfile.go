//go:build verif

package main

import (
	"encoding/json"
	"flag"
	"fmt"
	"os"
	"strings"
	"syscall"

	"github.com/mimecast/dtail/internal/mapr"
	"github.com/mimecast/dtail/internal/source"
	"github.com/mimecast/dtail/internal/verifhook"
)

// C15: one WriteResult call on a global group set built from given rows, killed (SIGKILL to
// itself) at the k-th outfile.step hook point.  k = 0: no kill; prints the number of steps.
func init() {
	specials["outfile"] = func(argv []string) {
		fs := flag.NewFlagSet("outfile", flag.ExitOnError)
		query := fs.String("query", "", "query with outfile clause")
		rowsJSON := fs.String("rows", "[]", "JSON: list of [group, value] rows (count(x) per group g)")
		final := fs.Bool("final", true, "final result")
		kill := fs.Int("kill", 0, "kill before the k-th step (1-based)")
		fs.Parse(argv)
		setup(source.Client)
		q, err := mapr.NewQuery(*query)
		if err != nil || q == nil {
			fmt.Println("BADQUERY", err)
			os.Exit(3)
		}
		var rows [][]string
		json.Unmarshal([]byte(*rowsJSON), &rows)
		g := mapr.NewGlobalGroupSet()
		local := mapr.NewGroupSet()
		for _, r := range rows {
			set := local.GetSet(r[0])
			for _, sc := range q.Select {
				switch sc.Operation {
				case mapr.Count:
					set.Aggregate(sc.FieldStorage, sc.Operation, r[1], true)
				default:
					set.Aggregate(sc.FieldStorage, sc.Operation, r[0], true)
				}
			}
			set.Samples++
		}
		g.Merge(q, local)
		steps := 0
		var log []string
		verifhook.Register(func(name string, args ...interface{}) {
			if name != "outfile.step" {
				return
			}
			steps++
			log = append(log, fmt.Sprint(args[0]))
			if *kill > 0 && steps == *kill {
				syscall.Kill(os.Getpid(), syscall.SIGKILL)
				select {}
			}
		})
		err = g.WriteResult(q, *final)
		fmt.Println("STEPS", steps, strings.Join(log, ","), err)
	}
}

