//go:build verif

package main

import (
	"context"
	"encoding/json"
	"flag"
	"fmt"
	"os"
	"strings"
	"sync"
	"syscall"
	"time"

	"github.com/mimecast/dtail/internal/clients"
	"github.com/mimecast/dtail/internal/mapr"
	"github.com/mimecast/dtail/internal/source"
	"github.com/mimecast/dtail/internal/verifhook"
)

// C15: one WriteResult call on a global group set built from given rows, killed (SIGKILL to
// itself) at the k-th outfile.step hook point.  k = 0: no kill; prints the number of steps.
func init() {
	specials["outfile"] = func(argv []string) {
		fs := flag.NewFlagSet("outfile", flag.ExitOnError)
		query := fs.String("query", "", "query with outfile clause")
		rowsJSON := fs.String("rows", "[]", "JSON: list of [group, value] rows (count(x) per group g)")
		final := fs.Bool("final", true, "final result")
		kill := fs.Int("kill", 0, "kill before the k-th step (1-based)")
		concurrent := fs.Int("concurrent", 0, "hold the final write of a mapreduce client before its k-th step and fire an interim report meanwhile")
		noncumulative := fs.Bool("noncumulative", false, "with --concurrent: a non-cumulative client (continuous job): its interim writer is held while the client ends")
		fs.Parse(argv)
		setup(source.Client)
		if *concurrent > 0 {
			if *noncumulative {
				outfileEndOfJob(*query, *rowsJSON, *concurrent)
				return
			}
			outfileConcurrent(*query, *rowsJSON, *concurrent)
			return
		}
		q, err := mapr.NewQuery(*query)
		if err != nil || q == nil {
			fmt.Println("BADQUERY", err)
			os.Exit(3)
		}
		var rows [][]string
		json.Unmarshal([]byte(*rowsJSON), &rows)
		g := mapr.NewGlobalGroupSet()
		local := mapr.NewGroupSet()
		for _, r := range rows {
			set := local.GetSet(r[0])
			for _, sc := range q.Select {
				switch sc.Operation {
				case mapr.Count:
					set.Aggregate(sc.FieldStorage, sc.Operation, r[1], true)
				default:
					set.Aggregate(sc.FieldStorage, sc.Operation, r[0], true)
				}
			}
			set.Samples++
		}
		g.Merge(q, local)
		steps := 0
		var log []string
		verifhook.Register(func(name string, args ...interface{}) {
			if name != "outfile.step" {
				return
			}
			steps++
			log = append(log, fmt.Sprint(args[0]))
			if *kill > 0 && steps == *kill {
				syscall.Kill(os.Getpid(), syscall.SIGKILL)
				select {}
			}
		})
		err = g.WriteResult(q, *final)
		fmt.Println("STEPS", steps, strings.Join(log, ","), err)
	}
}


// The cumulative mapreduce client at the end of its run: reportResults(true) writes the final result
// while the periodic reporter may fire once more.  The final writer is held before its k-th
// outfile.step; an interim report is started meanwhile; then the writer is released.
func outfileConcurrent(query, rowsJSON string, k int) {
	mc, err := clients.VerifNewMaprClient(query, true)
	if err != nil {
		fmt.Println("BADQUERY", err)
		os.Exit(3)
	}
	var rows [][]string
	json.Unmarshal([]byte(rowsJSON), &rows)
	h := mc.VerifHandler("s0")
	for _, r := range rows {
		h.Write(append([]byte("AGGREGATE|s0|"+r[0]+"\u2225"+"1"+"\u2225"+"count(x)\u2254"+r[1]+"\u2225"+"g\u2254"+r[0]+"\u2225"), 0xac))
	}
	var mu sync.Mutex
	steps, held := 0, false
	reached := make(chan struct{})
	release := make(chan struct{})
	verifhook.Register(func(name string, args ...interface{}) {
		if name != "outfile.step" {
			return
		}
		mu.Lock()
		steps++
		hold := !held && steps == k
		if hold {
			held = true
		}
		mu.Unlock()
		if hold {
			close(reached)
			<-release
		}
	})
	finalDone := make(chan struct{})
	go func() { mc.VerifReport(true); close(finalDone) }()
	interimDone := make(chan struct{})
	select {
	case <-reached:
		go func() { mc.VerifReport(false); close(interimDone) }()
		time.Sleep(300 * time.Millisecond)
		close(release)
	case <-finalDone: // fewer than k steps
		close(interimDone)
	}
	<-finalDone
	select {
	case <-interimDone:
	case <-time.After(5 * time.Second):
		fmt.Println("INTERIM-STUCK")
	}
	fmt.Println("CONCURRENT-DONE", steps)
}

// A non-cumulative client (a server-side continuous job): its periodic writer is held before its k-th
// step while the last connection ends and Start returns.
func outfileEndOfJob(query, rowsJSON string, k int) {
	mc, err := clients.VerifNewMaprClient(query, false)
	if err != nil {
		fmt.Println("BADQUERY", err)
		os.Exit(3)
	}
	var rows [][]string
	json.Unmarshal([]byte(rowsJSON), &rows)
	h := mc.VerifHandler("s0")
	for _, r := range rows {
		h.Write(append([]byte("AGGREGATE|s0|"+r[0]+"\u2225"+"1"+"\u2225"+"count(x)\u2254"+r[1]+"\u2225"+"g\u2254"+r[0]+"\u2225"), 0xac))
	}
	var mu sync.Mutex
	steps, held := 0, false
	reached := make(chan struct{})
	release := make(chan struct{})
	verifhook.Register(func(name string, args ...interface{}) {
		if name != "outfile.step" {
			return
		}
		mu.Lock()
		steps++
		hold := !held && steps == k
		if hold {
			held = true
		}
		mu.Unlock()
		if hold {
			close(reached)
			<-release
		}
	})
	interimDone := make(chan struct{})
	go func() { mc.VerifReport(false); close(interimDone) }()
	ctx, cancel := context.WithCancel(context.Background())
	select {
	case <-reached:
		startDone := make(chan struct{})
		go func() { mc.VerifStart(ctx); close(startDone) }()
		select {
		case <-startDone:
		case <-time.After(1 * time.Second):
		}
		close(release)
	case <-interimDone:
	}
	<-interimDone
	time.Sleep(100 * time.Millisecond)
	cancel()
	fmt.Println("CONCURRENT-DONE", steps)
}
