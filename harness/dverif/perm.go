//go:build verif

package main

import (
	"encoding/json"
	"path/filepath"
	"regexp"

	"github.com/mimecast/dtail/internal/config"
	user "github.com/mimecast/dtail/internal/user/server"
)

// C08: user.HasFilePermission under a given permission configuration; compile / match verdicts
// of candidate patterns against the independently resolved path come straight from regexp.
func init() {
	serverSide["perm"] = true
	commands["perm"] = func(raw json.RawMessage) (interface{}, error) {
		var c struct {
			Default  []string            `json:"default"`
			Users    map[string][]string `json:"users"`
			User     string              `json:"user"`
			Path     string              `json:"path"`
			Resolved string              `json:"resolved"`
			Patterns []string            `json:"patterns"`
		}
		if err := json.Unmarshal(raw, &c); err != nil {
			return nil, err
		}
		config.Server.Permissions = config.Permissions{Default: c.Default, Users: c.Users}
		u, err := user.New(c.User, "127.0.0.1:1")
		if err != nil {
			return map[string]interface{}{"allowed": false, "nouser": err.Error()}, nil
		}
		allowed := u.HasFilePermission(c.Path, "readfiles")
		tab := map[string][2]bool{}
		for _, p := range c.Patterns {
			re, err := regexp.Compile(p)
			if err != nil {
				tab[p] = [2]bool{false, false}
				continue
			}
			tab[p] = [2]bool{true, re.MatchString(c.Resolved)}
		}
		// what HasFilePermission resolves the request to (EvalSymlinks, then Abs), for the path-resolution model
		goResolved := ""
		if r, err := filepath.EvalSymlinks(c.Path); err == nil {
			if a, err := filepath.Abs(r); err == nil {
				goResolved = a
			}
		}
		return map[string]interface{}{"allowed": allowed, "tab": tab, "go_resolved": goResolved}, nil
	}
}
