//go:build verif

package main

import (
	"encoding/json"
	"strconv"
	"strings"

	"github.com/mimecast/dtail/internal/mapr"
)

// C11: mapr.NewQuery on a query text; ParseFloat / Atoi verdicts for every word are oracle tables.
func init() {
	commands["query"] = func(raw json.RawMessage) (interface{}, error) {
		var c struct {
			Q string `json:"q"` // hex
		}
		if err := json.Unmarshal(raw, &c); err != nil {
			return nil, err
		}
		text := string(unhx(c.Q))
		floats := map[string]bool{}
		ints := map[string]*int64{}
		seps := func(r rune) bool { return r == '"' || r == ',' || r == ' ' || r == '\t' || r == '\n' || r == '\v' || r == '\f' || r == '\r' }
		words := strings.FieldsFunc(text, seps)
		for _, p := range strings.Split(text, "\"") { // quoted pieces are tokens as a whole
			words = append(words, p)
		}
		for _, w := range words {
			cands := []string{w}
			if len(w) >= 2 && w[0] == '`' && w[len(w)-1] == '`' {
				cands = append(cands, w[1:len(w)-1])
			}
			for _, x := range cands {
				_, err := strconv.ParseFloat(x, 64)
				floats[hx([]byte(x))] = err == nil
				if n, err := strconv.Atoi(x); err == nil {
					n64 := int64(n)
					ints[hx([]byte(x))] = &n64
				} else {
					ints[hx([]byte(x))] = nil
				}
			}
		}
		res := map[string]interface{}{"floats": floats, "ints": ints}
		q, err := mapr.NewQuery(text)
		switch {
		case err != nil:
			res["outcome"] = "err"
			res["errtext"] = err.Error()
		case q == nil:
			res["outcome"] = "nil"
		default:
			res["outcome"] = "ok"
			res["query"] = q.VerifDump()
		}
		return res, nil
	}
}
