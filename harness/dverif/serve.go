//go:build verif

package main

import (
	"context"
	"flag"
	"fmt"
	"os"
	"os/signal"
	"sync"
	"syscall"

	"github.com/mimecast/dtail/internal/config"
	"github.com/mimecast/dtail/internal/io/dlog"
	"github.com/mimecast/dtail/internal/server"
	"github.com/mimecast/dtail/internal/source"
)

// serve: run the real server in-process (cmd/dserver refuses to run as root; everything below
// server.New() is the unmodified code).  cwd must hold cache/<user>.authorized_keys.
func init() {
	specials["serve"] = func(argv []string) {
		fs := flag.NewFlagSet("serve", flag.ExitOnError)
		port := fs.Int("port", 2222, "port")
		cfg := fs.String("cfg", "none", "config file")
		logger := fs.String("logger", "none", "logger")
		level := fs.String("logLevel", "info", "log level")
		logDir := fs.String("logDir", "", "log dir")
		fs.Parse(argv)
		args := config.Args{ConfigFile: *cfg, Logger: *logger, LogLevel: *level, LogDir: *logDir,
			NoColor: true, SSHPort: *port, SSHBindAddress: "127.0.0.1"}
		config.Setup(source.Server, &args, nil)
		ctx, cancel := context.WithCancel(context.Background())
		sigCh := make(chan os.Signal, 4)
		signal.Notify(sigCh, os.Interrupt, syscall.SIGTERM)
		go func() { <-sigCh; cancel() }()
		var wg sync.WaitGroup
		wg.Add(1)
		dlog.Start(ctx, &wg, source.Server)
		serv := server.New()
		fmt.Println("SERVING", *port)
		status := serv.Start(ctx)
		cancel()
		os.Exit(status)
	}
}
