//go:build verif

package main

import (
	"bytes"
	"encoding/json"
	"strings"
	"sync"
	"time"

	"github.com/mimecast/dtail/internal/server/handlers"
	user "github.com/mimecast/dtail/internal/user/server"
)

// session: drive one real ServerHandler (the unmodified command callback: reads, aggregates,
// acks) with client bytes and collect everything it sends back.  The harness plays the client:
// it answers ".syn close connection" with the acknowledgement.  A Go panic in any goroutine of
// the handler kills this process - which is what the C10 oracle looks for.
type sessionCase struct {
	Payloads []string `json:"payloads"` // hex; each is wrapped like the client does
	Raw      []string `json:"raw"`      // hex; written as they are (after the payloads)
	WaitMs   int      `json:"wait_ms"`
	User     string   `json:"user"`
	CatLimit int      `json:"cat_limit"`
}

var sharedCat = map[int]chan struct{}{}
var sharedTail = make(chan struct{}, 50)

func init() {
	serverSide["session"] = true
	commands["session"] = func(raw json.RawMessage) (interface{}, error) {
		var c sessionCase
		if err := json.Unmarshal(raw, &c); err != nil {
			return nil, err
		}
		if c.User == "" {
			c.User = "verif"
		}
		if c.CatLimit <= 0 {
			c.CatLimit = 2
		}
		if c.WaitMs <= 0 {
			c.WaitMs = 400
		}
		if sharedCat[c.CatLimit] == nil {
			sharedCat[c.CatLimit] = make(chan struct{}, c.CatLimit)
		}
		u, err := user.New(c.User, "127.0.0.1:1")
		if err != nil {
			return nil, err
		}
		h := handlers.NewServerHandler(u, sharedCat[c.CatLimit], sharedTail)
		var mu sync.Mutex
		var stream bytes.Buffer
		synSeen := make(chan struct{})
		readerDone := make(chan struct{})
		go func() {
			defer close(readerDone)
			buf := make([]byte, 32*1024)
			seen := false
			for {
				n, err := h.Read(buf)
				if n > 0 {
					mu.Lock()
					stream.Write(buf[:n])
					if !seen && bytes.Contains(stream.Bytes(), []byte(".syn close connection")) {
						seen = true
						close(synSeen)
					}
					mu.Unlock()
				}
				if err != nil {
					return
				}
			}
		}()
		// like the server's io.Copy goroutine: a panic in Write is not recovered by anybody
		writesDone := make(chan struct{})
		go func() {
			defer close(writesDone)
			for _, p := range c.Payloads {
				h.Write([]byte(wrap(string(unhx(p)))))
			}
			for _, r := range c.Raw {
				h.Write(unhx(r))
			}
		}()
		select {
		case <-writesDone:
		case <-time.After(8 * time.Second):
		}
		acked := false
		select {
		case <-synSeen:
			go h.Write([]byte(wrap(".ack close connection")))
			acked = true
		case <-h.Done():
		case <-time.After(time.Duration(c.WaitMs) * time.Millisecond):
		}
		closed := false
		select {
		case <-h.Done():
			closed = true
		case <-time.After(300 * time.Millisecond):
		}
		h.Shutdown()
		select {
		case <-readerDone:
		case <-time.After(2500 * time.Millisecond):
		}
		mu.Lock()
		out := stream.Bytes()
		mu.Unlock()
		var frames []string
		for _, f := range strings.Split(string(out), "\xac") {
			if f != "" {
				frames = append(frames, hx([]byte(f)))
			}
		}
		return map[string]interface{}{"frames": frames, "syn": acked, "closed": closed}, nil
	}
}
