//go:build verif

package main

import (
	"context"
	"bytes"
	"encoding/json"
	"fmt"
	"os"
	"runtime/pprof"
	"sort"
	"strings"
	"sync"
	"time"

	"github.com/mimecast/dtail/internal/server/handlers"
	user "github.com/mimecast/dtail/internal/user/server"
	"github.com/mimecast/dtail/internal/verifhook"
)

// session: drive one real ServerHandler (the unmodified command callback: reads, aggregates,
// acks) with client bytes and collect everything it sends back.  The harness plays the client:
// it answers ".syn close connection" with the acknowledgement.  A Go panic in any goroutine of
// the handler kills this process - which is what the C10 oracle looks for.
type sessionCase struct {
	Payloads []string `json:"payloads"` // hex; each is wrapped like the client does
	Raw      []string `json:"raw"`      // hex; written as they are (after the payloads)
	WaitMs   int      `json:"wait_ms"`
	User     string   `json:"user"`
	CatLimit int      `json:"cat_limit"`
	// consumer pacing (C02): sleep before every Read; one long stall after StallAfter reads
	ReadDelayUs int  `json:"read_delay_us"`
	StallAfter  int  `json:"stall_after"`
	StallMs     int  `json:"stall_ms"`
	StallAtSyn  bool `json:"stall_at_empty"` // stall when the queues first run empty
	GapMs       int  `json:"gap_ms"`         // pause between successive commands
	Private     bool `json:"private_limiter"`
	ReadBuf     int  `json:"read_buf"`
	// ask the aggregator for an interim result every so many microseconds while the session runs (what its interval
	// timer does, at the harness' pace: interim serialisation happens however short the session is)
	SerializeEveryUs int `json:"serialize_every_us"`
}

var sharedCat = map[int]chan struct{}{}
var sharedTail = make(chan struct{}, 50)
var sharedMu sync.Mutex

// per-handler event log fed by the verif hooks ("handler.command", "handler.shutdown")
var hookMu sync.Mutex
var hookLog = map[string][]hookEv{}
var hookSeq int

type hookEv struct {
	seq  int
	name string
}
var hookOnce sync.Once

func installHooks() {
	hookOnce.Do(func() {
		verifhook.Register(func(name string, args ...interface{}) {
			if name != "handler.command" && name != "handler.shutdown" && name != "limiter.enter" && name != "limiter.released" &&
				name != "aggregate.nomore" && name != "aggregate.check" && name != "handler.reader_started" {
				return
			}
			key := fmt.Sprintf("%p", args[0])
			if name == "limiter.enter" || name == "limiter.released" {
				// the file is still being read by a counted command at this moment
				name = "file:" + fmt.Sprint(args[1])
			}
			if name == "handler.command" && len(args) > 1 && fmt.Sprint(args[1]) == ".ack" {
				return // the client's acknowledgement of the close is not a read command
			}
			hookMu.Lock()
			hookSeq++
			hookLog[key] = append(hookLog[key], hookEv{hookSeq, name})
			hookMu.Unlock()
		})
	})
}

func init() {
	serverSide["session"] = true
	commands["session"] = func(raw json.RawMessage) (interface{}, error) {
		var c sessionCase
		if err := json.Unmarshal(raw, &c); err != nil {
			return nil, err
		}
		if c.User == "" {
			c.User = "verif"
		}
		if c.CatLimit <= 0 {
			c.CatLimit = 2
		}
		if c.WaitMs <= 0 {
			c.WaitMs = 400
		}
		sharedMu.Lock()
		if sharedCat[c.CatLimit] == nil {
			sharedCat[c.CatLimit] = make(chan struct{}, c.CatLimit)
		}
		catLim := sharedCat[c.CatLimit]
		sharedMu.Unlock()
		u, err := user.New(c.User, "127.0.0.1:1")
		if err != nil {
			return nil, err
		}
		if c.Private {
			catLim = make(chan struct{}, c.CatLimit)
		}
		installHooks()
		h := handlers.NewServerHandler(u, catLim, sharedTail)
		hkey := fmt.Sprintf("%p", h)
		if c.SerializeEveryUs > 0 {
			go func() {
				for {
					select {
					case <-h.Done():
						return
					case <-time.After(time.Duration(c.SerializeEveryUs) * time.Microsecond):
					}
					ctx, cancel := context.WithTimeout(context.Background(), 200*time.Millisecond)
					h.VerifSerialize(ctx)
					cancel()
				}
			}()
		}
		zeroBefore := []int{}
		var mu sync.Mutex
		var stream bytes.Buffer
		synSeen := make(chan struct{})
		readerDone := make(chan struct{})
		go func() {
			defer close(readerDone)
			bufSize := 32 * 1024
			if c.ReadBuf > 0 {
				bufSize = c.ReadBuf
			}
			buf := make([]byte, bufSize)
			seen := false
			reads := 0
			for {
				if c.ReadDelayUs > 0 {
					time.Sleep(time.Duration(c.ReadDelayUs) * time.Microsecond)
				}
				reads++
				if c.StallMs > 0 && reads == c.StallAfter {
					time.Sleep(time.Duration(c.StallMs) * time.Millisecond)
				}
				n, err := h.Read(buf)
				if n > 0 {
					mu.Lock()
					stream.Write(buf[:n])
					if !seen && bytes.Contains(stream.Bytes(), []byte(".syn close connection")) {
						seen = true
						close(synSeen)
					}
					mu.Unlock()
				}
				if err != nil {
					return
				}
			}
		}()
		// like the server's io.Copy goroutine: a panic in Write is not recovered by anybody
		writesDone := make(chan struct{})
		go func() {
			defer close(writesDone)
			for k, p := range c.Payloads {
				if k > 0 {
					if c.GapMs > 0 {
						time.Sleep(time.Duration(c.GapMs) * time.Millisecond)
					}
					// the counter only grows when a command arrives: zero here means the session
					// started shutting down before this command was received
					if h.VerifActiveCommands() == 0 {
						zeroBefore = append(zeroBefore, k)
					}
				}
				h.Write([]byte(wrap(string(unhx(p)))))
			}
			for _, r := range c.Raw {
				h.Write(unhx(r))
			}
		}()
		select {
		case <-writesDone:
		case <-time.After(time.Duration(8000+c.WaitMs) * time.Millisecond):
		}
		acked := false
		select {
		case <-synSeen:
			go h.Write([]byte(wrap(".ack close connection")))
			acked = true
		case <-h.Done():
		case <-time.After(time.Duration(c.WaitMs) * time.Millisecond):
		}
		closed := false
		select {
		case <-h.Done():
			closed = true
		case <-time.After(3 * time.Second): // generous: it returns as soon as the handler is done
		}
		stacks := ""
		if !closed && os.Getenv("DVERIF_STACKS") != "" {
			var sb bytes.Buffer
			pprof.Lookup("goroutine").WriteTo(&sb, 1)
			stacks = sb.String()
		}
		h.Shutdown()
		select {
		case <-readerDone:
		case <-time.After(2500 * time.Millisecond):
		}
		mu.Lock()
		out := stream.Bytes()
		mu.Unlock()
		var frames []string
		for _, f := range strings.Split(string(out), "\xac") {
			if f != "" {
				frames = append(frames, hx([]byte(f)))
			}
		}
		hookMu.Lock()
		evs := hookLog[hkey]
		delete(hookLog, hkey)
		if akey := h.VerifAggregatePtr(); akey != "" {
			evs = append(evs, hookLog[akey]...)
			delete(hookLog, akey)
		}
		hookMu.Unlock()
		sort.Slice(evs, func(i, j int) bool { return evs[i].seq < evs[j].seq })
		events := make([]string, len(evs))
		for i, e := range evs {
			events[i] = e.name
		}
		late := false
		sawShutdown := false
		lateFrom := 0 // number of commands counted before the counter first returned to 0
		// shutdown() is only entered when the counter has returned to 0, i.e. when every command counted
		// so far has finished; a file that enters the limiter or is released after that moment belongs
		// to a command that was counted later (the hook in shutdown() fires a log call after the
		// decrement, so the order of the two "handler" events alone can miss it)
		lateFiles := []string{}
		// the same argument for the aggregator: when it decides that no further lines channel will come, every
		// read command it knew of has finished; a file seen in the limiter afterwards belongs to a later one
		// the aggregator: "aggregate.check" fires before it reads its counter of outstanding read commands,
		// "aggregate.nomore" after it has read 0; "handler.reader_started" fires after a read command has been
		// added to that counter.  A command whose reader_started precedes the deciding check was in the counter
		// when it was read (so it had finished); the others were received too late for the aggregator.
		aggDone := false
		afterAgg := []string{}
		cmdsBeforeAgg := 0
		{
			nomoreAt, checkAt := -1, -1
			for k, e := range events {
				if e == "aggregate.nomore" {
					nomoreAt = k
					break
				}
			}
			if nomoreAt >= 0 {
				aggDone = true
				for k := nomoreAt - 1; k >= 0; k-- {
					if events[k] == "aggregate.check" {
						checkAt = k
						break
					}
				}
				for k, e := range events {
					if k < checkAt && e == "handler.reader_started" {
						cmdsBeforeAgg++
					}
					if k > nomoreAt && strings.HasPrefix(e, "file:") {
						afterAgg = append(afterAgg, e[5:])
					}
				}
			}
		}
		// drop the aggregator's polling events from the list handed on
		{
			kept := events[:0]
			for _, e := range events {
				if e != "aggregate.check" && e != "handler.reader_started" {
					kept = append(kept, e)
				}
			}
			events = kept
		}
		for _, e := range events {
			switch {
			case e == "aggregate.nomore":
			case e == "handler.shutdown":
				sawShutdown = true
			case strings.HasPrefix(e, "file:"):
				if sawShutdown {
					late = true
					lateFiles = append(lateFiles, e[5:])
				}
			case sawShutdown:
				late = true // a command was counted after the counter had returned to 0
			default:
				lateFrom++
			}
		}
		return map[string]interface{}{"frames": frames, "syn": acked, "closed": closed, "zero_before_cmd": zeroBefore,
			"late_command": late, "late_from": lateFrom, "late_files": lateFiles, "aggregator_finished": aggDone, "files_after_aggregator": afterAgg, "commands_before_aggregator_finished": cmdsBeforeAgg, "events": events, "stacks": stacks}, nil
	}
}
