//go:build verif

package main

import (
	"context"
	"encoding/json"
	"fmt"
	"os"
	"path/filepath"
	"regexp"
	"strconv"
	"strings"
	"sync"
	"time"

	"github.com/mimecast/dtail/internal/config"
	"github.com/mimecast/dtail/internal/io/fs"
	"github.com/mimecast/dtail/internal/io/line"
	"github.com/mimecast/dtail/internal/lcontext"
	"github.com/mimecast/dtail/internal/regex"
)

// C04: the tail reader API on a temp file.  Scripted mode: after every write the harness waits
// until the reader has caught up (descriptor offset in /proc/self/fdinfo == file size, then a
// settle delay) before the next event, the consumer receives only when the script says so.
// Free mode: writer and consumer run on their own clocks.
type tailEv struct {
	W     *string `json:"w,omitempty"`     // hex bytes appended with one write(2)
	C     *int    `json:"c,omitempty"`     // consumer receives up to C lines
	Delay int     `json:"delay,omitempty"` // free mode: microseconds before this write
}

type tailCase struct {
	Pre      string   `json:"pre"`
	Cap      int      `json:"cap"`
	Pattern  string   `json:"pattern"` // hex; empty = no filter
	Invert   bool     `json:"invert"`
	Events   []tailEv `json:"events"`
	Mode     string   `json:"mode"`
	Probe    []string `json:"probe"`     // hex lines (no newline) whose RE2 verdicts are wanted
	ConsumeD int      `json:"consume_d"` // free mode: microseconds between receives
	Settle   int      `json:"settle"`    // ms
}

type tailLine struct {
	T  string `json:"t"`
	N  uint64 `json:"n"`
	P  int    `json:"p"`
	Ev int    `json:"ev"`
	ID string `json:"id"`
}

func fdPos(path string) (int64, bool) {
	ents, err := os.ReadDir("/proc/self/fd")
	if err != nil {
		return 0, false
	}
	for _, e := range ents {
		l, err := os.Readlink("/proc/self/fd/" + e.Name())
		if err != nil || l != path {
			continue
		}
		b, err := os.ReadFile("/proc/self/fdinfo/" + e.Name())
		if err != nil {
			continue
		}
		flagsRO := false
		var pos int64 = -1
		for _, ln := range strings.Split(string(b), "\n") {
			if strings.HasPrefix(ln, "pos:") {
				pos, _ = strconv.ParseInt(strings.TrimSpace(ln[4:]), 10, 64)
			}
			if strings.HasPrefix(ln, "flags:") {
				fl, _ := strconv.ParseInt(strings.TrimSpace(ln[6:]), 8, 64)
				flagsRO = fl&3 == 0
			}
		}
		if flagsRO && pos >= 0 {
			return pos, true
		}
	}
	return 0, false
}

func waitPos(path string, want int64, timeout time.Duration) bool {
	deadline := time.Now().Add(timeout)
	for time.Now().Before(deadline) {
		if p, ok := fdPos(path); ok && p == want {
			return true
		}
		time.Sleep(2 * time.Millisecond)
	}
	return false
}

func init() {
	serverSide["tail"] = true
	serverSide["perc"] = true
	commands["perc"] = func(raw json.RawMessage) (interface{}, error) {
		var c struct {
			N int `json:"n"`
		}
		if err := json.Unmarshal(raw, &c); err != nil {
			return nil, err
		}
		tbl := make([][]int, c.N+1)
		for m := 0; m <= c.N; m++ {
			tbl[m] = make([]int, m+1)
			for t := 0; t <= m; t++ {
				tbl[m][t] = fs.VerifTransmittedPerc(uint64(m), t)
			}
		}
		return map[string]interface{}{"table": tbl}, nil
	}
	var once sync.Once
	commands["tail"] = func(raw json.RawMessage) (interface{}, error) {
		once.Do(func() {
			if v, err := strconv.Atoi(os.Getenv("DVERIF_MAXLEN")); err == nil && v > 0 {
				config.Server.MaxLineLength = v
			}
		})
		var c tailCase
		if err := json.Unmarshal(raw, &c); err != nil {
			return nil, err
		}
		res := map[string]interface{}{"maxlen": config.Server.MaxLineLength}
		settle := time.Duration(c.Settle) * time.Millisecond
		if settle == 0 {
			settle = 25 * time.Millisecond
		}
		dir, err := os.MkdirTemp("", "dverif-tail-*")
		if err != nil {
			return nil, err
		}
		defer os.RemoveAll(dir)
		dir, _ = filepath.EvalSymlinks(dir)
		path := filepath.Join(dir, "followed.log")
		pre := unhx(c.Pre)
		if err := os.WriteFile(path, pre, 0o644); err != nil {
			return nil, err
		}
		re := regex.NewNoop()
		var rawRe *regexp.Regexp
		if c.Pattern != "" {
			pattern := string(unhx(c.Pattern))
			rawRe, err = regexp.Compile(pattern)
			if err != nil {
				return map[string]interface{}{"skip": "pattern does not compile"}, nil
			}
			flag := regex.Default
			if c.Invert {
				flag = regex.Invert
			}
			re0, err := regex.New(pattern, flag)
			if err != nil {
				return map[string]interface{}{"skip": "regex.New: " + err.Error()}, nil
			}
			ser, err := re0.Serialize()
			if err != nil {
				return nil, err
			}
			re, err = regex.Deserialize(ser)
			if err != nil {
				return map[string]interface{}{"error": "deserialize: " + err.Error()}, nil
			}
		}
		verdicts := make([]bool, len(c.Probe))
		for i, p := range c.Probe {
			if rawRe == nil {
				verdicts[i] = true
			} else {
				verdicts[i] = rawRe.Match(unhx(p)) != c.Invert
			}
		}
		res["verdicts"] = verdicts

		serverMessages := make(chan string, 10000)
		lines := make(chan *line.Line, c.Cap)
		ctx, cancel := context.WithCancel(context.Background())
		defer cancel()
		tf := fs.NewTailFile(path, "theid", serverMessages)
		done := make(chan error, 1)
		go func() { done <- tf.Start(ctx, lcontext.LContext{}, lines, re) }()
		size := int64(len(pre))
		if !waitPos(path, size, 5*time.Second) {
			res["error"] = "reader did not open and position the file"
			return res, nil
		}
		got := []tailLine{}
		take := func(l *line.Line, ev int) {
			got = append(got, tailLine{T: hx(l.Content.Bytes()), N: l.Count, P: l.TransmittedPerc, Ev: ev, ID: l.SourceID})
		}
		appendBytes := func(b []byte) error {
			f, err := os.OpenFile(path, os.O_WRONLY|os.O_APPEND, 0)
			if err != nil {
				return err
			}
			n, err := f.Write(b)
			f.Close()
			if err != nil || n != len(b) {
				return fmt.Errorf("short write %d/%d: %v", n, len(b), err)
			}
			size += int64(len(b))
			return nil
		}
		quiesce := func() bool {
			if !waitPos(path, size, 10*time.Second) {
				return false
			}
			last := -1
			for k := 0; k < 200; k++ {
				time.Sleep(settle)
				if n := len(lines); n == last {
					return true
				} else {
					last = n
				}
			}
			return false
		}
		if c.Mode == "free" {
			var wg sync.WaitGroup
			stop := make(chan struct{})
			var mu sync.Mutex
			wg.Add(1)
			go func() {
				defer wg.Done()
				for {
					select {
					case l := <-lines:
						mu.Lock()
						take(l, -1)
						mu.Unlock()
						if c.ConsumeD > 0 {
							time.Sleep(time.Duration(c.ConsumeD) * time.Microsecond)
						}
					case <-stop:
						return
					}
				}
			}()
			for _, ev := range c.Events {
				if ev.W == nil {
					continue
				}
				if ev.Delay > 0 {
					time.Sleep(time.Duration(ev.Delay) * time.Microsecond)
				}
				if err := appendBytes(unhx(*ev.W)); err != nil {
					return nil, err
				}
			}
			// wait until the reader has caught up and the consumer has drained the queue
			ok := waitPos(path, size, 20*time.Second)
			lastN := -1
			for k := 0; k < 400 && ok; k++ {
				time.Sleep(settle)
				mu.Lock()
				n := len(got)
				mu.Unlock()
				if n == lastN && len(lines) == 0 {
					break
				}
				lastN = n
			}
			close(stop)
			wg.Wait()
			if !ok {
				res["error"] = "reader did not catch up"
			}
		} else {
			for i, ev := range c.Events {
				switch {
				case ev.W != nil:
					if err := appendBytes(unhx(*ev.W)); err != nil {
						return nil, err
					}
					if !quiesce() {
						res["error"] = fmt.Sprintf("no quiescence after event %d", i)
						return res, nil
					}
				case ev.C != nil:
					for k := 0; k < *ev.C; k++ {
						select {
						case l := <-lines:
							take(l, i)
						case <-time.After(60 * time.Millisecond):
							k = *ev.C
						}
					}
				}
			}
		}
		cancel()
		select {
		case err := <-done:
			if err != nil {
				res["starterr"] = err.Error()
			}
		case <-time.After(5 * time.Second):
			res["error"] = "Start did not return after cancel"
		}
		queued := []tailLine{}
		for {
			select {
			case l := <-lines:
				queued = append(queued, tailLine{T: hx(l.Content.Bytes()), N: l.Count, P: l.TransmittedPerc, Ev: -1, ID: l.SourceID})
				continue
			default:
			}
			break
		}
		msgs := []string{}
		for {
			select {
			case m := <-serverMessages:
				msgs = append(msgs, m)
				continue
			default:
			}
			break
		}
		res["got"] = got
		res["queued"] = queued
		res["nmsgs"] = len(msgs)
		return res, nil
	}
}
