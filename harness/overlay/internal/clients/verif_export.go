//go:build verif

package clients

// VerifCommands exposes the command strings a client sends (makeCommands is unexported).
func (c GrepClient) VerifCommands() []string { return c.makeCommands() }

// VerifCommands exposes the command strings a client sends.
func (c CatClient) VerifCommands() []string { return c.makeCommands() }

// VerifCommands exposes the command strings a client sends.
func (c TailClient) VerifCommands() []string { return c.makeCommands() }

// VerifCommands exposes the command strings a client sends.
func (c MaprClient) VerifCommands() []string { return c.makeCommands() }
