//go:build verif

package clients

import (
	"context"
	"github.com/mimecast/dtail/internal/clients/handlers"
	"github.com/mimecast/dtail/internal/mapr"
)

// VerifCommands exposes the command strings a client sends (makeCommands is unexported).
func (c GrepClient) VerifCommands() []string { return c.makeCommands() }

// VerifCommands exposes the command strings a client sends.
func (c CatClient) VerifCommands() []string { return c.makeCommands() }

// VerifCommands exposes the command strings a client sends.
func (c TailClient) VerifCommands() []string { return c.makeCommands() }

// VerifCommands exposes the command strings a client sends.
func (c MaprClient) VerifCommands() []string { return c.makeCommands() }

// VerifNewMaprClient builds a mapreduce client without any connections: only what
// makeHandler and reportResults need (query, global group set, cumulative mode).
func VerifNewMaprClient(queryStr string, cumulative bool) (*MaprClient, error) {
	query, err := mapr.NewQuery(queryStr)
	if err != nil {
		return nil, err
	}
	c := &MaprClient{query: query, cumulative: cumulative, globalGroup: mapr.NewGlobalGroupSet()}
	c.baseClient.stats = newTailStats(0)
	return c, nil
}

// VerifHandler is makeHandler.
func (c MaprClient) VerifHandler(server string) handlers.Handler { return c.makeHandler(server) }

// VerifReport is reportResults.
func (c *MaprClient) VerifReport(finalResult bool) { c.reportResults(finalResult) }

// VerifStart is Start (with no connections it goes straight to what a client does when its last connection has ended).
func (c *MaprClient) VerifStart(ctx context.Context) int { return c.Start(ctx, nil) }
