//go:build verif

package discovery

// VerifList is the entry list returned by the VERIF discovery module (the documented plug-in
// mechanism: a method ServerListFrom<MODULE>), so that source -> filter -> dedup -> shuffle
// can be exercised with a real multi-entry source.
var VerifList []string

// ServerListFromVERIF returns a copy of VerifList.
func (d *Discovery) ServerListFromVERIF() []string {
	return append([]string(nil), VerifList...)
}
