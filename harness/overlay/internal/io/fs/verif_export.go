//go:build verif

package fs

// VerifTransmittedPerc evaluates the real percentage computation for given window counts.
func VerifTransmittedPerc(matchCount uint64, transmitCount int) int {
	s := stats{matchCount: matchCount, transmitCount: transmitCount}
	return s.transmittedPerc()
}
