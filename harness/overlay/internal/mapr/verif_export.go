//go:build verif

package mapr

import "time"

// VerifDump exposes every parsed field of a query (where/set conditions are unexported).
func (q *Query) VerifDump() map[string]interface{} {
	sel := [][]interface{}{}
	for _, s := range q.Select {
		sel = append(sel, []interface{}{s.Field, s.FieldStorage, int(s.Operation)})
	}
	where := [][]interface{}{}
	wherefloats := [][]float64{}
	for _, w := range q.Where {
		where = append(where, []interface{}{int(w.lType), w.lString, int(w.Operation), int(w.rType), w.rString})
		wherefloats = append(wherefloats, []float64{w.lFloat, w.rFloat})
	}
	set := [][]interface{}{}
	for _, s := range q.Set {
		names := []string{}
		for _, f := range s.functionStack {
			names = append(names, f.Name)
		}
		set = append(set, []interface{}{s.lString, int(s.rType), s.rString, names})
	}
	var outfile interface{}
	if q.Outfile != nil {
		outfile = []interface{}{q.Outfile.FilePath, q.Outfile.AppendMode}
	}
	return map[string]interface{}{
		"select": sel, "table": q.Table, "where": where, "wherefloats": wherefloats, "set": set, "groupby": q.GroupBy, "orderby": q.OrderBy,
		"reverse": q.ReverseOrder, "groupkey": q.GroupKey, "interval": int64(q.Interval / time.Second), "limit": q.Limit,
		"outfile": outfile, "logformat": q.LogFormat,
	}
}

// VerifRows returns the result rows (values in select order) of a global group set, ordered and
// limited the way the writers do it.
func (g *GlobalGroupSet) VerifRows(query *Query) ([][]string, error) {
	g.semaphore <- struct{}{}
	defer func() { <-g.semaphore }()
	rows, _, err := g.GroupSet.result(query, false)
	if err != nil {
		return nil, err
	}
	out := [][]string{}
	for i, r := range rows {
		if i == query.Limit {
			break
		}
		out = append(out, append([]string{r.groupKey}, r.values...))
	}
	return out, nil
}
