//go:build verif

package handlers

import (
	"context"
	"fmt"
	"sync/atomic"

	"github.com/mimecast/dtail/internal/lcontext"
	user "github.com/mimecast/dtail/internal/user/server"
)

// VerifDecoded is what the server-side decoding hands to the command callback.
type VerifDecoded struct {
	Name                     string
	Argc                     int
	Args                     []string
	Ltx                      lcontext.LContext
	Quiet, Plain, Serverless bool
}

// VerifDecode feeds wire bytes to a fresh ServerHandler whose command callback only records
// what it is called with (everything up to and including handleCommand is the real code).
// Messages queued for the client (errors) are returned as well.
func VerifDecode(u *user.User, chunks [][]byte) (out []VerifDecoded, messages []string) {
	h := NewServerHandler(u, make(chan struct{}, 10), make(chan struct{}, 10))
	h.handleCommandCb = func(ctx context.Context, ltx lcontext.LContext, argc int, args []string, name string) {
		out = append(out, VerifDecoded{Name: name, Argc: argc, Args: append([]string(nil), args...), Ltx: ltx,
			Quiet: h.quiet, Plain: h.plain, Serverless: h.serverless})
	}
	for _, c := range chunks {
		h.Write(c)
		// drain error messages so that Write never blocks on the 10-slot queue
		for {
			select {
			case m := <-h.serverMessages:
				messages = append(messages, m)
				continue
			default:
			}
			break
		}
	}
	h.Shutdown()
	return
}

// VerifActiveCommands returns the session's command counter.
func (h *ServerHandler) VerifActiveCommands() int32 { return atomic.LoadInt32(&h.activeCommands) }

// VerifQueueLens returns len(lines), len(serverMessages), len(maprMessages).
func (h *ServerHandler) VerifQueueLens() (int, int, int) {
	return len(h.lines), len(h.serverMessages), len(h.maprMessages)
}

// VerifMakeGlobID calls the real makeGlobID; panicked reports a run-time panic (index out of range).
func VerifMakeGlobID(path, glob string) (id string, panicked bool) {
	defer func() {
		if r := recover(); r != nil {
			panicked = true
		}
	}()
	r := &readCommand{}
	id = r.makeGlobID(path, glob)
	return
}

// VerifAggregatePtr returns the address of the session's server-side aggregator ("" if none), the
// first argument of the "aggregate.nomore" hook.
func (h *ServerHandler) VerifAggregatePtr() string {
	if h.aggregate == nil {
		return ""
	}
	return fmt.Sprintf("%p", h.aggregate)
}

// VerifSerialize asks the session's server-side aggregator for an interim result, the way its own interval timer does
// (Aggregate.Serialize); it gives up when ctx ends.  False if the session has no aggregator (yet).
func (h *ServerHandler) VerifSerialize(ctx context.Context) bool {
	a := h.aggregate
	if a == nil {
		return false
	}
	a.Serialize(ctx)
	return true
}
