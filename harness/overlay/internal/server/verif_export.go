//go:build verif

package server

// VerifCurrentConnections returns the connection counter the server reports in its STATS line.
func (s *Server) VerifCurrentConnections() int {
	s.stats.mutex.Lock()
	defer s.stats.mutex.Unlock()
	return s.stats.currentConnections
}
