//go:build verif

package server

import (
	user "github.com/mimecast/dtail/internal/user/server"

	gossh "golang.org/x/crypto/ssh"
)

// VerifVerifyAuthorizedKeys exposes verifyAuthorizedKeys (file content + offered key -> verdict).
func VerifVerifyAuthorizedKeys(userName string, authorizedKeysBytes []byte, offered gossh.PublicKey) (bool, string) {
	u, err := user.New(userName, "127.0.0.1:1")
	if err != nil {
		return false, err.Error()
	}
	perm, err := verifyAuthorizedKeys(u, authorizedKeysBytes, offered)
	if err != nil {
		return false, err.Error()
	}
	return perm != nil, ""
}
