# Generic check driver: DESIGN.md §1.2.  A property module provides
#   ID, PROP_FILE, CONSTS, TRUSTED, ASSUMPTIONS, RULE
#   generate(rng, tier) -> [case]                    (corpus / witnesses first)
#   run_impl(cases, tier) -> [obs]                   (implementation, via the Go harness / binaries)
#   judge(cases, obs, tier) -> {"oracle": {idx: detail}, "model": {idx: detail}, "errors": [..]}
#        oracle = the property's executable predicate on the implementation's output
#        model  = the Coq model's output for the same case differs from the implementation's
#   classify(case, obs, detail) -> id of a known finding class or None
#   nontrivial(case) -> bool ;  sample(case, obs) -> printable
#   optional: shrink(case, still_fails) ; EXTRA_BINS ; extra_coverage() ; self_checks()
import argparse, json, os, random, sys, time, traceback
from . import vf


def run(mod, argv=None):
    ap = argparse.ArgumentParser()
    ap.add_argument("--tier", default=os.environ.get("VERIF_TIER", "quick"))
    ap.add_argument("--replay")
    a = ap.parse_args(argv)
    tier = a.tier if a.tier in ("quick", "thorough") else "quick"
    seed = int(os.environ.get("VERIF_SEED", "1") or 1)
    t0 = time.time()
    pid = mod.ID
    broken = []      # (what, detail): proof obligations / constants / correspondence that no longer check
    notes = []

    # 1. constants
    try:
        ok, missing = vf.constgen()
    except Exception as e:  # translator itself broke
        ok, missing = False, ["constgen: %s" % e]
    need = set(getattr(mod, "CONSTS", []))
    for m in missing:
        name = m.split(":")[0]
        if not need or name in need or name == "constgen":
            broken.append(("constant", m))

    # 2. Coq build + proof status
    all_ok, buildlog, missing_vo = vf.coq_build()
    deps, obligations, broken_files = vf.proof_status(mod.PROP_FILE, buildlog)
    failed = vf.failed_in_log(buildlog)
    for bf in broken_files:
        if bf in failed:
            line, stmt, err = failed[bf]
            broken.append(("coq", "%s, line %d: %s no longer checks: %s" % (bf, line, stmt or "a definition", err)))
        else:
            roots = sorted(set(failed) & vf.coq_deps(bf))
            thms = [n for (v, n, ok) in obligations if v == bf]
            broken.append(("coq", "%s (%s) is no longer shown: it depends on %s" % (
                bf, ", ".join(thms[:12]) or "no statements", ", ".join(roots) if roots else "a file that did not compile (no fresh .vo)")))
    model_ok = not any(bf.startswith(("Lib/", "Gen/", "Model/")) for bf in broken_files)
    bad = vf.hygiene()
    for b in bad:
        broken.append(("hygiene", b))
    closed, axioms, pa_out = 0, [], ""
    if not broken_files:
        rc, pa_out, closed, axioms = vf.print_assumptions(mod.PROP_FILE)
        if rc != 0:
            broken.append(("coq", "recompiling %s failed: %s" % (mod.PROP_FILE, pa_out[-800:])))
        allowed = getattr(mod, "ALLOWED_AXIOMS", [])
        for ax in axioms:
            for line in ax.splitlines():
                nm = line.split(":")[0].strip()
                if nm in ("Axioms", "Closed under the global context"):
                    continue
                if nm and not line.startswith(" ") and nm not in allowed:
                    broken.append(("axiom", "unexpected axiom %s under %s" % (nm, mod.PROP_FILE)))

    # 3. harness
    oracle_fail, model_fail, errors = {}, {}, []
    cases, obs = [], []
    hok, hout = vf.build_harness(getattr(mod, "EXTRA_BINS", ()))
    if not hok:
        broken.append(("harness", "harness does not build against the current tree: " + hout[-1500:]))
    elif not model_ok:
        pass
    else:
        rng = random.Random(seed)
        try:
            if a.replay:
                rp = json.load(open(a.replay))
                cases = [rp["case"]] if "case" in rp else rp.get("cases", [])
            else:
                cases = mod.generate(rng, tier)
            obs = mod.run_impl(cases, tier)
            j = mod.judge(cases, obs, tier)
            oracle_fail, model_fail, errors = j.get("oracle", {}), j.get("model", {}), j.get("errors", [])
            notes += j.get("notes", [])
        except Exception:
            errors.append(traceback.format_exc())
    for e in errors:
        broken.append(("correspondence", "check machinery error: " + str(e)[-1500:]))

    # 4. verdict
    known = {k["class"]: k for k in vf.known_findings() if k["property"] == pid and k.get("status") == "open"}
    known_hit, new_viol = {}, []
    for idx, detail in sorted(oracle_fail.items()):
        cls = mod.classify(cases[idx], obs[idx], detail) if hasattr(mod, "classify") else None
        if cls in known:
            known_hit.setdefault(cls, []).append(idx)
        else:
            new_viol.append(idx)
    exit_code = 0
    out_lines = []
    for cls, idxs in sorted(known_hit.items()):
        out_lines.append("KNOWN-FINDING: property=%s %s [%s] (%d case(s) this run, e.g. %s)" % (
            pid, known[cls]["description"], cls, len(idxs), json.dumps(mod.sample(cases[idxs[0]], obs[idxs[0]]))[:300]))
    if new_viol:
        idx = new_viol[0]
        case, ob, detail = cases[idx], obs[idx], oracle_fail[idx]
        orig = {"case": case, "observed": ob, "oracle": detail}
        if hasattr(mod, "shrink"):
            try:
                case, ob, detail = mod.shrink(case, ob, detail)
                # a shrunk case that has slid into a recorded finding's class no longer shows THIS violation
                if hasattr(mod, "classify") and mod.classify(case, ob, detail) in known:
                    case, ob, detail = orig["case"], orig["observed"], orig["oracle"]
            except Exception:
                notes.append("shrink failed: " + traceback.format_exc()[-500:])
        path = vf.write_replay(pid, {"property": pid, "seed": seed, "tier": tier, "case": case, "observed": ob,
                                     "oracle": detail, "model_disagrees": idx in model_fail,
                                     "other_failing_cases": len(new_viol) - 1,
                                     "before_shrinking": orig if orig["case"] is not case else None,
                                     "replay_cmd": "./check %s --replay <this file>" % pid})
        out_lines.append("VIOLATION property=%s replay=%s" % (pid, path))
        exit_code = 1
    else:
        # model disagreements that are not property failures, and broken obligations
        unexplained = [i for i in model_fail if i not in oracle_fail]
        if unexplained:
            i0 = unexplained[0]
            broken.append(("correspondence", "model and implementation differ on %d case(s) on which the property's oracle holds; first: %s -> %s" % (
                len(unexplained), json.dumps(mod.sample(cases[i0], obs[i0]))[:600], str(model_fail[i0])[:600])))
        if broken:
            path = vf.write_replay(pid, {"property": pid, "seed": seed, "tier": tier,
                                         "no_failing_input_found": True,
                                         "broken": [{"what": w, "detail": d} for w, d in broken],
                                         "searched": {"cases": len(cases), "oracle_failures_in_known_classes": sum(len(v) for v in known_hit.values())},
                                         "first_disagreeing_case": cases[unexplained[0]] if unexplained else None})
            out_lines.append("VIOLATION property=%s replay=%s no-failing-input-found" % (pid, path))
            exit_code = 1

    # 5. evidence
    nontriv = [c for c in cases if mod.nontrivial(c)]
    n_obl = len(obligations)
    n_dis = sum(1 for (_, _, ok) in obligations if ok)
    cov = {
        "obligations": n_obl, "discharged": n_dis,
        "checker_cmd": "make -C coq -k (coqc 8.16.1, full .vo build) ; coqc -Q . DT %s (Print Assumptions)" % mod.PROP_FILE,
        "trusted_base": mod.TRUSTED,
        "theorem_files": deps,
        "print_assumptions_closed": closed, "print_assumptions_axioms": axioms,
        "evaluations": len(cases), "distinct_nontrivial": vf.distinct_count(nontriv),
        "rule": mod.RULE,
        "samples": [mod.sample(c, o) for c, o in list(zip(cases, obs))[:3]] + [{"obligation": "%s:%s" % (v, n)} for v, n, _ in obligations[:5]],
        "oracle_failures": len(oracle_fail), "model_disagreements": len(model_fail),
        "known_finding_hits": {k: len(v) for k, v in known_hit.items()},
        "broken": [w + ": " + d[:300] for w, d in broken],
        "notes": notes,
    }
    if hasattr(mod, "extra_coverage"):
        try:
            cov.update(mod.extra_coverage(cases, obs))
        except Exception:
            pass
    if not a.replay:      # a replay examines one stored case: it must not replace the evidence of a full run
        vf.write_evidence(pid, tier, seed, cov, time.time() - t0, len(new_viol) + (1 if broken and not new_viol else 0), mod.ASSUMPTIONS)
    for l in out_lines:
        print(l)
    print("%s tier=%s cases=%d oracle_fail=%d model_diff=%d obligations=%d/%d broken=%d wall=%.1fs -> exit %d" % (
        pid, tier, len(cases), len(oracle_fail), len(model_fail), n_dis, n_obl, len(broken), time.time() - t0, exit_code))
    sys.stdout.flush()
    return exit_code
