# In-process dtail servers (dverif serve) and real client invocations for the correspondence checks.
import json, os, signal, socket, subprocess, time
from . import vf

BIN = os.path.join(vf.BUILD, "bin")


def free_port():
    s = socket.socket()
    s.bind(("127.0.0.1", 0))
    p = s.getsockname()[1]
    s.close()
    return p


def keypair(d, name="id_rsa", kind="ed25519"):
    path = os.path.join(d, name)
    if not os.path.exists(path):
        subprocess.run(["ssh-keygen", "-q", "-t", kind, "-N", "", "-f", path, "-m", "PEM"], check=True,
                       stdout=subprocess.DEVNULL, stderr=subprocess.DEVNULL)
    return path, open(path + ".pub").read()


class Env:
    """A scratch HOME with a client key pair; servers and clients share it."""

    def __init__(self, base=None):
        self.dir = base or os.path.join(vf.scratch(), "env%d" % os.getpid())
        os.makedirs(self.dir, exist_ok=True)
        self.home = os.path.join(self.dir, "home")
        os.makedirs(os.path.join(self.home, ".ssh"), exist_ok=True)
        self.key, self.pub = keypair(os.path.join(self.home, ".ssh"), "id_rsa", "rsa")
        self.servers = []

    def client_env(self, extra=None):
        e = dict(os.environ, HOME=self.home)
        e.pop("SSH_AUTH_SOCK", None)
        if extra:
            e.update(extra)
        return e

    def write_cfg(self, name, server=None, common=None, client=None):
        path = os.path.join(self.dir, name)
        cfg = {}
        if server is not None:
            cfg["Server"] = server
        if common is not None:
            cfg["Common"] = common
        if client is not None:
            cfg["Client"] = client
        with open(path, "w") as f:
            json.dump(cfg, f)
        return path

    def start_server(self, name="s0", server_cfg=None, user="root", hostname=None, authorized=None, env=None,
                     logger="none", level="info"):
        d = os.path.join(self.dir, name)
        os.makedirs(os.path.join(d, "cache"), exist_ok=True)
        with open(os.path.join(d, "cache", "%s.authorized_keys" % user), "w") as f:
            f.write(authorized if authorized is not None else self.pub)
        sc = {"HostKeyBits": 2048}
        sc.update(server_cfg or {})
        cfg = self.write_cfg(name + ".json", server=sc)
        port = free_port()
        e = dict(os.environ)
        if hostname:
            e["DTAIL_HOSTNAME_OVERRIDE"] = hostname
        if env:
            e.update(env)
        logf = open(os.path.join(d, "server.out"), "w")
        p = subprocess.Popen([os.path.join(BIN, "dverif"), "serve", "--port", str(port), "--cfg", cfg,
                              "--logger", logger, "--logLevel", level, "--logDir", d],
                             cwd=d, env=e, stdout=logf, stderr=subprocess.STDOUT, stdin=subprocess.DEVNULL)
        s = Server(p, port, d, name)
        self.servers.append(s)
        t0 = time.time()
        while time.time() - t0 < 30:
            if p.poll() is not None:
                raise RuntimeError("server died: " + open(os.path.join(d, "server.out")).read()[-2000:])
            try:
                c = socket.create_connection(("127.0.0.1", port), timeout=0.5)
                c.close()
                return s
            except OSError:
                time.sleep(0.05)
        raise RuntimeError("server did not come up")

    def stop_all(self):
        for s in self.servers:
            s.stop()
        self.servers = []

    def client(self, tool, args, servers=None, timeout=120, stdout=None, cfg="none", extra_env=None, user="root"):
        cmd = [os.path.join(BIN, tool), "--cfg", cfg]
        if servers:
            cmd += ["--servers", ",".join("127.0.0.1:%d" % s.port for s in servers), "--trustAllHosts",
                    "--key", self.key, "--user", user]
        cmd += list(args)
        try:
            p = subprocess.run(cmd, stdin=subprocess.DEVNULL, stdout=stdout or subprocess.PIPE, stderr=subprocess.PIPE,
                               env=self.client_env(extra_env), timeout=timeout, cwd=self.dir)
            return p.returncode, p.stdout if stdout is None else None, p.stderr
        except subprocess.TimeoutExpired as ex:
            return -9, ex.stdout or b"", b"TIMEOUT"


class Server:
    def __init__(self, proc, port, d, name):
        self.proc, self.port, self.dir, self.name = proc, port, d, name

    def alive(self):
        return self.proc.poll() is None

    def stop(self):
        if self.proc.poll() is None:
            self.proc.send_signal(signal.SIGTERM)
            try:
                self.proc.wait(3)
            except subprocess.TimeoutExpired:
                self.proc.kill()
                self.proc.wait()

    def log(self):
        try:
            return open(os.path.join(self.dir, "server.out")).read()
        except OSError:
            return ""
