# Shared machinery for the /verif checks: builds (constants translator, Coq development, Go
# harness via -overlay), model evaluation inside Coq (vm_compute over generated cases.v files),
# evidence / replay / known-finding bookkeeping.  See DESIGN.md §1.
import fcntl, glob, hashlib, json, os, random, re, shutil, subprocess, sys, tempfile, time

VERIF = os.path.dirname(os.path.dirname(os.path.abspath(__file__)))
REPO = os.environ.get("VERIF_REPO", "/repo")
COQ = os.path.join(VERIF, "coq")
BUILD = os.path.join(VERIF, "build")
EVID = os.path.join(VERIF, "evidence")
REPLAYS = os.path.join(VERIF, "replays")
GOENV = dict(os.environ, GOFLAGS="-mod=mod", GOPROXY="off", GOSUMDB="off", GOTOOLCHAIN="local",
             CGO_ENABLED=os.environ.get("CGO_ENABLED", "1"))
NCPU = os.cpu_count() or 4

import threading
_scratch = None


_scratch_lock = threading.Lock()


def scratch():
    global _scratch
    with _scratch_lock:          # (called from the harness' worker threads as well: one directory per check process, not one per thread)
        return _scratch_locked()


def _scratch_locked():
    global _scratch
    if _scratch is None:
        base = "/var/tmp"
        # leftovers of runs that were killed before their atexit handler ran: remove what is older than 6 hours
        try:
            now = time.time()
            for d in os.listdir(base):
                p = os.path.join(base, d)
                if d.startswith("dtverif.") and now - os.path.getmtime(p) > 6 * 3600:
                    shutil.rmtree(p, ignore_errors=True)
        except OSError:
            pass
        _scratch = tempfile.mkdtemp(prefix="dtverif.", dir=base)
        import atexit
        atexit.register(shutil.rmtree, _scratch, True)
    return _scratch


class Lock:
    def __init__(self, name):
        os.makedirs(BUILD, exist_ok=True)
        self.path = os.path.join(BUILD, name + ".lock")

    def __enter__(self):
        self.f = open(self.path, "w")
        fcntl.flock(self.f, fcntl.LOCK_EX)

    def __exit__(self, *a):
        fcntl.flock(self.f, fcntl.LOCK_UN)
        self.f.close()


def log(*a):
    print(*a, file=sys.stderr, flush=True)


def sh(cmd, cwd=None, env=None, timeout=1800, input=None):
    p = subprocess.run(cmd, cwd=cwd, env=env, timeout=timeout, input=input,
                       stdout=subprocess.PIPE, stderr=subprocess.STDOUT, shell=isinstance(cmd, str))
    return p.returncode, p.stdout.decode("utf-8", "replace")


# ------------------------------------------------------------------------------------------------
# constants translator + Coq build

def constgen():
    """Regenerate coq/Gen/Consts.v from REPO.  Returns (ok, missing list)."""
    with Lock("constgen"):
        exe = os.path.join(BUILD, "constgen")
        src = os.path.join(VERIF, "harness", "constgen")
        os.makedirs(BUILD, exist_ok=True)
        os.makedirs(os.path.join(COQ, "Gen"), exist_ok=True)   # Gen/Consts.v is generated, never committed
        newest = max(os.path.getmtime(p) for p in glob.glob(src + "/*.go"))
        if not os.path.exists(exe) or os.path.getmtime(exe) < newest:
            rc, out = sh(["go", "build", "-o", exe, "."], cwd=src, env=GOENV)
            if rc != 0:
                raise RuntimeError("constgen build failed:\n" + out)
        rc, out = sh([exe, REPO, os.path.join(COQ, "Gen", "Consts.v"), os.path.join(BUILD, "consts.json")])
        missing = [l[len("MISSING "):] for l in out.splitlines() if l.startswith("MISSING ")]
        if rc not in (0, 3):
            raise RuntimeError("constgen failed:\n" + out)
        return rc == 0, missing


def consts():
    with open(os.path.join(BUILD, "consts.json")) as f:
        return json.load(f)["values"]


def coq_build():
    """make -k in coq/.  Returns (all_ok, log, set of missing .vo relative paths)."""
    with Lock("coq"):
        if not os.path.exists(os.path.join(COQ, "Makefile")):
            sh(["coq_makefile", "-f", "_CoqProject", "-o", "Makefile"], cwd=COQ)
        rc, out = sh(["timeout", "1500", "make", "-k", "-j%d" % NCPU], cwd=COQ, timeout=1600)
        files = [l.strip() for l in open(os.path.join(COQ, "_CoqProject")) if l.strip().endswith(".v")]
        missing = set()
        for v in files:
            vo = os.path.join(COQ, v[:-2] + ".vo")
            if not os.path.exists(vo) or os.path.getmtime(vo) < os.path.getmtime(os.path.join(COQ, v)):
                missing.add(v)
        return rc == 0 and not missing, out, missing


def coq_deps(vfile):
    """Transitive project-local dependencies of a .v file (relative paths), including itself."""
    seen, todo = set(), [vfile]
    while todo:
        v = todo.pop()
        if v in seen:
            continue
        seen.add(v)
        try:
            txt = open(os.path.join(COQ, v)).read()
        except OSError:
            continue
        txt = re.sub(r"\(\*.*?\*\)", "", txt, flags=re.S)
        for line in txt.splitlines():
            m = re.match(r"\s*(?:From\s+\S+\s+)?Require\s+(?:Import\s+|Export\s+)?(.*)$", line)
            if not m:
                continue
            body = m.group(1).strip().rstrip(".")
            for mod in body.split():
                mod = mod.strip().rstrip(".")
                if mod.startswith("DT."):
                    mod = mod[3:]
                cand = mod.replace(".", "/") + ".v"
                if os.path.exists(os.path.join(COQ, cand)):
                    todo.append(cand)
    return seen


_OBL = re.compile(r"^\s*(?:Local\s+|Global\s+)?(Lemma|Theorem|Corollary|Example|Fact|Proposition|Remark)\s+([A-Za-z_][\w']*)", re.M)


def failed_in_log(buildlog):
    """Files whose compilation failed in this make run: {file: (line, statement the error falls into, error text)}."""
    out = {}
    for m in re.finditer(r'File "\./([^"]+\.v)", line (\d+), characters [\d-]+:\s*\n(Error:?[^\n]*(?:\n(?!File |make|COQC|COQDEP)[^\n]*){0,6})', buildlog or ""):
        f, line, err = m.group(1), int(m.group(2)), m.group(3).strip()
        if f in out:
            continue
        stmt = None
        try:
            txt = open(os.path.join(COQ, f)).read().splitlines()
            for k in range(min(line, len(txt)) - 1, -1, -1):
                mm = _OBL.match(txt[k])
                if mm:
                    stmt = "%s %s" % (mm.group(1), mm.group(2))
                    break
        except OSError:
            pass
        out[f] = (line, stmt, err[:600])
    return out


def proof_status(prop_file, buildlog=None):
    """Obligations in the dependency cone of Props/<id>.v and the files of the cone that do not check: a file whose
    compilation failed in this build, a file that depends on one (its old .vo is stale), or a file without a fresh .vo."""
    deps = sorted(coq_deps(prop_file))
    failed = failed_in_log(buildlog)
    names, broken = [], []
    for v in deps:
        txt = open(os.path.join(COQ, v)).read()
        ns = [m.group(2) for m in _OBL.finditer(txt)]
        vo = os.path.join(COQ, v[:-2] + ".vo")
        ok = os.path.exists(vo) and os.path.getmtime(vo) >= os.path.getmtime(os.path.join(COQ, v))
        if ok and failed and (coq_deps(v) & set(failed)):
            ok = False
        names += [(v, n, ok) for n in ns]
        if not ok:
            broken.append(v)
    return deps, names, broken


def hygiene():
    """grep for forbidden constructs in the development."""
    bad = []
    pat = re.compile(r"\b(Admitted|admit|Axiom|Axioms|Parameter|Parameters|Conjecture|Admit Obligations)\b|Unset\s+Guard|bypass_check|-type-in-type|Unset\s+Positivity|Unset\s+Universe")
    for v in glob.glob(COQ + "/**/*.v", recursive=True):
        txt = open(v).read()
        txt = re.sub(r"\(\*.*?\*\)", "", txt, flags=re.S)
        for i, line in enumerate(txt.splitlines(), 1):
            if pat.search(line):
                bad.append("%s:%d: %s" % (os.path.relpath(v, COQ), i, line.strip()))
    return bad


def print_assumptions(prop_file):
    """Recompile the (tiny) property file and return its stdout: one block per Print Assumptions."""
    with Lock("coq"):
        rc, out = sh("ulimit -s unlimited; timeout 600 coqc -Q . DT %s" % prop_file, cwd=COQ)
    closed = out.count("Closed under the global context")
    axioms = re.findall(r"^Axioms:\n((?:.+\n?)+)", out, re.M)
    return rc, out, closed, axioms


# ------------------------------------------------------------------------------------------------
# Go harness

def overlay_map():
    m = {}
    hd = os.path.join(VERIF, "harness", "dverif")
    for f in os.listdir(hd):
        if f.endswith(".go"):
            m[os.path.join(REPO, "cmd", "dverif", f)] = os.path.join(hd, f)
    od = os.path.join(VERIF, "harness", "overlay")
    for root, _, files in os.walk(od):
        for f in files:
            if f.endswith(".go"):
                rel = os.path.relpath(os.path.join(root, f), od)
                m[os.path.join(REPO, rel)] = os.path.join(root, f)
    return m


def build_harness(extra_bins=()):
    """Build dverif (and optionally the real client/server binaries) from REPO's working tree."""
    with Lock("gobuild"):
        os.makedirs(BUILD, exist_ok=True)
        ov = os.path.join(BUILD, "overlay.json")
        with open(ov, "w") as f:
            json.dump({"Replace": overlay_map()}, f)
        bindir = os.path.join(BUILD, "bin")
        os.makedirs(bindir, exist_ok=True)
        rc, out = sh(["go", "build", "-tags", "verif", "-overlay", ov, "-o", os.path.join(bindir, "dverif"), "./cmd/dverif"],
                     cwd=REPO, env=GOENV)
        if rc != 0:
            return False, out
        for b in extra_bins:
            rc, out2 = sh(["go", "build", "-tags", "verif", "-o", os.path.join(bindir, b), "./cmd/" + b], cwd=REPO, env=GOENV)
            out += out2
            if rc != 0:
                return False, out
        return True, out


def harness(sub, cases, env=None, timeout=900, args=()):
    """Run `dverif <sub>` on a list of JSON-able cases; returns list of result dicts (None-padded
    if the process died) and the stderr/exit info."""
    exe = os.path.join(BUILD, "bin", "dverif")
    data = "".join(json.dumps(c) + "\n" for c in cases).encode()
    e = dict(os.environ)
    e["TMPDIR"] = scratch()      # whatever the harness creates with os.MkdirTemp("") goes away with the check's scratch directory
    if env:
        e.update(env)
    p = subprocess.run([exe, sub] + list(args), input=data, stdout=subprocess.PIPE, stderr=subprocess.PIPE,
                       timeout=timeout, env=e)
    res = []
    tagged = {}
    for line in p.stdout.decode().splitlines():
        line = line.strip()
        if line:
            try:
                x = json.loads(line)
            except ValueError:
                x = {"garbled": line[:200]}
            if isinstance(x, dict) and "_i" in x:
                tagged[x["_i"]] = x["r"]
            else:
                res.append(x)
    if tagged:
        res = [tagged.get(i) for i in range(len(cases))]
    info = {"rc": p.returncode, "stderr": p.stderr.decode("utf-8", "replace")[-4000:]}
    while len(res) < len(cases):
        res.append(None)
    return res, info


def harness_parallel(sub, cases, shards=None, **kw):
    from concurrent.futures import ThreadPoolExecutor
    shards = shards or min(NCPU, max(1, len(cases) // 20))
    chunks = [cases[i::shards] for i in range(shards)]
    with ThreadPoolExecutor(shards) as ex:
        outs = list(ex.map(lambda ch: harness(sub, ch, **kw), chunks))
    # a shard whose harness process died as a whole (no result for any of its cases: e.g. the port it had picked for its
    # in-process server was taken by another process in the meantime) says nothing about the cases: run it once more
    for k in range(shards):
        r, info = outs[k]
        if chunks[k] and (not r or all(x is None for x in r[:len(chunks[k])])):
            outs[k] = harness(sub, chunks[k], **kw)
    res = [None] * len(cases)
    infos = []
    for k, (r, info) in enumerate(outs):
        for j, x in enumerate(r[:len(chunks[k])]):
            res[k + j * shards] = x
        infos.append(info)
    return res, infos


# ------------------------------------------------------------------------------------------------
# Coq term emitters and evaluation

def cq_bytes(b):
    """Coq term of type bytes for a python bytes value (hex pieces of <= 2048 bytes; long runs of
    one byte as brep)."""
    if len(b) == 0:
        return "[]"
    # run-length encode long runs
    parts = []
    i = 0
    n = len(b)
    lit_start = 0
    while i < n:
        j = i
        while j < n and b[j] == b[i]:
            j += 1
        if j - i >= 64:
            if lit_start < i:
                parts.append(("lit", b[lit_start:i]))
            parts.append(("rep", j - i, b[i]))
            lit_start = j
        i = j
    if lit_start < n:
        parts.append(("lit", b[lit_start:n]))
    terms = []
    for p in parts:
        if p[0] == "lit":
            data = p[1]
            for k in range(0, len(data), 2048):
                terms.append('(unhex "%s")' % data[k:k + 2048].hex())
        else:
            terms.append("(brep (Z.to_nat %d) x%02x [])" % (p[1], p[2]))
    if len(terms) == 1:
        return terms[0]
    out = terms[-1]
    for t in reversed(terms[:-1]):
        out = "(app' %s %s)" % (t, out)
    return out


def cq_list(items):
    return "[" + "; ".join(items) + "]"


def cq_bool(b):
    return "true" if b else "false"


def cq_nat(n):
    return "%d" % n if n < 2000 else "(Z.to_nat %d)" % n


def cq_z(n):
    return "(%d)%%Z" % n


def cq_opt(x):
    return "None" if x is None else "(Some %s)" % x


def coq_eval(header, defs, timeout=1200, name="cases"):
    """Compile a generated .v file (under ulimit -s unlimited) and return (rc, stdout).
    header: Require lines; defs: body text.  The file lives in the scratch dir."""
    d = tempfile.mkdtemp(prefix="coq.", dir=scratch())
    path = os.path.join(d, name + ".v")
    with open(path, "w") as f:
        f.write(header + "\n" + defs + "\n")
    rc, out = sh("ulimit -s unlimited; timeout %d coqc -Q %s DT -w none %s" % (timeout, COQ, path), cwd=d, timeout=timeout + 30)
    return rc, out, path


def parse_nat_list(out, marker):
    """Find `marker = [a; b; c]` (Print output, possibly wrapped) and return the list of ints."""
    m = re.search(re.escape(marker) + r"\s*=\s*\[(.*?)\]", out, re.S)
    if not m:
        return None
    body = m.group(1).strip()
    if not body:
        return []
    return [int(x) for x in re.split(r"[;\s]+", body) if x.strip()]


def coq_eval_sharded(header, case_terms, result_expr, shards=None, per_shard=400, timeout=1200, case_type=None):
    """Evaluate `result_expr` (a Coq function from the case type to bool) over case_terms, in
    parallel shards.  Returns (list of failing case indices, errors)."""
    from concurrent.futures import ThreadPoolExecutor
    n = len(case_terms)
    if n == 0:
        return [], []
    nshards = shards or max(1, min(NCPU, (n + per_shard - 1) // per_shard))
    idxs = [list(range(k, n, nshards)) for k in range(nshards)]

    def run(k):
        body = "Definition cases%s := %s.\n" % ((" : list (%s)" % case_type) if case_type else "", cq_list([case_terms[i] for i in idxs[k]]))
        body += "Definition M := Eval vm_compute in mismatches (map (%s) cases).\nPrint M.\n" % result_expr
        rc, out, path = coq_eval(header, body, timeout=timeout, name="cases%d" % k)
        l = parse_nat_list(out, "M")
        if rc != 0 or l is None:
            return None, out[-3000:]
        return [idxs[k][j] for j in l], None

    with ThreadPoolExecutor(nshards) as ex:
        outs = list(ex.map(run, range(nshards)))
    # a shard whose coqc was killed (the kernel's OOM killer when many large shards run side by side) or timed out says
    # nothing about the cases: run those shards again, one at a time
    for k in range(nshards):
        f, e = outs[k]
        if f is None and e is not None and ("Killed" in e or "Out of memory" in e or e.strip() == ""):
            outs[k] = run(k)
    fails, errs = [], []
    for f, e in outs:
        if f is None:
            errs.append(e)
        else:
            fails += f
    return sorted(fails), errs


# ------------------------------------------------------------------------------------------------
# evidence, replays, known findings

def known_findings():
    p = os.path.join(VERIF, "known_findings.json")
    if not os.path.exists(p):
        return []
    return json.load(open(p))["findings"]


def write_replay(prop, payload):
    os.makedirs(REPLAYS, exist_ok=True)
    h = hashlib.sha1(json.dumps(payload, sort_keys=True, default=str).encode()).hexdigest()[:12]
    path = os.path.join(REPLAYS, "%s-%s.json" % (prop, h))
    with open(path, "w") as f:
        json.dump(payload, f, indent=1, default=str)
    return path


def write_evidence(prop, tier, seed, coverage, wall, violations, assumptions):
    os.makedirs(EVID, exist_ok=True)
    ev = {"property_id": prop, "tier": tier, "seed": seed, "level": "proof", "coverage": coverage,
          "assumptions": assumptions, "wall_s": round(wall, 2), "violations": violations}
    tmp = os.path.join(EVID, prop + ".json.tmp")
    with open(tmp, "w") as f:
        json.dump(ev, f, indent=1, default=str)
    os.replace(tmp, os.path.join(EVID, prop + ".json"))


def distinct_count(items):
    return len({hashlib.sha1(json.dumps(x, sort_keys=True, default=str).encode()).hexdigest() for x in items})
