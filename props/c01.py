# C01 — dcat reproduces file content byte for byte.
import os, re, subprocess
from concurrent.futures import ThreadPoolExecutor
from lib import vf, srv

ID = "C01"
PROP_FILE = "Props/C01.v"
CONSTS = ["message_delimiter", "truncated_cmp"]
EXTRA_BINS = ("dcat", "dgrep")
RULE = ("generated files: line lengths around 0,1,maxlen-1,maxlen,maxlen+1,2*maxlen and around 32 KiB / 64 KiB, with and "
        "without final newline, empty lines, CRLF, all byte values with raised weight on 0x0A 0xAC 0x2E 0x7C 0x00 0xC2 0xE2, "
        "a hostile stream (only delimiters, only dots, protocol words as content); MaxLineLength in {16,1024,65536,default}; "
        "plain/.gz/.gzip/.zst names (and look-alike names); serverless and through an in-process SSH server; non-trivial = "
        ">= 2 lines or a long line or a protocol byte; distinct by (maxlen, name kind, transport, content)")
TRUSTED = ["Coq 8.16.1 kernel + bytecode VM (vm_compute)", "harness/constgen (MessageDelimiter)",
           "real dcat binary built from the working tree; dverif serve (in-process server.New().Start)",
           "gzip/zstd decoders, kernel pipes, x/crypto/ssh transport are outside the model",
           "Python oracle insert_nl (independent re-statement of the specification)"]
ASSUMPTIONS = ["MaxLineLength >= 1", "known_hosts already holds the server (first-contact warnings are logging, not file content)",
               "compressed files are well-formed gzip (one or several members) / zstd streams"]
MAXLENS = [16, 1024, 65536, 1048576]
HOT = bytes([0x0a, 0xac, 0x2e, 0x7c, 0x00, 0xc2, 0xe2, 0x0d])


def spec(maxlen, content):
    out = bytearray()
    run = 0
    for c in content:
        out.append(c)
        if c == 0x0a:
            run = 0
        else:
            run += 1
            if run >= maxlen:
                out.append(0x0a)
                run = 0
    return bytes(out)


def guard_class(expected, delim=0xac):
    if delim in expected:
        return "content_has_byte_0xAC"
    if expected.startswith(b".") or b"\n." in expected:
        return "plain_line_starts_with_dot"
    return None


def _line(rng, maxlen, alphabet):
    k = rng.random()
    if k < 0.25:
        n = rng.choice([0, 0, 1, 2, 3])
    elif k < 0.55:
        n = max(0, rng.choice([maxlen - 1, maxlen, maxlen + 1, 2 * maxlen, 2 * maxlen + 1, maxlen // 2]))
        if n > 70000:
            n = rng.choice([5, 80, 1000])
    elif k < 0.62:
        n = rng.choice([32767, 32768, 32769, 40000, 65535, 65536, 65537, 70001])
    else:
        n = rng.randint(0, 120)
    if n > 3000:
        # long runs compress well in the Coq literal (brep): one filler byte with a few specials
        fill = rng.choice(b"xyzXYZ0")
        b = bytearray([fill]) * n
        for _ in range(rng.randint(0, 3)):
            b[rng.randrange(n)] = rng.choice(alphabet)
        return bytes(b).replace(b"\n", b"-")
    return bytes(rng.choice(alphabet) for _ in range(n)).replace(b"\n", b"-")


def _content(rng, maxlen):
    k = rng.random()
    if k < 0.55:
        alphabet = b"abcdefghij klmnop0123456789,;:=%"  # benign
    elif k < 0.8:
        alphabet = bytes(range(256))
    else:
        alphabet = HOT + b"ab"
    if rng.random() < 0.35:
        alphabet = bytes(b for b in alphabet if b not in (0xac,)) or b"a"
        nodot = True
    else:
        nodot = False
    nlines = rng.choice([0, 1, 1, 2, 3, 5, 9, 30])
    lines = []
    for _ in range(nlines):
        l = _line(rng, maxlen, alphabet)
        if nodot and l.startswith(b"."):
            l = b"_" + l[1:]
        lines.append(l)
    eol = b"\r\n" if rng.random() < 0.1 else b"\n"
    body = eol.join(lines)
    if lines and rng.random() < 0.6:
        body += eol
    return body


HOSTILE = [b"\xac", b"\xac\xac\xac\n", b".\n", b"...\n.\n", b".syn close connection\n", b"x\xac.syn close connection\n",
           b"a\xc2\xacb\n", b"\xe2\x82\xac\n", b"hello\n.hidden line\nafter\n", b"l1\n\nl3", b"\n\n\n", b"\n", b"",
           b"REMOTE|h|100|1|id|x\n", b"SERVER|x\n", b"AGGREGATE|a\n", b"abc\r\n.def\r\n", b"a" * 40000 + b"\nshort\n",
           b"protocol 4.1 base64 Zm9v;\n", b"\x00\x00\n\x00"]


def generate(rng, tier):
    cases = []
    for h in HOSTILE:
        for tr in ("serverless", "server"):
            cases.append({"maxlen": 1024 if len(h) < 3000 else 1048576, "content": h.hex(), "kind": "plain", "suffix": ".log", "transport": tr})
    n = 170 if tier == "quick" else 4000
    for i in range(n):
        maxlen = rng.choice(MAXLENS)
        content = _content(rng, maxlen)
        k = rng.random()
        if k < 0.7:
            kind, suffix = "plain", rng.choice([".log", ".txt", "", ".gz.txt", ".zstd", ".gzi", "gz", ".log.1"])
        elif k < 0.85:
            kind, suffix = "gz", rng.choice([".gz", ".gzip", ".log.gz"])
        else:
            kind, suffix = "zst", rng.choice([".zst", ".log.zst"])
        cases.append({"maxlen": maxlen, "content": content.hex(), "kind": kind, "suffix": suffix,
                      "transport": "server" if rng.random() < 0.4 else "serverless",
                      "members": rng.choice([1, 1, 2, 3]) if kind == "gz" else 1})     # gzip -c more >> f.gz: several members in one file
    # a consumer that stalls for several seconds before it reads (the reader then reaches end of file
    # long after it started: the periodic truncation check has fired by then); unterminated last line
    big = b"".join(b"%06d %s\n" % (i, b"z" * 200) for i in range(3000)) + b"LAST-LINE-WITHOUT-NEWLINE"
    for tr in (["serverless"] if tier == "quick" else ["serverless", "server"]):
        cases.append({"maxlen": 1048576, "content": big.hex(), "kind": "plain", "suffix": ".log", "transport": tr, "stall_s": 4})
    if tier == "thorough":
        # exhaustive small scope: all contents of length <= 5 over {a, \n, ., 0xAC}, maxlen in {1,2,3}
        import itertools
        alpha = [0x61, 0x0a, 0x2e, 0xac]
        for ml in (1, 2, 3):
            for L in range(0, 6):
                for t in itertools.product(alpha, repeat=L):
                    cases.append({"maxlen": ml, "content": bytes(t).hex(), "kind": "plain", "suffix": ".log", "transport": "serverless"})
    return cases


_state = {}


def run_impl(cases, tier):
    env = srv.Env()
    _state["env"] = env
    fdir = os.path.join(env.dir, "files")
    os.makedirs(fdir, exist_ok=True)
    maxlens = sorted({c["maxlen"] for c in cases})
    cfgs = {ml: env.write_cfg("client%d.json" % ml, server={"MaxLineLength": ml}) for ml in maxlens}
    servers = {}
    for ml in sorted({c["maxlen"] for c in cases if c["transport"] == "server"}):
        s = env.start_server("srv%d" % ml, server_cfg={"MaxLineLength": ml, "MaxConnections": 100})
        servers[ml] = s
        env.client("dcat", ["--plain", "--files", "/dev/null"], servers=[s], timeout=60)   # records the host key
    mk = []
    for i, c in enumerate(cases):
        c["_path"] = os.path.join(fdir, "f%05d%s" % (i, c["suffix"]))
        mk.append({"path": c["_path"], "kind": c["kind"], "data": c["content"], "members": c.get("members", 1)})
    res, infos = vf.harness_parallel("mkfile", mk)
    if any(r is None or not r.get("ok") for r in res):
        raise RuntimeError("mkfile failed: %s" % infos)

    def one(c):
        if c.get("stall_s"):
            import time as _t
            cmd = [os.path.join(srv.BIN, "dcat"), "--cfg", cfgs[c["maxlen"]], "--plain", "--files", c["_path"]]
            if c["transport"] == "server":
                s_ = servers[c["maxlen"]]
                cmd = [os.path.join(srv.BIN, "dcat"), "--cfg", "none", "--servers", "127.0.0.1:%d" % s_.port, "--trustAllHosts",
                       "--key", env.key, "--user", "root", "--plain", "--files", c["_path"]]
            p = subprocess.Popen(cmd, stdin=subprocess.DEVNULL, stdout=subprocess.PIPE, stderr=subprocess.PIPE, env=env.client_env(), cwd=env.dir)
            _t.sleep(c["stall_s"])
            try:
                out, err = p.communicate(timeout=120)
            except subprocess.TimeoutExpired:
                p.kill(); out, err = p.communicate()
            return {"rc": p.returncode, "out": out.hex(), "err": err[-300:].decode("latin1")}
        if c["transport"] == "server":
            rc, out, err = env.client("dcat", ["--plain", "--files", c["_path"]], servers=[servers[c["maxlen"]]], timeout=120)
        else:
            rc, out, err = env.client("dcat", ["--plain", "--files", c["_path"]], cfg=cfgs[c["maxlen"]], timeout=120)
        return {"rc": rc, "out": out.hex(), "err": err[-300:].decode("latin1")}

    # history: while the cases run, every server also serves reads that are cancelled half way (dgrep --max 1 on a
    # big file, a client that is killed in the middle of a transfer) - a later dcat must not be affected by them
    big = os.path.join(fdir, "disturb_big.log")
    with open(big, "w") as f:
        f.write("".join("disturbance line %06d %s\n" % (k, "d" * 120) for k in range(20000)))
    stop = {"flag": False, "n": 0}

    def disturb_once():
            for s_ in servers.values():
                env.client("dgrep", ["--plain", "--regex", "disturbance", "--max", "1", "--files", big], servers=[s_], timeout=30)
                cmd = [os.path.join(srv.BIN, "dcat"), "--cfg", "none", "--servers", "127.0.0.1:%d" % s_.port, "--trustAllHosts",
                       "--key", env.key, "--user", "root", "--plain", "--files", big]
                p = subprocess.Popen(cmd, stdin=subprocess.DEVNULL, stdout=subprocess.PIPE, stderr=subprocess.DEVNULL, env=env.client_env(), cwd=env.dir)
                p.stdout.read(4096)
                p.kill(); p.wait()
                stop["n"] += 2

    def disturb():
        import time as _t
        while not stop["flag"]:
            disturb_once()
            for _ in range(20):
                if stop["flag"]:
                    break
                _t.sleep(0.1)

    import threading
    th = threading.Thread(target=disturb, daemon=True)
    if servers:
        for _ in range(3):
            disturb_once()
        th.start()
    with ThreadPoolExecutor(vf.NCPU) as ex:
        obs = list(ex.map(one, cases))
    stop["flag"] = True
    if servers:
        th.join(90)
    _state["disturbances"] = stop["n"]
    # A case whose output differs from what the modelled pipeline predicts is run once more, alone, and BOTH
    # observations are kept: a difference that does not repeat is still a difference (content corrupted by
    # an earlier read, a delivery race) and is judged on the first observation.
    delim = vf.consts()["message_delimiter"]["i"]
    _state["reruns"] = 0
    for i, (c, o) in enumerate(zip(cases, obs)):
        want = py_model(c["maxlen"], bytes.fromhex(c["content"]), delim)
        if o["rc"] != 0 or strip_warn(c, bytes.fromhex(o["out"])) != want:
            o2 = one(c)
            _state["reruns"] += 1
            o["second_attempt_matches_model"] = bool(o2["rc"] == 0 and strip_warn(c, bytes.fromhex(o2["out"])) == want)
    env.stop_all()
    for c in cases:
        c.pop("_path", None)
    return obs


def judge(cases, obs, tier):
    oracle, model, errors = {}, {}, []
    delim = vf.consts()["message_delimiter"]["i"]
    terms, idx = [], []
    budget = 150000 if tier == "quick" else 3000000   # bytes of literal data handed to Coq
    used = 0
    for i, (c, o) in enumerate(zip(cases, obs)):
        content = bytes.fromhex(c["content"])
        got = bytes.fromhex(o["out"])
        want = spec(c["maxlen"], content)
        if o["rc"] != 0:
            oracle[i] = "exit status %d (stderr: %s)" % (o["rc"], o["err"])
        elif got != want:
            k = next((j for j in range(min(len(got), len(want))) if got[j] != want[j]), min(len(got), len(want)))
            oracle[i] = "output differs from the file content at byte %d: got %d bytes, expected %d; got[..]=%r expected[..]=%r" % (
                k, len(got), len(want), got[max(0, k - 8):k + 12], want[max(0, k - 8):k + 12])
        if o["rc"] != 0 and not got:
            continue
        lit = _literal_cost(content) + _literal_cost(got)
        if used + lit <= budget or i in oracle:
            used += lit
            cuts = "[]" if i % 3 else "[3; 1; 40; 7]"
            terms.append("(%s, %s, %s, %s, %s)" % (vf.cq_nat(c["maxlen"]), cuts, vf.cq_bytes(c["suffix"].encode()),
                                                   vf.cq_bytes(content), vf.cq_bytes(strip_warn(c, got))))
            idx.append(i)
    fails, errs = vf.coq_eval_sharded("From DT Require Import Lib.Bytes Model.C01_Cat.", terms, "cat_agree", per_shard=40, case_type="cat_case")
    errors += errs
    for f in fails:
        model[idx[f]] = "Coq model dcat_bytes differs from the implementation's stdout"
    _state["model_checked"] = len(idx)
    _state["delim"] = delim
    return {"oracle": oracle, "model": model, "errors": errors,
            "notes": ["%d case(s) differed from the modelled pipeline and were run a second time (both observations kept); %d cancelled reads were served by the same servers meanwhile" % (_state.get("reruns", 0), _state.get("disturbances", 0)),
                      "%d of %d cases also evaluated by the Coq model (literal budget %d bytes)" % (len(idx), len(cases), budget)]}


def _literal_cost(b):
    # bytes that end up as hex literal (long runs become brep)
    cost, i, n = 0, 0, len(b)
    while i < n:
        j = i
        while j < n and b[j] == b[i]:
            j += 1
        if j - i < 64:
            cost += j - i
        i = j
    return cost


# not anchored at a line start: with a delimiter byte in the content (the other recorded finding) a line arrives
# in several messages and the log record can be printed between two of them
WARN_RE = re.compile(rb"(?:SERVER|CLIENT)\|[^\n|]*\|WARN\|[^\n]*?\|(?:Long log line, splitting into multiple lines|Some lines remain unsent\|\d+)\n")


def strip_warn(case, out):
    """The 'Long log line' warning is a log record of its own (a whole SERVER frame over SSH, a
    CLIENT log line serverless), so it lands between output lines.  Log records are outside the
    Coq model; their presence in --plain output is a recorded finding."""
    return WARN_RE.sub(b"", out)


def classify(case, ob, detail):
    # a failure is a KNOWN finding only when it is exactly the modelled protocol defect: the
    # Coq model (which contains both defects) agreed with the implementation on this case is
    # checked by the driver through model_fail; here we name the class from the expected output.
    if ob["rc"] != 0:
        return None
    want = spec(case["maxlen"], bytes.fromhex(case["content"]))
    got = bytes.fromhex(ob["out"])
    stripped = strip_warn(case, got)
    # a failure is known only if it is exactly what the modelled defects produce
    if py_model(case["maxlen"], bytes.fromhex(case["content"]), _state.get("delim", 0xac)) != stripped:
        return None
    if stripped != got and stripped == want:
        return "long_line_warning_in_plain_output"
    cls = guard_class(want, _state.get("delim", 0xac))
    return cls


def py_model(maxlen, content, delim):
    """Client-side rendering of the expected text under the two known protocol defects."""
    text = spec(maxlen, content)
    out = bytearray()
    msg = bytearray()
    def flush():
        if not (len(msg) > 0 and msg[0] == 0x2e):
            out.extend(msg)
        msg.clear()
    for c in text:
        if c == 0x0a:
            msg.append(c); flush()
        elif c == delim:
            flush()
        else:
            msg.append(c)
    # unterminated last line arrives in its own frame
    flush()
    return bytes(out)


def nontrivial(c):
    b = bytes.fromhex(c["content"])
    return b.count(b"\n") >= 2 or len(b) > c["maxlen"] or any(x in b for x in (0xac, 0x2e))


def sample(c, o):
    b = bytes.fromhex(c["content"])
    return {"maxlen": c["maxlen"], "name": "f" + c["suffix"], "kind": c["kind"], "transport": c["transport"],
            "content_len": len(b), "content_head": b[:60].decode("latin1"),
            "stdout_len": len(bytes.fromhex(o["out"])) if o else None}


def shrink(case, ob, detail):
    """Greedy shrink on the content (drop lines, shorten lines) keeping the oracle failing."""
    env = _state.get("env") or srv.Env()
    if case["transport"] != "serverless" or case["kind"] != "plain":
        return case, ob, detail
    cfg = env.write_cfg("shrink.json", server={"MaxLineLength": case["maxlen"]})
    path = os.path.join(env.dir, "shrink" + case["suffix"])

    def fails(content):
        open(path, "wb").write(content)
        rc, out, err = env.client("dcat", ["--plain", "--files", path], cfg=cfg, timeout=20)
        return rc != 0 or out != spec(case["maxlen"], content), rc, out, err
    content = bytes.fromhex(case["content"])
    best = content
    improved = True
    rounds = 0
    import time as _t
    t_end = _t.time() + 30
    while improved and rounds < 30 and _t.time() < t_end:
        improved = False
        rounds += 1
        lines = best.split(b"\n")
        for i in range(len(lines)):
            if _t.time() > t_end:
                break
            cand = b"\n".join(lines[:i] + lines[i + 1:])
            if len(cand) < len(best) and fails(cand)[0]:
                best = cand; improved = True; break
        if improved:
            continue
        for i, l in enumerate(lines):
            if _t.time() > t_end:
                break
            if len(l) > 1:
                for cut in (l[:len(l) // 2], l[len(l) // 2:], l[1:], l[:-1]):
                    cand = b"\n".join(lines[:i] + [cut] + lines[i + 1:])
                    if fails(cand)[0]:
                        best = cand; improved = True; break
            if improved:
                break
    f, rc, out, err = fails(best)
    c2 = dict(case, content=best.hex())
    return c2, {"rc": rc, "out": out.hex(), "err": err[-300:].decode("latin1")}, \
        "shrunk: expected %r, got %r" % (spec(case["maxlen"], best)[:80], out[:80])
