# C02 — every selected line is delivered before the session closes, at any pace.
import os, re, subprocess, time
from concurrent.futures import ThreadPoolExecutor
from lib import vf, srv

ID = "C02"
PROP_FILE = "Props/C02.v"
CONSTS = ["chan_lines_cap", "chan_server_messages_cap", "truncated_cmp"]
EXTRA_BINS = ("dcat", "dgrep")
RULE = ("real ServerHandler sessions driven in-process by a paced consumer (the harness calls Read: fast, uniformly slow, one "
        "long stall placed after k reads) with 1-6 cat/grep commands, file sizes around 0,1,99,100,101,1000 selected lines, "
        "private cat limits 1-3 (queueing), 0-50 ms between commands; plus black-box dcat/dgrep runs (serverless and over SSH) "
        "into a throttled pipe reader; non-trivial = slow or stalled consumer, or >1 command; distinct by (sizes, pacing, mode)")
TRUSTED = ["Coq 8.16.1 kernel + VM", "Go scheduler / select / timers are environment events of the LTS",
           "Go harness dverif session (paced consumer, counter sampled through an add-only overlay accessor)",
           "harness/constgen (channel capacities)"]
ASSUMPTIONS = ["consumer pace is modelled as arbitrary delay of Read events; real-time values of the 5 s ack timeout are outside the model",
               "liveness ('the session then ends by itself') is observed by the correspondence runs, not proved",
               "commands of a session that arrive after the counter returned to 0 are the recorded finding (b)"]


def _mk_case(rng, fdir, idx, tier):
    ncmd = rng.choice([1, 1, 2, 2, 3, 4, 6])
    sizes = [rng.choice([0, 1, 2, 50, 99, 100, 101, 102, 250, 1000]) for _ in range(ncmd)]
    if rng.random() < 0.5 and ncmd > 1:
        sizes.sort(reverse=True)          # biggest first: later commands arrive while the first still reads
    grep = rng.random() < 0.4
    payloads, expect = [], []
    for k, n in enumerate(sizes):
        # (plain files whose names merely contain a compression suffix in the middle are plain files)
        path = os.path.join(fdir, "c%05d_f%d%s" % (idx, k, rng.choice([".log", ".log", ".log", ".gz.log", ".zst.txt", ".gzip.1", ".log.gz.old"])))
        lines = []
        sel = []
        for i in range(n):
            hit = (not grep) or (i % 3 != 1)
            lines.append("%s line %d of file %d %s" % ("HIT" if hit else "miss", i, k, "x" * rng.choice([0, 10, 200])))
            if hit:
                sel.append(i)
        with open(path, "w") as f:
            body = "".join(l + "\n" for l in lines)
            if lines and rng.random() < 0.3:
                body = body[:-1]          # last line without its newline
                _nonl.add(os.path.basename(path))
            f.write(body)
        if grep:
            # half of the grep sessions carry context options (the selected lines then are what the C03 specification says)
            b, a, m = rng.choice([(0, 0, 0), (0, 0, 0), (0, 2, 1), (1, 3, 2), (2, 0, 3), (0, 4, 0), (2, 2, 0), (0, 1, 3)])
            if (b, a, m) != (0, 0, 0):
                from props import c03
                hits = [(i % 3 != 1) for i in range(n)]
                sel = c03.py_spec(hits, b, a, m)
                opts = ":".join(x for x in ("before=%d" % b if b else "", "after=%d" % a if a else "", "max=%d" % m if m else "") if x)
                payloads.append(("grep:%s %s regex:default HIT" % (opts, path)).encode().hex())
            else:
                payloads.append(("grep: %s regex:default HIT" % path).encode().hex())
        else:
            payloads.append(("cat: %s regex:noop " % path).encode().hex())
        expect.append({"id": os.path.basename(path), "selected": sel, "lines": lines})
    if rng.random() < 0.25:
        # a path the glob returns but the permission check refuses: the session must still end
        bad = os.path.join(fdir, "c%05d_refused" % idx)
        kind = rng.choice(["dir", "dangling"])
        if kind == "dir":
            os.makedirs(bad, exist_ok=True)
        elif not os.path.lexists(bad):
            os.symlink("nowhere-%d" % idx, bad)
        payloads.insert(rng.randrange(len(payloads) + 1), ("cat: %s regex:noop " % bad).encode().hex())
        refused = True
    else:
        refused = False
    pace = rng.choice(["fast", "slow", "slow", "stall", "stall", "slowstall"])
    c = {"payloads": payloads, "cat_limit": rng.choice([1, 2, 3]), "private_limiter": True,
         "gap_ms": rng.choice([0, 0, 0, 2, 20, 50]), "read_delay_us": 0, "stall_after": 0, "stall_ms": 0,
         "_expect": expect, "_pace": pace, "_grep": grep, "_refused": refused}
    total = sum(len(e["selected"]) for e in expect)
    if pace in ("slow", "slowstall"):
        c["read_delay_us"] = rng.choice([100, 500, 2000 if total < 400 else 300])
    if pace in ("stall", "slowstall"):
        c["stall_after"] = rng.choice([1, 2, max(1, total // 2), max(1, total - 1), total, total + 1, total + 2])
        c["stall_ms"] = rng.choice([120, 150, 300, 600])
    c["wait_ms"] = int(20000 + total * c["read_delay_us"] / 1000 * 1.5 + c["stall_ms"] + c["gap_ms"] * len(payloads))
    return c


def generate(rng, tier):
    env = srv.Env()
    _state["env"] = env
    fdir = os.path.join(env.dir, "c02files")
    os.makedirs(fdir, exist_ok=True)
    cases = []
    n = 90 if tier == "quick" else 1500
    for i in range(n):
        cases.append(_mk_case(rng, fdir, i, tier))
    # a reader that needs more than 3 s for one file (the periodic truncation check fires while it is still reading)
    # whose last line has no trailing newline
    for j, (nl, delay) in enumerate([(700, 6000), (1200, 3500)]):
        path = os.path.join(fdir, "slow%d.log" % j)
        lines = ["HIT slow line %d %s" % (k, "s" * 40) for k in range(nl)]
        with open(path, "w") as f:
            f.write("\n".join(lines))          # no final newline
        _nonl.add(os.path.basename(path))
        cases.append({"payloads": [("cat: %s regex:noop " % path).encode().hex()], "cat_limit": 2, "private_limiter": True, "gap_ms": 0,
                      "read_delay_us": delay, "stall_after": 0, "stall_ms": 0, "wait_ms": 40000,
                      "_expect": [{"id": os.path.basename(path), "selected": list(range(nl)), "lines": lines}], "_pace": "slow", "_grep": False, "_refused": False})
    # black-box: the DESIGN.md probe (3000 x 1 KB lines into a reader taking 4 KiB per 5 ms)
    for tr in (["serverless", "server"] if tier == "quick" else ["serverless", "server"] * 4):
        cases.append({"blackbox": True, "transport": tr, "nlines": 3000, "linelen": 1000, "chunk": 4096, "sleep_ms": rng.choice([5, 8])})
    # a consumer that needs longer than the server's 5 s acknowledgement timeout for what is already in flight (SSH window)
    cases.append({"blackbox": True, "transport": "server", "nlines": 1500, "linelen": 1000, "chunk": 4096, "sleep_ms": 40})
    # a consumer that reads nothing for 7 s while about one stdout pipe (64 KiB) plus a line or two is outstanding
    for nl in ([63, 64, 65, 66, 67] if tier == "quick" else range(58, 72)):
        cases.append({"blackbox": True, "transport": "serverless", "nlines": nl, "linelen": 1024, "chunk": 65536, "sleep_ms": 0, "first_stall_s": 7})
    return cases


_state = {}
_nonl = set()
REC = re.compile(rb"^REMOTE\|([^|]*)\|\s*(\d+)\|(\d+)\|([^|]*)\|(.*)$", re.S)


import itertools
_bbseq = itertools.count()


def _blackbox(env, c, server):
    # one file per case: black-box cases run at the same time, and rewriting a file another dcat is reading
    # would look like lost lines
    path = os.path.join(env.dir, "bb_%s_%d.txt" % (c["transport"], next(_bbseq)))
    with open(path, "w") as f:
        for i in range(c["nlines"]):
            f.write("%07d %s\n" % (i, "y" * (c["linelen"] - 9)))
    cmd = [os.path.join(srv.BIN, "dcat"), "--cfg", "none", "--plain", "--files", path]
    if server:
        cmd += ["--servers", "127.0.0.1:%d" % server.port, "--trustAllHosts", "--key", env.key, "--user", "root"]
    p = subprocess.Popen(cmd, stdin=subprocess.DEVNULL, stdout=subprocess.PIPE, stderr=subprocess.PIPE, env=env.client_env(), cwd=env.dir)
    got = bytearray()
    t0 = time.time()
    # a client that never ends (or stops sending without ending) must not block the check: a watchdog kills it
    import threading
    timed_out = {"flag": False}

    def watchdog():
        while p.poll() is None:
            if time.time() - t0 > 60 + c.get("first_stall_s", 0):
                timed_out["flag"] = True
                p.kill()
                return
            time.sleep(0.5)
    threading.Thread(target=watchdog, daemon=True).start()
    if c.get("first_stall_s"):
        time.sleep(c["first_stall_s"])       # the consumer reads nothing at first (a pager, a stopped terminal)
    while True:
        b = p.stdout.read(c["chunk"])
        if not b:
            break
        got += b
        time.sleep(c["sleep_ms"] / 1000.0)
    rc = p.wait()
    if timed_out["flag"]:
        rc = -9
    nums = [int(l[:7]) for l in bytes(got).split(b"\n") if len(l) >= 7 and l[:7].isdigit()]
    return {"blackbox": True, "rc": rc, "nums_ok": nums == list(range(c["nlines"])), "nlines": len(nums),
            "first_missing": next((i for i, (a, b) in enumerate(zip(nums, range(c["nlines"]))) if a != b), len(nums)),
            "stderr": p.stderr.read()[-300:].decode("latin1")}


def run_impl(cases, tier):
    env = _state["env"]
    inproc = [i for i, c in enumerate(cases) if not c.get("blackbox")]
    send = [{k: v for k, v in cases[i].items() if not k.startswith("_")} for i in inproc]
    shards = min(vf.NCPU, max(1, len(send) // 6))
    chunks = [list(range(k, len(send), shards)) for k in range(shards)]
    res = [None] * len(send)

    def run(k):
        r, info = vf.harness("session", [send[j] for j in chunks[k]], env={"DVERIF_PAR": "8"}, timeout=1200)
        return k, r, info
    bb = [i for i, c in enumerate(cases) if c.get("blackbox")]
    server = env.start_server("bb") if any(cases[i]["transport"] == "server" for i in bb) else None
    if server:
        env.client("dcat", ["--plain", "--files", "/dev/null"], servers=[server], timeout=60)
    with ThreadPoolExecutor(shards + len(bb)) as ex:
        futs = [ex.submit(run, k) for k in range(shards)]
        bfuts = [ex.submit(_blackbox, env, cases[i], server if cases[i]["transport"] == "server" else None) for i in bb]
        for f in futs:
            k, r, info = f.result()
            for j, x in zip(chunks[k], r):
                res[j] = x if x is not None else {"lost": True, "stderr": info["stderr"][-500:]}
        bres = [f.result() for f in bfuts]
    env.stop_all()
    obs = [None] * len(cases)
    for i, r in zip(inproc, res):
        obs[i] = r
    for i, r in zip(bb, bres):
        obs[i] = r
    return obs


def _analyse(c, o):
    """per-command list of delivered selected-line ranks before the .syn; problems found"""
    exp = c["_expect"]
    by_id = {e["id"]: k for k, e in enumerate(exp)}
    per = [[] for _ in exp]
    problems = []
    syn_at = None
    frames = [bytes.fromhex(f) for f in (o.get("frames") or [])]
    for n, f in enumerate(frames):
        if f.startswith(b".syn close connection"):
            if syn_at is None:
                syn_at = n
            continue
        m = REC.match(f)
        if not m:
            if f.startswith(b"SERVER|") or f.startswith(b"."):
                continue
            problems.append("unparsable frame %r" % f[:60])
            continue
        sid, count, content = m.group(4).decode(), int(m.group(3)), m.group(5)
        if sid not in by_id:
            problems.append("record of unknown source %r" % sid)
            continue
        k = by_id[sid]
        e = exp[k]
        i = count - 1
        want_line = (e["lines"][i] if 0 <= i < len(e["lines"]) else "") + ("" if (sid in _nonl and i == len(e["lines"]) - 1) else "\n")
        if i < 0 or i >= len(e["lines"]) or content != want_line.encode():
            problems.append("record %s#%d does not carry line %d of that file" % (sid, count, i))
            continue
        if i not in e["selected"]:
            problems.append("unselected line %d of %s delivered" % (i, sid))
            continue
        if syn_at is not None:
            problems.append("line %d of %s delivered after the .syn" % (i, sid))
            continue
        per[k].append(e["selected"].index(i))
    return per, syn_at is not None, problems


def judge(cases, obs, tier):
    oracle, model, errors = {}, {}, []
    terms, idx = [], []
    for i, (c, o) in enumerate(zip(cases, obs)):
        if c.get("blackbox"):
            if o["rc"] != 0 or not o["nums_ok"]:
                oracle[i] = "dcat into a slow reader (%d B / %d ms, %s): %d of %d lines arrived in order (first deviation at %d), exit status %d" % (
                    c["chunk"], c["sleep_ms"], c["transport"], o["nlines"], c["nlines"], o["first_missing"], o["rc"])
            continue
        if o is None or o.get("lost"):
            errors.append("session result lost: %s" % (o,))
            continue
        per, syn, problems = _analyse(c, o)
        o["_late"] = bool(o.get("late_command"))
        want = [list(range(len(e["selected"]))) for e in c["_expect"]]
        if problems:
            oracle[i] = "; ".join(problems[:3])
        elif per != want:
            k = next(k for k in range(len(want)) if per[k] != want[k])
            oracle[i] = "command %d (%s): %d of %d selected lines delivered before the session closed%s" % (
                k, c["_expect"][k]["id"], len(per[k]), len(want[k]), "" if per[k] == want[k][:len(per[k])] else " (out of order / duplicated)")
        elif not syn or not o.get("closed"):
            oracle[i] = "session did not end by itself (syn=%s closed=%s)" % (syn, o.get("closed"))
        sizes = [len(e["selected"]) for e in c["_expect"]]
        terms.append("(%s, %s, %s, %s)" % (vf.cq_list([vf.cq_nat(s) for s in sizes]),
                                           vf.cq_list([vf.cq_list([str(x) for x in p]) for p in per]),
                                           vf.cq_bool(syn), vf.cq_bool(o["_late"])))
        idx.append(i)
    fails, errs = vf.coq_eval_sharded("From DT Require Import Lib.Bytes Model.C02_Session.", terms, "session_agree",
                                      per_shard=200, case_type="obs_case")
    errors += errs
    for f in fails:
        model[idx[f]] = "observed delivery is not a behaviour of the session model (prefix order / completeness at .syn)"
    return {"oracle": oracle, "model": model, "errors": errors}


def classify(case, ob, detail):
    if case.get("blackbox"):
        return None
    if not ob.get("late_command"):  # hook trace: no command was counted after shutdown() had been entered
        return None
    # known only if the failure is exactly what the late commands explain: every command counted before the
    # counter first returned to 0 is complete and in order, and nothing delivered is wrong
    per, syn, problems = _analyse(case, ob)
    if any("does not carry" in p or "unknown source" in p or "unselected" in p or "unparsable" in p for p in problems):
        return None
    k0 = ob.get("late_from", 0)
    # the payload list may contain a refused path (no expectation entry): map commands to expectations by order of file commands
    want = [list(range(len(e["selected"]))) for e in case["_expect"]]
    n_early = max(0, k0 - (1 if case.get("_refused") else 0))
    late_ids = set(os.path.basename(p) for p in ob.get("late_files") or [])
    for k, e in enumerate(case["_expect"]):
        # a command is early if it was counted before shutdown() was first entered and none of its files was still
        # on its way into / out of the limiter after that moment
        if k < n_early and e["id"] not in late_ids and per[k] != want[k]:
            return None
    return "command_received_after_counter_returned_to_zero"


def nontrivial(c):
    return c.get("blackbox") or len(c["payloads"]) > 1 or c["read_delay_us"] > 0 or c["stall_ms"] > 0


def sample(c, o):
    if c.get("blackbox"):
        return {"blackbox": c["transport"], "lines": c["nlines"], "reader": "%d B / %d ms" % (c["chunk"], c["sleep_ms"]), "arrived": (o or {}).get("nlines")}
    return {"sizes": [len(e["selected"]) for e in c["_expect"]], "grep": c["_grep"], "pace": c["_pace"], "read_delay_us": c["read_delay_us"],
            "stall_after": c["stall_after"], "stall_ms": c["stall_ms"], "gap_ms": c["gap_ms"], "cat_limit": c["cat_limit"],
            "frames": len((o or {}).get("frames") or []), "late_command": (o or {}).get("late_command")}
