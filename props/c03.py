# C03 — dgrep selects exactly the lines grep semantics prescribe.
import itertools, os
from concurrent.futures import ThreadPoolExecutor
from lib import vf, srv

ID = "C03"
PROP_FILE = "Props/C03.v"
CONSTS = ["truncated_cmp"]
EXTRA_BINS = ("dgrep",)
RULE = ("reader API (fs.NewCatFile.Start with regex.New->Serialize->Deserialize) and the real dgrep --plain CLI on generated "
        "files: lines from a word pool, RE2 patterns from a grammar (literals, anchors, classes, alternation, repetition, "
        "non-ASCII, trailing/leading blanks, the no-op patterns '', '.', '.*'), files with and without a final newline (the last line's "
        "verdict hanging on its last character), both polarities, before/after/max from "
        "-2..2*len+3; thorough adds the exhaustive sweep of all selection vectors of length <= 8 x before,after 0..3 x max "
        "0..4 x invert; non-trivial = at least one selected and one unselected line and a positive context option; "
        "distinct by (selection vector, options, pattern)")
TRUSTED = ["Coq 8.16.1 kernel + bytecode VM (vm_compute)", "Go regexp/RE2 (match verdicts are an oracle table)",
           "Go harness dverif grep; real dgrep binary", "Python oracle: independent statement of grep semantics"]
ASSUMPTIONS = ["a file is abstracted to its selected/unselected vector; RE2 itself is not modelled",
               "context option values stay below 2*len+4 (huge values are C10's subject)"]

WORDS = ["ERROR", "ERRORS=3", "error", "info", "WARN disk", "foo", "foobar", "bar", "x", "", "a b", "ERROR ", " lead",
         "café", "€ 12", "10.0.0.7", "GET /index.html 200", "GET /x 404", "tab\there", "[brackets]", "a.b", "a*b", "ERROR\r", "info\r", "x\r"]
PATTERNS = ["ERROR", "ERROR ", " ", "^\\d+:ERROR", "error|WARN", "(?i)error", "fo+", "foo(bar)?$", "\\d+\\.\\d+", "[A-Z]{4,}",
            "^\\d+:$", "café", "€", "\\bGET\\b.*404", "a\\.b", "a\\*b", "\\[", "x", ".", ".*", "", "..", "^", "$",
            "nomatchatall", "\\s$", "\t", "=3", "0:", "[^0-9:]", "ERROR$", "\\r$", "o$", "^\\d+:.$"]


def py_spec(sel, b, a, m):
    b, a, m = max(b, 0), max(a, 0), max(m, 0)
    n = len(sel)
    rank = [0] * (n + 1)
    for i in range(n):
        rank[i + 1] = rank[i] + (1 if sel[i] else 0)
    accepted = lambda j: m == 0 or rank[j] < m
    out = []
    for j in range(n):
        if sel[j]:
            ok = accepted(j)
        else:
            ok = False
            p = next((k for k in range(j - 1, -1, -1) if sel[k]), None)
            if p is not None and accepted(p) and j - p <= a:
                ok = True
            q = next((k for k in range(j + 1, n) if sel[k]), None)
            if q is not None and accepted(q) and q - j <= b:
                ok = True
        if ok:
            out.append(j)
    return out


def generate(rng, tier):
    cases = []
    # corpus: the DESIGN.md probe and the shapes the seeded changes need
    base = ["ERROR a", "info", "info", "ERROR b", "x", "y", "z", "ERROR c", "w", "ERROR d"]
    for (b, a, m, inv, pat) in [(1, 1, 2, False, "ERROR"), (2, 1, 1, False, "ERROR"), (3, 2, 2, True, "info"), (0, 0, 0, False, ""),
                                (0, 0, 0, True, "."), (0, 2, 1, False, "ERROR "), (1, 0, 0, False, " "), (2, 2, 3, False, "ERROR")]:
        cases.append({"lines": [l.encode().hex() for l in base], "pattern": pat.encode().hex(), "invert": inv,
                      "before": b, "after": a, "max": m, "via": "api"})
    n = 1500 if tier == "quick" else 12000
    for i in range(n):
        L = rng.choice([0, 1, 2, 3, 5, 8, 12, 20, 40]) if i % 50 else rng.choice([200, 400])
        pool = rng.sample(WORDS, rng.randint(1, 6))
        lines = [rng.choice(pool) for _ in range(L)]
        pat = rng.choice(PATTERNS)
        opt = lambda: rng.choice([0, 0, 1, 1, 2, 3, rng.randint(0, 2 * L + 3), -1, -2, L, L + 1])
        cases.append({"lines": [l.encode().hex() for l in lines], "pattern": pat.encode().hex(), "invert": rng.random() < 0.35,
                      "before": opt(), "after": opt(), "max": opt(), "via": "api", "nonl": rng.random() < 0.2})
    # all three options positive, more matches than max, gaps around the after/before distances
    for i in range(120 if tier == "quick" else 2000):
        m, a, b = rng.randint(1, 3), rng.randint(1, 3), rng.randint(1, 4)
        lines = []
        for h in range(m + rng.randint(1, 2)):
            lines += ["info"] * rng.randint(0, a + b + 3) + ["ERROR %d" % h]
        lines += ["info"] * rng.randint(0, a + 2)
        cases.append({"lines": [l.encode().hex() for l in lines], "pattern": b"ERROR".hex(), "invert": False,
                      "before": b, "after": a, "max": m, "via": "api" if i % 10 else "cli"})
    # files whose last line is not newline-terminated, the verdict of that line hanging on its last character
    import re as _re
    for i in range(80 if tier == "quick" else 1500):
        L = rng.choice([1, 1, 2, 3, 5])
        pool = [w for w in WORDS if w and b"\xac" not in w.encode()]
        lines = [rng.choice(pool) for _ in range(L)]
        last = lines[-1]
        pat = rng.choice([_re.escape(last[-1]) + "$", _re.escape(last) + "$", _re.escape(last[-1]), "[^0-9:]$", "^\\d+:.$" if len(last) == 1 else _re.escape(last[-2:]) + "$"])
        cases.append({"lines": [l.encode().hex() for l in lines], "pattern": pat.encode().hex(), "invert": rng.random() < 0.3,
                      "before": rng.choice([0, 0, 1, 2]), "after": rng.choice([0, 0, 1]), "max": rng.choice([0, 0, 1, 2]),
                      "via": "api" if i % 8 else "cli", "nonl": True})
    # white space inside the regex (runs of blanks, leading / trailing blanks, a TAB): the command line goes through the
    # client's encoding and the server's re-tokenisation
    ws_lines = ["a b", "a  b", "a   b", "a\tb", "foo", "foo ", " foo", "o b", "o  b", "x", ""]
    for i, pat in enumerate(["a  b", "a   b", "o ", " foo", "\t", "a\tb", "  ", "o  b", "foo $", "^ "] * (1 if tier == "quick" else 6)):
        lines = [rng.choice(ws_lines) for _ in range(rng.choice([6, 10]))] + ws_lines[:4]
        cases.append({"lines": [l.encode().hex() for l in lines], "pattern": pat.encode().hex(), "invert": i % 3 == 2,
                      "before": rng.choice([0, 0, 1]), "after": rng.choice([0, 0, 1]), "max": 0, "via": "cli"})
    # lines that are empty or consist of white space only (no index prefix: the lines are pairwise distinct)
    blank_lines = ["A1 start", "", "B2 ERROR", "   ", "C3", "\t", "D4 ERROR", " ", "E5 end"]
    for i, (pat, inv) in enumerate([(".*", False), (".", True), ("^$", False), ("[A-Z]", True), ("ERROR", False), ("^\\s*$", False), ("\\S", True)] * (1 if tier == "quick" else 4)):
        ls = blank_lines[:]
        if i >= 7:
            rng.shuffle(ls)
        cases.append({"lines": [l.encode().hex() for l in ls], "pattern": pat.encode().hex(), "invert": inv,
                      "before": rng.choice([0, 1, 2]), "after": rng.choice([0, 1, 2]), "max": rng.choice([0, 0, 2]), "via": "cli", "raw": True})
    # one glob matching several files: every file is filtered on its own (context and max per file)
    for i in range(6 if tier == "quick" else 60):
        parts = [rng.randint(1, 8) for _ in range(rng.choice([2, 3, 4]))]
        lines = [rng.choice(["ERROR x", "info", "info", "ERROR y", "z"]) for _ in range(sum(parts))]
        cases.append({"lines": [l.encode().hex() for l in lines], "pattern": b"ERROR".hex(), "invert": rng.random() < 0.2,
                      "before": rng.choice([0, 1, 2]), "after": rng.choice([0, 1]), "max": rng.choice([0, 1, 2]), "via": "cli", "glob": parts})
    ncli = 40 if tier == "quick" else 400
    for i in range(ncli):
        L = rng.choice([1, 3, 6, 10, 25])
        # the CLI path goes over the wire: bytes 0xAC (inside the euro sign) are C01's known finding
        pool = rng.sample([w for w in WORDS if b"\xac" not in w.encode() and "\r" not in w], rng.randint(2, 5))
        lines = [rng.choice(pool) for _ in range(L)]
        pat = rng.choice([p for p in PATTERNS if p not in ("", "€")])   # the CLI refuses an empty -regex
        cases.append({"lines": [l.encode().hex() for l in lines], "pattern": pat.encode().hex(), "invert": rng.random() < 0.35,
                      "before": rng.choice([0, 1, 2, 5]), "after": rng.choice([0, 1, 2, 5]), "max": rng.choice([0, 1, 2, 3]), "via": "cli", "nonl": rng.random() < 0.2})
    if tier == "thorough":
        for L in range(0, 9):
            for bits in itertools.product([True, False], repeat=L):
                lines = [("ERROR" if s else "info") for s in bits]
                for b in range(4):
                    for a in range(4):
                        for m in range(5):
                            cases.append({"lines": [l.encode().hex() for l in lines], "pattern": b"ERROR".hex(), "invert": (b + a + m) % 2 == 1 and False,
                                          "before": b, "after": a, "max": m, "via": "api"})
    return cases


def _cli(env, d, k, c):
    texts = ["%05d:%s" % (i, bytes.fromhex(l).decode()) for i, l in enumerate(c["lines"])]
    if c.get("raw"):
        texts = [bytes.fromhex(l).decode() for l in c["lines"]]       # distinct lines, some of them empty / white space only
    path = os.path.join(d, "g%05d.log" % k)
    if c.get("glob"):
        off = 0
        for j, n in enumerate(c["glob"]):
            with open(os.path.join(d, "g%05d_%d.part" % (k, j)), "wb") as f:
                f.write("".join(t + "\n" for t in texts[off:off + n]).encode())
            off += n
        path = os.path.join(d, "g%05d_*.part" % k)
    else:
        with open(path, "wb") as f:
            body = "".join(t + "\n" for t in texts)
            f.write((body[:-1] if c.get("nonl") and texts else body).encode())
    args = ["--plain", "--regex", bytes.fromhex(c["pattern"]).decode(), "--before", str(c["before"]), "--after", str(c["after"]),
            "--max", str(c["max"]), "--files", path]
    if c["invert"]:
        args.insert(1, "--invert")
    rc, out, err = env.client("dgrep", args, timeout=60)
    idx, bad = [], []
    parts = out.decode("utf-8", "replace").split("\n")      # (not splitlines(): a CR belongs to its line)
    if parts and parts[-1] == "" and not c.get("raw"):
        parts.pop()
    for line in (parts[:-1] if c.get("raw") else parts):
        try:
            n = texts.index(line) if c.get("raw") else int(line.split(":", 1)[0])
            if texts[n] != line:
                raise ValueError
            idx.append(n)
        except (ValueError, IndexError):
            bad.append(line[:80])
    return {"idx": idx, "nums": [j + 1 for j in idx], "rc": rc, "bad": bad, "cli": True}


def run_impl(cases, tier):
    api = [i for i, c in enumerate(cases) if c["via"] == "api"]
    res, infos = vf.harness_parallel("grep", [cases[i] for i in api])
    obs = [None] * len(cases)
    for i, r in zip(api, res):
        obs[i] = r
    cli = [i for i, c in enumerate(cases) if c["via"] == "cli"]
    if cli:
        env = srv.Env()
        d = os.path.join(env.dir, "grepfiles")
        os.makedirs(d, exist_ok=True)
        with ThreadPoolExecutor(vf.NCPU) as ex:
            outs = list(ex.map(lambda i: _cli(env, d, i, cases[i]), cli))
        # verdicts for CLI cases come from the API harness' regexp table (same lines, same pattern)
        vr, _ = vf.harness_parallel("grep", [dict(cases[i], before=0, after=0, max=0, invert=False) for i in cli])
        for i, o, v in zip(cli, outs, vr):
            o["verdicts"] = (v or {}).get("verdicts")
            if cases[i].get("raw"):
                # (the API harness prefixes every line with its index; the raw lines are judged by Python's re - only
                # patterns on which re and RE2 trivially agree are used for these cases)
                import re as _re2
                pat = bytes.fromhex(cases[i]["pattern"]).decode()
                o["verdicts"] = [_re2.search(pat, bytes.fromhex(l).decode()) is not None for l in cases[i]["lines"]]
                v = None
            if v and "skip" in v:
                o["skip"] = v["skip"]
            obs[i] = o
    return obs


NOOP = {b"", b".", b".*"}


def _sel(c, o):
    pat = bytes.fromhex(c["pattern"])
    if pat in NOOP:
        return [True] * len(c["lines"])
    return [v != c["invert"] for v in o["verdicts"]]


def judge(cases, obs, tier):
    oracle, model, errors = {}, {}, []
    terms, idx = [], []
    for i, (c, o) in enumerate(zip(cases, obs)):
        if o is None or "panic" in o or "error" in o:
            oracle[i] = "implementation failed: %s" % (o,)
            continue
        if "skip" in o or o.get("verdicts") is None:
            continue
        sel = _sel(c, o)
        want = py_spec(sel, c["before"], c["after"], c["max"])
        if c.get("glob"):
            want, off = [], 0
            for n in c["glob"]:
                want += [off + j for j in py_spec(sel[off:off + n], c["before"], c["after"], c["max"])]
                off += n
            if o.get("bad"):
                oracle[i] = "output contains lines that are not lines of the files: %s" % o["bad"][:2]
            elif sorted(o["idx"]) != want:
                oracle[i] = "glob over %d files: selected lines %s, grep semantics per file prescribe %s (before=%d after=%d max=%d)" % (
                    len(c["glob"]), sorted(o["idx"])[:40], want[:40], c["before"], c["after"], c["max"])
            elif o["rc"] != 0:
                oracle[i] = "dgrep exit status %d" % o["rc"]
            continue
        if o.get("bad"):
            oracle[i] = "output contains lines that are not lines of the file: %s" % o["bad"][:2]
        elif o["idx"] != want:
            oracle[i] = "selected lines %s, grep semantics prescribe %s (selection vector %s, before=%d after=%d max=%d)" % (
                o["idx"][:40], want[:40], "".join("X" if s else "." for s in sel)[:80], c["before"], c["after"], c["max"])
        elif o["nums"] != [j + 1 for j in o["idx"]]:
            oracle[i] = "running numbers %s do not match the lines' positions %s" % (o["nums"][:20], o["idx"][:20])
        elif o.get("cli") and o["rc"] != 0:
            oracle[i] = "dgrep exit status %d" % o["rc"]
        terms.append("(%s, %s, %s, %s, %s, %s, %s, %s)" % (
            vf.cq_z(c["before"]), vf.cq_z(c["after"]), vf.cq_z(c["max"]), vf.cq_bytes(bytes.fromhex(c["pattern"])),
            vf.cq_bool(c["invert"]), vf.cq_list([vf.cq_bool(v) for v in o["verdicts"]]),
            vf.cq_list([str(j) for j in o["idx"]]), vf.cq_list([str(j) for j in o["nums"]])))
        idx.append(i)
    fails, errs = vf.coq_eval_sharded("From DT Require Import Lib.Bytes Model.C03_Grep.", terms, "grep_agree", per_shard=500, case_type="grep_case")
    errors += errs
    for f in fails:
        model[idx[f]] = "Coq state-machine model grep_recs differs from the implementation (indices or running numbers)"
    return {"oracle": oracle, "model": model, "errors": errors}


def nontrivial(c):
    return len(set(c["lines"])) >= 2 and (c["before"] > 0 or c["after"] > 0 or c["max"] > 0)


def sample(c, o):
    return {"lines": [bytes.fromhex(l).decode() for l in c["lines"][:12]], "pattern": bytes.fromhex(c["pattern"]).decode(),
            "invert": c["invert"], "before": c["before"], "after": c["after"], "max": c["max"], "via": c["via"],
            "observed_idx": (o or {}).get("idx", [])[:20]}


def extra_coverage(cases, obs):
    return {"api_cases": sum(1 for c in cases if c["via"] == "api"), "cli_cases": sum(1 for c in cases if c["via"] == "cli"),
            "exhaustive": False}
