# C04 — following a file delivers every appended line once, in order.
import os, signal, subprocess, time
from lib import vf, srv

ID = "C04"
PROP_FILE = "Props/C04.v"
CONSTS = ["stats_ring_matched", "stats_ring_transmitted", "chan_raw_lines_cap", "default_max_line_length"]
EXTRA_BINS = ("dtail",)
ALLOWED_AXIOMS = ["PrimInt63.sub", "PrimFloat.of_uint63", "PrimInt63.lsl", "PrimInt63.lor", "PrimFloat.leb", "PrimInt63.int",
                  "PrimFloat.float", "PrimFloat.div", "PrimInt63.add", "PrimInt63.land", "PrimInt63.lsr", "PrimInt63.eqb",
                  "PrimInt63.ltb", "PrimInt63.leb", "PrimFloat.ltb", "PrimFloat.eqb", "PrimFloat.mul"]
RULE = ("fs.NewTailFile(...).Start on a temp file with a delivery queue of capacity 1/2/3/100. Scripted histories: pre-existing content "
        "(with and without an unterminated last line), appended lines from a word pool (multi-byte UTF-8, empty, blank, CR, 300-byte "
        "lines), cut into write(2) calls at arbitrary byte positions (inside lines and inside multi-byte characters, single bytes), "
        "the harness waits after each write until the reader's descriptor offset (/proc/self/fdinfo) equals the file size, consumer "
        "receives scripted numbers of lines in between; with and without a filter regex (and inverted); window histories around the "
        "100-line statistics ring (a drop followed by 97..101 unmatched lines; 250-line runs with periodic drops); MaxLineLength=16 "
        "batch for the long-line split. Free-running histories: writer and consumer on their own clocks (delays 0..120 ms), drops "
        "inferred from the observation (trace inclusion). The percentage function is compared on all pairs 0<=t<=m<=100. End to end: "
        "real dtail client against an in-process server, positions read from /proc/<server>/fdinfo. non-trivial = at least 3 raw "
        "lines and a write boundary strictly inside a line; distinct by the whole history")
TRUSTED = ["Coq 8.16.1 kernel + bytecode VM (vm_compute), including the kernel's primitive 63-bit integers and binary64 floats "
           "(PrimFloat.div / leb / of_uint63: used to evaluate percentOf exactly as the Go code does)",
           "Go regexp/RE2 (match verdicts are an oracle table)", "Go harness dverif tail / perc; real dtail binary and in-process server",
           "Python oracle: independent line splitter and queue simulation", "Linux /proc fdinfo offsets as the quiescence signal"]
ASSUMPTIONS = ["truncation / rotation of the followed file is outside the quantifier", "the reader's 100 ms poll and goroutine scheduling are "
               "environment events; scripted histories observe at quiescence (offset == size, queue length stable)",
               "the rawLines channel (capacity 100) only blocks the reader; modelled as unbounded (more schedules, not fewer)",
               "a write(2) of a chunk becomes visible atomically to the reader or in pieces - both are read boundaries the theorem covers"]

RING = 100
WORDS = [b"ERROR disk full", b"info ok", "café au lait".encode(), "€ 12,50".encode(), b"#comment", b"", b" ", b"x" * 300,
         "日本語ログ".encode(), "emoji \U0001F600 end".encode(), b"tab\tsep", b"cr\rinside", b"a|b|c", b"ERROR", b"#", b"keep me",
         b"M line", b"u line"]
PATTERNS = [None, None, None, (b"ERROR|caf\xc3\xa9", False), (b"^[^#]", False), (b"^$", False), (b"ERROR", True), (b"^M", False), (b"keep|info", False),
            (b"\xe6\x97\xa5|\xf0\x9f\x98\x80", False), (b"ok ", False), (b" ERROR", False), (b"me ", True), (b" ", False)]     # (blanks at the ends count)


def py_raw_lines(data, maxlen):
    out, cur = [], bytearray()
    for b in data:
        cur.append(b)
        if b == 10:
            out.append(bytes(cur)); cur = bytearray()
        elif len(cur) >= maxlen:
            cur.append(10); out.append(bytes(cur)); cur = bytearray()
    return out, bytes(cur)


def chomp(l):
    return l[:-1] if l.endswith(b"\n") else l


def cut(rng, data, k, single=False):
    if single:
        return [data[i:i + 1] for i in range(len(data))]
    if len(data) < 2 or k <= 1:
        return [data] if data else []
    pts = sorted(set(rng.randrange(1, len(data)) for _ in range(k - 1)))
    pts = [0] + pts + [len(data)]
    return [data[a:b] for a, b in zip(pts, pts[1:])]


def mk(pre, cap, pat, events, mode="scripted", maxlen=None, **kw):
    c = {"pre": pre.hex(), "cap": cap, "pattern": pat[0].hex() if pat else "", "invert": bool(pat and pat[1]), "events": events, "mode": mode}
    if maxlen:
        c["_maxlen"] = maxlen
    c.update(kw)
    data = b"".join(bytes.fromhex(e["w"]) for e in events if "w" in e)
    raws, _ = py_raw_lines(data, maxlen or (1 << 20))
    c["probe"] = sorted(set(chomp(r).hex() for r in raws))
    return c


def window_case(k, cap=1):
    ev = [{"w": b"M first\n".hex()}, {"w": b"M dropped\n".hex()}, {"w": (b"u\n" * k).hex()}, {"c": 1}, {"w": b"M later\n".hex()}, {"c": 1}]
    return mk(b"old\n", cap, (b"^M", False), ev)


def generate(rng, tier):
    cases = []
    # corpus
    cases.append(mk(b"old line\nold par", 1, (b"^[^#]", False),
                    [{"w": b"tial\nse".hex()}, {"w": b"cond\n#c\nthird\nfou".hex()}, {"c": 2}, {"w": b"rth\n".hex()}]))
    cases.append(mk(b"", 100, None, [{"w": "€".encode()[:1].hex()}, {"w": "€".encode()[1:2].hex()}, {"w": ("€".encode()[2:] + b" euro\nnext").hex()}, {"c": 5}]))
    for k in (0, 50, 97, 98, 99, 100, 101, 150):
        cases.append(window_case(k))
    # long runs around the ring: everything matches, queue of 2, the consumer takes 1 after every 3 lines
    for period, cap in ((3, 2), (7, 1), (40, 3)):
        ev = []
        for i in range(250):
            ev.append({"w": (b"L%03d\n" % i).hex()})
            if i % period == period - 1:
                ev.append({"c": 1})
        cases.append(mk(b"", cap, None, ev, settle=8))
    n = 140 if tier == "quick" else 2500
    for i in range(n):
        nl = rng.choice([0, 1, 3, 8, 20, 45])
        pool = rng.sample(WORDS, rng.randint(1, 6))
        data = b"".join(rng.choice(pool) + b"\n" for _ in range(nl))
        if rng.random() < 0.5:
            data += rng.choice([b"partial", "unfinished €".encode()[:-1], b"p"])
        single = len(data) <= 30 and rng.random() < 0.3
        chunks = cut(rng, data, rng.choice([1, 2, 3, 5, 8]), single)
        cap = rng.choice([1, 2, 3, 100])
        ev = []
        for ch in chunks:
            ev.append({"w": ch.hex()})
            if rng.random() < 0.5:
                ev.append({"c": rng.randint(0, 3)})
        ev.append({"c": rng.randint(0, 4)})
        pre = rng.choice([b"", b"old\n", b"old line\nold partial", "alt € line\n".encode(), b"\n"])
        cases.append(mk(pre, cap, rng.choice(PATTERNS), ev))
    # long-line split batch
    nm = 25 if tier == "quick" else 300
    for i in range(nm):
        pool = [b"short", b"exactly16bytes!!", b"seventeen bytes!!", b"x" * 40, b"", b"fifteen bytes!!", "€€€€€€".encode()]
        data = b"".join(rng.choice(pool) + b"\n" for _ in range(rng.choice([1, 3, 6])))
        if rng.random() < 0.4:
            data += b"y" * rng.choice([3, 15, 16, 17, 33])
        ev = [{"w": ch.hex()} for ch in cut(rng, data, rng.choice([1, 2, 4]))] + [{"c": 50}]
        cases.append(mk(rng.choice([b"", b"0123456789abcdefXYZ"]), 100, None, ev, maxlen=16))
    # free-running
    nf = 40 if tier == "quick" else 600
    for i in range(nf):
        nl = rng.choice([5, 30, 120, 400])
        pool = rng.sample(WORDS, rng.randint(1, 5))
        data = b"".join(rng.choice(pool) + b"\n" for _ in range(nl))
        chunks = cut(rng, data, rng.choice([1, 3, 10, 40]))
        ev = [{"w": ch.hex(), "delay": rng.choice([0, 0, 50, 500, 3000, 120000])} for ch in chunks]
        cases.append(mk(rng.choice([b"", b"old\nold part"]), rng.choice([1, 2, 100]), rng.choice(PATTERNS), ev, mode="free",
                        consume_d=rng.choice([0, 200, 5000, 30000])))
    cases.append({"perc": RING})
    for v in range(3 if tier == "quick" else 6):
        cases.append({"e2e": v})       # v % 4 == 2: the file is followed through a symbolic link, for longer than the 3 s truncation check
    cases.append({"e2e_glob": 3})      # one tail command whose glob matches three files
    return cases


def _server_pos(pid, path):
    try:
        for fd in os.listdir("/proc/%d/fd" % pid):
            try:
                if os.readlink("/proc/%d/fd/%s" % (pid, fd)) == path:
                    info = open("/proc/%d/fdinfo/%s" % (pid, fd)).read()
                    return int(info.split("pos:")[1].split()[0])
            except OSError:
                continue
    except OSError:
        pass
    return None


def _wait(pred, timeout):
    t0 = time.time()
    while time.time() - t0 < timeout:
        if pred():
            return True
        time.sleep(0.01)
    return False


# (no byte 0xAC and no leading dot in the end-to-end texts: those are C01's recorded wire-protocol findings)
E2E_LINES = [b"first appended line", "café über \U0001F600".encode(), b"", b"keep this one", b"x" * 5000, b"the last one"]


def e2e_lines(v):
    if v % 4 == 2:      # the long run through a symbolic link: one line every 0.2 s for about nine seconds
        return E2E_LINES[:-1] + [b"slow line %02d keep" % k for k in range(40)] + E2E_LINES[-1:]
    return E2E_LINES


def _e2e(v):
    env = srv.Env(os.path.join(vf.scratch(), "c04env%d" % v))
    s = env.start_server("t%d" % v, hostname="tailhost%d" % v)
    path = os.path.realpath(os.path.join(env.dir, "follow%d.log" % v))
    pre = b"PRE-EXISTING line\nPRE partial "
    open(path, "wb").write(pre)
    outp = os.path.join(env.dir, "client%d.out" % v)
    via_link = v % 4 == 2
    followed = path
    if via_link:
        followed = os.path.join(os.path.dirname(path), "follow%d.lnk" % v)
        if not os.path.lexists(followed):
            os.symlink(os.path.basename(path), followed)
    cmd = [os.path.join(srv.BIN, "dtail"), "--cfg", "none", "--noColor", "--servers", "127.0.0.1:%d" % s.port, "--trustAllHosts",
           "--key", env.key, "--user", "root", "--files", followed]
    regex = v % 2 == 1
    if regex:
        cmd += ["--regex", "keep|last"]
    of = open(outp, "wb")
    p = subprocess.Popen(cmd, stdin=subprocess.DEVNULL, stdout=of, stderr=subprocess.STDOUT, env=env.client_env(), cwd=env.dir)
    res = {"e2e": v, "regex": regex}
    try:
        if not _wait(lambda: _server_pos(s.proc.pid, path) == len(pre), 20):
            res["error"] = "server did not open and position the file"
            return res
        data = b"".join(l + b"\n" for l in e2e_lines(v)) + b"unfinished"
        import random
        rng = random.Random(v)
        size = len(pre)
        pieces = cut(rng, data, 4 + v) if not via_link else [l + b"\n" for l in e2e_lines(v)] + [b"unfinished"]
        for n, ch in enumerate(pieces):
            with open(path, "ab") as f:
                f.write(ch)
            size += len(ch)
            time.sleep(0.2 if via_link else rng.choice([0, 0.02, 0.15]))     # (via the link: the reader keeps reaching end of file
                                                                             # while the periodic truncation check comes round)
        if not _wait(lambda: _server_pos(s.proc.pid, path) == size, 20):
            res["error"] = "server did not catch up"
            return res
        want = len([l for l in e2e_lines(v) if (not regex) or b"keep" in l or b"last" in l])
        _wait(lambda: open(outp, "rb").read().count(b"REMOTE|") >= want, 5)
        time.sleep(0.3)
    finally:
        p.send_signal(signal.SIGTERM)
        try:
            p.wait(5)
        except subprocess.TimeoutExpired:
            p.kill(); p.wait()
        of.close()
        env.stop_all()
    out = open(outp, "rb").read()
    recs = []
    for l in out.split(b"\n"):
        if l.startswith(b"REMOTE|"):
            f = l.split(b"|", 5)
            if len(f) == 6:
                recs.append([f[1].decode(), f[2].decode().strip(), f[3].decode(), f[4].decode(), f[5].hex()])
    res["recs"] = recs
    res["pre_seen"] = b"PRE" in out
    res["unfinished_seen"] = b"unfinished" in out
    return res


def _e2e_glob(k):
    """One dtail command whose file argument is a glob matching k files: every line appended to each of them after the follow
    began is printed exactly once (in the file's order), nothing that was there before, nothing unterminated."""
    env = srv.Env(os.path.join(vf.scratch(), "c04envg"))
    s = env.start_server("tg", hostname="tailhostg")
    d = os.path.realpath(env.dir)
    paths = [os.path.join(d, "globfollow_%s.log" % chr(97 + j)) for j in range(k)]
    pre = b"PRE-EXISTING line\nPRE partial "
    for pth in paths:
        open(pth, "wb").write(pre)
    outp = os.path.join(env.dir, "clientg.out")
    cmd = [os.path.join(srv.BIN, "dtail"), "--cfg", "none", "--noColor", "--servers", "127.0.0.1:%d" % s.port, "--trustAllHosts",
           "--key", env.key, "--user", "root", "--files", os.path.join(d, "globfollow_*.log")]
    of = open(outp, "wb")
    p = subprocess.Popen(cmd, stdin=subprocess.DEVNULL, stdout=of, stderr=subprocess.STDOUT, env=env.client_env(), cwd=env.dir)
    res = {"e2e_glob": k}
    want = {j: [b"file %s appended line %02d" % (chr(97 + j).encode(), n) for n in range(6 + j)] for j in range(k)}
    try:
        if not _wait(lambda: all(_server_pos(s.proc.pid, pth) == len(pre) for pth in paths), 20):
            res["error"] = "server did not open and position every file of the glob"
            return res
        size = {j: len(pre) for j in range(k)}
        for n in range(max(len(v) for v in want.values())):
            for j in range(k):
                if n < len(want[j]):
                    with open(paths[j], "ab") as f:
                        f.write(b"\n" + want[j][n] + b"\n" if n == 0 else want[j][n] + b"\n")   # (n == 0 ends the pre-existing partial line)
                    size[j] += len(want[j][n]) + (2 if n == 0 else 1)
            time.sleep(0.05)
        for j in range(k):
            with open(paths[j], "ab") as f:
                f.write(b"unfinished")
            size[j] += 10
        if not _wait(lambda: all(_server_pos(s.proc.pid, paths[j]) == size[j] for j in range(k)), 20):
            res["error"] = "server did not catch up"
            return res
        total = sum(len(v) for v in want.values()) + k
        _wait(lambda: open(outp, "rb").read().count(b"REMOTE|") >= total, 5)
        time.sleep(0.3)
    finally:
        p.send_signal(signal.SIGTERM)
        try:
            p.wait(5)
        except subprocess.TimeoutExpired:
            p.kill(); p.wait()
        of.close()
        env.stop_all()
    out = open(outp, "rb").read()
    res["texts"] = [l.split(b"|", 5)[5].hex() for l in out.split(b"\n") if l.startswith(b"REMOTE|") and len(l.split(b"|", 5)) == 6]
    res["want"] = {str(j): [t.hex() for t in v] for j, v in want.items()}
    res["unfinished_seen"] = b"unfinished" in out
    res["pre_seen"] = b"PRE-EXISTING" in out
    return res


def run_impl(cases, tier):
    obs = [None] * len(cases)
    for maxlen in (None, 16):
        idx = [i for i, c in enumerate(cases) if "mode" in c and c.get("_maxlen") == maxlen]
        if not idx:
            continue
        send = [{k: v for k, v in cases[i].items() if not k.startswith("_")} for i in idx]
        env = {"DVERIF_PAR": "8"}
        if maxlen:
            env["DVERIF_MAXLEN"] = str(maxlen)
        res, info = vf.harness_parallel("tail", send, shards=vf.NCPU, env=env, timeout=1800)
        for i, r in zip(idx, res):
            obs[i] = r
    # a history whose observation may have been taken before quiescence is repeated alone with a long settle time
    for i, c in enumerate(cases):
        if "perc" in c:
            r, _ = vf.harness("perc", [{"n": c["perc"]}])
            obs[i] = r[0]
        elif "e2e" in c:
            obs[i] = _e2e(c["e2e"])
        elif "e2e_glob" in c:
            obs[i] = _e2e_glob(c["e2e_glob"])
    return obs


def _rerun_alone(c):
    send = {k: v for k, v in c.items() if not k.startswith("_")}
    send["settle"] = 120
    env = {"DVERIF_MAXLEN": str(c["_maxlen"])} if c.get("_maxlen") else None
    r, _ = vf.harness("tail", [send], env=env, timeout=600)
    return r[0]


def simulate(c, o):
    """Independent queue simulation of a scripted history: expected (got, queued) as lists of (text, n), the drop list."""
    maxlen = c.get("_maxlen") or (1 << 20)
    verd = dict(zip(c["probe"], o["verdicts"]))
    data, nraw, queue, got, drops, flags = b"", 0, [], [], [], []
    for ev in c["events"]:
        if "w" in ev:
            data += bytes.fromhex(ev["w"])
            raws, _ = py_raw_lines(data, maxlen)
            for r in raws[nraw:]:
                nraw += 1
                m = verd[chomp(r).hex()]
                if m and len(queue) >= c["cap"]:
                    drops.append(nraw); flags.append((True, True))
                elif m:
                    queue.append((r, nraw)); flags.append((True, False))
                else:
                    flags.append((False, len(queue) >= c["cap"]))
        elif "c" in ev:
            for _ in range(ev["c"]):
                if queue:
                    got.append(queue.pop(0))
    return got, queue, drops, flags


def perc_rule(delivered, drops):
    """delivered: list of (n, p) in order; returns (genuine, forgotten) lists of delivered numbers that report 100 although a line
    was dropped since the previous delivered line: within the ring window / beyond it."""
    genuine, forgotten = [], []
    prev = 0
    for n, p in delivered:
        since = [d for d in drops if prev < d < n]
        if since and p >= 100:
            (genuine if n - max(since) < RING else forgotten).append(n)
        prev = n
    return genuine, forgotten


def judge(cases, obs, tier):
    oracle, model, errors, notes = {}, {}, [], []
    sterms, sidx, fterms, fidx, pterms, pidx = [], [], [], [], [], []
    reruns = 0
    for i, c in enumerate(cases):
        o = obs[i]
        if o is None or "panic" in o or "error" in o:
            oracle[i] = "implementation failed: %s" % (str(o)[:300],)
            continue
        if "skip" in o:
            continue
        if "perc" in c:
            pterms.append("(%d, %s)" % (c["perc"], vf.cq_list([vf.cq_list([vf.cq_z(x) for x in row]) for row in o["table"]])))
            pidx.append(i)
            bad = [(m, t, row[t]) for m, row in enumerate(o["table"]) for t in range(m) if row[t] >= 100]
            if bad:
                oracle[i] = "transmittedPerc reports %d for matched=%d transmitted=%d" % (bad[0][2], bad[0][0], bad[0][1])
            continue
        if "e2e_glob" in c:
            texts = [bytes.fromhex(t) for t in o.get("texts", [])]
            if o.get("error"):
                errors.append("glob follow: %s" % o["error"])
            elif o["pre_seen"]:
                oracle[i] = "dtail printed content that was in a file before the follow began"
            elif o["unfinished_seen"]:
                oracle[i] = "dtail printed an unterminated last line"
            else:
                for j, w in sorted(o["want"].items()):
                    w = [bytes.fromhex(t) for t in w]
                    # the first appended piece ends the line that was partial when the follow began: that line (its tail) is delivered too
                    got = [t for t in texts if t.startswith(w[0][:6])]
                    if got != w:
                        oracle[i] = "one tail command, glob matching %d files: file %s got lines appended %r, dtail delivered %r" % (
                            len(o["want"]), j, [t[-7:] for t in w], [t[-7:] for t in got])
                        break
            continue
        if "e2e" in c:
            lines = [l for l in e2e_lines(c["e2e"]) if (not o["regex"]) or b"keep" in l or b"last" in l]
            nums = [k + 1 for k, l in enumerate(e2e_lines(c["e2e"])) if (not o["regex"]) or b"keep" in l or b"last" in l]
            texts = [bytes.fromhex(r[4]) for r in o["recs"]]
            if o["pre_seen"]:
                oracle[i] = "dtail printed content that was in the file before the follow began"
            elif o["unfinished_seen"]:
                oracle[i] = "dtail printed the unterminated last line"
            elif texts != lines:
                oracle[i] = "dtail output lines %r, appended complete lines %r" % ([t[:30] for t in texts], [t[:30] for t in lines])
            elif [int(r[2]) for r in o["recs"]] != nums or any(r[1] != "100" for r in o["recs"]) or any(r[0] != "tailhost%d" % c["e2e"] for r in o["recs"]):
                oracle[i] = "labels of the delivered lines: %r" % [r[:4] for r in o["recs"]]
            continue
        maxlen = c.get("_maxlen") or (1 << 20)
        if o.get("maxlen") != maxlen:
            errors.append("harness ran with MaxLineLength %s, wanted %s" % (o.get("maxlen"), maxlen))
            continue
        if c["mode"] == "scripted":
            egot, equeue, drops, flags = simulate(c, o)
            same = lambda oo: ([(bytes.fromhex(l["t"]), l["n"]) for l in oo["got"]] == egot and
                               [(bytes.fromhex(l["t"]), l["n"]) for l in oo["queued"]] == equeue)
            if not same(o) and reruns < 12:
                reruns += 1
                o2 = _rerun_alone(c)
                if o2 and "got" in o2:
                    o = obs[i] = o2
                    egot, equeue, drops, flags = simulate(c, o)
            ogot = [(bytes.fromhex(l["t"]), l["n"]) for l in o["got"]]
            oqueue = [(bytes.fromhex(l["t"]), l["n"]) for l in o["queued"]]
            if ogot != egot or oqueue != equeue:
                oracle[i] = "consumer received %r then queue %r; the appended complete lines that match and found room are %r then %r" % (
                    [(t[:20], n) for t, n in ogot][:8], [(t[:20], n) for t, n in oqueue][:4], [(t[:20], n) for t, n in egot][:8], [(t[:20], n) for t, n in equeue][:4])
            else:
                delivered = [(l["n"], l["p"]) for l in o["got"] + o["queued"]]
                genuine, forgotten = perc_rule(delivered, drops)
                if genuine:
                    oracle[i] = "line %d reports 100%% although line(s) %s were dropped less than %d lines before it" % (
                        genuine[0], [d for d in drops if d < genuine[0]][-3:], RING)
                elif forgotten:
                    oracle[i] = "perc-window: line %d is the next delivered line after dropped line(s) %s and reports 100%%" % (
                        forgotten[0], [d for d in drops if d < forgotten[0]][-3:])
            tbl = vf.cq_list(["(%s, %s)" % (vf.cq_bytes(bytes.fromhex(p)), vf.cq_bool(v)) for p, v in zip(c["probe"], o["verdicts"])])
            script = vf.cq_list([("SWrite %s" % vf.cq_bytes(bytes.fromhex(e["w"]))) if "w" in e else ("SConsume %d" % e["c"]) for e in c["events"]])
            lo = lambda ls: vf.cq_list(["(%s, %s, %s)" % (vf.cq_bytes(bytes.fromhex(l["t"])), vf.cq_z(l["n"]), vf.cq_z(l["p"])) for l in ls])
            sterms.append("((%s, %d, %s, %s, %s), (%s, %s))" % (vf.cq_nat(maxlen), c["cap"], vf.cq_bytes(bytes.fromhex(c["pre"])), tbl, script, lo(o["got"]), lo(o["queued"])))
            sidx.append(i)
        else:
            data = b"".join(bytes.fromhex(e["w"]) for e in c["events"] if "w" in e)
            raws, _ = py_raw_lines(data, maxlen)
            verd = dict(zip(c["probe"], o["verdicts"]))
            matched = [verd[chomp(r).hex()] for r in raws]
            dl = o["got"] + o["queued"]
            nums = [l["n"] for l in dl]
            problem = None
            if nums != sorted(set(nums)):
                problem = "delivered line numbers are not strictly increasing: %s" % nums[:20]
            else:
                for l in dl:
                    if not (1 <= l["n"] <= len(raws)) or bytes.fromhex(l["t"]) != raws[l["n"] - 1]:
                        problem = "delivered line number %d with text %r is not that appended line" % (l["n"], bytes.fromhex(l["t"])[:40]); break
                    if not matched[l["n"] - 1]:
                        problem = "line %d does not match the filter but was delivered" % l["n"]; break
            drops = [k + 1 for k, m in enumerate(matched) if m and (k + 1) not in set(nums)]
            if problem is None and drops and sum(matched) <= c["cap"]:
                problem = "lines %s were dropped although the queue (capacity %d) can hold all %d matching lines" % (drops[:5], c["cap"], sum(matched))
            if problem is None:
                genuine, forgotten = perc_rule([(l["n"], l["p"]) for l in dl], drops)
                if genuine:
                    problem = "line %d reports 100%% although line(s) %s were dropped less than %d lines before it" % (genuine[0], [d for d in drops if d < genuine[0]][-3:], RING)
                elif forgotten:
                    problem = "perc-window: line %d is the next delivered line after dropped line(s) %s and reports 100%%" % (forgotten[0], [d for d in drops if d < forgotten[0]][-3:])
            if problem:
                oracle[i] = problem
            if problem is None or problem.startswith("perc-window") or "reports 100" in problem:
                byn = {l["n"]: l["p"] for l in dl}
                flags = vf.cq_list(["(%s, %s)" % (vf.cq_bool(m), vf.cq_bool(m and (k + 1) not in byn)) for k, m in enumerate(matched)])
                observed = vf.cq_list([("Some (%s, %s)" % (vf.cq_z(k + 1), vf.cq_z(byn[k + 1]))) if (k + 1) in byn else "None" for k in range(len(raws))])
                fterms.append("(%s, %s)" % (flags, observed))
                fidx.append(i)
    hdr = "From DT Require Import Lib.Bytes Model.C04_Tail."
    for terms, idx, fn, ty, what in ((sterms, sidx, "tail_agree", "tail_obs_case", "scripted history: Coq session model (tail_eval) differs from the lines / numbers / percentages observed"),
                                     (fterms, fidx, "free_agree", "free_case", "free-running history: Coq statistics model (frun) does not reproduce the numbers / percentages of the delivered lines"),
                                     (pterms, pidx, "perc_agree", "(nat * list (list Z))%type", "percentage table: Coq perc (binary64) differs from the Go transmittedPerc")):
        fails, errs = vf.coq_eval_sharded(hdr, terms, fn, per_shard=40, case_type=ty)
        errors += errs
        for f in fails:
            model[idx[f]] = what
    if reruns:
        notes.append("%d scripted histories were repeated alone with a 120 ms settle time because the first observation differed from the queue simulation" % reruns)
    return {"oracle": oracle, "model": model, "errors": errors, "notes": notes}


def classify(case, ob, detail):
    if detail.startswith("perc-window:"):
        return "drop_forgotten_after_window"
    return None


def nontrivial(c):
    if "mode" not in c:
        return False
    ws = [bytes.fromhex(e["w"]) for e in c["events"] if "w" in e]
    data = b"".join(ws)
    return data.count(b"\n") >= 3 and any(w and not w.endswith(b"\n") for w in ws[:-1])


def sample(c, o):
    if "mode" not in c:
        return {"case": c, "observed": str(o)[:200]}
    return {"mode": c["mode"], "pre": bytes.fromhex(c["pre"]).decode("utf-8", "replace"), "cap": c["cap"], "pattern": bytes.fromhex(c["pattern"]).decode("utf-8", "replace"),
            "invert": c["invert"], "events": [("w", bytes.fromhex(e["w"])[:24].decode("utf-8", "replace")) if "w" in e else ("c", e["c"]) for e in c["events"][:8]],
            "observed": [(bytes.fromhex(l["t"])[:16].decode("utf-8", "replace"), l["n"], l["p"]) for l in ((o or {}).get("got") or [])[:6]]}


def extra_coverage(cases, obs):
    sc = [c for c in cases if c.get("mode") == "scripted"]
    fr = [(c, o) for c, o in zip(cases, obs) if c.get("mode") == "free"]
    ndrop = 0
    for c, o in fr:
        if o and "got" in o:
            ns = [l["n"] for l in o["got"]]
            ndrop += 1 if ns and (max(ns) > len(ns)) else 0
    sizes = {}
    for c in sc:
        k = len([e for e in c["events"] if "w" in e])
        b = "1" if k <= 1 else "2-3" if k <= 3 else "4-8" if k <= 8 else ">8"
        sizes[b] = sizes.get(b, 0) + 1
    return {"scripted_histories": len(sc), "free_histories": len(fr), "free_histories_with_gaps": ndrop, "writes_per_scripted_history": sizes,
            "split_inside_multibyte_char": sum(1 for c in sc if any(bytes.fromhex(e["w"])[-1:] and bytes.fromhex(e["w"])[-1] >= 0xC0 for e in c["events"] if "w" in e and e["w"])),
            "e2e_runs": sum(1 for c in cases if "e2e" in c), "perc_pairs_compared": (RING + 1) * (RING + 2) // 2}
