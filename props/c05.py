# C05 — distributed mapreduce result equals central evaluation of the query.
import hashlib, os, re
from fractions import Fraction
from lib import vf, srv

ID = "C05"
PROP_FILE = "Props/C05.v"
EXTRA_BINS = ("dmap",)
CONSTS = ["aggregate_delimiter", "aggregate_kv_delimiter", "aggregate_group_key_combinator", "field_delimiter", "csv_delimiter"]
RULE = ("real server-side Aggregates (one per server, forced to serialise at generated cut points) and real client-side "
        "Aggregates sharing a GlobalGroupSet, messages delivered in a generated interleaving; tables in generickv / default / "
        "csv format with missing fields, non-numeric values, negative and decimal numbers; queries with where (numeric and string "
        "operators), set (incl. md5sum / maskdigits), group by 1-2 fields, every aggregation, order / rorder, limit; the result "
        "rows are compared with an independent Python evaluation of the query over all lines (exact rationals) and with the Coq "
        "aggregation model on the abstract records; non-trivial = >= 2 chunks sharing a group; distinct by (query, table, partition)")
TRUSTED = ["Coq 8.16.1 kernel + VM", "Python reference evaluator (formats, where, set, grouping, aggregation with exact rationals)",
           "Go harness dverif mapr + add-only overlay GlobalGroupSet.VerifRows", "strconv.ParseFloat / %f on the generated number grid"]
ASSUMPTIONS = ["numerals are [-]digits[.d{1,3}] with |x| < 2^20 (float64 sums exact to 1e-9); sums / min / max / avg compared with tolerance 1e-6",
               "values and group keys contain none of the wire delimiters (recorded limitation shared with C01's 0xAC finding)",
               "groups without any sample are not part of a result (neither centrally nor distributed)",
               "line-local steps (log formats, where, set) are checked against the Python reference, the Coq model covers aggregation / merge / result"]

NUM = re.compile(r"^-?\d+(\.\d{1,3})?$")
AGGS = ["count", "sum", "min", "max", "avg", "last", "len"]
FIELDS = ["x", "y", "z", "lat", "code"]
GROUPS = ["host", "svc"]


def num(s):
    return Fraction(s) if NUM.match(s) else None


def gen_table(rng, fmt, n):
    lines = []
    for i in range(n):
        kv = {}
        if rng.random() < 0.9:
            kv["host"] = rng.choice(["a", "b", "c", "web1", ""])
        if rng.random() < 0.7:
            kv["svc"] = rng.choice(["api", "db", "api"])
        for f in FIELDS:
            r = rng.random()
            if r < 0.55:
                kv[f] = rng.choice(["0", "1", "5", "-3", "2.5", "10.125", "1000", "-0.5", "42", "7.75"])
            elif r < 0.7:
                kv[f] = rng.choice(["foo", "bar", "", "n/a", "x1", "GET", "12ab", "a=b"])
        if fmt == "generickv":
            lines.append("|".join("%s=%s" % (k, v) for k, v in kv.items()))
        elif fmt == "default":
            lines.append("INFO|20211002-071147|%d|caller.go:7|8|%d|7|0.21|1h|MAPREDUCE:STATS|%s" % (
                1000 + i, rng.randint(10, 20), "|".join("%s=%s" % (k, v) for k, v in kv.items())))
        else:
            lines.append(",".join(kv.get(c, "") for c in GROUPS + FIELDS))
    return lines


def gen_query(rng, fmt):
    nsel = rng.choice([1, 2, 3, 4, 5])
    sels = []
    for _ in range(nsel):
        s = (rng.choice(AGGS), rng.choice(FIELDS + (["$pid", "$goroutines"] if fmt == "default" else [])))
        if s in sels and rng.random() < 0.8:      # repeated columns are a recorded finding: keep only a few
            continue
        sels.append(s)
    if rng.random() < 0.3:
        sels.append(("last", rng.choice(GROUPS)))
    if rng.random() < 0.2:
        sels.append((rng.choice(["last", "len"]), "$line"))     # the whole line: in the kv formats a value with '|' in it
    q = "select " + ",".join("%s(%s)" % s for s in sels)
    table = {"default": "STATS", "generickv": ".", "csv": "."}[fmt]
    q += " from " + table
    conds, sets = [], []
    if rng.random() < 0.5:
        for _ in range(rng.choice([1, 1, 2])):
            if rng.random() < 0.6:
                conds.append((rng.choice(FIELDS), rng.choice(["==", "!=", "<", "<=", ">", ">="]), rng.choice(["0", "1", "5", "2.5", "-1", rng.choice(FIELDS)])))
            else:
                conds.append((rng.choice(FIELDS + GROUPS), rng.choice(["eq", "ne", "contains", "lacks", "hasprefix", "nhassuffix"]), '"%s"' % rng.choice(["a", "foo", "", "1", "api", "b"])))
        q += " where " + " and ".join("%s %s %s" % c for c in conds)
    if rng.random() < 0.3:
        v = "$m"
        rhs = rng.choice(["maskdigits(x)", "md5sum(host)", "host", "7", "maskdigits(md5sum(z))"])
        sets.append((v, rhs))
        q += " set %s = %s" % (v, rhs)
    groupby = None
    if rng.random() < 0.8:
        groupby = rng.sample(GROUPS + (["$m"] if sets else []) + (["$line"] if rng.random() < 0.15 else []), rng.choice([1, 1, 2]))
        q += " group by " + ",".join(groupby)
    order = None
    if rng.random() < 0.5:
        order = (rng.random() < 0.5, rng.randrange(len(sels)))
        q += " %s by %s(%s)" % ("rorder" if order[0] else "order", sels[order[1]][0], sels[order[1]][1])
    limit = None
    if rng.random() < 0.35:
        limit = rng.choice([0, 1, 2, 3, 100])
        q += " limit %d" % limit
    if fmt != "default":
        q += " logformat " + fmt
    return q, {"sels": sels, "conds": conds, "sets": sets, "groupby": groupby, "order": order, "limit": limit, "fmt": fmt}


def generate(rng, tier):
    L = lambda s: s.encode().hex()
    cases = []
    # corpus: the confirmed merge defect (a group key whose min/max/last column is absent from one partial result)
    q = "select count(x),sum(x),min(x),max(y),avg(x),last(z),len(z) from . group by host logformat generickv"
    cases.append({"query": L(q), "servers": [[[L("host=a|x=5|y=-3|z=foo"), L("host=b|x=1")], [L("host=a|x=2.5|z=barbaz")]], [[L("host=a|w=1|x=1")]]], "order": [1, 0, 0],
                  "_meta": {"sels": [("count", "x"), ("sum", "x"), ("min", "x"), ("max", "y"), ("avg", "x"), ("last", "z"), ("len", "z")], "conds": [], "sets": [],
                            "groupby": ["host"], "order": None, "limit": None, "fmt": "generickv"}})
    # the numbers on the wire: partial results with large, tiny, negative and fractional values, serialised by the real
    # AggregateSet.Serialize and merged by real client handlers
    for i in range(30 if tier == "quick" else 600):
        parts = []
        for _ in range(rng.choice([1, 2, 3])):
            cnt = rng.choice([1, 7, 999999, 1000000, 1000001, 12345678, 2 ** 31, 10 ** 15])
            parts.append({"samples": cnt, "f": {"count(x)": float(cnt), "sum(x)": rng.choice([0.1, -2.5, 1e21, 1e-7, 123456789.25, -1e6, 3.0, 0.0]),
                                                 "min(x)": rng.choice([-0.5, 1e-7, -1e9, 0.0, 42.0]), "max(x)": rng.choice([3.0, 1e6, 1e21, -7.25, 0.0])}})
        cases.append({"wire": parts})
    n = 250 if tier == "quick" else 8000
    for i in range(n):
        fmt = rng.choice(["generickv", "generickv", "default", "csv"])
        q, meta = gen_query(rng, fmt)
        nserv = rng.choice([1, 2, 2, 3, 5])
        servers = []
        for s in range(nserv):
            lines = gen_table(rng, fmt, rng.choice([0, 1, 3, 8, 20, 60]))
            if fmt == "csv":
                lines = [",".join(GROUPS + FIELDS)] + lines
            k = rng.choice([1, 1, 2, 3, 4])
            cuts = sorted(rng.randrange(len(lines) + 1) for _ in range(k - 1))
            chunks, prev = [], 0
            for c in cuts + [len(lines)]:
                chunks.append([L(x) for x in lines[prev:c]]); prev = c
            servers.append(chunks)
        cases.append({"query": L(q), "servers": servers, "order": [rng.randrange(nserv) for _ in range(20)], "_meta": meta,
                      "reports": i % 2 == 0})      # the cumulative client prints interim results while partial results keep arriving
        if i % 5 == 3:
            # DOS line ends / trailing blanks: the line is trimmed before it is split into fields
            c = cases[-1]
            c["servers"] = [[[(bytes.fromhex(l) + rng.choice([b"\r", b"  ", b"\t\r"])).hex() for l in ch] for ch in srvr] for srvr in c["servers"]]
    for k in range(3 if tier == "quick" else 12):
        cases.append({"bb": k})
    return cases


def _files_vs_central(k):
    """Black box: the same lines in one file, spread over several files named one by one, and spread over files matched by one
    glob - serverless dmap, result written to an outfile; the three tables must be the same."""
    import random
    rng = random.Random(500 + k)
    env = srv.Env(os.path.join(vf.scratch(), "c05bb%d" % k))
    d = os.path.join(env.dir, "parts")
    os.makedirs(d, exist_ok=True)
    nfiles = rng.choice([2, 3, 6])
    allines, names = [], []
    for f in range(nfiles):
        lines = ["g=%s|v=%d" % (rng.choice("abc"), rng.randint(-5, 40)) for _ in range(rng.choice([1, 5, 40]))]
        name = os.path.join(d, "p%d.log" % f)
        open(name, "w").write("".join(l + "\n" for l in lines))
        names.append(name)
        allines += lines
    central = os.path.join(env.dir, "central.log")
    open(central, "w").write("".join(l + "\n" for l in allines))
    out = {}
    for label, files in (("central", central), ("list", ",".join(names)), ("glob", os.path.join(d, "p*.log"))):
        of = os.path.join(env.dir, "out_%s.csv" % label)
        open(of + ".tmp", "w").write("stale,left,over\n" * 40)        # a longer temporary file left by an interrupted earlier run
        q = "select g,count(v),sum(v),min(v),max(v),avg(v) from . group by g order by g outfile %s logformat generickv" % of
        rc, o, e = env.client("dmap", ["--noColor", "--query", q, "--files", files], timeout=120)
        out[label] = {"rc": rc, "rows": sorted(open(of).read().splitlines()[1:]) if os.path.exists(of) else None}
    return {"bb": out, "files": nfiles, "lines": len(allines), "groups": sorted({l[2] for l in allines})}


def run_impl(cases, tier):
    bbi = [i for i, c in enumerate(cases) if "bb" in c]
    bbo = {i: _files_vs_central(cases[i]["bb"]) for i in bbi}
    real = [c for c in cases if "bb" not in c]
    res = _run_harness(real)
    it = iter(res)
    return [bbo[i] if i in bbo else next(it) for i in range(len(cases))]


def _run_harness(cases):
    mi = [i for i, c in enumerate(cases) if "wire" not in c]
    res, infos = vf.harness_parallel("mapr", [{k: v for k, v in cases[i].items() if not k.startswith("_")} for i in mi], shards=vf.NCPU)
    obs = [None] * len(cases)
    for i, r in zip(mi, res):
        obs[i] = r
    wi = [i for i, c in enumerate(cases) if "wire" in c]
    res, infos = vf.harness_parallel("maprwire", [{"parts": cases[i]["wire"]} for i in wi], shards=2)
    for i, r in zip(wi, res):
        obs[i] = r
    return obs


# ---- independent reference: evaluate the query once over all lines ----
def make_fields(fmt, line, header, hostname):
    line = line.strip()
    if fmt == "generickv":
        f = {"*": "*", "$line": line, "$empty": "", "$hostname": hostname, "$server": hostname}
        for kv in line.split("|"):
            if "=" in kv:
                k, v = kv.split("=", 1)
                f[k] = v
        return f
    if fmt == "default":
        sp = line.split("|")
        if len(sp) < 11 or not sp[9].startswith("MAPREDUCE:") or not sp[0].startswith("INFO"):
            return None
        f = {"*": "*", "$line": line, "$empty": "", "$hostname": hostname, "$server": hostname, "$severity": sp[0], "$loglevel": sp[0], "$time": sp[1],
             "$pid": sp[2], "$caller": sp[3], "$cpus": sp[4], "$goroutines": sp[5], "$cgocalls": sp[6], "$loadavg": sp[7], "$uptime": sp[8]}
        if len(sp[1]) == 15:
            f.update({"$date": sp[1][0:8], "$hour": sp[1][9:11], "$minute": sp[1][11:13], "$second": sp[1][13:]})
        for kv in sp[10:]:
            if "=" not in kv:
                return "error"      # MakeFields returns an error: the line is dropped
            k, v = kv.split("=", 1)
            f[k] = v
        return f
    # csv
    f = {"*": "*", "$line": line, "$empty": "", "$hostname": hostname, "$server": hostname}
    vals = line.split(",")
    if len(vals) > len(header):
        return "error"
    for k, v in zip(header, vals):
        f[k] = v
    return f


def where_ok(meta, f):
    for l, op, r in meta["conds"]:
        if op in ("==", "!=", "<", "<=", ">", ">="):
            def val(s):
                if num(s) is not None:
                    return num(s)
                return num(f[s]) if s in f else None
            a, b = val(l), val(r)
            if a is None or b is None:
                return False
            if not {"==": a == b, "!=": a != b, "<": a < b, "<=": a <= b, ">": a > b, ">=": a >= b}[op]:
                return False
        else:
            if l not in f:
                return False
            a = f[l]
            b = r[1:-1]
            res = {"eq": a == b, "ne": a != b, "contains": b in a, "lacks": b not in a, "hasprefix": a.startswith(b), "nhassuffix": not a.endswith(b)}[op]
            if not res:
                return False
    return True


def apply_set(meta, f):
    for var, rhs in meta["sets"]:
        m = re.match(r"^((?:\w+\()+)([^()]*)\)+$", rhs)
        if m:
            names = m.group(1).split("(")[:-1]
            arg = m.group(2)
            v = f.get(arg, arg)
            for name in reversed(names):
                v = re.sub(r"[0-9]", ".", v) if name == "maskdigits" else hashlib.md5(v.encode()).hexdigest()
            f[var] = v
        else:
            f[var] = f.get(rhs, rhs)


def reference(c):
    """records per (server, chunk) and the central result per group"""
    meta = c["_meta"]
    groupby = meta["groupby"] or [meta["sels"][0][1]]
    chunks_recs = []
    for s, chunks in enumerate(c["servers"]):
        header = None
        first = True
        for chunk in chunks:
            recs = []
            for lh in chunk:
                line = bytes.fromhex(lh).decode()
                if meta["fmt"] == "csv" and first:
                    header = line.strip().split(",")
                    first = False
                    continue
                first = False
                f = make_fields(meta["fmt"], line, header, "HOST")
                if f is None or f == "error":
                    continue
                if not where_ok(meta, f):
                    continue
                apply_set(meta, f)
                key = ",".join(f.get(g, "") for g in groupby)
                recs.append((key, [f.get(fld) for _, fld in meta["sels"]]))
            chunks_recs.append(recs)
    groups = {}
    for recs in chunks_recs:
        for key, vals in recs:
            g = groups.setdefault(key, {"samples": 0, "cols": [{"n": 0, "vals": [], "raws": []} for _ in meta["sels"]]})
            any_ok = False
            for j, ((op, _), v) in enumerate(zip(meta["sels"], vals)):
                if v is None:
                    continue
                if op == "count":
                    g["cols"][j]["n"] += 1; any_ok = True
                elif op in ("last", "len"):
                    g["cols"][j]["raws"].append(v); any_ok = True
                elif num(v) is not None:
                    g["cols"][j]["vals"].append(num(v)); any_ok = True
            if any_ok:
                g["samples"] += 1
    return chunks_recs, {k: g for k, g in groups.items() if g["samples"] > 0}


def check_rows(c, rows, groups):
    meta = c["_meta"]
    got = {}
    for r in rows:
        if r[0] in got:
            return "group %r appears twice in the result" % r[0]
        got[r[0]] = r[1:]
    limit = meta["limit"]
    nexp = len(groups) if limit is None else min(limit, len(groups))
    if len(rows) != nexp:
        return "%d result rows, the query denotes %d (groups with samples: %d, limit %s)" % (len(rows), nexp, len(groups), limit)
    keyvals = {}
    for key, vals in got.items():
        if key not in groups:
            return "result has group %r which no line belongs to" % key
        g = groups[key]
        for j, ((op, fld), v) in enumerate(zip(meta["sels"], vals)):
            col = g["cols"][j]
            if op == "count":
                ok = v == str(col["n"])
                want = col["n"]
            elif op in ("sum", "min", "max", "avg"):
                if not col["vals"]:
                    want = Fraction(0) if op != "avg" else Fraction(0)
                else:
                    want = {"sum": sum(col["vals"]), "min": min(col["vals"]), "max": max(col["vals"]), "avg": sum(col["vals"]) / g["samples"]}[op]
                try:
                    ok = abs(Fraction(v) - want) < Fraction(1, 10 ** 5)
                except ValueError:
                    ok = False
            elif op == "last":
                ok = (v in col["raws"]) if col["raws"] else v == ""
                want = col["raws"][-3:]
            else:
                ok = (v in {"%f" % len(x.encode()) for x in col["raws"]}) if col["raws"] else v == "0.000000"
                want = [len(x) for x in col["raws"][-3:]]
            if not ok:
                return "group %r column %s(%s): got %r, evaluating the query over all lines gives %s" % (key, op, fld, v, want)
        if meta["order"]:
            try:
                keyvals[key] = float(vals[meta["order"][1]])
            except ValueError:
                keyvals[key] = 0.0
    if meta["order"]:
        seq = [keyvals[r[0]] for r in rows]
        rev = meta["order"][0]
        if any((a > b + 1e-9) if rev else (a < b - 1e-9) for a, b in zip(seq, seq[1:])):
            return "rows are not ordered by the %s column: %s" % ("rorder" if rev else "order", seq[:8])
    return None


def _cq_recs(recs):
    b = lambda s: vf.cq_bytes(s.encode())
    out = []
    for key, vals in recs:
        vs = []
        for v in vals:
            if v is None:
                vs.append("None")
            else:
                n = num(v)
                vs.append("(Some {| v_raw := %s; v_num := %s |})" % (b(v), "None" if n is None else "(Some %s)" % vf.cq_z(int(n * 1000))))
        out.append("(%s, %s)" % (b(key), vf.cq_list(vs)))
    return vf.cq_list(out)


OPC = {"count": "OCount", "sum": "OSum", "min": "OMin", "max": "OMax", "last": "OLast", "avg": "OAvg", "len": "OLen"}


def judge(cases, obs, tier):
    oracle, model, errors = {}, {}, []
    terms, idx = [], []
    for i, (c, o) in enumerate(zip(cases, obs)):
        if "bb" in c:
            b = o["bb"]
            if any(v["rc"] != 0 or v["rows"] is None for v in b.values()):
                oracle[i] = "serverless dmap failed: %s" % {k: v["rc"] for k, v in b.items()}
            elif [r.split(",")[0] for r in b["central"]["rows"]] != o["groups"]:
                # (one row per group and nothing else: in particular nothing of what an earlier, interrupted run left behind)
                oracle[i] = "central evaluation: the outfile has rows %s, the input has the groups %s" % (b["central"]["rows"][:6], o["groups"])
            elif b["list"]["rows"] != b["central"]["rows"] or b["glob"]["rows"] != b["central"]["rows"]:
                which = "glob" if b["glob"]["rows"] != b["central"]["rows"] else "list"
                oracle[i] = "%d lines in %d files given as a %s: result %s, central evaluation over all lines %s" % (
                    o["lines"], o["files"], which, b[which]["rows"][:4], b["central"]["rows"][:4])
            continue
        if o is None or "panic" in o or "error" in o:
            oracle[i] = "implementation failed: %s" % (o,)
            continue
        if "wire" in c:
            parts = c["wire"]
            want = [float(sum(p["f"]["count(x)"] for p in parts)), None, min(p["f"]["min(x)"] for p in parts), max(p["f"]["max(x)"] for p in parts)]
            acc = 0.0
            for p in parts:
                acc += p["f"]["sum(x)"]
            want[1] = acc
            row = o["rows"][0] if o.get("rows") else None
            if row is None or len(row) != 5:
                oracle[i] = "the merged partial results give no row: %s (messages %s)" % (o.get("rows"), o.get("messages"))
            else:
                for name, w, g in zip(["count(x)", "sum(x)", "min(x)", "max(x)"], want, row[1:]):
                    try:
                        gv = float(g)
                    except ValueError:
                        gv = None
                    if gv is None or abs(gv - w) > 1e-6 + 1e-9 * abs(w):
                        oracle[i] = "numbers on the wire: %s of the merged partial results is %s, expected %r (messages %s)" % (name, g, w, [m[:80] for m in o.get("messages", [])])
                        break
            continue
        if "skip" in o:
            errors.append("generated query does not parse: %s" % bytes.fromhex(c["query"]).decode())
            continue
        chunks_recs, groups = reference(c)
        c["_groups"] = len(groups)
        err = check_rows(c, o["rows"], groups)
        if err:
            oracle[i] = err
        meta = c["_meta"]
        if meta["limit"] is not None and meta["limit"] < len(groups):
            continue          # the model comparison needs all groups
        ops = vf.cq_list([OPC[op] for op, _ in meta["sels"]])
        rows = []
        for r in o["rows"]:
            cells = []
            for (op, _), v in zip(meta["sels"], r[1:]):
                try:
                    if op == "count":
                        cells.append("(RNum %s)" % vf.cq_z(int(v) * 1000))
                    elif op in ("sum", "min", "max"):
                        cells.append("(RNum %s)" % vf.cq_z(round(Fraction(v) * 1000)))
                    elif op == "avg":
                        g = groups.get(r[0])
                        # sum is recovered from the printed average and the reference's sample count
                        cells.append("(RAvg %s %s)" % (vf.cq_z(round(Fraction(v) * g["samples"] * 1000)) if g else vf.cq_z(0), vf.cq_nat(g["samples"] if g else 0)))
                    else:
                        cells.append("RNone")
                except (ValueError, ZeroDivisionError):
                    cells.append("RNone")
            rows.append("(%s, %s)" % (vf.cq_bytes(r[0].encode()), vf.cq_list(cells)))
        terms.append("(%s, %s, %s)" % (ops, vf.cq_list([_cq_recs(r) for r in chunks_recs]), vf.cq_list(rows)))
        idx.append(i)
    fails, errs = vf.coq_eval_sharded("From DT Require Import Lib.Bytes Model.C05_Mapr.", terms, "mapr_agree_s", per_shard=40, case_type="mapr_case")
    errors += errs
    for f in fails:
        model[idx[f]] = "Coq aggregation model differs from the implementation's result on a numeric column or on the set of groups"
    return {"oracle": oracle, "model": model, "errors": errors}


def classify(case, ob, detail):
    if "wire" in case or "bb" in case:
        return None
    sels = case["_meta"]["sels"]
    if len(set(sels)) < len(sels):
        # only the multiplied numbers of a repeated column are the known finding
        if any(("column %s(%s)" % s) in str(detail) for s in sels if sels.count(s) > 1):
            return "duplicate_select_column"
    return None


def nontrivial(c):
    if "bb" in c:
        return True
    if "wire" in c:
        return len(c["wire"]) >= 2
    return sum(len(ch) for ch in c["servers"]) >= 2 and sum(1 for s in c["servers"] for ch in s if ch) >= 2


def sample(c, o):
    if "bb" in c:
        return {"black_box": c["bb"], "files": (o or {}).get("files"), "lines": (o or {}).get("lines"), "central_rows": ((o or {}).get("bb") or {}).get("central", {}).get("rows")}
    if "wire" in c:
        return {"wire_parts": c["wire"], "rows": (o or {}).get("rows"), "messages": [m[:100] for m in ((o or {}).get("messages") or [])]}
    return {"query": bytes.fromhex(c["query"]).decode(), "servers": [[len(ch) for ch in s] for s in c["servers"]],
            "first_lines": [bytes.fromhex(l).decode() for s in c["servers"] for ch in s for l in ch][:3], "rows": (o or {}).get("rows", [])[:4]}
