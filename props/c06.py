import sys
# C06 — mapreduce accounts for every file of every server under any scheduling.
import os, re
from lib import vf, srv

ID = "C06"
PROP_FILE = "Props/C06.v"
CONSTS = ["truncated_cmp"]
RULE = ("(server) real ServerHandler sessions: 'map <count query>' followed by 1-12 cat commands on files of 0,1,2,99-101,5000 lines "
        "behind private cat limits 1-3, commands back to back or spaced, consumer fast or slow; the AGGREGATE messages are summed "
        "and must equal the total number of lines, and the session must end; (client) 2-48 per-server client Aggregates delivering "
        "concurrently into one GlobalGroupSet while a reporter holds the semaphore at various rates, final total = messages sent; "
        "non-trivial = >= 2 files or >= 2 servers; distinct by parameters")
TRUSTED = ["Coq 8.16.1 kernel + VM", "Go scheduler (free-running schedules on 16 cores; the orders that matter are also witnesses in Props/C06.v)",
           "Go harness dverif session / maprclient"]
ASSUMPTIONS = ["schedules are sampled by free runs (the two server-side witness schedules occurred in 12 of 12 free runs on the pinned tree)",
               "read commands that arrive after the aggregator has finished are the late-command finding of C02"]

_state = {}


def generate(rng, tier):
    env = srv.Env()
    _state["env"] = env
    fdir = os.path.join(env.dir, "c06files")
    os.makedirs(fdir, exist_ok=True)
    cases = []
    n = 60 if tier == "quick" else 1500
    for i in range(n):
        nf = rng.choice([1, 2, 2, 3, 4, 6, 12])
        sizes = [rng.choice([0, 1, 2, 2, 99, 100, 101, 5000 if rng.random() < 0.2 else 7]) for _ in range(nf)]
        # every fourth session serialises interim results (interval 1 s) and lasts longer than that
        interim = i % 4 == 3
        if interim:
            sizes = [rng.choice([12000, 16000])] + sizes[:3]      # ~3-4 s at the aggregator's pace: two or three interim results
            if i % 8 == 7:
                # one read command only: nothing can arrive late, the total must be exact; long enough for several interim
                # results however fast or loaded the machine is
                sizes = [rng.choice([20000, 30000])]
        payloads = [("map select count($line) from . group by $hostname %slogformat generickv" % ("interval 1 " if interim else "")).encode().hex()]
        nonl = interim and i % 8 == 7          # the long file's last line is not newline-terminated (it still counts)
        for k, sz in enumerate(sizes):
            path = os.path.join(fdir, "m%05d_%d.log" % (i, k))
            with open(path, "w") as f:
                body = "".join("k=v%d\n" % j for j in range(sz))
                f.write(body[:-1] if nonl and k == 0 and sz else body)
            payloads.append(("cat: %s regex:noop " % path).encode().hex())
        if i % 10 == 4 and len(sizes) >= 2:
            # a file that matches, is permitted, but cannot be read (not gzip although named .gz): it contributes nothing,
            # the other files are accounted for and the session ends
            bad = os.path.join(fdir, "m%05d_bad.log.gz" % i)
            open(bad, "w").write("this is not gzip\n" * 3)
            payloads.append(("cat: %s regex:noop " % bad).encode().hex())      # last: the command indices of the others stay as they are
        if i % 10 == 6 and len(sizes) >= 2:
            # a path the permission check refuses (a directory, a dangling link): nothing to count, the run still ends
            ref = os.path.join(fdir, "m%05d_refused" % i)
            if rng.random() < 0.5:
                os.makedirs(ref, exist_ok=True)
            elif not os.path.lexists(ref):
                os.symlink("nowhere-%d" % i, ref)
            payloads.append(("cat: %s regex:noop " % ref).encode().hex())
        # every third session shares its cat limiter with the sessions running next to it (the server-wide limit)
        cases.append({"kind": "server", "payloads": payloads, "cat_limit": rng.choice([1, 2, 3]),
                      "private_limiter": i % 3 != 1 or (interim and i % 8 == 7),      # (the paced sessions do not hold up their neighbours)
                      "gap_ms": rng.choice([0, 0, 0, 1, 10]),
                      "read_delay_us": rng.choice([0, 0, 200]),
                      # the single-file interim sessions do not rely on lasting longer than the interval (a 30 000-line file takes
                      # between 0.3 and 13 s depending on who wins the race between reader and aggregator): the harness asks the
                      # aggregator for an interim result every 2 ms, through the method its own interval timer calls
                      "serialize_every_us": 2000 if interim and i % 8 == 7 else 0,
                      # an upper bound only (sessions end by themselves): the aggregator handles ~2 700 lines/s when idle
                      # (sharing the limiter: the neighbours' files come first)
                      "wait_ms": 20000 + 6 * sum(sizes) + (0 if i % 3 != 1 else 60000), "_sizes": sizes,
                      "_single_interim": interim and i % 8 == 7, "_nonl": nonl})
    for i in range(12 if tier == "quick" else 300):
        cases.append({"kind": "client", "servers": rng.choice([2, 6, 24, 48]), "messages": rng.choice([20, 100, 300]),
                      "reporter_us": rng.choice([0, 10, 50, 500]), "hold_us": 0})
    # many rounds of "all connections deliver their first partial result into the empty global set at the same instant"
    for i in range(4 if tier == "quick" else 40):
        cases.append({"kind": "client", "servers": rng.choice([8, 24, 48]), "messages": rng.choice([1, 3]), "reporter_us": 0, "hold_us": 0,
                      "rounds": 1500})
    return cases


AGG = re.compile(rb"^AGGREGATE\|[^|]*\|(.*)$", re.S)


def run_impl(cases, tier):
    si = [i for i, c in enumerate(cases) if c["kind"] == "server"]
    ci = [i for i, c in enumerate(cases) if c["kind"] == "client"]
    obs = [None] * len(cases)
    send = [{k: v for k, v in cases[i].items() if not k.startswith("_") and k != "kind"} for i in si]
    shards = min(vf.NCPU, max(1, len(send) // 4))
    from concurrent.futures import ThreadPoolExecutor
    chunks = [list(range(k, len(send), shards)) for k in range(shards)]

    def run(k):
        return k, vf.harness("session", [send[j] for j in chunks[k]], env={"DVERIF_PAR": "4"}, timeout=1500)
    with ThreadPoolExecutor(shards) as ex:
        for k, (r, info) in ex.map(run, range(shards)):
            for j, x in zip(chunks[k], r):
                obs[si[j]] = x if x is not None else {"lost": True, "stderr": info["stderr"][-400:]}
    # single-file interim sessions exist to see results serialised WHILE the file is read: when a run was too fast for that
    # (fewer than two interim messages before the final one) the session is repeated with a file four times as long
    for i in si:
        c = cases[i]
        if not c.get("_single_interim"):
            continue
        for _ in range(1):
            o = obs[i]
            if os.environ.get("VERIF_DEBUG"):
                print("C06 single interim session %d: %s lines, %d aggregate messages" % (
                    i, c["_sizes"], len([f for f in (o or {}).get("frames") or [] if AGG.match(bytes.fromhex(f))])), file=sys.stderr)
            if o is None or o.get("lost") or len([f for f in o.get("frames") or [] if AGG.match(bytes.fromhex(f))]) >= 3:
                break
            path = bytes.fromhex(c["payloads"][1]).decode().split(" ")[1]
            sz = c["_sizes"][0] * 4
            body = "".join("k=v%d\n" % j for j in range(sz))
            with open(path, "w") as f:
                f.write(body[:-1] if c.get("_nonl") else body)
            c["_sizes"] = [sz]
            c["wait_ms"] = 20000 + 6 * sz
            r, info = vf.harness("session", [{k: v for k, v in c.items() if not k.startswith("_") and k != "kind"}], timeout=1500)
            obs[i] = r[0] if r and r[0] is not None else {"lost": True, "stderr": info["stderr"][-400:]}
    res, _ = vf.harness_parallel("maprclient", [{k: v for k, v in cases[i].items() if k != "kind"} for i in ci], shards=4)
    for i, r in zip(ci, res):
        obs[i] = r
    return obs


def judge(cases, obs, tier):
    oracle, errors = {}, []
    for i, (c, o) in enumerate(zip(cases, obs)):
        if o is None or o.get("lost") or "panic" in o or "error" in o:
            errors.append("harness result lost: %s" % (o,))
            continue
        if c["kind"] == "client":
            if o["total"] != o["expected"]:
                oracle[i] = "client: %d of %d partial results are in the final result (%d servers x %d messages, reporter every %d us%s)" % (
                    o["total"], o["expected"], c["servers"], c["messages"], c["reporter_us"],
                    "; %d of %d rounds lost something" % (o["bad_rounds"], o["rounds"]) if o.get("rounds") else "")
            continue
        total = 0
        for f in o.get("frames") or []:
            m = AGG.match(bytes.fromhex(f))
            if not m:
                continue
            parts = m.group(1).split("∥".encode())
            for p in parts[2:]:
                if p.startswith(b"count($line)"):
                    total += int(float(p.split("≔".encode(), 1)[1]))
        want = sum(c["_sizes"])
        o["_total"] = total
        if o.get("late_command"):
            c["_late"] = True
        if total != want:
            oracle[i] = "server: the aggregate messages account for %d of %d lines (files of %s lines, cat limit %d)" % (total, want, c["_sizes"], c["cat_limit"])
        elif not o.get("closed"):
            oracle[i] = "server: the session did not end by itself"
    return {"oracle": oracle, "model": {}, "errors": errors,
            "notes": ["the Coq model is tied to these runs through its witness schedules (Props/C06.v) and the oracle; no per-run model evaluation"]}


def _idx(paths):
    out = set()
    for p in paths or []:
        try:
            out.add(int(os.path.basename(p).rsplit("_", 1)[1].split(".")[0]))   # file names end in _<command index>.log
        except (ValueError, IndexError):
            pass
    return out


def classify(case, ob, detail):
    if case["kind"] != "server":
        return None
    total = ob.get("_total", -1)
    if total > sum(case["_sizes"]):
        return None        # the recorded findings lose lines; nothing is ever accounted for twice
    # (1) hook trace of the session: a read command was counted after shutdown() had been entered, and every
    # file whose command was counted before that is fully accounted for
    if ob.get("late_command"):
        k0 = ob.get("late_from", 0) - 1          # read commands counted before the first shutdown (minus the map command)
        late_idx = _idx(ob.get("late_files"))
        if k0 >= 0 and total >= sum(sz for k, sz in enumerate(case["_sizes"][:k0]) if k not in late_idx):
            return "command_received_after_counter_returned_to_zero"
    # (2) the aggregator decided that no further lines channel would come (all read commands it knew of had finished)
    # and files of later read commands went through the limiter afterwards; everything before is accounted for
    if ob.get("aggregator_finished") and ob.get("files_after_aggregator"):
        after = _idx(ob.get("files_after_aggregator"))
        # ... and those files belong to read commands that were RECEIVED after the aggregator had finished (a file
        # of an earlier command that merely waited for its limiter slot is a different matter)
        known_cmds = ob.get("commands_before_aggregator_finished", 0)      # read commands in the aggregator's counter before its deciding look
        if after and min(after) >= known_cmds and total >= sum(sz for k, sz in enumerate(case["_sizes"]) if k not in after):
            return "read_command_after_aggregator_finished"
    return None


def nontrivial(c):
    return (c["kind"] == "server" and len(c["_sizes"]) >= 2) or (c["kind"] == "client" and c["servers"] >= 2)


def sample(c, o):
    if c["kind"] == "client":
        return {"client": {k: c[k] for k in ("servers", "messages", "reporter_us")}, "total": (o or {}).get("total")}
    return {"server_files": c["_sizes"], "cat_limit": c["cat_limit"], "gap_ms": c["gap_ms"], "accounted": (o or {}).get("_total"), "closed": (o or {}).get("closed")}
