# C07 — multi-source output is a whole-line interleaving with correct attribution.
import os, re, subprocess
from concurrent.futures import ThreadPoolExecutor
from lib import vf, srv

ID = "C07"
PROP_FILE = "Props/C07.v"
CONSTS = ["message_delimiter", "field_delimiter"]
EXTRA_BINS = ("dcat", "dgrep")
RULE = ("(1) server side: real ServerHandler sessions reading a generated directory tree through globs with '*' at different depths "
        "(1-6 files per session, 0-60 lines each, line lengths 0 B..100 KB, cat limit 1-3, transport reads of 64 B / 4 KiB / 32 KiB, "
        "throttled reader): every REMOTE frame must be exactly one line of one file with that file's host label, glob id and running "
        "number, per-file order kept, and the byte stream must equal the Coq server model replayed on the observed file schedule; "
        "(2) client side: 2-6 real client handlers fed with the chunks of their streams (records, hidden messages, server messages, "
        "empty messages, 100 KB lines; chunk sizes 1 B..32 KiB) in a scripted global order - stdout compared byte for byte with the Coq "
        "model - and by one goroutine per connection - whole-line / per-connection-order oracle; (3) makeGlobID on generated "
        "path/glob pairs incl. mismatched depths; (4) end to end: dcat and dgrep (--noColor, and with colours on and the escape sequences removed) against 3 in-process servers with distinct "
        "host names and disjoint + shared permitted files, 200-1500 lines per file incl. 50 KB lines. non-trivial = at least two "
        "sources whose records interleave in the observation; distinct by the whole case")
TRUSTED = ["Coq 8.16.1 kernel + bytecode VM (vm_compute)", "Go harness dverif session / mwrite / globid; real dcat, dgrep and in-process servers",
           "Python oracle: independent record parser, glob-id rule and per-source grouping",
           "one fmt.Print of a message = one write(2) to stdout (atomicity of the print under the logger mutex is the Go runtime's and the kernel's)"]
ASSUMPTIONS = ["host names, glob ids and line texts contain neither a newline nor the delimiter byte 0xAC (C01's recorded finding covers 0xAC in content)",
               "filepath.Glob returns paths with as many components as the cleaned glob (hypothesis of C07_globid_total)",
               "cat/grep mode: the percentage field is 100 (drops only exist in follow mode, C04)"]

_state = {}
REC = re.compile(rb"^REMOTE\|([^|]*)\|\s*(\d+)\|(\d+)\|([^|]*)\|(.*)$", re.S)
WORDS = ["ERROR disk", "info ok", "café", "keep this", "a|b|c", "  lead", "tab\there", "x", "", "日誌", "GET /index.html 200"]


def py_glob_id(path, glob):
    pp, gp = path.split("/"), glob.split("/")
    ids = [pp[i] for i, g in enumerate(gp) if "*" in g]
    return "/".join(ids) if ids else pp[-1]


def line_text(rng, f, k, big=False):
    body = rng.choice(WORDS) if not big else rng.choice(["y" * 40000, "z" * 100000, "w" * 33000])
    return ("F%02dL%05d %s" % (f, k, body)).encode()


def gen_tree(rng, base, nfiles_max):
    """create base/appN/x/svcM.log files; returns {relpath: [line bytes]}"""
    files = {}
    apps = rng.sample(["app1", "app2", "app3"], rng.randint(1, 3))
    fidx = 0
    for a in apps:
        for s in rng.sample(["svc1", "svc2"], rng.randint(1, 2)):
            if fidx >= nfiles_max:
                break
            n = rng.choice([0, 1, 5, 20, 60])
            lines = [line_text(rng, fidx, k + 1, big=(rng.random() < 0.03)) for k in range(n)]
            rel = "%s/x/%s.log" % (a, s)
            os.makedirs(os.path.join(base, a, "x"), exist_ok=True)
            with open(os.path.join(base, rel), "wb") as fh:
                fh.write(b"".join(l + b"\n" for l in lines))
            files[rel] = lines
            fidx += 1
    return files


def mk_record(host, count, sid, text):
    return b"REMOTE|" + host + b"|100|" + str(count).encode() + b"|" + sid + b"|" + text + b"\n"


def generate(rng, tier):
    env = srv.Env()
    _state["env"] = env
    cases = []
    # (3) glob ids
    comps = ["var", "log", "app1", "app*", "*", "x", "svc*.log", "a*b", "", "svc1.log", "*.log"]
    ng = 60 if tier == "quick" else 1500
    for i in range(ng):
        d = rng.randint(1, 6)
        glob = "/" + "/".join(rng.choice(comps) for _ in range(d))
        dp = d if rng.random() < 0.8 else rng.randint(0, 7)
        path = "/" + "/".join(rng.choice(["var", "log", "app1", "app22", "x", "svc1.log", "svc9.log", "aXb", ""]) for _ in range(dp))
        cases.append({"kind": "gid", "path": path.encode().hex(), "glob": glob.encode().hex()})
    # (1) server sessions
    ns = 36 if tier == "quick" else 500
    for i in range(ns):
        base = os.path.join(env.dir, "tree%04d" % i)
        os.makedirs(base, exist_ok=True)
        files = gen_tree(rng, base, rng.choice([1, 2, 4, 6]))
        globs = [base + "/*/x/*.log", base + "/app*/x/svc1.log", base + "/*/x/svc*.log", base + "/app1/x/*.log", base + "/*/*/*"]
        glob = rng.choice(globs)
        if rng.random() < 0.15 and files:
            glob = base + "/" + rng.choice(sorted(files))      # no star: id = base name
        # the client may spell the glob with redundant path elements; the server cleans it before it derives the ids
        spelled = glob
        if rng.random() < 0.35:
            rel = glob[len(base):]
            k = rng.choice([j for j, ch in enumerate(rel) if ch == "/"])
            spelled = base + rel[:k] + rng.choice(["//", "/./", "/x/../"]) + rel[k + 1:]
        cases.append({"kind": "srv", "_base": base, "_files": {k: [l.hex() for l in v] for k, v in files.items()}, "_glob": glob, "_spelled": spelled,
                      "payloads": [("cat: %s regex:noop " % spelled).encode().hex()], "cat_limit": rng.choice([1, 2, 3]), "private_limiter": True,
                      "read_buf": rng.choice([64, 4096, 32768]), "read_delay_us": rng.choice([0, 0, 50, 400]), "wait_ms": 6000,
                      "_host": rng.choice(["alpha", "beta"])})
    # (2) client handlers
    nc = 60 if tier == "quick" else 900
    for i in range(nc):
        nconn = rng.randint(2, 6)
        streams, msgs = [], []
        for c in range(nconn):
            ms = []
            for k in range(rng.choice([0, 1, 5, 25])):
                r = rng.random()
                tag = ("C%dM%04d " % (c, k)).encode()
                if r < 0.7:
                    ms.append(mk_record(b"h%d" % c, k + 1, b"id%d" % (k % 3), tag + rng.choice(WORDS).encode()))
                elif r < 0.75:
                    ms.append(mk_record(b"h%d" % c, k + 1, b"big", tag + b"q" * rng.choice([33000, 100000])))
                elif r < 0.85:
                    ms.append(b"SERVER|h%d|WARN|" % c + tag + b"some server message\n")
                elif r < 0.9:
                    ms.append(rng.choice([b".syn close connection", b".hidden " + tag]))
                elif r < 0.95:
                    ms.append(b"")
                else:
                    ms.append(tag + b"message without newline")
            msgs.append([m.hex() for m in ms])
            streams.append(b"".join(m + b"\xac" for m in ms))
        # schedule: cut every stream into chunks, then interleave
        pos = [0] * nconn
        events = []
        while any(pos[c] < len(streams[c]) for c in range(nconn)):
            c = rng.choice([c for c in range(nconn) if pos[c] < len(streams[c])])
            n = rng.choice([1, 2, 7, 50, 300, 4096, 32768])
            events.append([str(c), streams[c][pos[c]:pos[c] + n].hex()])
            pos[c] += n
        cases.append({"kind": "cli", "conns": nconn, "mode": "seq" if i % 3 else "par", "events": events, "_msgs": msgs})
    # (1b) follow mode: the running number under back-pressure (queue of 2-3, bursts, consumer in between)
    from props import c04
    for i in range(10 if tier == "quick" else 120):
        ev, k = [], 0
        for b in range(rng.randint(2, 5)):
            n = rng.choice([1, 3, 6, 12])
            ev.append({"w": b"".join(b"T%04d tail line\n" % (k + j + 1) for j in range(n)).hex()})
            k += n
            ev.append({"c": rng.randint(0, 4)})
        ev.append({"c": 10})
        tc = c04.mk(rng.choice([b"", b"old\n"]), rng.choice([2, 3]), None, ev)
        tc["kind"] = "tail"
        cases.append(tc)
    # (4) end to end
    for v in range(3 if tier == "quick" else 8):
        cases.append({"kind": "e2e", "v": v})
    # lines several times longer than MaxLineLength (cut into pieces, each a line of its own) from two files at once
    cases.append({"kind": "e2e_long"})
    return cases


def _e2e(env, v):
    import random
    rng = random.Random(1000 + v)
    base = os.path.join(env.dir, "e2e%d" % v)
    hosts = ["alpha", "beta", "gamma"]
    files = {}
    for d in ["s0", "s1", "s2", "shared"]:
        os.makedirs(os.path.join(base, d), exist_ok=True)
        for a in range(rng.randint(1, 2)):
            n = rng.choice([200, 600, 1500])
            lines = []
            for k in range(n):
                body = rng.choice(["keep this", "info ok", "ERROR disk", "x" * 300]) if rng.random() > 0.004 else "L" * 50000
                sev = rng.choice(["", "", "", "ERROR ", "WARN ", "FATAL "])       # a leading severity is painted with an attribute
                lines.append(("%s%s-%d-%05d %s" % (sev, d, a, k + 1, body)).encode())
            rel = "%s/app%d.log" % (d, a)
            with open(os.path.join(base, rel), "wb") as fh:
                fh.write(b"".join(l + b"\n" for l in lines))
            files[rel] = lines
    servers = []
    for k, h in enumerate(hosts):
        servers.append(env.start_server("e2e%d_%s" % (v, h), hostname=h + ".example.org",
                                        server_cfg={"Permissions": {"Default": ["^%s/(shared|s%d)/.*" % (re.escape(base), k)]}, "MaxConcurrentCats": rng.choice([1, 2, 4])}))
    glob = base + "/*/app*.log"
    grep = v % 2 == 1
    tool = "dgrep" if grep else "dcat"
    colour = v % 4 >= 2          # colours on: the escape sequences are removed before the output is judged
    args = ([] if colour else ["--noColor"]) + ["--files", glob] + (["--regex", "keep|L{100}", "--before", "2", "--after", "1"] if grep else [])
    rc, out, err = env.client(tool, args, servers=servers, timeout=300)
    if colour:
        out = re.sub(rb"\x1b\[[0-9;]*m", b"", out)
    for s in servers:
        s.stop()
    _state.setdefault("e2e", {})[v] = {"out": out, "files": files}
    return {"rc": rc, "v": v, "grep": grep, "hosts": hosts, "stderr": err[-300:].decode("latin1"), "stdout_bytes": len(out)}


def _e2e_long(env):
    base = os.path.join(env.dir, "e2elong")
    os.makedirs(base, exist_ok=True)
    maxlen = 100
    files = {}
    for name, lens in (("a.log", [30, 250, 10, 100, 99, 320]), ("b.log", [5, 201, 7, 450])):
        lines = [("%s-%02d-" % (name[0], k)).encode() + bytes([65 + k]) * (n - 5) for k, n in enumerate(lens)]
        with open(os.path.join(base, name), "wb") as fh:
            fh.write(b"".join(l + b"\n" for l in lines))
        files[name] = lines
    s = env.start_server("e2elong", hostname="delta.example.org", server_cfg={"MaxLineLength": maxlen})
    rc, out, err = env.client("dcat", ["--noColor", "--logLevel", "error", "--files", base + "/*.log"], servers=[s], timeout=120)
    s.stop()
    return {"rc": rc, "out": out.decode("latin1"), "maxlen": maxlen, "files": {k: [l.decode() for l in v] for k, v in files.items()}}


def run_impl(cases, tier):
    env = _state["env"]
    obs = [None] * len(cases)
    gi = [i for i, c in enumerate(cases) if c["kind"] == "gid"]
    r, _ = vf.harness_parallel("globid", [{"path": cases[i]["path"], "glob": cases[i]["glob"]} for i in gi], shards=2)
    for i, x in zip(gi, r):
        obs[i] = x
    for host in ("alpha", "beta"):
        si = [i for i, c in enumerate(cases) if c["kind"] == "srv" and c["_host"] == host]
        if si:
            send = [{k: v for k, v in cases[i].items() if not k.startswith("_") and k != "kind"} for i in si]
            r, info = vf.harness_parallel("session", send, shards=min(vf.NCPU, max(1, len(send) // 3)),
                                          env={"DVERIF_PAR": "4", "DTAIL_HOSTNAME_OVERRIDE": host + ".example.org"}, timeout=1200)
            for i, x in zip(si, r):
                obs[i] = x
    ci = [i for i, c in enumerate(cases) if c["kind"] == "cli"]
    send = [{"conns": cases[i]["conns"], "mode": cases[i]["mode"], "events": cases[i]["events"]} for i in ci]
    r, _ = vf.harness_parallel("mwrite", send, shards=vf.NCPU, env={"DVERIF_LOGGER": "stdout"}, timeout=600)
    for i, x in zip(ci, r):
        obs[i] = x
    ti = [i for i, c in enumerate(cases) if c["kind"] == "tail"]
    r, _ = vf.harness_parallel("tail", [{k: v for k, v in cases[i].items() if not k.startswith("_") and k != "kind"} for i in ti],
                               shards=min(vf.NCPU, max(1, len(ti))), env={"DVERIF_PAR": "4"}, timeout=900)
    for i, x in zip(ti, r):
        obs[i] = x
    ei = [i for i, c in enumerate(cases) if c["kind"] == "e2e"]
    with ThreadPoolExecutor(4) as ex:
        for i, x in zip(ei, ex.map(lambda i: _e2e(env, cases[i]["v"]), ei)):
            obs[i] = x
    for i, c in enumerate(cases):
        if c["kind"] == "e2e_long":
            obs[i] = _e2e_long(env)
    env.stop_all()
    return obs


def _lines_whole(out):
    """stdout split into lines; returns (records as (host, perc, count, id, text), other lines, malformed lines)"""
    recs, other, bad = [], [], []
    body = out.split(b"\n")
    if body and body[-1] == b"":
        body.pop()
    else:
        bad.append(b"<output does not end with a newline>")
    for l in body:
        m = REC.match(l)
        if m:
            recs.append((m.group(1), int(m.group(2)), int(m.group(3)), m.group(4), m.group(5)))
        elif l.startswith((b"CLIENT|", b"SERVER|")):
            other.append(l)
        else:
            bad.append(l[:80])
    return recs, other, bad


def judge(cases, obs, tier):
    oracle, model, errors, notes = {}, {}, [], []
    gterms, gidx, sterms, sidx, cterms, cidx = [], [], [], [], [], []
    for i, (c, o) in enumerate(zip(cases, obs)):
        if o is None or "panic" in o and o.get("panicked") or "error" in o:
            oracle[i] = "implementation failed: %s" % (str(o)[:300],)
            continue
        if c["kind"] == "gid":
            path, glob = bytes.fromhex(c["path"]).decode(), bytes.fromhex(c["glob"]).decode()
            got = bytes.fromhex(o["id"]).decode()
            if len(path.split("/")) == len(glob.split("/")):
                if o["panicked"] or got != py_glob_id(path, glob):
                    oracle[i] = "makeGlobID(%r, %r) = %r%s, expected %r" % (path, glob, got, " (panic)" if o["panicked"] else "", py_glob_id(path, glob))
            gterms.append("(%s, %s, %s)" % (vf.cq_bytes(path.encode()), vf.cq_bytes(glob.encode()), "None" if o["panicked"] else "(Some %s)" % vf.cq_bytes(got.encode())))
            gidx.append(i)
        elif c["kind"] == "srv":
            import fnmatch, glob as globmod
            host = c["_host"].encode()
            paths = sorted(globmod.glob(c["_glob"]))
            rels = [os.path.relpath(p, c["_base"]) for p in paths if os.path.isfile(p)]
            exp = {r: [bytes.fromhex(x) for x in c["_files"][r]] for r in rels}
            ids = {r: py_glob_id(os.path.join(c["_base"], r), c["_glob"]).encode() for r in rels}
            frames = [bytes.fromhex(f) for f in (o.get("frames") or [])]
            rf = [f for f in frames if f.startswith(b"REMOTE|")]
            seen = {r: 0 for r in rels}
            bytag = {}
            for r in rels:
                if exp[r]:
                    bytag[exp[r][0][:3]] = r
            sched, problem = [], None
            for f in rf:
                m = REC.match(f)
                if not m:
                    problem = "frame is not one record: %r" % f[:60]; break
                h, perc, cnt, sid, text = m.group(1), int(m.group(2)), int(m.group(3)), m.group(4), m.group(5)
                r = bytag.get(text[:3])
                if r is None or not text.endswith(b"\n"):
                    problem = "frame content is not a whole line of a selected file: %r" % text[:40]; break
                k = seen[r]
                if k >= len(exp[r]) or text != exp[r][k] + b"\n":
                    problem = "file %s: next record text %r is not its line %d (order / duplication / modification)" % (r, text[:30], k + 1); break
                if (h, perc, cnt, sid) != (host, 100, k + 1, ids[r]):
                    problem = "file %s line %d labelled host=%r perc=%d count=%d id=%r; expected %r 100 %d %r" % (r, k + 1, h, perc, cnt, sid, host, k + 1, ids[r]); break
                seen[r] += 1
                sched.append(rels.index(r))
            if problem is None:
                missing = {r: len(exp[r]) - seen[r] for r in rels if seen[r] != len(exp[r])}
                if missing:
                    problem = "lines never delivered: %s" % missing
            if problem:
                oracle[i] = problem
            observed = b"".join(f + b"\xac" for f in rf)
            pf = vf.cq_list(["(%s, %s, %s)" % (vf.cq_bytes(os.path.join(c["_base"], r).encode()), vf.cq_bytes(c["_glob"].encode()),
                                                 vf.cq_list([vf.cq_bytes(l + b"\n") for l in exp[r]])) for r in rels])
            if problem is None or "labelled" in problem:
                sterms.append("(%s, %s, %s, %s)" % (vf.cq_bytes(host), pf, vf.cq_list([str(x) for x in sched]), vf.cq_bytes(observed)))
                sidx.append(i)
            c["_sched_switches"] = sum(1 for a, b in zip(sched, sched[1:]) if a != b)
        elif c["kind"] == "cli":
            out = bytes.fromhex(o["out"])
            msgs = [[bytes.fromhex(m) for m in ms] for ms in c["_msgs"]]
            # what must be visible per connection: messages not starting with '.', in order; a message is printed as it is
            vis = [[m for m in ms if m and not m.startswith(b".")] for ms in msgs]
            # every visible message carries its tag: cut stdout at the tags' positions
            problem = None
            ptr = [0] * len(vis)
            rest = out
            order = []
            while rest and problem is None:
                hit = None
                for cidx_, v in enumerate(vis):
                    if ptr[cidx_] < len(v) and rest.startswith(v[ptr[cidx_]]):
                        hit = cidx_; break
                if hit is None:
                    problem = "stdout continues with %r, which is not the next whole message of any connection" % rest[:60]
                else:
                    rest = rest[len(vis[hit][ptr[hit]]):]
                    ptr[hit] += 1
                    order.append(hit)
            if problem is None and any(ptr[k] != len(vis[k]) for k in range(len(vis))):
                problem = "messages missing from stdout: printed %s of %s per connection" % (ptr, [len(v) for v in vis])
            if problem:
                oracle[i] = problem
            c["_switches"] = sum(1 for a, b in zip(order, order[1:]) if a != b)
            if c["mode"] == "seq":
                streams = [b"".join(m + b"\xac" for m in ms) for ms in msgs]
                sched = vf.cq_list(["(%s, %d)" % (e[0], len(e[1]) // 2) for e in c["events"]])
                cterms.append("(%s, %s, %s)" % (vf.cq_list([vf.cq_bytes(s) for s in streams]), sched, vf.cq_bytes(out)))
                cidx.append(i)
        elif c["kind"] == "tail":
            from props import c04
            egot, equeue, drops, flags = c04.simulate(c, o)
            if ([(bytes.fromhex(l["t"]), l["n"]) for l in o["got"]], [(bytes.fromhex(l["t"]), l["n"]) for l in o["queued"]]) != (egot, equeue):
                o2 = c04._rerun_alone(c)
                if o2 and "got" in o2:
                    o = obs[i] = o2
                    egot, equeue, drops, flags = c04.simulate(c, o)
            for l in o["got"] + o["queued"]:
                text = bytes.fromhex(l["t"])
                if not (text.startswith(b"T") and text[1:5].isdigit() and int(text[1:5]) == l["n"]) or l["id"] != "theid":
                    oracle[i] = "followed file: line %r is labelled with running number %d, id %r (lines dropped before it: %s)" % (text[:12], l["n"], l["id"], [d for d in drops if d < l["n"]][-3:])
                    break
            c["_drops"] = len(drops)
        elif c["kind"] == "e2e_long":
            recs, other, bad = _lines_whole(o["out"].encode("latin1"))
            other = [l for l in other if b"Long log line" not in l]
            problem = None
            if o["rc"] != 0:
                problem = "client exit status %d" % o["rc"]
            elif bad:
                problem = "stdout line is not one whole record: %r" % bad[0]
            else:
                for name, lines in o["files"].items():
                    mine = [t for (h, perc, cnt, sid, t) in recs if sid.decode() == name]
                    want = []
                    for l in lines:          # a line is cut into pieces of MaxLineLength bytes, the rest keeps the line's own end
                        b = l.encode()
                        while len(b) >= o["maxlen"]:
                            want.append(b[:o["maxlen"]]); b = b[o["maxlen"]:]
                        want.append(b)
                    want = [w for k, w in enumerate(want)]
                    # (a piece of exactly MaxLineLength bytes at the end of a line leaves an empty rest: a line of its own)
                    if mine != want:
                        j = next((x for x in range(min(len(mine), len(want))) if mine[x] != want[x]), min(len(mine), len(want)))
                        problem = "source %s: %d pieces, expected %d; first difference at piece %d: got %r, expected %r" % (
                            name, len(mine), len(want), j, mine[j][:40] if j < len(mine) else None, want[j][:40] if j < len(want) else None)
                        break
            if problem:
                oracle[i] = "lines longer than MaxLineLength from two files: " + problem
        elif c["kind"] == "e2e":
            big = _state["e2e"][o["v"]]
            recs, other, bad = _lines_whole(big["out"])
            problem = None
            if o["rc"] != 0:
                problem = "client exit status %d: %s" % (o["rc"], o["stderr"])
            elif bad:
                problem = "stdout line is not one whole record: %r" % bad[0]
            else:
                groups = {}
                for (h, perc, cnt, sid, text) in recs:
                    groups.setdefault((h.decode(), sid.decode()), []).append((cnt, text, perc))
                want = {}
                for k, h in enumerate(o["hosts"]):
                    for rel, lines in big["files"].items():
                        if rel.startswith(("shared/", "s%d/" % k)):
                            if o["grep"]:
                                from props import c03
                                hit = [(b"keep" in l or b"L" * 100 in l) for l in lines]
                                sel = [(n + 1, lines[n], 100) for n in c03.py_spec(hit, 2, 1, 0)]
                            else:
                                sel = [(n + 1, l, 100) for n, l in enumerate(lines)]
                            if sel:
                                want[(h, rel)] = sel
                for key in sorted(set(groups) | set(want)):
                    if groups.get(key) != want.get(key):
                        g, w = groups.get(key, []), want.get(key, [])
                        j = next((x for x in range(min(len(g), len(w))) if g[x] != w[x]), min(len(g), len(w)))
                        problem = "source %s: %d records, expected %d; first difference at position %d: got %r, expected %r" % (
                            key, len(g), len(w), j, (g[j][0], g[j][1][:30]) if j < len(g) else None, (w[j][0], w[j][1][:30]) if j < len(w) else None)
                        break
                order = [(h, sid) for (h, _, _, sid, _) in recs]
                c["_switches"] = sum(1 for a, b in zip(order, order[1:]) if a != b)
            if problem:
                oracle[i] = problem
    hdr = "From DT Require Import Lib.Bytes Model.C07_Multi."
    for terms, idx, fn, ty, what, per in ((gterms, gidx, "gid_agree", "gid_case", "Coq glob_id differs from makeGlobID (None = panic)", 400),
                                          (sterms, sidx, "srv2_agree", "srv2_case", "the server's byte stream differs from the Coq server model replayed on the observed file schedule", 6),
                                          (cterms, cidx, "cli_agree", "cli_case", "stdout of the client handlers differs from the Coq client model on the same chunk schedule", 8)):
        fails, errs = vf.coq_eval_sharded(hdr, terms, fn, per_shard=per, case_type=ty)
        errors += errs
        for f in fails:
            model[idx[f]] = what
    return {"oracle": oracle, "model": model, "errors": errors, "notes": notes}


def classify(case, ob, detail):
    return None


def nontrivial(c):
    return c["kind"] == "e2e_long" or c.get("_switches", 0) >= 2 or c.get("_sched_switches", 0) >= 2


def sample(c, o):
    if c["kind"] == "gid":
        return {"kind": "gid", "path": bytes.fromhex(c["path"]).decode(), "glob": bytes.fromhex(c["glob"]).decode(), "id": bytes.fromhex((o or {}).get("id", "")).decode("utf-8", "replace")}
    if c["kind"] == "srv":
        return {"kind": "srv", "glob": c.get("_spelled", c["_glob"]), "files": {k: len(v) for k, v in c["_files"].items()}, "cat_limit": c["cat_limit"], "read_buf": c["read_buf"],
                "host": c["_host"], "frames": len((o or {}).get("frames") or []), "source_switches": c.get("_sched_switches")}
    if c["kind"] == "tail":
        return {"kind": "tail", "cap": c["cap"], "events": len(c["events"]), "delivered": [(l["n"], l["p"]) for l in ((o or {}).get("got") or [])][:12], "dropped_lines": c.get("_drops")}
    if c["kind"] == "cli":
        return {"kind": "cli", "conns": c["conns"], "mode": c["mode"], "events": len(c["events"]), "messages": [len(m) for m in c["_msgs"]], "connection_switches_in_stdout": c.get("_switches")}
    if c["kind"] == "e2e_long":
        return {"kind": "e2e_long", "rc": (o or {}).get("rc"), "maxlen": (o or {}).get("maxlen"), "stdout_bytes": len((o or {}).get("out", ""))}
    return {"kind": "e2e", "v": c["v"], "rc": (o or {}).get("rc"), "stdout_bytes": (o or {}).get("stdout_bytes"), "source_switches": c.get("_switches")}


def extra_coverage(cases, obs):
    k = lambda kind: [c for c in cases if c["kind"] == kind]
    return {"glob_id_pairs": len(k("gid")), "server_sessions": len(k("srv")), "server_sessions_with_interleaved_files": sum(1 for c in k("srv") if c.get("_sched_switches", 0) >= 2),
            "client_histories_seq": sum(1 for c in k("cli") if c["mode"] == "seq"), "client_histories_par": sum(1 for c in k("cli") if c["mode"] == "par"),
            "client_histories_with_interleaving": sum(1 for c in k("cli") if c.get("_switches", 0) >= 2),
            "follow_mode_histories": len(k("tail")), "follow_mode_histories_with_drops": sum(1 for c in k("tail") if c.get("_drops")), "e2e_runs": len(k("e2e")), "e2e_source_switches": [c.get("_switches") for c in k("e2e")]}
