# C08 — users read only files their permission rules allow.
import os
from lib import vf, srv

ID = "C08"
PROP_FILE = "Props/C08.v"
CONSTS = []
EXTRA_BINS = ("dcat", "dgrep")
RULE = ("user.HasFilePermission on generated directory trees (files, directories, FIFOs, symlinks to files / directories / other "
        "links, dangling links, '..' paths, relative paths) x rule lists (allow and '!' deny, bare and 'readfiles:' prefixed, POSIX "
        "classes with ':', uncompilable patterns, per-user lists replacing the defaults); resolved path and file kind from Python's "
        "os.path.realpath / lstat, compared with Go's EvalSymlinks + Abs and with the model's physical walk over the same tree; match verdicts from Go's regexp; plus end-to-end sessions checking that a denied request returns "
        "no file content; non-trivial = >= 2 rules with at least one deny or a symlink in the request; distinct by (rules, request)")
TRUSTED = ["Coq 8.16.1 kernel + VM", "Go regexp (compile / match oracle table)", "OS path resolution (Python realpath / lstat as the independent oracle)",
           "Go harness dverif perm / session"]
ASSUMPTIONS = ["background job users (DTAIL-SCHEDULE / DTAIL-CONTINUOUS) bypass the rules by design and are outside the quantifier",
               "no concurrent change of the tree between check and open (TOCTOU window is outside the model)",
               "the Linux ACL check is not compiled in (stub returns true)"]

_state = {}
TREE = {}


def mktree(base):
    os.makedirs(base + "/log/app", exist_ok=True)
    os.makedirs(base + "/log/secret", exist_ok=True)
    os.makedirs(base + "/other", exist_ok=True)
    files = ["log/app/a.log", "log/app/b1.log", "log/secret/abc", "log/secret/key.pem", "other/x.txt", "log/top.log", "log/app/we:ird.log"]
    for f in files:
        with open(os.path.join(base, f), "w") as fh:
            fh.write("CONTENT-OF-%s\n" % f)
    links = {"log/app/link_secret": "../secret/abc", "log/app/link_dir": "../secret", "log/app/link_link": "link_secret", "other/dangling": "nowhere",
             "other/link_a": "../log/app/a.log", "log/loop": "loop", "other/abs_link": os.path.join(base, "log/secret/key.pem"), "other/dir_to_app": "../log/app"}
    for l, t in links.items():
        p = os.path.join(base, l)
        if not os.path.lexists(p):
            os.symlink(t, p)
    fifo = os.path.join(base, "other/fifo")
    if not os.path.exists(fifo):
        os.mkfifo(fifo)
    TREE.update({"dirs": ["log", "log/app", "log/secret", "other"], "files": files, "links": links, "other": ["other/fifo"]})
    reqs = files + list(links) + ["log/app/link_dir/abc", "log/app/link_dir/key.pem", "other/dir_to_app/a.log", "other/dir_to_app/b1.log", "other/fifo", "log/app", "log/app/../secret/abc", "log/app/link_dir/abc", "log/app/link_dir/../top.log",
                                  "nonexistent", "log//app/a.log", "log/app/./a.log", "other/../log/top.log"]
    return reqs


def gen_rules(rng, base):
    pool = ["^/.*", "^%s/log/.*" % base, "!^%s/log/secret" % base, "!^%s/log/secret/[[:alpha:]]+$" % base, "^%s/log/app/[[:alnum:]]+\\.log$" % base,
            "readfiles:^%s/other/" % base, "readfiles:!^%s/log/app/b" % base, "readfiles:!^.*\\.pem$", "!\\.pem$", "^%s/log/app/we:ird" % base,
            "!we:ird", "writefiles:^/.*", "readfiles:!^%s/log/secret/" % base, "readfiles:!/secret/", "readfiles:!^%s/log/app/" % base, "readfiles:^%s/log/" % base, "([unclosed", "!([unclosed", "^$", "!^/.*", "readfiles:", "", "!", ":", "readfiles:readfiles:^/.*", "abc", "!abc$"]
    return [rng.choice(pool) for _ in range(rng.choice([1, 1, 2, 3, 4, 5]))]


def meaning(rule):
    body = rule[len("readfiles:"):] if rule.startswith("readfiles:") else rule
    return (True, body[1:]) if body.startswith("!") else (False, body)


def generate(rng, tier):
    env = srv.Env()
    _state["env"] = env
    base = os.path.realpath(os.path.join(env.dir, "tree"))
    os.makedirs(base, exist_ok=True)
    reqs = mktree(base)
    _state["base"] = base
    cases = []
    # corpus: the confirmed defect (bare deny rule with a POSIX class grants access)
    cases.append({"default": ["^/.*", "!^%s/log/secret/[[:alpha:]]+$" % base], "users": {}, "user": "alice", "req": "log/secret/abc", "rel": False})
    cases.append({"default": ["^%s/log/app/[[:alnum:]]+\\.log$" % base], "users": {}, "user": "alice", "req": "log/app/b1.log", "rel": False})
    cases.append({"default": ["^/.*"], "users": {"alice": []}, "user": "alice", "req": "log/app/b1.log", "rel": False})
    n = 400 if tier == "quick" else 15000
    dirs = {"log/app": ["log/app/a.log", "log/app/b1.log", "other/dir_to_app/a.log", "other/link_a"],
            "log/secret": ["log/secret/abc", "log/secret/key.pem", "log/app/link_secret", "log/app/link_dir/abc", "log/app/link_link", "other/abs_link"]}
    for i in range(n // 3):
        # structured: one allow and one deny that both cover the request, in either order, each bare or prefixed
        d = rng.choice(list(dirs))
        req = rng.choice(dirs[d])
        allow = rng.choice(["^/.*", "^%s/" % base, "^%s/%s/" % (base, d), "%s/" % d])
        deny = rng.choice(["!^%s/%s/" % (base, d), "!/%s/" % d.split("/")[-1], "!^%s/%s/[[:alnum:].]+$" % (base, d)])
        if rng.random() < 0.5:
            allow = "readfiles:" + allow
        if rng.random() < 0.5:
            deny = "readfiles:" + deny
        rules = [allow, deny] if rng.random() < 0.6 else [deny, allow]
        if rng.random() < 0.3:
            rules.insert(rng.randrange(3), rng.choice(["^$", "!nomatch", "readfiles:^/nonexistent"]))
        cases.append({"default": rules, "users": {}, "user": "alice", "req": req, "rel": rng.random() < 0.1})
    for i in range(n - n // 3):
        users = {}
        if rng.random() < 0.35:
            users["alice"] = gen_rules(rng, base)
        if rng.random() < 0.1:
            users["bob"] = gen_rules(rng, base)
        if rng.random() < 0.08:
            users["alice"] = []          # an explicitly empty per-user list: nothing matches, nothing is served
        cases.append({"default": gen_rules(rng, base), "users": users, "user": rng.choice(["alice", "alice", "carol"]),
                      "req": rng.choice(reqs), "rel": rng.random() < 0.15})
    # end to end: a denied request discloses no file content, in every output mode of the client
    for mode in ([], ["--plain"], ["--quiet"], ["--noColor"]):
        cases.append({"e2e_mode": mode})
    return cases


def _e2e(mode):
    """Serverless dcat / dgrep under a configuration file that allows log/app/ except b1*: which files' content reaches
    the client's output, in the given output mode?"""
    env, base = _state["env"], _state["base"]
    cfg = env.write_cfg("perm_e2e.json", server={"Permissions": {"Default": ["^%s/log/app/.*" % base, "!^%s/log/app/b1" % base]}})
    out = {}
    for tool in ("dcat", "dgrep"):
        for req in ("log/app/a.log", "log/secret/abc", "log/app/link_secret", "log/app/b1.log", "log/app/*", "log/app/link_dir/key.pem", "other/abs_link"):
            args = list(mode) + ["--files", os.path.join(base, req)] + (["--regex", "CONTENT"] if tool == "dgrep" else [])
            rc, o, e = env.client(tool, args, cfg=cfg, timeout=60)
            out["%s %s" % (tool, req)] = (o or b"").decode("latin1")
    return {"outputs": out}


def run_impl(cases, tier):
    base = _state["base"]
    e2e = [i for i, c in enumerate(cases) if "e2e_mode" in c]
    e2e_obs = {i: _e2e(cases[i]["e2e_mode"]) for i in e2e}
    real = [c for c in cases if "e2e_mode" not in c]
    res = _run_perm(real)
    it = iter(res)
    return [e2e_obs[i] if i in e2e_obs else next(it) for i in range(len(cases))]


def _run_perm(cases):
    base = _state["base"]
    send = []
    for c in cases:
        path = os.path.join(base, c["req"])
        if c["rel"]:
            path = os.path.relpath(path, os.getcwd())
        try:
            resolved = os.path.realpath(path, strict=True)
            regular = os.path.isfile(resolved) and not os.path.islink(resolved)
        except OSError:
            resolved, regular = None, False
        rules = c["users"].get(c["user"], c["default"])
        c["_path"], c["_resolved"], c["_regular"], c["_rules"] = path, resolved, regular, rules
        pats = sorted({meaning(r)[1] for r in rules})
        send.append({"default": c["default"], "users": c["users"], "user": c["user"], "path": path, "resolved": resolved or "", "patterns": pats})
    res, infos = vf.harness_parallel("perm", send, shards=8)
    return res


def judge(cases, obs, tier):
    oracle, model, errors = {}, {}, []
    terms, idx = [], []
    for i, (c, o) in enumerate(zip(cases, obs)):
        if "e2e_mode" in c:
            allowed = {"log/app/a.log": ["log/app/a.log"], "log/app/*": ["log/app/a.log", "log/app/we:ird.log"]}
            for key, text in o["outputs"].items():
                tool, req = key.split(" ", 1)
                want = allowed.get(req, [])
                got = sorted({m for m in ("log/app/a.log", "log/app/b1.log", "log/secret/abc", "log/secret/key.pem", "other/x.txt", "log/top.log", "log/app/we:ird.log")
                              if ("CONTENT-OF-%s" % m) in text})
                if got != sorted(want) and i not in oracle:
                    oracle[i] = "%s %s %s: the output holds the content of %s, the rules allow %s" % (tool, " ".join(c["e2e_mode"]), req, got, sorted(want))
            continue
        if o is None or "panic" in o:
            oracle[i] = "implementation failed: %s" % (o,)
            continue
        tab = o.get("tab", {})     # absent when user.New refuses the user (empty rule set)
        # independent oracle: resolved, regular, last matching rule is an allow; an uncompilable applicable rule denies
        allowed = False
        if c["_resolved"] is not None and c["_regular"] and c["_rules"]:
            ok = False
            bad = False
            for r in c["_rules"]:
                neg, pat = meaning(r)
                comp, m = tab[pat]
                if not comp:
                    bad = True
                    break
                if m:
                    ok = not neg
            allowed = ok and not bad
        if not c["_rules"]:
            allowed = False
        if o["allowed"] != allowed:
            oracle[i] = "HasFilePermission=%s but the rules %s %s %s (resolved %s, regular=%s)" % (
                o["allowed"], c["_rules"], "allow" if allowed else "deny", c["_path"], c["_resolved"], c["_regular"])
        if not c["_rules"]:
            continue   # empty rule set: user.New fails, outside the model
        b = lambda s: vf.cq_bytes(s.encode())
        t = vf.cq_list(["(%s, (%s, %s))" % (b(p), vf.cq_bool(v[0]), vf.cq_bool(v[1])) for p, v in tab.items()])
        terms.append("(%s, %s, %s, %s, %s)" % (vf.cq_list([b(r) for r in c["_rules"]]), t,
                                               "None" if c["_resolved"] is None else "(Some %s)" % b(c["_resolved"]),
                                               vf.cq_bool(c["_regular"]), vf.cq_bool(o["allowed"])))
        idx.append(i)
    fails, errs = vf.coq_eval_sharded("From DT Require Import Lib.Bytes Model.C08_Perm.", terms, "perm_agree", per_shard=200, case_type="perm_case")
    errors += errs
    for f in fails:
        model[idx[f]] = "Coq model `served` differs from HasFilePermission"
    # path resolution: the model's physical walk over the generated tree against what Go (EvalSymlinks + Abs) and the OS
    # (Python realpath) resolve the request to
    base = _state["base"]
    comps = lambda rel: vf.cq_list([vf.cq_bytes(x.encode()) for x in rel.split("/")]) if rel != "" else "[]"
    fs = ["(%s, NDir)" % comps(d) for d in TREE["dirs"]] + ["(%s, NFile)" % comps(f) for f in TREE["files"]] + ["(%s, NOther)" % comps(f) for f in TREE["other"]]
    for l, t in TREE["links"].items():
        if t.startswith(base + "/"):
            fs.append("(%s, NLink true %s)" % (comps(l), comps(t[len(base) + 1:])))
        else:
            fs.append("(%s, NLink false %s)" % (comps(l), comps(t)))
    pterms, pidx = [], []

    def rel_of(res):
        if not res:
            return "None"
        if res == base:
            return "(Some [])"
        if res.startswith(base + "/"):
            return "(Some %s)" % comps(res[len(base) + 1:])
        return None
    for i, (c, o) in enumerate(zip(cases, obs)):
        if "e2e_mode" in c or o is None or "go_resolved" not in o:
            continue
        gr = o["go_resolved"] or None
        if i not in oracle and gr != c["_resolved"]:
            oracle[i] = "request %s: HasFilePermission's resolution (EvalSymlinks + Abs) gives %r, the OS resolves it to %r" % (c["_path"], gr, c["_resolved"])
        want = rel_of(gr)
        if want is not None and not c["rel"]:     # (os.path.relpath rewrites relative requests lexically: another request)
            pterms.append("(%s, %s)" % (comps(c["req"]), want))
            pidx.append(i)
    header = "From DT Require Import Lib.Bytes Model.C08_Path.\nDefinition the_fs : fsys := %s.\n" % vf.cq_list(fs)
    fails, errs = vf.coq_eval_sharded(header, pterms, "path_agree the_fs", per_shard=300, case_type="path_case")
    errors += errs
    for f in fails:
        model[pidx[f]] = "Coq model of path resolution (physical walk over the tree) differs from Go's EvalSymlinks + Abs"
    return {"oracle": oracle, "model": model, "errors": errors}


def classify(case, ob, detail):
    return None


def nontrivial(c):
    if "e2e_mode" in c:
        return True
    rules = c["users"].get(c["user"], c["default"])
    return len(rules) >= 2 and (any(r.startswith("!") or r.startswith("readfiles:!") for r in rules) or "link" in c["req"])


def sample(c, o):
    if "e2e_mode" in c:
        return {"e2e_mode": c["e2e_mode"], "requests": sorted((o or {}).get("outputs", {}))}
    return {"rules": c["users"].get(c["user"], c["default"]), "user": c["user"], "request": c["req"], "resolved": c.get("_resolved"),
            "regular": c.get("_regular"), "allowed": (o or {}).get("allowed")}
