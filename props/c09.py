# C09 — sessions are granted only to authorised keys and the fixed service users.
import os, subprocess
from lib import vf, srv

ID = "C09"
PROP_FILE = "Props/C09.v"
CONSTS = []
EXTRA_BINS = ("dcat",)
RULE = ("verifyAuthorizedKeys on authorized-keys files rendered from abstract line lists (real ed25519/rsa keys with options and "
        "comments, blank / comment / junk lines anywhere, CRLF, missing final newline) with listed and unlisted offered keys; the "
        "password callback on a matrix of users, passwords, peer addresses and job configurations (IP literals); real SSH "
        "handshakes against the in-process server for a sample; non-trivial = file with >= 2 lines incl. a non-key line, or a "
        "background user with >= 1 job; distinct by content")
TRUSTED = ["Coq 8.16.1 kernel + VM", "x/crypto/ssh (key parsing, signature verification, ParseAuthorizedKey's line classification)",
           "DNS (allow-list entries are IP literals)", "Go harness dverif auth + add-only overlay VerifVerifyAuthorizedKeys; ssh-keygen"]
ASSUMPTIONS = ["an authorized-keys file is abstracted to its lines as ssh.ParseAuthorizedKey classifies them (key / blank / comment / junk)",
               "IPv4 peers (the peer IP is the text before the first ':' of the remote address)"]

_state = {}


def keys(env, n=5):
    d = os.path.join(env.dir, "c09keys")
    os.makedirs(d, exist_ok=True)
    out = []
    for i in range(n):
        kind = "ed25519" if i % 2 == 0 else "rsa"
        path, pub = srv.keypair(d, "k%d" % i, kind)
        out.append((path, pub.strip()))
    return out


def render(lines, ks, rng):
    out = []
    for l in lines:
        if l == 0:
            out.append(rng.choice(["", " ", "\t", "   "]))
        elif l == 1:
            out.append(rng.choice(["# comment", "#", "  # indented comment", "# ssh-ed25519 AAAA not a key"]))
        elif l == 2:
            out.append(rng.choice(["garbage", "ssh-rsa notbase64!!! x", "nokeytype AAAAB3Nza user", "command=\"x\" garbage", "x y"]))
        else:
            pub = ks[l - 3][1]
            typ, b64 = pub.split(" ")[:2]
            opt = rng.choice(["", "", "no-pty ", "command=\"/bin/true\",no-port-forwarding ", "from=\"10.0.0.0/8\" "])
            com = rng.choice(["", " user@host", " a comment with spaces"])
            out.append("%s%s %s%s" % (opt, typ, b64, com))
    eol = rng.choice(["\n", "\n", "\r\n"])
    body = eol.join(out)
    if rng.random() < 0.7 or not lines:
        body += eol
    return body


def generate(rng, tier):
    env = srv.Env()
    _state["env"] = env
    ks = keys(env)
    _state["keys"] = ks
    cases = []
    # corpus: the confirmed defect - one blank line after the only key
    cases.append({"kind": "keys", "lines": [3, 0], "offered": 0})
    cases.append({"kind": "keys", "lines": [1, 0, 3], "offered": 0})
    n = 300 if tier == "quick" else 6000
    for i in range(n):
        L = rng.choice([0, 1, 1, 2, 3, 4, 6])
        lines = [rng.choice([0, 1, 2, 3, 4, 5, 6, 3, 4]) for _ in range(L)]
        cases.append({"kind": "keys", "lines": lines, "offered": rng.randrange(len(ks))})
    for c in cases:
        c["file"] = render(c["lines"], ks, rng).encode().hex()
    # very long lines (beyond bufio.Scanner's 64 KiB token limit) in front of, and as, a listed key
    for n in (65535, 65536, 70000, 200000):
        typ, b64 = ks[0][1].split(" ")[:2]
        cases.append({"kind": "keys", "lines": [1, 3], "offered": 0, "file": ("# " + "x" * n + "\n%s %s\n" % (typ, b64)).encode().hex()})
        cases.append({"kind": "keys", "lines": [3, 4], "offered": rng.choice([0, 1]),
                      "file": ("environment=\"V=%s\" %s %s\n%s\n" % ("y" * n, typ, b64, ks[1][1])).encode().hex()})
    users = ["DTAIL-HEALTH", "DTAIL-SCHEDULE", "DTAIL-CONTINUOUS", "alice", "dtail-health", ""]
    names = ["hourly", "nightly", "DTAIL-HEALTH", "", "x"]
    # (addresses that are textual prefixes of one another included)
    ips = ["10.0.0.7", "10.0.0.8", "127.0.0.1", "192.168.1.1", "10.0.0.70", "10.0.0.77", "127.0.0.11", "110.0.0.7"]
    for i in range(300 if tier == "quick" else 6000):
        mk = lambda: [{"Name": rng.choice(names), "AllowFrom": [rng.choice(ips) for _ in range(rng.choice([0, 1, 2]))]} for _ in range(rng.choice([0, 1, 2, 3]))]
        cases.append({"kind": "password", "user": rng.choice(users), "password": rng.choice(names + ["DTAIL-SCHEDULE", "wrong"]),
                      "remote": "%s:%d" % (rng.choice(ips), rng.randint(1024, 65000)), "schedule": mk(), "continuous": mk()})
    for i in range(6 if tier == "quick" else 60):
        L = rng.choice([1, 2, 3])
        lines = [rng.choice([0, 1, 3, 4, 3]) for _ in range(L)]
        cases.append({"kind": "handshake", "lines": lines, "offered": rng.choice([0, 1, 2]), "file": render(lines, ks, rng).encode().hex()})
    # histories: the same authorized_keys file edited between logins (also twice within one second, also with its
    # modification time preserved): every login is decided by what the file says at that moment
    for i in range(2 if tier == "quick" else 12):
        steps = []
        for k in range(rng.choice([3, 4])):
            L = rng.choice([1, 2, 3])
            lines = [rng.choice([0, 1, 3, 4, 5, 3]) for _ in range(L)]
            steps.append({"lines": lines, "offered": rng.choice([0, 1, 2]), "file": render(lines, ks, rng).encode().hex(),
                          "keep_mtime": rng.random() < 0.6})
        cases.append({"kind": "hshist", "steps": steps})
    # revocation and enrolment with the modification time never moving forward (cp -p, rsync -t, a restore)
    hist = [([3], 0, False), ([4], 0, True), ([4], 1, True), ([3, 4], 0, False), ([1], 1, True), ([5, 1], 2, True)]
    cases.append({"kind": "hshist", "steps": [{"lines": l, "offered": o, "file": render(l, ks, rng).encode().hex(), "keep_mtime": k} for l, o, k in hist]})
    return cases


def _login(env, s, keyfile):
    cmd = [os.path.join(srv.BIN, "dcat"), "--cfg", "none", "--servers", "127.0.0.1:%d" % s.port, "--trustAllHosts",
           "--key", keyfile, "--user", "root", "--plain", "--files", os.path.join(env.dir, "hs.txt")]
    try:
        p = subprocess.run(cmd, stdin=subprocess.DEVNULL, stdout=subprocess.PIPE, stderr=subprocess.PIPE, env=env.client_env(), timeout=40, cwd=env.dir)
        out = p.stdout
    except subprocess.TimeoutExpired as e:
        out = e.stdout or b""
    return b"handshake-content" in out


def run_impl(cases, tier):
    env, ks = _state["env"], _state["keys"]
    direct = [i for i, c in enumerate(cases) if c["kind"] not in ("handshake", "hshist")]
    send = []
    for i in direct:
        c = cases[i]
        if c["kind"] == "keys":
            send.append({"kind": "keys", "file": c["file"], "offered": ks[c["offered"]][1]})
        else:
            send.append(c)
    res, _ = vf.harness_parallel("auth", send, shards=8)
    obs = [None] * len(cases)
    for i, r in zip(direct, res):
        obs[i] = r
    # real handshakes: one server per case (its cache/<user>.authorized_keys is the case's file)
    open(os.path.join(env.dir, "hs.txt"), "w").write("handshake-content\n")
    for i, c in enumerate(cases):
        if c["kind"] == "hshist":
            s = env.start_server("hh%d" % i, authorized=bytes.fromhex(c["steps"][0]["file"]).decode())
            akf = os.path.join(s.dir, "cache", "root.authorized_keys")
            t0 = int(os.stat(akf).st_mtime)
            acc = []
            for st in c["steps"]:
                with open(akf, "w") as f:
                    f.write(bytes.fromhex(st["file"]).decode())
                if st["keep_mtime"]:
                    os.utime(akf, (t0, t0))
                acc.append(_login(env, s, ks[st["offered"]][0]))
            obs[i] = {"accepted_steps": acc}
            s.stop()
            continue
        if c["kind"] != "handshake":
            continue
        s = env.start_server("hs%d" % i, authorized=bytes.fromhex(c["file"]).decode())
        cmd = [os.path.join(srv.BIN, "dcat"), "--cfg", "none", "--servers", "127.0.0.1:%d" % s.port, "--trustAllHosts",
               "--key", ks[c["offered"]][0], "--user", "root", "--plain", "--files", os.path.join(env.dir, "hs.txt")]
        try:
            p = subprocess.run(cmd, stdin=subprocess.DEVNULL, stdout=subprocess.PIPE, stderr=subprocess.PIPE, env=env.client_env(), timeout=40, cwd=env.dir)
            out = p.stdout
        except subprocess.TimeoutExpired as e:
            out = e.stdout or b""
        obs[i] = {"accepted": b"handshake-content" in out}
        s.stop()
    return obs


def judge(cases, obs, tier):
    oracle, model, errors = {}, {}, []
    kterms, kidx, pterms, pidx = [], [], [], []
    for i, (c, o) in enumerate(zip(cases, obs)):
        if o is None or "panic" in o:
            oracle[i] = "implementation failed: %s" % (o,)
            continue
        if c["kind"] == "hshist":
            for k, (st, acc) in enumerate(zip(c["steps"], o["accepted_steps"])):
                want = (st["offered"] + 3) in st["lines"]
                if acc != want and i not in oracle:
                    oracle[i] = "login %d of the history: offered key %d %s although the file lists keys %s at that moment (file rewritten before the login%s)" % (
                        k + 1, st["offered"], "accepted" if acc else "rejected", sorted({l - 3 for l in st["lines"] if l >= 3}),
                        ", modification time preserved" if st["keep_mtime"] else "")
                kterms.append("(%s, %d, %s)" % (vf.cq_list([str(l) for l in st["lines"]]), st["offered"], vf.cq_bool(acc)))
                kidx.append(i)
            continue
        if c["kind"] in ("keys", "handshake"):
            want = (c["offered"] + 3) in c["lines"]
            if o["accepted"] != want:
                oracle[i] = "offered key %d %s although the file lists keys %s (lines %s)%s" % (
                    c["offered"], "accepted" if o["accepted"] else "rejected", sorted({l - 3 for l in c["lines"] if l >= 3}), c["lines"],
                    " [%s]" % o.get("msg") if o.get("msg") else "")
            kterms.append("(%s, %d, %s)" % (vf.cq_list([str(l) for l in c["lines"]]), c["offered"], vf.cq_bool(o["accepted"])))
            kidx.append(i)
        else:
            ip = c["remote"].split(":")[0]
            def ok(jobs):
                return any(j["Name"] == c["password"] and ip in j["AllowFrom"] for j in jobs)
            want = (c["user"] == "DTAIL-HEALTH" and c["password"] == "DTAIL-HEALTH") or (c["user"] == "DTAIL-SCHEDULE" and ok(c["schedule"])) \
                or (c["user"] == "DTAIL-CONTINUOUS" and ok(c["continuous"]))
            if o["granted"] != want:
                oracle[i] = "password login user=%r password=%r from %s %s, configuration %s / %s" % (
                    c["user"], c["password"], c["remote"], "granted" if o["granted"] else "refused", c["schedule"], c["continuous"])
            b = lambda s: vf.cq_bytes(s.encode())
            jl = lambda jobs: vf.cq_list(["(%s, %s)" % (b(j["Name"]), vf.cq_list([b(a) for a in j["AllowFrom"]])) for j in jobs])
            pterms.append("(%s, %s, %s, %s, %s, %s)" % (b(c["user"]), b(c["password"]), b(ip), jl(c["schedule"]), jl(c["continuous"]), vf.cq_bool(o["granted"])))
            pidx.append(i)
    fails, errs = vf.coq_eval_sharded("From DT Require Import Lib.Bytes Model.C09_Auth.", kterms, "key_agree", per_shard=400, case_type="key_case")
    errors += errs
    for f in fails:
        model[kidx[f]] = "Coq model `verify` differs from verifyAuthorizedKeys"
    fails, errs = vf.coq_eval_sharded("From DT Require Import Lib.Bytes Model.C09_Auth.", pterms, "pw_agree", per_shard=400, case_type="pw_case")
    errors += errs
    for f in fails:
        model[pidx[f]] = "Coq model `pw_ok` differs from the password callback"
    return {"oracle": oracle, "model": model, "errors": errors}


def classify(case, ob, detail):
    return None


def nontrivial(c):
    if c["kind"] == "password":
        return c["user"].startswith("DTAIL-") and (c["schedule"] or c["continuous"])
    if c["kind"] == "hshist":
        return True
    return len(c["lines"]) >= 2 and any(l < 3 for l in c["lines"])


def sample(c, o):
    if c["kind"] == "password":
        return {k: c[k] for k in ("user", "password", "remote", "schedule", "continuous")} | {"granted": (o or {}).get("granted")}
    if c["kind"] == "hshist":
        return {"kind": "hshist", "steps": [(st["lines"], st["offered"], st["keep_mtime"]) for st in c["steps"]], "accepted": (o or {}).get("accepted_steps")}
    return {"kind": c["kind"], "lines": c["lines"], "offered_key": c["offered"], "file": bytes.fromhex(c["file"]).decode()[:200], "accepted": (o or {}).get("accepted")}
