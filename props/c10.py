# C10 — no client-supplied bytes can crash the server.
import os
from concurrent.futures import ThreadPoolExecutor
from lib import vf

ID = "C10"
PROP_FILE = "Props/C10.v"
CONSTS = ["protocol_compat"]
RULE = ("payloads written to real ServerHandler sessions in child processes (crash = the process dies): every command word x "
        "0..6 arguments, option lists with huge/negative/non-numeric values and base64% values, regexes incl. uncompilable "
        "ones, queries from a mutation stream (lone quotes/back-quotes, missing operands, unknown functions), raw garbage, "
        "wrong protocol versions, bad base64, several commands per write and commands split across writes; the decode layer "
        "is additionally compared with the Coq model; non-trivial = reaches the base64 decoder; distinct by payload bytes")
TRUSTED = ["Coq 8.16.1 kernel + VM", "base64/strconv/regexp/NewQuery per-case oracle tables", "Go harness dverif session/codec",
           "crash detection = child process exit"]
ASSUMPTIONS = ["resource exhaustion (unbounded buffers, huge but legal allocations, slow regexes) is not a crash in the property's sense",
               "panics inside regexp / x/crypto would be theirs"]

WORDS = ["cat", "grep", "tail", "map", ".ack", "health", "timeout", "", "CAT", "cat:", "grep:", "tail:", "map:", ":", "::", "cat::", "cat:=", "cat:a",
         "grep:max=1", "grep:before=1:after=1", "cat:plain=true:quiet=true", "tail:serverless=true", "grep:max=", "grep:max=x", "grep:=1",
         "grep:before=4611686018427387904", "grep:before=9223372036854775807", "grep:before=-1", "grep:after=99999999999999999999",
         "grep:before=1000000000", "grep:max=base64%MQ==", "grep:max=base64%!!", "grep:x=base64%", "cat:quiet=base64%dHJ1ZQ=="]
ARGS = ["/etc/hostname", "/nonexistent", "/etc/host*", "", " ", "regex:default", "regex:invert", "regex:noop", "regex", "regex:", "regex:bogus,invert",
        "x", "[", "(", "a{2,1}", "close", "connection", "select", "from", "count(x)", "`", "``", "`x", "\"", "\"a", "where", "x", ">", "1", "set", "$a", "=", "f(",
        "group", "by", "order", "limit", "interval", "outfile", "append", "logformat", "csv", "STATS", "*", ".", "-1", "0", "9999999999999999999999"]
QUERIES = ["", "select", "select `", "select ` from X", "select count(`) from X", "select count(x) from", "from X", "select x from X where", "select x where a >",
           "select x where a > 1 and", "select x set", "select x set $a", "select x set $a =", "select x set $a = f(", "select x set $a = nosuch(b)",
           "select x group", "select x group by", "select x order by", "select x order by y", "select x rorder", "select x limit", "select x limit z",
           "select x interval", "select x interval q", "select x outfile", "select x outfile a b c", "select x outfile append", "select x logformat",
           "select count(", "select count()", "select (x)", "select )(", "select nosuch(x) from X", "select x from X Y", "select \"", "select \"\" from \"\"",
           "select x where a nosuchop 1", "select x where \"a\" == \"b\"", "SELECT X FROM Y WHERE Z LACKS Q", "bogus", "select x,,y", "select x from X logformat nosuch",
           "select count(x) from STATS group by `", "select x where ` eq 1", "select `` from X", "select x set `$a` = b", "select count(x) from STATS where x > 1 group by y order by count(x) limit 3"]


def generate(rng, tier):
    cases = []
    # corpus: the crash inputs found while reading the code (DESIGN.md §4 C10)
    for p in ["tail", "map", "cat", ".ack close", "grep:before=4611686018427387904 /etc/hostname regex:default x", "map select ` from X",
              ".ack x", "map select", "bogus a b", "cat /etc/hostname", "map select count(x) from STATS", ".ack close connection"]:
        cases.append({"payloads": [p.encode().hex()]})
    FILES = ["/etc/hostname", "/etc/host*", "/etc//hostname", "/etc//host*", "/etc/./host*", "/etc/ssl/../host*", "//etc/host*", "/etc/host*/",
             "/e*/hostname", "/etc/*/../hostname", "/nonexistent", "/etc/hostname/", "*", "", "/", "/*", "/etc/host[n", "/etc/host?ame", "/etc/{a,b}"]
    RXWORDS = ["regex:default", "regex:invert", "regex:noop", "regex:verbose", "regex:", "regex:Invert", "regex:,", "regex:default,invert",
               "regex:bogus,invert", "regex", "regexp:default", "regex:default:x", "x"]
    # valid queries with hostile numbers in the clauses the parser accepts as integers; the aggregation really starts
    # (a read command follows), so whatever the number reaches at run time is exercised
    for num in ["0", "-1", "-5", "1", "00", "-0", "2147483648", "9223372036854775807", "-9223372036854775808", "3600"]:
        for clause in ["interval", "limit"]:
            q = "map select count($line) from . group by $hostname %s %s logformat generickv" % (clause, num)
            cases.append({"payloads": [q.encode().hex(), b"cat: /etc/hostname regex:noop ".hex()], "wait_ms": 900})
    # every log format the client can name, over files whose lines do not fit it (rows longer / shorter than a CSV header,
    # pairs without '=', missing fields, empty lines, binary junk): the aggregation runs, the server must survive
    import os as _os
    fdir = _os.path.join(vf.scratch(), "c10files")
    _os.makedirs(fdir, exist_ok=True)
    contents = {"long_rows.csv": "name,color,num\nmary,blue, light,3\nbob,red,1,2,3,4,5\n", "short_rows.csv": "a,b,c\n1\n\n,,\n1,2\n",
                "kv.log": "a=1|b=2\n=\n|||\na\n=x|y==z|\n\n", "junk.log": "\x00\xff\xac|\x1b[31m\n" + "x" * 5000 + "\n",
                "mapr.log": "INFO|1002-071143|1|stats.go:56|8|13|7|0.21|471h0m21s|MAPREDUCE:STATS|currentConnections=16|lifetimeConnections=1\nINFO|short|MAPREDUCE:STATS\nMAPREDUCE:STATS|=|x\n"}
    for name, text in contents.items():
        with open(_os.path.join(fdir, name), "wb") as f:
            f.write(text.encode("latin1"))
    for fmt in ["csv", "generickv", "generic", "default", "mimecast", "nosuchformat"]:
        for name in contents:
            for sel in ["count($line)", "count(name),last(color),sum(num)", "avg(b),max(a),min(c),len(a)"]:
                q = "map select %s from . group by $hostname logformat %s" % (sel, fmt)
                cases.append({"payloads": [q.encode().hex(), ("cat: %s regex:noop " % _os.path.join(fdir, name)).encode().hex()], "wait_ms": 700})
    n = 900 if tier == "quick" else 20000
    for i in range(n):
        k = rng.random()
        if k < 0.3:
            # well-formed shape of a read command with hostile pieces: word, file / glob, regex word, pattern
            word = rng.choice(["cat", "grep", "tail", "cat:", "grep:max=1", "grep:before=1:after=1", "cat:plain=true", "tail:quiet=true"])
            parts = [word, rng.choice(FILES), rng.choice(RXWORDS)] + [rng.choice(["vm", "x", ".", "[", "a b", "", "(?i)V", "\\"])] * rng.choice([0, 1, 1, 2])
            cases.append({"payloads": [" ".join(parts).encode().hex()], "wait_ms": 600})
        elif k < 0.5:
            word = rng.choice(WORDS)
            args = [rng.choice(ARGS) for _ in range(rng.choice([0, 0, 1, 1, 2, 2, 3, 4, 6]))]
            cases.append({"payloads": [" ".join([word] + args).encode().hex()]})
        elif k < 0.75:
            q = rng.choice(QUERIES)
            if rng.random() < 0.4:   # mutate
                toks = q.split(" ")
                if toks:
                    j = rng.randrange(len(toks))
                    toks[j] = rng.choice(["`", "\"", "", "(", ")", ",", "select", "by", toks[j] + "`", "`" + toks[j], toks[j][:-1]])
                q = " ".join(toks)
            cases.append({"payloads": [("map " + q).encode().hex()]})
        elif k < 0.85:
            raw = rng.choice([b";", b";;", b"protocol;", b"protocol 4.1;", b"protocol 4.1 base64;", b"protocol 4.1 base64 !!!;", b"protocol 9.9 base64 Zm9v;",
                              b"protocol 3 base64 Zm9v;", b"protocol x base64 Zm9v;", b"protocol 4.1 base65 Zm9v;", b"protocol 4.1 base64 Zm9v extra;",
                              b"protocol 4.1 base64 ;", b"  ;", b"\x00\xff\xac;", b"protocol  4.1 base64 Zm9v;", b"protocol 4.1 base64 Zm9v", b"x" * 70000 + b";",
                              b"protocol 4.1 base64 " + b"A" * 50000 + b";"])
            cases.append({"payloads": [], "raw": [raw.hex()]})
        elif k < 0.93:
            # several commands in one write / split across writes
            ps = [" ".join([rng.choice(WORDS)] + [rng.choice(ARGS) for _ in range(rng.randint(0, 3))]) for _ in range(rng.randint(2, 4))]
            cases.append({"payloads": [p.encode().hex() for p in ps]})
        else:
            b = bytes(rng.randrange(256) for _ in range(rng.randint(0, 40)))
            cases.append({"payloads": [b.hex()]})
    return cases


def _run_sessions(cases, par=64, timeout=900):
    """Run session cases in a few concurrent child processes; returns results (None where the
    process died before finishing the case) and the stderr tails."""
    shards = min(vf.NCPU, max(1, len(cases) // 40))
    chunks = [list(range(k, len(cases), shards)) for k in range(shards)]
    res = [None] * len(cases)
    errs = {}

    def run(k):
        r, info = vf.harness("session", [cases[i] for i in chunks[k]], env={"DVERIF_PAR": str(par)}, timeout=timeout)
        return k, r, info
    with ThreadPoolExecutor(shards) as ex:
        for k, r, info in ex.map(run, range(shards)):
            for i, x in zip(chunks[k], r):
                res[i] = x
            if info["rc"] != 0:
                errs[k] = info["stderr"]
    return res, errs


def run_impl(cases, tier):
    res, errs = _run_sessions(cases)
    suspects = [i for i, r in enumerate(res) if r is None]
    crashed = {}
    # a dead process takes its in-flight neighbours with it: re-run every unfinished case alone
    rounds = 0
    while suspects and rounds < 3:
        rounds += 1

        def alone(i):
            r, info = vf.harness("session", [cases[i]], timeout=120)
            return i, r[0], info
        with ThreadPoolExecutor(vf.NCPU) as ex:
            outs = list(ex.map(alone, suspects))
        suspects = []
        for i, r, info in outs:
            if r is None:
                crashed[i] = info["stderr"][-1500:]
            res[i] = r
    obs = []
    for i, r in enumerate(res):
        if i in crashed:
            obs.append({"crashed": True, "stderr": crashed[i]})
        else:
            obs.append(r or {"crashed": False, "lost": True})
    # decode-layer observation for the model comparison
    dec, _ = vf.harness_parallel("codec", [{"tool": "", "raw_payloads": c.get("payloads", []), "raw_chunks": c.get("raw", [])} for c in cases])
    for o, d in zip(obs, dec):
        o["decode"] = d
    return obs


def judge(cases, obs, tier):
    from props import c12
    oracle, model, errors = {}, {}, []
    terms, idx = [], []
    for i, (c, o) in enumerate(zip(cases, obs)):
        if o.get("crashed"):
            lines = [l for l in o["stderr"].splitlines() if l.startswith("panic:") or "runtime error" in l or l.startswith("fatal error")]
            oracle[i] = "server process crashed: %s" % (lines[0] if lines else o["stderr"][:300])
            continue
        if o.get("lost"):
            errors.append("session result lost without a crash for case %d" % i)
            continue
        d = o.get("decode")
        if d is None or "panic" in d:
            oracle[i] = "decoding panicked: %s" % (d,)
            continue
        t = d["tables"]
        if sum(len(bytes.fromhex(w)) for w in d["wires"]) > 20000:
            continue   # bulky garbage: crash oracle only
        b64t = vf.cq_list(["(%s, %s)" % (vf.cq_bytes(bytes.fromhex(k)), vf.cq_opt(vf.cq_bytes(bytes.fromhex(v))) if v is not None else "None") for k, v in t["b64"].items()])
        atoit = vf.cq_list(["(%s, %s)" % (vf.cq_bytes(bytes.fromhex(k)), ("(Some %s)" % vf.cq_z(v)) if v is not None else "None") for k, v in t["atoi"].items()])
        rxt = vf.cq_list(["(%s, %s)" % (vf.cq_bytes(bytes.fromhex(k)), vf.cq_bool(v)) for k, v in t["rx"].items()])
        qt = vf.cq_list(["(%s, %s)" % (vf.cq_bytes(bytes.fromhex(k)), vf.cq_bool(v)) for k, v in t["query"].items()])
        stream = b"".join(bytes.fromhex(w) for w in d["wires"])
        odec, oread = [], []
        for x in (d["decoded"] or []):
            odec.append("(%s, (%s, %s, %s), (%s, %s, %s), %s)" % (
                vf.cq_bytes(bytes.fromhex(x["name"])), vf.cq_z(x["before"]), vf.cq_z(x["after"]), vf.cq_z(x["max"]),
                vf.cq_bool(x["quiet"]), vf.cq_bool(x["plain"]), vf.cq_bool(x["serverless"]),
                vf.cq_list([vf.cq_bytes(bytes.fromhex(a)) for a in (x["args"] or [])])))
            oread.append(c12._read_obs(x))
        terms.append("(%s, %s, %s, %s, %s, %s, %s, %d)" % (b64t, atoit, rxt, qt, vf.cq_bytes(stream), vf.cq_list(odec), vf.cq_list(oread), d["messages"]))
        idx.append(i)
    fails, errs = vf.coq_eval_sharded("From DT Require Import Lib.Bytes Model.Proto.", terms, "codec_agree", per_shard=150, case_type="codec_case")
    errors += errs
    for f in fails:
        model[idx[f]] = "Coq model of the decode/dispatch layer differs from the implementation (or predicts a panic)"
    return {"oracle": oracle, "model": model, "errors": errors}


def classify(case, ob, detail):
    return None


def nontrivial(c):
    return bool(c.get("payloads"))


def sample(c, o):
    d = {"payloads": [bytes.fromhex(p).decode("latin1")[:120] for p in c.get("payloads", [])],
         "raw": [bytes.fromhex(p).decode("latin1")[:80] for p in c.get("raw", [])]}
    if o:
        d["crashed"] = o.get("crashed", False)
        d["frames"] = [bytes.fromhex(f).decode("latin1")[:100] for f in (o.get("frames") or [])[:3]]
    return d


def shrink(case, ob, detail):
    # one payload at a time, then drop trailing arguments while it still crashes
    best = None
    for p in case.get("payloads", []) or []:
        r, info = vf.harness("session", [{"payloads": [p]}], timeout=60)
        if r[0] is None:
            best = p
            break
    if best is None:
        return case, ob, detail
    words = bytes.fromhex(best).split(b" ")
    while len(words) > 1:
        cand = b" ".join(words[:-1])
        r, info = vf.harness("session", [{"payloads": [cand.hex()]}], timeout=60)
        if r[0] is None:
            words = words[:-1]
        else:
            break
    p = b" ".join(words)
    r, info = vf.harness("session", [{"payloads": [p.hex()]}], timeout=60)
    return {"payloads": [p.hex()], "payload_text": p.decode("latin1")}, {"crashed": True, "stderr": info["stderr"][-1500:]}, detail
