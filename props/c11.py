# C11 — valid queries parse to the structure they denote; invalid ones are rejected.
import itertools
from lib import vf

ID = "C11"
PROP_FILE = "Props/C11.v"
CONSTS = ["query_keywords"]
RULE = ("mapr.NewQuery vs an independent Python denotation and vs the Coq model on (a) random abstract queries rendered in random "
        "clause order, per-letter keyword case, separator style (blanks, tabs, newlines, commas), quoted strings and back-quoted "
        "field names, operator aliases, optional 'by'/'and'; (b) token- and byte-level mutations of them; (c) a curated list of "
        "malformed families that must be rejected; compared on every parsed field; non-trivial = at least 3 clauses; distinct by text")
TRUSTED = ["Coq 8.16.1 kernel + VM", "strconv.ParseFloat / Atoi as per-case oracle tables", "Go harness dverif query + add-only overlay mapr.VerifDump",
           "Python denotation of abstract queries (independent statement of the documented grammar)", "harness/constgen (keyword list)"]
ASSUMPTIONS = ["numerals are [-]digits[.digits]; white space is ASCII; letters in keyword positions are ASCII (Unicode folding is outside the model)",
               "the lenient parser accepts some ungrammatical texts (e.g. 'limit 3 4'); those are compared with the model only"]

AGGS = ["count", "sum", "min", "max", "last", "avg", "len"]
AGGCODE = {a: i + 1 for i, a in enumerate(AGGS)}
AGGCODE.update({"count": 1, "sum": 2, "min": 3, "max": 4, "last": 5, "avg": 6, "len": 7})
FLOATOPS = {"==": 10, "!=": 11, "<": 12, "<=": 13, "=<": 13, ">": 14, ">=": 15, "=>": 15}
STROPS = {"eq": 1, "ne": 2, "contains": 3, "ncontains": 4, "lacks": 4, "hasprefix": 5, "nhasprefix": 6, "hassuffix": 7, "nhassuffix": 8}
FIELDS = ["x", "y", "host", "$hostname", "$line", "lat_ms", "a.b", "status", "k1", "Größe", "resp-time", "user_id", "n"]
KEYWORDS = ["select", "from", "where", "set", "group", "rorder", "order", "interval", "limit", "outfile", "logformat"]
STRINGS = ["foo", "a b", "x,y", "select", "", "GET /index.html", "50%", "it's", "from where"]
NUMS = ["0", "1", "42", "-3", "2.5", "10.000", "007", "0.1", "16777217", "-0.3", "1234567.891"]


def gen_aq(rng):
    aq = {}
    nsel = rng.choice([1, 1, 2, 3, 4])
    sels = []
    for _ in range(nsel):
        k = rng.random()
        f = rng.choice(FIELDS)
        if k < 0.5:
            sels.append(("agg", rng.choice(AGGS), f))
        elif k < 0.8:
            sels.append(("bare", None, f))
        else:
            sels.append(("bq", None, rng.choice(FIELDS + KEYWORDS + ["avg(y)", "a b" if False else "p(q"])))
    aq["select"] = sels
    if rng.random() < 0.7:
        aq["table"] = rng.choice(["STATS", "stats", "Mapr1", ".", "*", "warn"])
    if rng.random() < 0.5:
        ws = []
        for _ in range(rng.choice([1, 1, 2, 3])):
            if rng.random() < 0.5:
                op = rng.choice(list(FLOATOPS))
                l = rng.choice(FIELDS + NUMS)
                r = rng.choice(FIELDS + NUMS)
                ws.append(("f", l, op, r))
            else:
                op = rng.choice(list(STROPS))
                l = ("q", rng.choice(STRINGS)) if rng.random() < 0.2 else ("b", rng.choice(FIELDS))
                r = ("q", rng.choice(STRINGS)) if rng.random() < 0.7 else ("b", rng.choice(FIELDS))
                ws.append(("s", l, op, r))
        aq["where"] = ws
    if rng.random() < 0.35:
        ss = []
        for _ in range(rng.choice([1, 1, 2])):
            k = rng.random()
            var = "$" + rng.choice(["a", "m", "masked", "v1"])
            if k < 0.3:
                ss.append((var, "func", [rng.choice(["md5sum", "maskdigits"]) for _ in range(rng.choice([1, 1, 2]))], rng.choice(FIELDS)))
            elif k < 0.5:
                ss.append((var, "num", rng.choice(NUMS)))
            elif k < 0.8:
                ss.append((var, "field", rng.choice(FIELDS)))
            else:
                ss.append((var, "bq", rng.choice(FIELDS + KEYWORDS)))
        aq["set"] = ss
    if rng.random() < 0.5:
        aq["group"] = [(rng.random() < 0.25, rng.choice(FIELDS + (KEYWORDS if False else []))) for _ in range(rng.choice([1, 1, 2, 3]))]
        aq["group"] = [(bq, f if not bq else rng.choice(FIELDS + KEYWORDS)) for bq, f in aq["group"]]
    if rng.random() < 0.5:
        s = rng.choice(sels)
        aq["order"] = (rng.random() < 0.5, s)
    if rng.random() < 0.3:
        aq["interval"] = rng.choice([1, 3, 10, 60, "010", "08", "+5", "0900", "-010"])      # decimal, whatever the spelling
    if rng.random() < 0.4:
        aq["limit"] = rng.choice([0, 1, 10, 1000, -1, "010", "+7", "09"])
    if rng.random() < 0.3:
        aq["outfile"] = (rng.random() < 0.4, rng.choice(["/tmp/out.csv", "result file.csv", "o,1.csv", "out"]))
    if rng.random() < 0.3:
        aq["logformat"] = rng.choice(["default", "generic", "generickv", "csv", "mimecast"])
    return aq


def sel_text(s):
    kind, agg, f = s
    if kind == "agg":
        return "%s(%s)" % (agg, f)
    if kind == "bq":
        return "`%s`" % f
    return f


def sel_storage(s):
    kind, agg, f = s
    return "%s(%s)" % (agg, f) if kind == "agg" else f


def render(aq, rng):
    """list of clauses, each a list of ('b'|'q', text) tokens; then joined with random separators"""
    def kw(w):
        return ("b", "".join(ch.upper() if rng.random() < 0.4 else ch for ch in w))
    clauses = []
    clauses.append([kw("select")] + [("b", sel_text(s)) for s in aq["select"]])
    if "table" in aq:
        clauses.append([kw("from"), ("b", aq["table"])])
    if "where" in aq:
        c = [kw("where")]
        for n, w in enumerate(aq["where"]):
            if n > 0 and rng.random() < 0.7:
                c.append(kw("and"))
            if w[0] == "f":
                c += [("b", w[1]), ("b", w[2]), ("b", w[3])]
            else:
                opw = "".join(ch.upper() if rng.random() < 0.3 else ch for ch in w[2])
                c += [w[1], ("b", opw), w[3]]
        clauses.append(c)
    if "set" in aq:
        c = [kw("set")]
        for s in aq["set"]:
            if s[1] == "func":
                rhs = "".join(f + "(" for f in s[2]) + s[3] + ")" * len(s[2])
            elif s[1] == "bq":
                rhs = "`%s`" % s[2]
            else:
                rhs = s[2]
            c += [("b", s[0]), ("b", "="), ("b", rhs)]
        clauses.append(c)
    if "group" in aq:
        c = [kw("group")] + ([kw("by")] if rng.random() < 0.8 else [])
        c += [("b", ("`%s`" % f) if bq else f) for bq, f in aq["group"]]
        clauses.append(c)
    if "order" in aq:
        rev, s = aq["order"]
        st = sel_storage(s)
        needs_bq = s[0] == "bq" and (s[2].lower() in KEYWORDS)
        c = [kw("rorder" if rev else "order")] + ([kw("by")] if rng.random() < 0.8 else []) + [("b", "`%s`" % st if needs_bq or rng.random() < 0.2 else st)]
        clauses.append(c)
    if "interval" in aq:
        clauses.append([kw("interval"), ("b", str(aq["interval"]))])
    if "limit" in aq:
        clauses.append([kw("limit"), ("b", str(aq["limit"]))])
    if "outfile" in aq:
        app, path = aq["outfile"]
        quoted = (" " in path or "," in path) or rng.random() < 0.5
        clauses.append([kw("outfile")] + ([("b", "append")] if app else []) + [("q" if quoted else "b", path)])
    if "logformat" in aq:
        clauses.append([kw("logformat"), ("b", aq["logformat"])])
    rng.shuffle(clauses)
    toks = [t for c in clauses for t in c]
    out = ""
    prev = None
    for kind, text in toks:
        if prev is not None:
            sep = rng.choice([" ", " ", " ", "  ", "\t", "\n", ", ", ",", " ,"])
            if prev == "q" or kind == "q":
                sep = rng.choice([sep, "", " "])
            out += sep
        out += '"%s"' % text if kind == "q" else text
        prev = kind
    return out


def is_num(s):
    import re
    return re.fullmatch(r"-?\d+(\.\d+)?", s) is not None


def denote(aq):
    d = {}
    d["select"] = [[s[2], sel_storage(s), AGGCODE[s[1]] if s[0] == "agg" else 5] for s in aq["select"]]
    d["table"] = aq.get("table", "").upper()
    w = []
    for c in aq.get("where", []):
        if c[0] == "f":
            w.append([3 if is_num(c[1]) else 1, c[1], FLOATOPS[c[2]], 3 if is_num(c[3]) else 1, c[3]])
        else:
            w.append([1 if c[1][0] == "b" else 2, c[1][1], STROPS[c[2]], 1 if c[3][0] == "b" else 2, c[3][1]])
    d["where"] = w
    # the numeric operands' values (float64 of the literal; 0 where the operand is not a number)
    d["wherefloats"] = [[float(c[1]) if c[0] == "f" and is_num(c[1]) else 0.0, float(c[3]) if c[0] == "f" and is_num(c[3]) else 0.0] for c in aq.get("where", [])]
    st = []
    for s in aq.get("set", []):
        if s[1] == "func":
            st.append([s[0], 4, s[3], list(s[2])])
        elif s[1] == "num":
            st.append([s[0], 3, s[2], []])
        else:
            st.append([s[0], 1, s[2], []])
    d["set"] = st
    if "group" in aq:
        d["groupby"] = [f for _, f in aq["group"]]
        d["groupkey"] = ",".join(d["groupby"])
    else:
        d["groupby"] = [aq["select"][0][2]]
        d["groupkey"] = ""
    d["orderby"] = sel_storage(aq["order"][1]) if "order" in aq else ""
    d["reverse"] = aq["order"][0] if "order" in aq else False
    d["interval"] = int(str(aq.get("interval", 5)), 10)
    d["limit"] = int(str(aq.get("limit", -1)), 10)
    d["outfile"] = [aq["outfile"][1], aq["outfile"][0]] if "outfile" in aq else None
    d["logformat"] = aq.get("logformat", "")
    return d


MALFORMED = ["from STATS", "where x > 1", "bogus x", "select nosuch(x) from S", "select count(x from S", "select x where a", "select x where a >",
             "select x where a nosuchop 1", "select x where \"a\" > 1", "select x where 1 > \"a\"", "select x set $a", "select x set $a =", "select x set a = b",
             "select x set $a : b", "select x set \"$a\" = b", "select x set $a = nosuch(b)", "select x set $a = (b)", "select x limit", "select x limit ten", "select x limit 0x10", "select x limit 1_0", "select x interval 0x10", "select x interval 1_000", "select x interval 0b101", "select x interval 0o17",
             "select x interval soon", "select x order by y", "select x rorder by count(x)", "select x outfile", "select x outfile a b c", "select x outfile notappend f",
             "select x group", "select x group by", "select x order", "select x order by", "select x from", "select x from A B", "select x logformat",
             "select", "select from X", "select count(x)) from X", "select count((x) from X"]


def mutate(text, rng):
    k = rng.random()
    if k < 0.5 and text:
        toks = text.split(" ")
        j = rng.randrange(len(toks))
        op = rng.random()
        if op < 0.3:
            del toks[j]
        elif op < 0.5:
            toks.insert(j, toks[j])
        elif op < 0.7:
            toks[j] = rng.choice(["`", "\"", "``", "(", ")", "`x", "x`", "select", "by", "and", ",", "=", "$"])
        else:
            i2 = rng.randrange(len(toks))
            toks[j], toks[i2] = toks[i2], toks[j]
        return " ".join(toks)
    b = list(text)
    if b and rng.random() < 0.5:
        del b[rng.randrange(len(b))]
    else:
        b.insert(rng.randrange(len(b) + 1), rng.choice("`\"(), =$\t"))
    return "".join(b)


def generate(rng, tier):
    cases = []
    for q in ["select ` from X", "", "select count(x) from STATS", "select `", "`", "select x group by `"] + MALFORMED:
        cases.append({"q": q.encode().hex(), "kind": "malformed" if q in MALFORMED else "corpus"})
    n = 1200 if tier == "quick" else 30000
    for i in range(n):
        aq = gen_aq(rng)
        text = render(aq, rng)
        cases.append({"q": text.encode().hex(), "kind": "valid", "_aq": aq})
        if i % 2 == 0:
            cases.append({"q": mutate(text, rng).encode().hex(), "kind": "mutant"})
    return cases


def run_impl(cases, tier):
    res, infos = vf.harness_parallel("query", [{"q": c["q"]} for c in cases])
    return res


def _cq_obs(q):
    b = lambda s: vf.cq_bytes(s.encode("utf-8", "surrogateescape"))
    sel = vf.cq_list(["(%s, %s, %d)" % (b(s[0]), b(s[1]), s[2]) for s in q["select"]])
    wh = vf.cq_list(["(%d, %s, %d, %d, %s)" % (w[0], b(w[1]), w[2], w[3], b(w[4])) for w in q["where"]])
    st = vf.cq_list(["(%s, %d, %s, %s)" % (b(s[0]), s[1], b(s[2]), vf.cq_list([b(f) for f in s[3]])) for s in q["set"]])
    of = "None" if q["outfile"] is None else "(Some (%s, %s))" % (b(q["outfile"][0]), vf.cq_bool(q["outfile"][1]))
    return "(%s, %s, %s, %s, %s, %s, %s, %s, %s, %s, %s, %s)" % (
        sel, b(q["table"]), wh, st, vf.cq_list([b(g) for g in (q["groupby"] or [])]), b(q["orderby"]), vf.cq_bool(q["reverse"]),
        b(q["groupkey"]), vf.cq_z(q["interval"]), vf.cq_z(q["limit"]), of, b(q["logformat"]))


def judge(cases, obs, tier):
    oracle, model, errors = {}, {}, []
    terms, idx = [], []
    for i, (c, o) in enumerate(zip(cases, obs)):
        if o is None:
            oracle[i] = "the parser crashed the harness process"
            continue
        if "panic" in o:
            oracle[i] = "NewQuery panicked: %s" % o["panic"]
            continue
        if c["kind"] == "valid":
            want = denote(c["_aq"])
            if o["outcome"] != "ok":
                oracle[i] = "valid query rejected (%s): %s" % (o["outcome"], o.get("errtext"))
            else:
                got = dict(o["query"])
                got["groupby"] = got["groupby"] or []
                if got != want:
                    diff = [k for k in want if got.get(k) != want[k]]
                    oracle[i] = "parsed structure differs from the denotation in %s: got %s, expected %s" % (
                        diff, {k: got.get(k) for k in diff}, {k: want[k] for k in diff})
        elif c["kind"] == "malformed" and o["outcome"] != "err":
            oracle[i] = "malformed query accepted as %s" % (o.get("query"),)
        code = {"nil": 0, "err": 1, "ok": 2}[o["outcome"]]
        # the table name is upper-cased with Go's Unicode tables; the Coq model maps ASCII only (stated limit): a
        # mutated query that moves a non-ASCII word into the table position is judged by the oracle alone
        if o["outcome"] == "ok" and any(ord(ch) > 127 for ch in (o["query"].get("table") or "")):
            continue
        ft = vf.cq_list(["(%s, %s)" % (vf.cq_bytes(bytes.fromhex(k)), vf.cq_bool(v)) for k, v in o["floats"].items()])
        it = vf.cq_list(["(%s, %s)" % (vf.cq_bytes(bytes.fromhex(k)), ("(Some %s)" % vf.cq_z(v)) if v is not None else "None") for k, v in o["ints"].items()])
        obsq = "(Some %s)" % _cq_obs(o["query"]) if o["outcome"] == "ok" else "None"
        terms.append("(%s, %s, %s, %d, %s)" % (ft, it, vf.cq_bytes(bytes.fromhex(c["q"])), code, obsq))
        idx.append(i)
    fails, errs = vf.coq_eval_sharded("From DT Require Import Lib.Bytes Model.C11_Query.", terms, "query_agree", per_shard=150, case_type="query_case")
    errors += errs
    for f in fails:
        model[idx[f]] = "Coq parser model differs from mapr.NewQuery"
    return {"oracle": oracle, "model": model, "errors": errors}


def classify(case, ob, detail):
    return None


def nontrivial(c):
    aq = c.get("_aq")
    return aq is not None and len(aq) >= 3


def sample(c, o):
    return {"kind": c["kind"], "text": bytes.fromhex(c["q"]).decode("utf-8", "replace"), "outcome": (o or {}).get("outcome"),
            "errtext": (o or {}).get("errtext")}
