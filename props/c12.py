# C12 — the server applies exactly the filter and options the user specified.
import os, re, subprocess
from lib import vf, srv

ID = "C12"
PROP_FILE = "Props/C12.v"
EXTRA_BINS = ("dgrep",)
CONSTS = ["protocol_compat", "max_before_context"]
RULE = ("real client constructors (grep/cat/tail) -> makeCommands -> SendMessage bytes -> real ServerHandler.Write up to the "
        "command callback (+ regex.Deserialize as readCommand.Start does): hostile patterns (blanks anywhere, ':;,%=', "
        "'base64%', printf verbs, non-ASCII, no-op patterns), both flags, before/after/max from the int range incl. "
        "negatives and 0, plain/quiet combinations, 1-3 files; several commands per session; non-trivial = pattern with a "
        "protocol metacharacter or a non-default option; distinct by the whole request")
TRUSTED = ["Coq 8.16.1 kernel + VM", "encoding/base64, strconv.Atoi, regexp.Compile, mapr.NewQuery as per-case oracle tables computed by the harness",
           "Go harness dverif codec + add-only overlay exports (VerifCommands, VerifDecode)", "harness/constgen (ProtocolCompat)"]
ASSUMPTIONS = ["a before context above maxBeforeContext is refused with an error message (explicitly, never misread)", "file paths contain no blank and no comma (the client splits --files at commas)",
               "base64 and strconv behave as their hypotheses in C12_roundtrip state"]

PATS = ["ERROR", "ERROR ", " ERROR", "a b", "a  b", " ", "  ", "\t", "50%", "%d", "%s %v", "a%%b", "x;y", "a:b", "regex:invert x",
        "k=v", "a,b", "base64%Zm9v", "=", ":", ";", ",", "%", "café", "€uro", "日本", ".", ".*", "", "..", "^$", "foo$", "[[:alpha:]]+",
        "\\|MAPREDUCE:STATS\\|", "a|b", "(x)", "protocol 4.1 base64 Zm9v;", "noop", "default x", "x regex:default y", "\\s", "-", "--max", "=1:before=2"]
INTS = [0, 0, 1, 2, 3, 10, -1, -2, 7, 100, 1000000, 1000001, 2147483647, -2147483648, 4611686018427387904, 9223372036854775807, -9223372036854775808]


def generate(rng, tier):
    cases = []
    n = 700 if tier == "quick" else 8000
    for p in PATS:   # every hostile pattern once per tool, default options
        for tool in ("grep", "tail"):
            cases.append({"tool": tool, "regex": p.encode().hex(), "invert": False, "before": 0, "after": 0, "max": 0,
                          "plain": False, "quiet": False, "files": b"/var/log/x.log".hex()})
    for i in range(n):
        tool = rng.choice(["grep", "grep", "tail", "cat"])
        p = rng.choice(PATS)
        if rng.random() < 0.3:
            p = "".join(rng.choice(" ;:,%=ab.€\t") for _ in range(rng.randint(1, 6)))
        files = ",".join(rng.choice(["/var/log/a.log", "/tmp/b", "c.txt", "/x/*/y-*.log", "/ü/z"]) for _ in range(rng.choice([1, 1, 2, 3])))
        cases.append({"tool": tool, "regex": p.encode().hex(), "invert": rng.random() < 0.4,
                      "before": rng.choice(INTS), "after": rng.choice(INTS), "max": rng.choice(INTS),
                      "plain": rng.random() < 0.4, "quiet": rng.random() < 0.3, "files": files.encode().hex()})
    queries = ["select count(x) from STATS", "select count(x),avg(y) from STATS where x > 2 group by host order by count(x) limit 5",
               "select last(a) from . logformat generickv", "from * select sum(v) group by k", "select count($line) group by $hostname",
               "select count(x) from STATS where msg eq \"a b;c\" interval 3"]
    for i in range(60 if tier == "quick" else 600):
        files = ",".join(rng.choice(["/var/log/a.log", "/tmp/b", "c.txt", "/x/*/y-*.log"]) for _ in range(rng.choice([1, 2, 3])))
        cases.append({"tool": "map", "regex": b"".hex(), "query": rng.choice(queries).encode().hex(), "invert": False,
                      "before": 0, "after": 0, "max": 0, "plain": rng.random() < 0.5, "quiet": rng.random() < 0.5,
                      "files": files.encode().hex()})
    # black box, serverless: the same filter on a named file, on a pipe and on a redirected standard input
    for rx, inv in [("ERROR", False), ("ERROR", True), ("o 4", False), ("^b", True)]:
        for via in ("file", "pipe", "redirect"):
            cases.append({"stdin": via, "rx": rx, "inv": inv})
    return cases


STDIN_LINES = ["a ERROR 1", "b info 2", "c ERROR 3", "b info 4", "e warn 5", "f ERROR 6"]


def _stdin_case(env, c):
    path = os.path.join(env.dir, "stdin_case.log")
    data = "".join(l + "\n" for l in STDIN_LINES).encode()
    open(path, "wb").write(data)
    cmd = [os.path.join(srv.BIN, "dgrep"), "--cfg", "none", "--plain", "--logLevel", "error", "--regex", c["rx"]] + (["--invert"] if c["inv"] else [])
    if c["stdin"] == "file":
        p = subprocess.run(cmd + ["--files", path], stdin=subprocess.DEVNULL, capture_output=True, env=env.client_env(), cwd=env.dir, timeout=60)
    elif c["stdin"] == "pipe":
        p = subprocess.run(cmd, input=data, capture_output=True, env=env.client_env(), cwd=env.dir, timeout=60)
    else:
        with open(path, "rb") as f:
            p = subprocess.run(cmd, stdin=f, capture_output=True, env=env.client_env(), cwd=env.dir, timeout=60)
    return {"rc": p.returncode, "out": p.stdout.decode("latin1")}


def run_impl(cases, tier):
    real = [c for c in cases if "stdin" not in c]
    res, infos = vf.harness_parallel("codec", real)
    it = iter(res)
    env = srv.Env()
    return [_stdin_case(env, c) if "stdin" in c else next(it) for c in cases]


NOOP = {b"", b".", b".*"}
RX_RE = re.compile(rb"^Regex\(regexStr:(.*),flags:\[([a-z ]*)\],initialized:(true|false),re==nil:(true|false)\)$", re.S)
FLAGCODE = {b"default": 1, b"invert": 2, b"noop": 3}


def parse_rx(d):
    """(flagcodes, pattern) from the harness' regex.Deserialize(...).String(), None on error"""
    if d.get("rxerr"):
        return None
    m = RX_RE.match(d["rxstr"].encode("utf-8", "surrogateescape"))
    if not m:
        return "unparsed"
    return ([FLAGCODE[f] for f in m.group(2).split()], m.group(1))


def judge(cases, obs, tier):
    oracle, model, errors = {}, {}, []
    terms, idx = [], []
    for i, (c, o) in enumerate(zip(cases, obs)):
        if "stdin" in c:
            want = [l for l in STDIN_LINES if (re.search(c["rx"], l) is not None) != c["inv"]]
            got = [l for l in o["out"].split("\n") if l]
            if got != want:
                oracle[i] = "serverless dgrep --regex %r%s reading from a %s: selected %r, the filter selects %r" % (c["rx"], " --invert" if c["inv"] else "", c["stdin"], got, want)
            continue
        if o is None or "panic" in o or "error" in o:
            oracle[i] = "implementation failed: %s" % (o,)
            continue
        if "skip" in o:
            continue
        pat = bytes.fromhex(c["regex"]) if c["tool"] != "cat" else b""
        files = bytes.fromhex(c["files"]).split(b",")
        dec = o["decoded"] or []
        if c["tool"] == "map":
            err = _judge_map(c, o, files)
            if err:
                oracle[i] = err
            dec = o["decoded"] or []
            pat = None
        want_flag = 3 if pat in NOOP else (2 if c["invert"] and c["tool"] != "cat" else 1)
        want_pat = b"" if pat in NOOP else pat
        # ---- property oracle on the implementation's decoding ----
        if pat is None:
            pass
        elif c["before"] > vf.consts()["max_before_context"]["i"]:
            # refused outright (C10 fix): an error message per command, nothing decoded, nothing misread
            if len(dec) != 0 or o["messages"] != len(files):
                oracle[i] = "before=%d is above the bound but %d commands were decoded, %d error messages" % (c["before"], len(dec), o["messages"])
        elif len(dec) != len(files) or o["messages"] != 0:
            oracle[i] = "%d commands decoded for %d files, %d error messages" % (len(dec), len(files), o["messages"])
        else:
            for d, f in zip(dec, files):
                rx = parse_rx(d) if len(d["args"]) >= 4 else ([3], b"")
                got = (bytes.fromhex(d["name"]), d["before"], d["after"], d["max"], d["plain"], d["quiet"], d["serverless"],
                       bytes.fromhex(d["args"][1]) if len(d["args"]) > 1 else None, rx)
                want = (c["tool"].encode(), c["before"], c["after"], c["max"], c["plain"], c["quiet"], True, f, ([want_flag], want_pat))
                if got != want:
                    oracle[i] = "server decoded %r, client encoded %r" % (got, want)
                    break
        # ---- Coq model on the same bytes with oracle tables ----
        t = o["tables"]
        b64t = vf.cq_list(["(%s, %s)" % (vf.cq_bytes(bytes.fromhex(k)), vf.cq_opt(vf.cq_bytes(bytes.fromhex(v))) if v is not None else "None") for k, v in t["b64"].items()])
        atoit = vf.cq_list(["(%s, %s)" % (vf.cq_bytes(bytes.fromhex(k)), ("(Some %s)" % vf.cq_z(v)) if v is not None else "None") for k, v in t["atoi"].items()])
        rxt = vf.cq_list(["(%s, %s)" % (vf.cq_bytes(bytes.fromhex(k)), vf.cq_bool(v)) for k, v in t["rx"].items()])
        qt = vf.cq_list(["(%s, %s)" % (vf.cq_bytes(bytes.fromhex(k)), vf.cq_bool(v)) for k, v in t["query"].items()])
        stream = b"".join(bytes.fromhex(w) for w in o["wires"])
        odec, oread = [], []
        for d in dec:
            odec.append("(%s, (%s, %s, %s), (%s, %s, %s), %s)" % (
                vf.cq_bytes(bytes.fromhex(d["name"])), vf.cq_z(d["before"]), vf.cq_z(d["after"]), vf.cq_z(d["max"]),
                vf.cq_bool(d["quiet"]), vf.cq_bool(d["plain"]), vf.cq_bool(d["serverless"]),
                vf.cq_list([vf.cq_bytes(bytes.fromhex(a)) for a in d["args"]])))
            oread.append(_read_obs(d))
        terms.append("(%s, %s, %s, %s, %s, %s, %s, %d)" % (b64t, atoit, rxt, qt, vf.cq_bytes(stream), vf.cq_list(odec), vf.cq_list(oread), o["messages"]))
        idx.append(i)
    fails, errs = vf.coq_eval_sharded("From DT Require Import Lib.Bytes Model.Proto.", terms, "codec_agree", per_shard=120, case_type="codec_case")
    errors += errs
    for f in fails:
        model[idx[f]] = "Coq model run_session differs from the implementation's decoding"
    return {"oracle": oracle, "model": model, "errors": errors}


def _judge_map(c, o, files):
    """dmap sends 'map <query>' first (no options), then one 'cat:<options> <file> <regex>' per file: the output
    modes of the session must still be the requested ones and the regex the table filter."""
    dec = o["decoded"] or []
    query = bytes.fromhex(c["query"])
    if len(dec) != len(files) + 1 or o["messages"] != 0:
        return "%d commands decoded for a query and %d files, %d error messages" % (len(dec), len(files), o["messages"])
    d0 = dec[0]
    if bytes.fromhex(d0["name"]) != b"map" or b" ".join(bytes.fromhex(a) for a in d0["args"][1:]) != query:
        return "server decoded query %r, client sent %r" % (b" ".join(bytes.fromhex(a) for a in d0["args"][1:]), query)
    m = re.search(rb"(?i)\bfrom\s+(\S+)", query)
    table = m.group(1).upper() if m else b""
    if table in (b"", b"."):
        want_rx = ([3], b"")
    elif table == b"*":
        want_rx = ([1], b"\\|MAPREDUCE:\\|")
    else:
        want_rx = ([1], b"\\|MAPREDUCE:" + table + b"\\|")
    for d, f in zip(dec[1:], files):
        rx = parse_rx(d) if len(d["args"]) >= 4 else ([3], b"")
        got = (bytes.fromhex(d["name"]), d["plain"], d["quiet"], d["serverless"], bytes.fromhex(d["args"][1]), rx)
        want = (b"cat", c["plain"], c["quiet"], True, f, want_rx)
        if got != want:
            return "server decoded %r, client encoded %r" % (got, want)
    return None


def _read_obs(d):
    name = bytes.fromhex(d["name"])
    if name not in (b"grep", b"cat", b"tail"):
        return "None"
    n = len(d["args"])
    if n < 3:
        return "None"
    if n == 3:
        return "(Some ([3], []))"
    rx = parse_rx(d)
    if rx is None or rx == "unparsed":
        return "None"
    return "(Some (%s, %s))" % (vf.cq_list([str(x) for x in rx[0]]), vf.cq_bytes(rx[1]))


def nontrivial(c):
    if "stdin" in c:
        return True
    p = bytes.fromhex(c["regex"])
    return any(ch in p for ch in b" ;:,%=") or c["before"] or c["after"] or c["max"] or c["invert"] or c["plain"]


def sample(c, o):
    if "stdin" in c:
        return {"stdin": c["stdin"], "regex": c["rx"], "invert": c["inv"], "out": (o or {}).get("out")}
    return {"tool": c["tool"], "regex": bytes.fromhex(c["regex"]).decode("utf-8", "replace"), "invert": c["invert"],
            "before": c["before"], "after": c["after"], "max": c["max"], "plain": c["plain"], "quiet": c["quiet"],
            "files": bytes.fromhex(c["files"]).decode("utf-8", "replace"),
            "command": bytes.fromhex(o["commands"][0]).decode("utf-8", "replace") if o and o.get("commands") else None}
