# C13 — concurrent file reads never exceed the configured limits.
import os, subprocess, time
from lib import vf, srv

EXTRA_BINS = ("dcat", "dtail", "dgrep")

ID = "C13"
PROP_FILE = "Props/C13.v"
CONSTS = ["default_max_concurrent_cats", "default_max_concurrent_tails"]
RULE = ("scripted histories (start i / stop i) over real ServerHandler sessions sharing one limiter channel of capacity 1-3 with "
        "2-7 following readers; stops hit waiting readers, holders, and readers never started; after every event, at quiescence "
        "(waited for through the verif hooks), len(limiter) and the set of test files open in the process are recorded; non-trivial = "
        "more readers than slots and at least one stop of a waiting reader; distinct by (cap, events)")
TRUSTED = ["Coq 8.16.1 kernel + VM", "Go scheduler: acquisition order among waiters is an environment choice",
           "Go harness dverif limiter + verif hooks limiter.enter/queued/acquired/released; /proc/self/fd as the open-file observer"]
ASSUMPTIONS = ["'being read' = the file is open in the server process (the periodic truncation check's short-lived second descriptor maps to the same file)",
               "fairness among waiters is not claimed; only that a free slot is taken while somebody waits"]


def gen_history(rng, cap, n):
    evs = []
    started, stopped = set(), set()
    for _ in range(rng.randint(3, 12)):
        k = rng.random()
        idle = [i for i in range(n) if i not in started]
        live = [i for i in started if i not in stopped]
        if idle and k < 0.15:
            i = rng.choice(idle)
            evs.append(["startstop", str(i)])      # session already gone when its read reaches the limiter
            started.add(i); stopped.add(i)
        elif idle and (k < 0.6 or not live):
            i = rng.choice(idle)
            evs.append(["start", str(i)])
            started.add(i)
        elif live:
            # prefer stopping a reader that is (probably) waiting: the most recently started ones
            i = rng.choice(live[-2:]) if rng.random() < 0.6 else rng.choice(live)
            evs.append(["stop", str(i)])
            stopped.add(i)
    return evs


def generate(rng, tier):
    cases = [{"cap": 1, "n": 4, "events": [["startstop", "0"], ["startstop", "1"], ["startstop", "2"], ["start", "3"]]},
             {"cap": 1, "n": 3, "events": [["start", "0"], ["start", "1"], ["stop", "1"], ["start", "2"], ["stop", "0"], ["stop", "2"]]},
             {"cap": 2, "n": 4, "events": [["start", "0"], ["start", "1"], ["start", "2"], ["stop", "2"], ["start", "3"], ["stop", "0"]]}]
    n = 60 if tier == "quick" else 1500
    for i in range(n):
        cap = rng.choice([1, 1, 2, 3])
        nr = rng.randint(cap + 1, cap + 4)
        cases.append({"cap": cap, "n": nr, "events": gen_history(rng, cap, nr)})
    # a followed file is truncated (the reader pauses 2 s with its slot and re-opens); a session that ends during the pause
    cases.append({"cap": 1, "n": 3, "events": [["start", "0"], ["start", "1"], ["start", "2"], ["truncstop", "0"], ["stop", "1"]]})
    cases.append({"cap": 1, "n": 3, "events": [["start", "0"], ["start", "1"], ["trunc", "0"], ["start", "2"], ["stop", "0"]]})
    cases.append({"cap": 2, "n": 4, "events": [["start", "0"], ["start", "1"], ["start", "2"], ["start", "3"], ["truncstop", "1"], ["stop", "0"]]})
    # black box: the real clients in serverless mode with different cat and tail limits; the files of the session that are
    # open at the same time are sampled from /proc/<pid>/fd
    cases.append({"bb": "dcat", "cats": 1, "tails": 4, "files": 4})
    cases.append({"bb": "dcat", "cats": 2, "tails": 1, "files": 5})
    if tier != "quick":
        cases.append({"bb": "dcat", "cats": 3, "tails": 7, "files": 7})
    # black box over SSH: a client that is killed in the middle of a transfer (its session is cancelled while the
    # server is sending) must not keep the only cat slot: the next read has to run
    # serverless follow mode: the tail limit, not the cat limit, bounds the files followed at once
    cases.append({"bb": "dtail", "cats": 3, "tails": 1, "files": 3})
    cases.append({"bb": "dtail", "cats": 1, "tails": 2, "files": 4})
    cases.append({"bb": "cancel", "cats": 1, "maxlen": 16})
    cases.append({"bb": "cancel", "cats": 1, "maxlen": 1048576})
    # a grep whose output is almost only trailing context / leading context of far-apart matches, cancelled the same way
    cases.append({"bb": "cancel", "cats": 1, "maxlen": 1048576, "grep": ["--regex", "L000000 ", "--after", "599000"]})
    cases.append({"bb": "cancel", "cats": 1, "maxlen": 1048576, "grep": ["--regex", "L0[0-5]0000 ", "--before", "900", "--after", "900"]})
    # a single match deep in the file with a before-context far larger than every buffer on the way: the reader is blocked
    # handing out BEFORE-context lines when the client goes away
    cases.append({"bb": "cancel", "cats": 1, "maxlen": 1048576, "grep": ["--regex", "L300000 ", "--before", "250000"]})
    return cases


def _cancelled(c, k):
    env = srv.Env(os.path.join(vf.scratch(), "c13cancel%d" % k))
    s = env.start_server("cancel%d" % k, server_cfg={"MaxLineLength": c["maxlen"], "MaxConcurrentCats": c["cats"], "MaxConnections": 100})
    big = os.path.join(env.dir, "big.log")
    with open(big, "w") as f:
        # lines a little longer than MaxLineLength=16: one long-line warning per two pieces, so the 10-slot server message
        # queue is what fills up first once the client stops reading
        f.write("".join("L%06d %s\n" % (j, "d" * 12) for j in range(600000)))
    small = os.path.join(env.dir, "small.log")
    open(small, "w").write("hello\n")
    env.client("dcat", ["--plain", "--files", small], servers=[s], timeout=30)      # records the host key
    results = []
    for r in range(2):
        cmd = [os.path.join(srv.BIN, "dgrep" if c.get("grep") else "dcat"), "--cfg", "none", "--servers", "127.0.0.1:%d" % s.port, "--trustAllHosts",
               "--key", env.key, "--user", "root", "--plain", "--files", big] + list(c.get("grep") or [])
        p = subprocess.Popen(cmd, stdin=subprocess.DEVNULL, stdout=subprocess.PIPE, stderr=subprocess.DEVNULL, env=env.client_env(), cwd=env.dir)
        p.stdout.read(4096)
        time.sleep(1.5)        # the client stalls: the SSH window fills, the server stops being read, its queues fill up
        p.kill(); p.wait()
        time.sleep(0.5)
        t0 = time.time()
        rc, out, err = env.client("dcat", ["--plain", "--files", small], servers=[s], timeout=20)
        results.append({"rc": rc, "ok": out.endswith(b"hello\n"), "secs": round(time.time() - t0, 1)})
        if rc != 0:
            break
    env.stop_all()
    return {"rounds": results}


def _blackbox(c, k):
    if c["bb"] == "cancel":
        return _cancelled(c, k)
    env = srv.Env(os.path.join(vf.scratch(), "c13bb%d" % k))
    cfg = env.write_cfg("bb.json", server={"MaxConcurrentCats": c["cats"], "MaxConcurrentTails": c["tails"]})
    paths = []
    line = ("x" * 199 + "\n").encode()
    for j in range(c["files"]):
        p = os.path.realpath(os.path.join(env.dir, "big%d.log" % j))
        with open(p, "wb") as f:
            f.write(line * (60000 if c["bb"] == "dcat" else 10))          # 12 MB (a followed file stays open anyway)
        paths.append(p)
    cmd = [os.path.join(srv.BIN, c["bb"]), "--cfg", cfg, "--plain", "--files", ",".join(paths)]
    p = subprocess.Popen(cmd, stdin=subprocess.DEVNULL, stdout=subprocess.DEVNULL, stderr=subprocess.DEVNULL, env=env.client_env(), cwd=env.dir)
    most, seen, samples = 0, set(), 0
    t0 = time.time()
    while p.poll() is None and time.time() - t0 < (120 if c["bb"] == "dcat" else 3.0):
        try:
            fds = os.listdir("/proc/%d/fd" % p.pid)
        except OSError:
            break
        cur = set()
        for fd in fds:
            try:
                l = os.readlink("/proc/%d/fd/%s" % (p.pid, fd))
            except OSError:
                continue
            if l in paths:
                cur.add(l)
        samples += 1
        seen |= cur
        most = max(most, len(cur))
        time.sleep(0.002)
    if p.poll() is None:
        p.kill()
    rc = p.wait()
    for q in paths:
        os.remove(q)
    return {"rc": rc, "max_open": most, "files_seen_open": len(seen), "samples": samples}


def run_impl(cases, tier):
    hist = [i for i, c in enumerate(cases) if "bb" not in c]
    res, infos = vf.harness_parallel("limiter", [cases[i] for i in hist], shards=min(vf.NCPU, max(1, len(hist) // 4)))
    obs = [None] * len(cases)
    for i, r in zip(hist, res):
        obs[i] = r
    for k, c in enumerate(cases):
        if "bb" in c:
            obs[k] = _blackbox(c, k)
    return obs


def judge(cases, obs, tier):
    oracle, model, errors = {}, {}, []
    terms, idx = [], []
    for i, (c, o) in enumerate(zip(cases, obs)):
        if o is None or "panic" in o or "error" in o:
            oracle[i] = "implementation failed: %s" % (o,)
            continue
        if c.get("bb") == "cancel":
            bad = [r for r in o["rounds"] if r["rc"] != 0 or not r["ok"]]
            if bad:
                oracle[i] = ("after a client was killed in the middle of a transfer (MaxLineLength %d, MaxConcurrentCats %d) the next read of a one-line "
                             "file did not run: %s - the cancelled session keeps its limiter slot") % (c["maxlen"], c["cats"], o["rounds"])
            continue
        if "bb" in c:
            if c["bb"] == "dtail":
                if o["max_open"] > c["tails"]:
                    oracle[i] = "serverless dtail over %d files: %d files were followed at once under MaxConcurrentTails=%d (MaxConcurrentCats=%d)" % (
                        c["files"], o["max_open"], c["tails"], c["cats"])
                elif o["max_open"] < min(c["tails"], c["files"]):
                    oracle[i] = "serverless dtail over %d files followed only %d at once although MaxConcurrentTails=%d allows more" % (c["files"], o["max_open"], c["tails"])
            elif o["rc"] != 0:
                oracle[i] = "serverless %s ended with status %s" % (c["bb"], o["rc"])
            elif o["max_open"] > c["cats"]:
                oracle[i] = "serverless %s over %d files: %d files were open at once under MaxConcurrentCats=%d (MaxConcurrentTails=%d)" % (
                    c["bb"], c["files"], o["max_open"], c["cats"], c["tails"])
            continue
        live = []
        for k, (ev, ob) in enumerate(zip(c["events"], o["trace"])):
            j = int(ev[1])
            if ev[0] == "start" and j not in live:
                live.append(j)
            elif ev[0] in ("stop", "truncstop") and j in live:
                live.remove(j)
            opened = ob["open"] or []
            if len(opened) > c["cap"]:
                oracle[i] = "after event %d (%s %s): %d files are being read under a limit of %d (open: %s)" % (k, ev[0], ev[1], len(opened), c["cap"], opened)
                break
            if len(opened) < min(c["cap"], len(live)):
                oracle[i] = "after event %d (%s %s): only %d of %d possible reads run although %d sessions are live (a slot is lost or kept); limiter length %d" % (
                    k, ev[0], ev[1], len(opened), min(c["cap"], len(live)), len(live), ob["tokens"])
                break
            if any(x not in live for x in opened):
                oracle[i] = "after event %d a stopped session's file is still being read: open %s, live %s" % (k, opened, live)
                break
        # a session that is gone before it reaches the limiter leaves the live set unchanged: (false, i) on a non-live reader
        # a truncation that the session survives does not change who holds or waits: for the model it is the
        # no-op "stop of a reader that was never started" (index n)
        evs = vf.cq_list(["(%s, %s)" % (vf.cq_bool(e[0] == "start"), e[1] if e[0] != "trunc" else str(c["n"])) for e in c["events"]])
        ob = vf.cq_list(["(%d, %s)" % (t["tokens"], vf.cq_list([str(x) for x in (t["open"] or [])])) for t in o["trace"]])
        terms.append("(%d, %s, %s)" % (c["cap"], evs, ob))
        idx.append(i)
    fails, errs = vf.coq_eval_sharded("From DT Require Import Lib.Bytes Model.C13_Limiter.", terms, "lim_agree", per_shard=300, case_type="lim_case")
    errors += errs
    for f in fails:
        model[idx[f]] = "observed limiter length / open files differ from the model's quiescent states"
    return {"oracle": oracle, "model": model, "errors": errors}


def classify(case, ob, detail):
    return None


def nontrivial(c):
    if "bb" in c:
        return True
    return c["n"] > c["cap"] and any(e[0] in ("stop", "truncstop") for e in c["events"])


def sample(c, o):
    if "bb" in c:
        return {"black_box": c, "observed": o}
    return {"cap": c["cap"], "readers": c["n"], "events": [" ".join(e) for e in c["events"]],
            "observed": [(t["tokens"], t["open"]) for t in (o or {}).get("trace", [])]}
